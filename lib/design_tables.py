#!/usr/bin/env python3
"""Regenerates the seeded-change tables of DESIGN.md from seeded/*/meta.json and seeded/RESULTS.json:
the full table of section 8.4 and the wave-5 table of section 8.8 (between <!-- seeded:... --> markers)."""
import os, re, subprocess, sys
V = os.path.dirname(os.path.dirname(os.path.abspath(__file__)))
W5 = """C01-called-literal-live-frame-ancestor C02-bitwise-type-preset-iface-dest C03-zeroconst-float64-underflow
C04-mapmiss-shares-zero-aggregate C05-method-inline-cache-embedded-iface C06-panicfunc-unnamed-receiver
C07-callbin-result-captured-var C08-recv-blocked-closed-treated-as-cancel C09-stop-idempotent-execute-not-rearmed
C10-rangechan-blocking-when-compiled-before-ctx C11-redefine-keeps-symbol-closures-stale C12-slice3-index-order-adjacent-only
C13-fixstdlib-log-default-real-logger C15-readdir-casefold-file-order C16-early-publish-hides-cycle
C19-setbreakpoints-early-exit-stale-flags""".split()
def table(args):
    return subprocess.run([sys.executable, os.path.join(V, "lib", "seeded_table.py")] + args, text=True, capture_output=True).stdout.strip()
p = os.path.join(V, "DESIGN.md")
s = open(p).read()
def put(tag, body):
    global s
    a, b = f"<!-- seeded:{tag}:begin -->", f"<!-- seeded:{tag}:end -->"
    i, j = s.index(a), s.index(b)
    s = s[:i + len(a)] + "\n" + body + "\n" + s[j:]
put("all", table([]))
put("wave5", table(["--only"] + W5))
open(p, "w").write(s)
print("DESIGN.md tables regenerated")
