#!/usr/bin/env python3
"""Runs the repository's test suite in a tree (default /repo) with the verif guard OFF and reports
which tests of /root/.vp/BASELINE.json 'stable_pass' do not pass.  usage: lib/baseline.py [dir] [pkgs...]"""
import json, os, subprocess, sys
d = sys.argv[1] if len(sys.argv) > 1 else "/repo"
pkgs = sys.argv[2:] or ["./..."]
base = set(json.load(open("/root/.vp/BASELINE.json"))["stable_pass"])
env = dict(os.environ, GOFLAGS="-mod=mod", GOPROXY="off", GOSUMDB="off", GOTOOLCHAIN="local")
p = subprocess.run(["go", "test", "-json", "-vet=off", "-count=1", "-timeout", "25m"] + pkgs, cwd=d, env=env, capture_output=True, text=True)
res = {}
for line in p.stdout.splitlines():
    try:
        e = json.loads(line)
    except Exception:
        continue
    if e.get("Test") and e.get("Action") in ("pass", "fail", "skip"):
        res[e["Package"] + "::" + e["Test"]] = e["Action"]
pk = {k.split("::")[0] for k in res}
want = [t for t in base if t.split("::")[0] in pk] if pkgs != ["./..."] else list(base)
bad = sorted(t for t in want if res.get(t) != "pass")
print(f"{len(want)} baseline tests considered, {len(want)-len(bad)} pass, {len(bad)} not passing")
for t in bad[:40]:
    print("  NOT PASSING:", t, res.get(t))
sys.exit(1 if bad else 0)
