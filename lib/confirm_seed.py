#!/usr/bin/env python3
"""Confirms a seeded change produced by an independent agent and, if confirmed, files it under
/verif/seeded/<id>/ (patch.diff, the demonstration, meta.json).

usage: lib/confirm_seed.py <src_dir> <seeded-id> <property> [--demo-pkg interp] [--needs "text"]

Confirmation (all in a scratch worktree of /repo HEAD under /tmp, removed afterwards):
  1. the demonstration passes on the unchanged tree
  2. the patch applies and the tree builds
  3. the demonstration fails with the patch
  4. the repository's baseline tests (BASELINE.json stable_pass) still pass with the patch
"""
import argparse, glob, json, os, shutil, subprocess, sys, time

V = os.path.dirname(os.path.dirname(os.path.abspath(__file__)))
ENV = dict(os.environ, GOFLAGS="-mod=mod", GOPROXY="off", GOSUMDB="off", GOTOOLCHAIN="local")


def sh(cmd, cwd=None, timeout=3000):
    p = subprocess.run(cmd, shell=True, cwd=cwd, env=ENV, text=True, capture_output=True, timeout=timeout)
    return p.returncode, (p.stdout + p.stderr)


def run_demo(wt, src, pkg):
    """returns (ok, output). demo_test.go -> go test in pkg; demo/main.go -> go run."""
    tests = glob.glob(os.path.join(src, "*_test.go"))
    if tests:
        names = []
        for t in tests:
            dst = os.path.join(wt, pkg, "zz_seed_" + os.path.basename(t))
            shutil.copy(t, dst)
            names.append(dst)
        import re
        funcs = []
        for t in tests:
            funcs += re.findall(r"^func (Test\w+)\(", open(t).read(), re.M)
        rc, out = sh(f"go test -vet=off -count=1 -run '^({'|'.join(funcs)})$' ./{pkg}/", cwd=wt, timeout=1200)
        for n in names:
            os.remove(n)
        return rc == 0, out[-3000:]
    mains = glob.glob(os.path.join(src, "demo", "*.go"))
    if mains:
        d = os.path.join(wt, "zz_seed_demo")
        shutil.copytree(os.path.join(src, "demo"), d)
        rc, out = sh("go run ./zz_seed_demo/", cwd=wt, timeout=600)
        shutil.rmtree(d)
        return rc == 0, out[-3000:]
    return None, "no demonstration found"


def main():
    ap = argparse.ArgumentParser()
    ap.add_argument("src")
    ap.add_argument("sid")
    ap.add_argument("prop")
    ap.add_argument("--demo-pkg", default="interp")
    ap.add_argument("--needs", default="")
    ap.add_argument("--skip-suite", action="store_true")
    a = ap.parse_args()
    wt = f"/tmp/confirm-{a.sid}"
    sh(f"git -C /repo worktree remove --force {wt}")
    rc, out = sh(f"git -C /repo worktree add --detach {wt} HEAD")
    if rc != 0:
        print(out)
        sys.exit(2)
    log = {}
    try:
        ok0, out0 = run_demo(wt, a.src, a.demo_pkg)
        log["demo_unchanged_passes"] = ok0
        rc, out = sh(f"git apply {os.path.abspath(a.src)}/patch.diff", cwd=wt)
        log["patch_applies"] = rc == 0
        rc, out = sh("go build ./...", cwd=wt)
        log["builds"] = rc == 0
        ok1, out1 = run_demo(wt, a.src, a.demo_pkg)
        log["demo_with_patch_fails"] = (ok1 is False)
        if not a.skip_suite:
            rc, out = sh(f"python3 {V}/lib/baseline.py {wt}", timeout=3000)
            log["baseline_passes_with_patch"] = rc == 0
            log["baseline_summary"] = out.strip().splitlines()[:6]
        log["demo_output_with_patch"] = out1[-1200:]
    finally:
        sh(f"git -C /repo worktree remove --force {wt}")
    good = all(log.get(k) for k in ("demo_unchanged_passes", "patch_applies", "builds", "demo_with_patch_fails")) and \
        (a.skip_suite or log.get("baseline_passes_with_patch"))
    print(json.dumps(log, indent=1))
    if not good:
        print("NOT CONFIRMED")
        sys.exit(1)
    dst = os.path.join(V, "seeded", a.sid)
    os.makedirs(dst, exist_ok=True)
    shutil.copy(os.path.join(a.src, "patch.diff"), dst)
    for f in glob.glob(os.path.join(a.src, "*_test.go")) + glob.glob(os.path.join(a.src, "README.md")):
        shutil.copy(f, dst)
    if os.path.isdir(os.path.join(a.src, "demo")):
        shutil.copytree(os.path.join(a.src, "demo"), os.path.join(dst, "demo"), dirs_exist_ok=True)
    meta = dict(property=a.prop, needs_to_manifest=a.needs, source="independent sub-agent given only the property text and a scratch worktree of /repo",
                confirmed=dict(when=time.strftime("%Y-%m-%d %H:%M"), how="lib/confirm_seed.py: demo passes on unchanged tree, patch applies, builds, demo fails with patch, BASELINE stable_pass tests pass with patch", **{k: v for k, v in log.items() if k != "demo_output_with_patch"}),
                demo_pkg=a.demo_pkg)
    json.dump(meta, open(os.path.join(dst, "meta.json"), "w"), indent=1)
    print("CONFIRMED ->", dst)


if __name__ == "__main__":
    main()
