#!/usr/bin/env python3
"""Three-way merge of KNOWN_FINDINGS.json by finding id: result = ours, with every entry that the other
branch added or changed relative to the merge base taken from the other branch (entries keep ours' order,
new ones are inserted after the last entry of the same property).
usage: lib/merge_findings.py <base.json> <ours.json> <theirs.json> > merged.json"""
import json, sys
base, ours, theirs = (json.load(open(p)) for p in sys.argv[1:4])
b = {f["id"]: f for f in base["findings"]}
out = list(ours["findings"])
pos = {f["id"]: i for i, f in enumerate(out)}
for f in theirs["findings"]:
    if b.get(f["id"]) == f:
        continue
    if f["id"] in pos:
        out[pos[f["id"]]] = f
    else:
        idx = max([i for i, g in enumerate(out) if g["property"] == f["property"]] or [len(out) - 1]) + 1
        out.insert(idx, f)
        pos = {g["id"]: i for i, g in enumerate(out)}
ours["findings"] = out
json.dump(ours, sys.stdout, indent=1, ensure_ascii=False)
print()
