#!/usr/bin/env python3
"""Prints the markdown table of seeded changes (seeded/*/meta.json + seeded/RESULTS.json) for DESIGN.md 8.4.
usage: lib/seeded_table.py [--only <id> ...]   (default: all)"""
import json, os, sys
V = os.path.dirname(os.path.dirname(os.path.abspath(__file__)))
res = json.load(open(os.path.join(V, "seeded", "RESULTS.json")))
only = sys.argv[2:] if len(sys.argv) > 1 and sys.argv[1] == "--only" else None
print("| seeded change | property | what it needs to manifest | check result |")
print("|---|---|---|---|")
n = det = 0
for sid in sorted(os.listdir(os.path.join(V, "seeded"))):
    d = os.path.join(V, "seeded", sid)
    if not os.path.isdir(d) or (only is not None and sid not in only):
        continue
    meta = json.load(open(os.path.join(d, "meta.json")))
    r = res.get(sid, {})
    out = []
    for p, x in r.items():
        if not isinstance(x, dict):
            continue
        v = (x.get("violation") or [""])[0]
        tier = x.get("tier", "quick")
        if x.get("detected"):
            out.append(f"`./check {p}` ({tier}): VIOLATION" + (" (no-failing-input-found)" if "no-failing-input-found" in v else " with replay"))
        else:
            out.append(f"`./check {p}` ({tier}): missed")
    n += 1
    det += any("VIOLATION" in o for o in out)
    needs = meta.get("needs_to_manifest", "").replace("|", "/")
    print(f"| {sid} | {meta['property']} | {needs} | {'; '.join(out) or 'not run'} |")
print(f"\n{det} of {n} seeded changes are reported by the check of their property.")
