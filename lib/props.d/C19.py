"""C19 configuration fragment for the check driver."""
from common_cfg import COMMON_TRUSTED

CFG = dict(
    harness="c19",
    translators=[],
    model_targets=["Debug/Cases.vo"],
    proof_targets=["Props/C19.vo"],
    props="Props/C19.v",
    harness_timeout=2400,
    search_tier="quick",
    trusted=COMMON_TRUSTED + ["plain Eval of the same program (output, result, panic) and the marker lines in the program's own output as reference",
                              "hand-written model Debug/Model.v of the debugger branch of runCfg (interp/run.go) and of interp/debugger.go, tied by behavioural correspondence: every session's complete event stream, flag placement and validity are predicted by the model from the dumped CFG and the instrumented plain run",
                              "interp/verif_export_c19.go (build tag verif): read-only CFG dump, closure instrumentation of a plain run (true operation sequence with call depth), closure pre-generation in SetBreakpoints order"],
    level_text="Coq theorems (unbounded: every deterministic machine, every graph, breakpoint set, request list and fuel) about an executable model of the debug loop with code-address node tracking (Y) against the plain loop (G): same state/outcome/operations, soundness of break events, framing by the terminate event (full); completeness of break events under an exactness side condition (partial) and refuted on witnesses that are replayed on the implementation. Y is tied to the source on every run by predicting, inside Coq, the complete event stream of every generated debug session from the CFG dumped from the implementation and the true operation sequence of an instrumented plain run.",
    level_note="Trusted: Coq kernel + vm_compute, no axioms; harness; verif-tag exports (dump, instrumentation). Goroutines, Interrupt (asynchronous pause) and cancellation by context are outside the model; sessions are driven synchronously (one request per stop).",
    technique="Coq proof by induction on fuel over an abstract CFG machine + model/implementation correspondence of whole debug sessions evaluated in Coq",
    assumptions=["callee kinds are a generator dimension, not a model extension: methods with named, pointer, unnamed and blank receivers (called directly, through an interface, as method values) and function literals evaluated on the root frame (package-level literal, composite literal of literals) run through the same replay machine; model Y predicts their sessions' events, flags and output like any other call; the frame names and scopes that enterCall records (DebugFrame.Name, Variables) are not compared",
                 "several debug sessions on one interpreter (Debug called again on the same compiled program) are modelled as independent sessions: model Y predicts each session of a chain from a fresh d_init, which is what the correspondence checks (chains of three sessions with stops, the last resume being continue / step-into / step-over in a seeded order; every session requests a line and a function so that SetBreakpoints resets the flags of the session before; flags left over by an earlier session when a later one makes no request of that kind are not modelled or exercised)",
                 "the debugged program runs the cancellable variants of the channel operations (ExecuteWithContext sets cancelChan), plain execution the blocking ones: the behaviour theorem is applied to the pair under the side condition variants_agree (C19_same_behaviour_variants_partial), which the correspondence checks on every session (instrumented Execute run vs instrumented ExecuteWithContext run vs debug session; the reference is a true Eval)",
                 "two-goroutine programs (unbuffered hand-offs joined by a sync.WaitGroup) are outside the model: for them only output, result and outcome are compared with the plain run; goroutines started from function literals share debug routine 0 with main, so those programs are only run free",
                 "the model covers one goroutine; Interrupt and context cancellation are not exercised",
                 "requests are issued only while the routine is stopped (Continue/Step/Terminate answering an event), as a debugger front end does",
                 "after a Terminate request the model stops all loops at once; the implementation may still run operations on nodes without a position while unwinding (no events are involved)",
                 "the true operation sequence comes from closures instrumented through the verif export (plain run, no debugger attached)"],
)
CFG["id"] = "C19"
