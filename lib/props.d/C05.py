"""C05 configuration fragment for the check driver."""
from common_cfg import COMMON_TRUSTED

CFG = dict(
    harness="c05",
    translators=["tr-c05-maptypes"],
    model_targets=["Disp/Cases.vo", "Disp/HostCases.vo"],
    proof_targets=["Props/C05.vo"],
    props="Props/C05.v",
    harness_timeout=2400,
    trusted=COMMON_TRUSTED + ["go/types (LookupFieldOrMethod, NewMethodSet, Implements) and the generated programs compiled by the Go toolchain as the reference for selector resolution, method sets, assertions and type switches",
                              "hand-written model Disp/Model.v of interp/type.go (lookupField, lookupMethod2, methodDepth, lookupBinField, methods, implements), the selectorExpr case of interp/cfg.go, typecheck.typeAssertionExpr and run.go typeAssert/_case, tied by function-level correspondence (verif exports in interp/verif_export_c05.go) and by program-level correspondence on generated programs"],
    level_text="Coq theorems over all universes of declared struct types, methods and interfaces (any size, any embedding depth, embedded pointers and cycles): selector resolution of the depth-first mechanism equals Go's shallowest-depth rule whenever the first hit lies at the shallowest depth (C05_lookup_partial) with refutation witnesses elsewhere; yaegi's method-name sets contain Go's method sets (C05_methodset) and equal them when every name resolves (C05_methodset_partial); two-result assertions to interfaces agree under consistent signatures (C05_assert_partial); type switches over concrete clauses agree (C05_switch_partial). Y is tied to the source on every run by function-level correspondence (lookupField / lookupMethod / methodDepth / methods / implements on every (type, name) of every generated universe) and program-level correspondence (every call and assertion form, identity and receiver state printed), both evaluated inside Coq; G is validated against go/types and compiled Go on the same cases.",
    level_note="Trusted: Coq kernel + vm_compute, no axioms; harness; go/types and the Go toolchain as reference. The receiver-state semantics of the call forms and the host-interface wrappers are compared between yaegi and compiled Go only (not modelled in Coq).",
    technique="Coq proof (induction over fuel, field lists and levels; closure argument for the seen-set traversal) + model/implementation correspondence evaluated in Coq at function and program level",
    assumptions=["the consumers of Disp/Host.v (what compiled fmt, encoding/json and io probe for, in which order) are transcribed by hand from the installed release and validated against compiled Go on every generated case (MG)",
                 "struct types are kept structurally distinct (a unique state field per type), as the property's quantifier prescribes",
                 "interface embedding is flattened by one function shared by Y and G (embedding cycles among interfaces are illegal in both)",
                 "signatures are abstracted to the number of int parameters (two signatures are generated: func() string and func(int) string)",
                 "type switches and assertions on values of static type interface{} and the errors.Is/As probes are exercised by fixed witnesses only"],
)
CFG["id"] = "C05"
