"""C16 configuration fragment for the check driver."""
from common_cfg import COMMON_TRUSTED

CFG = dict(
    harness="c16",
    translators=[],
    model_targets=["Imports/Cases.vo"],
    proof_targets=["Props/C16.vo"],
    props="Props/C16.v",
    harness_timeout=3000,
    trusted=COMMON_TRUSTED + ["GO111MODULE=off GOPATH=<tree> go run (go1.23.5) as the reference for vendor resolution, single initialisation and import cycles",
                              "hand-written model Imports/Model.v of interp/src.go (effectivePkg, previousRoot, pkgDir, importSrc) and of gta's import-path rewriting, tied by function-level correspondence (verif exports on MapFS trees) and by end-to-end runs from disk and from a MapFS",
                              "the filesystem is modelled as the set of directories with Go files (fs.Stat answers); no regular file is named like a path element, no unreadable directory"],
    level_text="Coq theorems (unbounded: all filesystems, importing directories and import paths for resolution; all programs for the loader and for the agreement of whole loads; witnesses for the refutations) about executable models of interp/src.go (Y) and of cmd/go's GOPATH-mode resolution and loading (G); Y is tied to the source on every run by a function-level correspondence (effectivePkg/previousRoot/pkgDir through verif exports, exhaustive on small trees) and by whole programs evaluated by yaegi from disk and from a MapFS, all evaluated inside Coq; G is validated against GOPATH-mode go run on the same trees.",
    level_note="Trusted: Coq kernel + vm_compute, no axioms; harness; go run in GOPATH mode as the reference. interp/src.go is modelled by hand and tied by correspondence (about 26k cases per quick run incl. an exhaustive enumeration of single-leaf filesystems of depth <= 3). Proved for all inputs: single resolutions (C16_resolve_partial), whole loads entered by an import path (C16_load_partial) or by a file with relative imports (C16_load_file_partial) outside the decidable finding regions, termination / once / no-cycle of importSrc unconditionally; the generator's region labels are cross-checked against the theorems' side conditions inside Coq on every case. Import cycles are exercised by a matrix (GOPATH, vendor, relative and mixed edges, lengths 1-4, self-import, path and file entries, packages with and without binary imports) run from disk and from a MapFS in child processes with a 48 MB stack and a budget of 2000 opens, so that a recursion that does not terminate is observed as a failing case. The second attempt of importSrc (rootFromSourceLocation: os.Getwd() joined with the directory of the input file, relative to GOPATH/src) is modelled (ctx.c_retry); file entries are run with the working directory at the origin of the tree, the file named relative to it and an absolute GOPATH — from disk, and from a MapFS shown below an empty working directory — and the family of entry files inside GOPATH/src/<proj> (relative chains of length 1-3 whose last package imports a path present only in the nearest vendor directory / only in GOPATH/src / in both / in an outer vendor directory, with and without the main file importing it first) is generated on every run; its reference is go run on the same program with the relative imports inside GOPATH written as import paths.",
    technique="Coq proof by induction over path prefixes / fuel / load histories + model/implementation correspondence evaluated in Coq",
    assumptions=["import paths have no '.', '..', empty or 'vendor' elements (except the leading ./ ../ of relative imports)",
                 "previousRoot is only modelled for its call site (rootPath = GOPATH/src/root, root non-empty)",
                 "rootFromSourceLocation is modelled for runs whose working directory is the origin of the tree (entry file named relative to it, absolute GOPATH); with a plain MapFS and a relative GOPATH it yields a root below which nothing exists (it consults os.Getwd, not the supplied filesystem), which behaves as the root \"\"",
                 "relative imports inside GOPATH packages have no toolchain reference (cmd/go rejects them): G (the importing file's directory) is the reference there"],
)
CFG["id"] = "C16"
