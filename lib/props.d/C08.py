"""C08 configuration fragment for the check driver."""
from common_cfg import COMMON_TRUSTED

CFG = dict(
    harness="c08",
    translators=["tr-capture"],
    model_targets=["Conc/Cases.vo"],
    proof_targets=["Props/C08.vo"],
    props="Props/C08.v",
    harness_timeout=3000,
    trusted=COMMON_TRUSTED + [
        "the Go race detector (go build -race, runtime/race) as the observer of data races while the interpreter executes; a second build of the harness carries it",
        "translator tr-capture (syntactic: writes to variables captured by run-time closures of interp/*.go; indirect writes through called functions are seen only by the race detector)",
        "hand-written machine model Conc/Machine.v (frames, goroutine start, select micro-steps), tied by the regenerated table of captured writes and by behavioural correspondence on generated programs",
    ],
    level_text="Coq theorems over ALL schedules (induction over the schedule) about a machine model of the interpreter's concurrency bookkeeping: frame accesses stay on the own ancestor chain, an activation's frame is touched by no other thread, generated (per-statement) state is read-only and receives happen on the designated channels when the select vector is per execution or there is no select, isolation by replay of own communications; refutation witness for the shared select vector of the code today. The model is tied to the source on every run by the regenerated table of writes to captured state (tr-capture) and by running template programs under the race detector and against compiled Go: pipelines, pools, select, mutex, closures, host-concurrent calls, parallel interpreters, and an operand family (harness/c08_ops.go: every statement form executed by N goroutines at the SAME call site with DISTINCT operands - interface method calls with blocking and non-blocking arguments, method values, closure variables, struct/array/slice/map/string operands, type assertions and switches, composite literals, defer/recover, range, go statements on methods and closure variables) whose per-worker result identifies whose operand was used.",
    level_note="Partial: that the Go implementation has no data race is a run-time fact observed with the race detector on generated runs (goroutines 2..32, GOMAXPROCS 1/2/16, seeded yield injection), not proved. Channels are modelled as unbounded queues; sync.Mutex/WaitGroup are the host's. Open finding: _select shares its cases vector between goroutines (race + cross-talk).",
    technique="Coq proof by induction over schedules on an executable machine model + source-regenerated table + race-detector runs of generated concurrent programs compared with compiled Go",
    assumptions=["channel blocking/rendez-vous, sync.Mutex and sync.WaitGroup are the host run-time's and are not modelled",
                 "the race detector only sees the interleavings that occur in the runs made"],
)
CFG["id"] = "C08"
