"""C09 configuration fragment for the check driver."""
from common_cfg import COMMON_TRUSTED

CFG = dict(
    harness="c09",
    translators=[],
    model_targets=["Cancel/Cases.vo"],
    proof_targets=["Props/C09.vo"],
    props="Props/C09.v",
    harness_timeout=2400,
    trusted=COMMON_TRUSTED + ["the contract (returns the context error; at most the operation in flight; goroutines exit) is the reference: there is no second implementation",
                              "hand-written model Cancel/Model.v of the run-id gate (interp.go stop/runid/newFrame/clone, program.go Execute, run.go run/runCfg/call/genFunctionWrapper/getFunc and the blocking channel operations), tied by behavioural correspondence through the step hook at every cancellation point",
                              "Go run-time goroutine dump (runtime.Stack) to decide whether a goroutine has exited or is parked for good"],
    level_text="Coq theorems about an executable state machine of yaegi's run-id gate (generations of interpreter and frames, cancellation channels, phases of Execute, function literals, host-held wrappers): for all program tables, all histories of host actions, all schedules and all data (oracle bits), after stop() every thread performs at most one more operation, causes at most one more visible effect, threads started later do nothing, and every thread not stuck in an operation that cannot see the cancellation exits, init functions and main pending or not (C09_gate_partial, by induction over the schedule; the init-list defect is repaired and its witness is a regression theorem); refutation witnesses for the root frame revived by the next Execute, an already expired context, function literals carrying an earlier evaluation's cancellation channel, and channel operations generated before the interpreter's first *WithContext call (cancellability is read at generation time); the frame slot of go-statement literals (repaired, abe7a69) as a regression theorem. The model is tied to the code on every run: real yaegi (built with -tags verif) is parked by the step hook before operation k (or inside the k-th native call) for every k of every program template, cancelled, optionally used for 1-3 further evaluations (Eval, EvalWithContext, import) while the goroutines are still parked, released and observed; a session matrix loads blocking code by Eval / EvalPath / import / EvalWithContext before or after the first *WithContext call; the observations are checked against the model inside Coq.",
    level_note="Trusted: Coq kernel + vm_compute, no axioms; harness and Go run-time; timing is not modelled (EvalWithContext latency and goroutine exit are observed with bounds of 20 s, remarks above 5 s). For multi-goroutine templates the model's prediction is the schedule-independent bound of the theorem; for single-goroutine templates the exact tick sequence.",
    technique="Coq proof by induction over schedules of a small-step machine + model/implementation correspondence at every cancellation point (step hook) evaluated in Coq",
    assumptions=["real-time behaviour (promptness) is observed, not proved",
                 "goroutines blocked in host calls (sync.WaitGroup.Wait, Mutex.Lock) when their partners were cancelled stay blocked; they are outside the property and reported in the distribution",
                 "YAEGI_FAST_CHAN=1 is outside the property"],
)
CFG["id"] = "C09"
