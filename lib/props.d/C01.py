"""C01 configuration fragment for the check driver."""
from common_cfg import COMMON_TRUSTED

CFG = dict(
    harness="c01",
    translators=["tr-wiring"],
    model_targets=["Core/Cases.vo"],
    proof_targets=["Props/C01.vo"],
    props="Props/C01.v",
    harness_timeout=5400,
    trusted=COMMON_TRUSTED + ["go/types (go1.22 language version) as the validity filter of generated programs",
                              "hand-written models Core/GoSem.v (G) and Core/Cfg.v (Y: cfg.go wiring, slot allocation, runCfg), tied by behavioural correspondence on fragment programs (now including switch statements) evaluated inside Coq and by the regenerated if/for/switch-clause wiring tables (tr-wiring, theorem C01_wiring_matches_source)",
                              "the generator's determinism rules (no unspecified evaluation order, no map order, no capacity) and the syntactic region classifier harness/c01regions.go"],
    level_text="Coq theorem (unbounded: every well-formed MiniGo program, any nesting, any number of iterations) that Go-termination implies termination of yaegi's CFG machine with the same output and ending, by forward simulation G (definitional interpreter) -> Y (start/tnext/fnext wiring of cfg.go, frame slots with the destination-slot shortcut, loopVarFor, runCfg), plus refutation witnesses outside the side conditions; switch statements (tag / no tag, init, case lists, default anywhere, fallthrough, break) are modelled in G and Y (clause loops of switchStmt / switchIfStmt, the default swap, _case) and tied to the source and to yaegi / compiled Go, and the simulation theorem covers switch with a tag (only the first case expression of a clause an operator expression, a leaf tag after an init statement) and without a tag (one condition per clause), with optional init statement, default last, at least one clause, fallthrough (not into an empty default clause of a tagless switch), break/continue inside clause bodies; Y and G are evaluated inside Coq on generated fragment programs against real yaegi and the compiled binary; the full core language is covered behaviourally by seeded random programs and a shortcut x statement-form boundary stream against compiled Go.",
    level_note="Trusted: Coq kernel + vm_compute, no axioms; the hand transcription of cfg.go/run.go into Core/Cfg.v (tied by correspondence; the if/for/switch wiring tables additionally by the translator tr-wiring); the harness and generators; the Go toolchain as reference.",
    technique="Coq forward-simulation proof over an executable CFG model + model/implementation correspondence evaluated in Coq + differential testing against compiled Go",
    assumptions=["the proved fragment is MiniGo (ints, bools, assignments, if, for, break/continue, blocks, Println, switch with or without a tag, with fallthrough); functions, closures, composite data, range, goto and labels are checked behaviourally only",
                 "constant folding is outside the model: fragment programs contain no constant operator expressions",
                 "termination of yaegi on programs that diverge under Go is not addressed (the property quantifies over terminating programs)"],
)
CFG["id"] = "C01"
