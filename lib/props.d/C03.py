"""C03 configuration fragment for the check driver."""
from common_cfg import COMMON_TRUSTED

CFG = dict(
    harness="c03",
    translators=[],
    model_targets=["Const/Cases.vo"],
    proof_targets=["Props/C03.vo"],
    props="Props/C03.v",
    trusted=COMMON_TRUSTED + ["go/types + go/constant (installed Go release) as the reference for acceptance, value and type of every constant",
                              "hand-written models Const/YaegiConst.v (Y) of the constant machinery of interp/{cfg,op,typecheck,type,gta,ast,value,run}.go and Const/ConstSem.v (G) of the Go specification, tied by correspondence on generated programs and by function-level correspondence (representableConst, convertConst through verif exports)"],
    level_text="Coq theorems (unbounded: all expression trees of the untyped integer/rune/FLOATING-POINT/string/boolean fragment at any depth and magnitude — floating-point constants as exact rationals, mixed operands with Go's kind promotion, truncating vs exact quotient, rejections — kind and exact value (C03_untyped_float); the same trees meeting every typed numeric destination: integrality, range, one rounding (C03_typed_dest_float_partial); all const groups over the integer/string/boolean fragment, all integers against every integer type, all rationals and integers against float32/float64 (one rounding of the exact value); refutation witnesses for the defect regions) about executable models of yaegi's constant folding (Y: decorated trees, repeated visits, go/constant glue, representableConst/convertConst) and of the Go specification (G); Y is tied to the source on every run by evaluating it inside Coq on every generated program and comparing with what yaegi printed or rejected; G is validated against go/types + go/constant on the same programs.",
    level_note="Trusted: Coq kernel + vm_compute, no axioms; harness; go/types as the reference. The constant code of yaegi is modelled by hand and tied by correspondence (about 12,900 cases per quick run including about 3,000 seeded trees of the proved int/rune/float fragment whose untyped kind and exact go/constant value are compared with G.eval and Y.eval inside Coq, 1,000 of them also run by yaegi as a printed expression, a conversion to every numeric type or a typed variable, enumerated boundary literals for every integer width and constants chosen for float32/float64 rounding in every declaration form, and every integer type x width boundary x expression shape x declaration context).",
    technique="Coq proof by induction over expression trees and spec lists + model/implementation correspondence evaluated in Coq",
    assumptions=["complex constants are outside the model",
                 "floating-point infinities and NaN are outside the model: programs in which yaegi's machine arithmetic on typed floats could produce them are not generated (input-side rules, counted as discarded:unmodelled)",
                 "out-of-range float to integer conversions inside defect regions follow the amd64 code of the Go compiler",
                 "go/constant is modelled in its exact regime (integers and rationals below 4096 bits); cases leaving it are not generated"],
)
CFG["id"] = "C03"
