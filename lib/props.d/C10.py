"""C10 configuration fragment for the check driver."""
from common_cfg import COMMON_TRUSTED

CFG = dict(
    harness="c10",
    translators=[],
    model_targets=["Cancel/Cases.vo"],
    proof_targets=["Props/C10.vo"],
    props="Props/C10.v",
    harness_timeout=2400,
    trusted=COMMON_TRUSTED + ["reference = the value of the same use before the first cancellation, in the same session",
                              "hand-written model Cancel/Model.v of the run-id gate (shared with C09); histories are compiled to actions of that machine in Cancel/Cases.v (y_hist)"],
    level_text="Coq theorems about the run-id gate machine shared with C09: for all histories of redefinitions, uses and cancelled evaluations (busy loop, blocked goroutines, expired context in either order of the race), every use of a named function, a method or a method value through a later Eval or EvalWithContext yields what it yielded before (C10_named_partial, induction over histories), and for all program tables every use of functions of the basic fragment performs exactly the operations of the generation-free loop G in every reachable state (C10_named_programs); the per-statement generated state is execution-independent (C10_generated_state_independent; the alternative, a cancellation case captured at a statement's first execution, is shown to break every later execution); refutation witnesses for function literals stored in variables (dead for ever), host-held function values between the cancellation and the next Execute, and channel operations through a plain Eval after a cancellation. Tied to the code on every run by seeded histories (definition bodies: arithmetic, channel rendez-vous through send / receive / two-value receive / range / select with the partner held back by the host, mutex and WaitGroup, calls of other definitions, function literals created inside the call; cold sessions in which a definition is first executed by the history, possibly inside the evaluation that is cancelled) executed on real yaegi (cancellation placed with the step hook) whose per-use results are compared, inside Coq, with the model's and with the pre-cancellation values.",
    level_note="Trusted: Coq kernel + vm_compute, no axioms; harness. The model predicts the defective results (zero values) exactly, so any other deviation is an alarm.",
    technique="Coq proof by induction over histories + simulation of the gate machine by a generation-free machine + model/implementation correspondence on seeded histories evaluated in Coq",
    assumptions=["the race of an already expired context is resolved by observation (whether the evaluation executed an operation) and both orders are modelled",
                 "results are compared as printed values; a use that returns neither its earlier value nor the zero value is always an alarm"],
)
CFG["id"] = "C10"
