"""C04 configuration fragment for the check driver."""
from common_cfg import COMMON_TRUSTED

CFG = dict(
    harness="c04",
    translators=[],
    model_targets=["Mem/Cases.vo"],
    proof_targets=["Props/C04.vo"],
    props="Props/C04.v",
    trusted=COMMON_TRUSTED + ["the compiled Go program (go build + run) as reference for every generated history",
                              "hand-written models Mem/GoStore.v (G) and Mem/ReflectModel.v (Y) of interp/run.go assign / call / _range / _append / slice / getIndex* / addr / deref / doComposite and of the assignment case of interp/cfg.go, tied by behavioural correspondence on every generated history of the modelled grammar",
                              "reflect (Index / Field / Elem aliasing, Set copying, Interface() detaching, Append element by element) is modelled, not verified",
                              "harness/c04_ref.go (a Go transcription of G) only guides the generator; it is compared with compiled Go on every history"],
    level_text="Coq theorems (unbounded: all operation sequences of the modelled grammar, all states, all growth policies, under the decidable side condition wf_ops; refutation witnesses for its negation) about executable models of yaegi's frame slots (Y) and of Go's value/reference semantics (G); Y is tied to the source on every run by a behavioural correspondence evaluated inside Coq on generated histories (also inside the defect regions), G is validated against the compiled program on the same histories; every history is also compared yaegi-vs-compiled directly.",
    level_note="A return stream (returned operand x deferred update after the return statement, named results included, call sites executed twice per activation) is compared yaegi-vs-compiled only; a growth grid (element type x full capacity 0..5 x 1/2/3/5 values x element-wise/spread) is in the Coq grammar. An escape stream (6 histories, 24 cells: argument shape incl. nested-call results x callee letting its parameter escape by address / closure x call site executed three times in one activation) is compared yaegi-vs-compiled only; callees returning the address of their parameter are also part of the Coq grammar. A fixed boundary stream (30 histories) hits every cell of the slicing cross product (operand kind x lo x hi x max against 0/len/cap) and of the append cross product (element-wise / spread / self / overlapping x destination nil / cap 0 / empty cap>0 / room / no room / full) in every run. Trusted: Coq kernel + vm_compute, no axioms; harness; Go toolchain as the reference. The mechanisms are modelled by hand and tied by correspondence (about 300 histories, 5-60 steps, whole pool printed after every step, per quick run).",
    technique="Coq refinement proof by mutual induction over operations and expressions + model/implementation correspondence evaluated in Coq + differential runs against compiled Go",
    assumptions=["interface{} elements / fields / map values / variables holding int, string, struct, pointer and slice values are part of the Coq grammar (boxed value trees); constructs outside the Coq grammar (methods, closures, var e interface{} = x declarations, channels, defer, named results, tuple assignment of interface operands) are covered by the yaegi-vs-compiled comparison only",
                 "programs whose result depends on an evaluation order Go leaves unspecified are not generated (call destinations are variables / fields / constant indices; map-entry destinations take pure right-hand sides)"],
)
CFG["id"] = "C04"
