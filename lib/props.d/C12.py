"""C12 configuration fragment for the check driver."""
from common_cfg import COMMON_TRUSTED

CFG = dict(
    harness="c12",
    translators=["tr-tcpred"],
    model_targets=["Tc/Cases.vo"],
    proof_targets=["Props/C12.vo"],
    props="Props/C12.v",
    harness_timeout=3000,
    trusted=COMMON_TRUSTED + [
        "go/types (go1.23.5) as the reference verdict on every mutant (unused variables/imports/labels not counted); mutants it accepts are discarded and counted",
        "hand-written model Tc/YaegiCheck.v of typecheck.go/cfg.go on MiniGo, tied by the regenerated operator predicate tables (tr-tcpred) and by the MiniGo correspondence stream; it answers Unk where the transcription is not certain (those cases are outside the family the stream generates)",
        "Tc/Escapes.v = harness/c12_escapes.json: the table of (operator, context) keys that escape the static checks on the unchanged tree (model Y of the rich stream)",
    ],
    level_text="Coq theorems (unbounded: all MiniGo programs, all sites at any nesting depth, all operators, all rule sets) about one checker skeleton instantiated with Go's typing rules (G) and with yaegi's checks as implemented (Y, operator predicate tables regenerated from typecheck.go on every run): a failure at a mutated node always propagates to rejection of the program (mutants_ill_typed, C12_rejects_partial), nothing runs in a single package, an import has run when the importer is rejected (refuted), predicate tables equal the Go specification; 27 catalogue lemmas give typed preconditions per operator. Tie: MiniGo correspondence stream evaluated inside Coq (Y vs yaegi, G vs go/types, mutate vs the harness's rewrite by structural hash); detection: a sweep of ~7,000 mutants per quick run of template programs under a 35-operator catalogue against go/types, with the known escapes of the unchanged tree keyed by (operator, context) and predicted by the model.",
    level_note="Trusted: Coq kernel + vm_compute, no axioms; translator tr-tcpred; harness; go/types as reference. Y is a hand transcription for a MiniGo fragment (types int int8 uint float64 string bool, named types, structs, slices, functions); outside the fragment yaegi's behaviour is covered by the behavioural sweep and the escape table only.",
    technique="Coq proof by induction over sites (function, nested statement path with threaded environment, expression path) for a checker skeleton parameterised by rule sets + regenerated predicate tables + model/implementation correspondence evaluated in Coq + go/types-filtered mutant sweep",
    assumptions=["the rich stream compares the projected observable {rejected-and-nothing-written, ran, host panic}; run-time behaviour of an accepted ill-typed program is not compared",
                 "Eval is observed in two stages: interp.Compile in-process under recover (= the first half of eval), and the real Eval in a child process only for sources that compile",
                 "go/types' unused variable/import/label errors are ignored: yaegi does not check them and the property does not list them"],
)
CFG["id"] = "C12"
