"""C17 configuration fragment for the check driver."""
from common_cfg import COMMON_TRUSTED

CFG = dict(
    harness="c17",
    translators=["tr-build"],
    model_targets=["Build/Cases.vo"],
    proof_targets=["Props/C17.vo"],
    props="Props/C17.v",
    trusted=COMMON_TRUSTED + ["go/build.Context.MatchFile (CgoEnabled=false) as reference for file selection",
                              "hand-written model Build/Model.v of interp/build.go, tied by function-level correspondence (verif exports) and by the regenerated OS/arch lists"],
    level_text="Coq theorems (unbounded: all '+build' headers over the plain vocabulary, all word lists of file names in the agreement region; refutation witnesses elsewhere) about executable models of interp/build.go (Y) and of go/build (G); Y is tied to the source on every run by regenerated OS/arch tables and by a function-level correspondence (skipFile/buildLineOk/buildOk through verif exports, plus EvalPath on a MapFS) evaluated inside Coq; G is validated against go/build.MatchFile.",
    level_note="Trusted: Coq kernel + vm_compute, no axioms; translator tr-build; harness; go/build as the reference. interp/build.go is modelled by hand and tied by correspondence (about 40k cases per quick run including an exhaustive file-name enumeration).",
    technique="Coq proof by induction over header structure + regenerated tables + model/implementation correspondence evaluated in Coq",
    assumptions=["go/ast CommentGroup.Text is modelled for // comments only; block comments are outside the model",
                 "non-canonical release tags (go1.0, go1.01, go1.+5) are in the known-finding region 'vocab'"],
)
CFG["id"] = "C17"
