"""C18 configuration fragment for the check driver."""
from common_cfg import COMMON_TRUSTED

CFG = dict(
    harness="c18",
    translators=["tr-extract"],
    model_targets=["Extract/Cases.vo"],
    proof_targets=["Props/C18.vo"],
    props="Props/C18.v",
    harness_timeout=3000,
    trusted=COMMON_TRUSTED + ["go/types (source importer) as the reference view of a package: exported objects, exact constant values (go/constant), method sets, Identical/Implements",
                              "go/types and `go build` as the judges of whether a generated file compiles",
                              "the reader of generated files in harness/c18_obs.go (go/parser; unknown shapes are reported as differences)",
                              "hand-written model Extract/Model.v + Decimal.v of extract/extract.go, tied by row-level correspondence on every generated file and by the regenerated restricted/defaultMinorVersion/replacer tables"],
    level_text="Coq theorems (unbounded: all declaration lists for names/forms, all interfaces for the forwarding wrappers, all integers, all byte strings and all dyadic rationals for constant printing; refutation witnesses for float/complex constants, the restricted-by-name rule, irregular interfaces, uncompilable wrappers and imports) about an executable model of extract.genContent/fixConst (Y) and of the contract (G); Y is tied to the source on every run by running the real extract.Extractor on standard-library and seeded random packages and comparing every generated row, import, build tag and the compile verdict with Y inside Coq; G is validated against rows computed from go/types.",
    level_note="Trusted: Coq kernel + vm_compute, no axioms; translator tr-extract; harness (output reader, go/types view); go/types, go/constant and go build as references. extract.go is modelled by hand and tied by correspondence (quick: 14 fixed + 10 seed-drawn std packages + 156 random packages with sibling packages, about 5,000 rows).",
    technique="Coq proof by induction over declaration and parameter lists + exact rational model of big.Float printing + regenerated tables + model/implementation correspondence evaluated in Coq",
    assumptions=["string constants are printed/read in the model's ASCII quoting (every non-printable byte as \\xHH), not strconv.Quote's exact spelling; the bound VALUE is compared with go/constant on every generated constant",
                 "Extractor.Include/Exclude/Tag are empty; GOOS is neither android nor illumos (the syscall special case of genContent is not exercised)",
                 "untyped float constants are go/constant fractions (both components below 4096 bits); constants kept as *big.Float by go/constant are outside the model of fixConst",
                 "the extractor is run in its documented mode (GO111MODULE=off, import paths resolved in GOPATH/GOROOT); go/types built with gotypesalias=0 as yaegi's go.mod implies",
                 "C18_const_float_partial is conditional on the model's exponent search answering (Some); the correspondence checks that it does on every generated constant"],
)
CFG["id"] = "C18"
