"""C11 configuration fragment for the check driver."""
from common_cfg import COMMON_TRUSTED

CFG = dict(
    harness="c11",
    translators=[],
    model_targets=["Session/Cases.vo"],
    proof_targets=["Props/C11.vo"],
    props="Props/C11.v",
    harness_timeout=3000,
    search_seeds=[101, 202],
    trusted=COMMON_TRUSTED + ["compiled Go (whole program; histories rendered with function variables) and yaegi's own evaluation in one piece as references",
                              "hand-written model Session/Model.v of the session mechanics (interp/ast.go parse, interp/gta.go, interp/cfg.go funcDecl/genGlobalVarDecl, interp/program.go CompileAST/Execute), tied by behavioural correspondence on every generated session (status, value and output of every evaluation, final globals, pointer targets)"],
    level_text="Coq theorems (unbounded: all programs of the model language, all cuts of declarations and statements, all call depths, all chunk lists) about an executable model of yaegi's session mechanics (Y: persistent package scope, sticky source name with imports keyed by it, directories evaluated in a scope of their own, two-phase compile of each chunk with static binding of callees, main appended to the init list whenever the scope holds one, genGlobalVarDecl's per-chunk dependency check) and of the contract (G: items take effect in order, calls run the current definition, a chunk declaring main runs it once); Y is tied to the implementation and G to compiled Go on every run by correspondence evaluated inside Coq, through the entry points Eval, Compile+Execute, CompileAST+Execute, EvalPath (disk and MapFS) and Compile-all-then-Execute-all.",
    level_note="Trusted: Coq kernel + vm_compute, no axioms; harness; Go toolchain. The model language is small (int globals, one pointer kind, one-parameter functions, prints); richer programs (types with methods, closures, slices, maps, interfaces, channels), sessions that redefine functions referred to through function literals (local, invoked, deferred, nested, in package variables, in methods, recursion through a literal; checked against the program where every definition has its own name), structured main bodies (blocks with local := declarations and closures, fed inside func main and as top-level chunks) and multi-file packages with cross-file initialiser dependencies in both directions are checked behaviourally only (yaegi piecewise against yaegi whole and against compiled Go).",
    technique="Coq proof by simulation (compiled code with callees bound to code ids against source with callees by name) and induction over chunk lists + model/implementation correspondence evaluated in Coq",
    assumptions=["the order in which genGlobalVarDecl initialises the variables of one chunk is source order (true for declaration-ordered programs; the general case is C15)",
                 "compile errors other than the three modelled (mixed chunk, undefined function, definition loop) and the state left behind by a failed chunk are outside the model",
                 "what a chunk that fails to compile leaves behind (symbols entered by gta, Globals() panicking in the host because they lie beyond the frame) is outside the model: sessions aimed at the import-scope finding end with the failing step and their globals are read before it",
                 "sessions that redefine functions are proved equal to the contract only through C11_redefine_local_full; the stream of histories is validated by correspondence"],
)
CFG["id"] = "C11"
