"""C14 configuration fragment for the check driver."""
from common_cfg import COMMON_TRUSTED

_SHARDS = ["math"] + ["%02d" % i for i in range(16)]
_XSHARDS = ["%02d" % i for i in range(16)]  # cross-platform tables (bindXShards in harness/tr_bind.go)

CFG = dict(
    harness="c14",
    translators=["tr-bind"],
    # the regenerated tables are compiled with the models: the cases files of the quick set load them
    model_targets=["Bind/Cases.vo", "Bind/LitCases.vo"] + ["gen/Bind_%s_gen.vo" % t for t in _SHARDS]
                  + ["gen/BindW_gen.vo", "gen/BindXDrift_gen.vo"] + ["gen/BindX_%s_gen.vo" % t for t in _XSHARDS],
    # the tables are checked completely on the first run: other seeds cannot find anything new
    search_seeds=[],
    proof_targets=["Props/C14.vo"],
    props="Props/C14.v",
    harness_timeout=3000,
    trusted=COMMON_TRUSTED + [
        "translator tr-bind: renders every table entry / wrapper of stdlib/** as data (form of the bound expression, qualifier, identifier, literal text) and the go/types view of $GOROOT/src per platform",
        "go/types + go/constant on $GOROOT/src (per GOOS/GOARCH) as the truth for names, kinds and exact constant values; $GOROOT/api/go1*.txt for the release that introduced a name (and as independent record validating the truth)",
        "runtime.FuncForPC linker names, reflect and go/constant for the run-time identity of the compiled tables",
    ],
    level_text="Coq: (a) finite theorems by computation over the regenerated tables (every row of the quick set: both releases of stdlib/ + syscall/unsafe/unrestricted for the host platform, and the syscall/unrestricted tables of every other platform for the release the toolchain compiles, each against go/types for its own GOOS/GOARCH): rows are what the generator model emits, rows outside the two regions (inexact float constants; untyped rune constants, whose token = untyped kind = default type is part of 'denotes') denote their object exactly, completeness (cross-platform tables: up to the regenerated drift list), forwarding; (b) unbounded theorems: the generator model Y (extract.fixConst: binary rounding then decimal printing) agrees with the property G on every row outside the region, fixConst is exact on every dyadic rational, the literal parser reads back every decimal integer, the decision procedures decide the relation 'denotes' (value AND untyped kind of literals), for every untyped rune constant the generator's row has the exact value and the wrong kind. The tables are regenerated from the source on every run and additionally tied to the compiled tables of the binary (function linker names, addressability, types, exact constants, wrappers exercised with stubs), with the literal parser of the model validated against go/constant on every constant.",
    level_note="Trusted: Coq kernel + vm_compute, no axioms; translator tr-bind; harness; go/types, go/constant, $GOROOT/api as reference. The thorough tier additionally decides the tables of the other release (go1_21) of all 48 platform pairs with the same Coq functions evaluated by coqc on cases files (no .vo theorem for those). Completeness of the cross-platform tables is proved up to the regenerated drift list coq/gen/BindXDrift_gen.v (9 objects today).",
    technique="Coq: decision procedures proved sound + complete evaluation by vm_compute on tables regenerated from source; proofs about rounding (Z arithmetic) for the generator model; run-time correspondence with the compiled tables",
    assumptions=[
        "the truth is the installed go1.23.5 source minus the names $GOROOT/api lists for later releases than the file targets (go1_21 files are judged against go1.23.5 declarations that api/go1.22.txt and go1.23.txt do not list)",
        "identity of package-level variables cannot be observed at run time (no symbol table for data); it is decided on the source text (bound by address, same qualifier and identifier)",
        "type texts of wrapper signatures are compared as printed (go/printer for the source, types.TypeString for the truth)",
    ],
)
CFG["id"] = "C14"
