"""C02 configuration fragment for the check driver."""
from common_cfg import COMMON_TRUSTED

CFG = dict(
    harness="c02",
    translators=["tr-ops"],
    model_targets=["Num/Cases.vo", "Num/ConstRound.vo", "Num/FloatCases.vo"],
    proof_targets=["Props/C02.vo"],
    props="Props/C02.v",
    harness_timeout=3000,
    trusted=COMMON_TRUSTED + [
        "translator tr-ops (interp/op.go, run.go neg/pos/bitNot/not/convert, value.go extractors -> coq/gen/OpTable_gen.v); it refuses closure shapes it does not understand and has a mutation self-test (vh tr-ops -selftest)",
        "modelling assumptions of Num/FloatModel.v: Value.Float() widens a float32 exactly, SetFloat / Convert on a float32 slot round the float64 to nearest even (reflect), float64 arithmetic of the host is IEEE-754 binary64 round-to-nearest-even -- validated on every run by the float cases evaluated in Coq",
        "modelling assumptions of Num/OpDsl.v: reflect.Value.SetInt/SetUint/Convert on an integer slot store the value wrapped to the slot's width; Value.Int()/Uint() read the full value; int, uint, uintptr are 64 bits (linux/amd64) -- validated on every run by the complete enumeration",
        "native oracle of the harness (typed Go arithmetic in the compiled harness binary), compared with `go build` of the same generated programs on a rotating 1/8 shard (quick) or on all programs (thorough)",
    ],
    level_text="Coq theorems for ALL operand values of the integer kinds (int8..int64, int, uint8..uint64, uint, uintptr), booleans and strings: every integer row of the operator table regenerated from interp/op.go on every run (88 binary, 44 op=, 22 fold, 84 comparison, 4 ++/--, 8 unary rows) denotes Go's operator at its kind (wrap-around, truncated division, x / -1, division by zero, shifts with counts of any integer kind >= 0, comparisons, negation, complement, ++/--, integer conversions); refutation witnesses for negative shift counts and for ++/-- on uintptr. The table is tied to the source by exact equality with a hand-written model table, function by function. Floating point (float32, float64): every float row of the regenerated table (76 rows: + - * /, op=, constant folds, ++ --, unary -, the six comparisons in value and branch form) is given a denotation with Flocq (operands read as float64, computed in binary64, SetFloat/Convert round to the slot's format) and proved equal to Go's IEEE-754 operation of the kind's own format for ALL operand bit patterns, at float64 and -- through Flocq's theory of innocuous double rounding connected to the Binary-level operations (signed zeros, subnormals, infinities, NaN, overflow of the second rounding included) -- at float32; float<->float conversions full, float->integer where Go defines the result, integer->float64 full, integer->float32 refuted (reflect.Convert rounds twice; confirmed on real yaegi vs compiled Go). The denotation is tied to the real code by about 15,000 (form, kind, operand bit patterns) cases per run observed on yaegi and on compiled Go and evaluated inside Coq (vm_compute) against Y_float and G_float. Complex operators, and the statement contexts of float operators, are decided by the complete enumeration (about 2.1 million evaluations per run) of real yaegi against compiled Go: validated, not proved.",
    level_note="Trusted: Coq kernel + vm_compute; integer/bool/string theorems need no axioms, every theorem that mentions Flocq's Binary operations reports the four axioms of Coq's classical real numbers (sig_not_dec, sig_forall_dec, functional_extensionality_dep, classic) through Flocq; translator tr-ops; harness and its native oracle (cross-checked against go build); reflect's typed Set*/Convert modelled as wrap (integers) and as IEEE rounding to the slot's format (floats), validated on every run. Complex: enumeration only.",
    technique="Coq proof (modular arithmetic; IEEE-754 with Flocq incl. innocuous double rounding; generic normal-form lemmas + finite table check by vm_compute) over a table regenerated from the source + cases evaluated in Coq + complete enumeration against compiled Go",
    assumptions=["int/uint/uintptr are 64 bits wide (the platform of the check)",
                 "NaN payloads are not modelled (results are compared after canonicalising NaN); float results are compared as bit patterns",
                 "complex semantics are validated by enumeration against compiled Go, not proved",
                 "the go/constant folding branches of the *Const functions are tied textually only (constant expressions are C03's subject)"],
)
CFG["id"] = "C02"
