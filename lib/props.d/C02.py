"""C02 configuration fragment for the check driver."""
from common_cfg import COMMON_TRUSTED

CFG = dict(
    harness="c02",
    translators=["tr-ops"],
    model_targets=["Num/Cases.vo", "Num/ConstRound.vo", "Num/FloatCases.vo"],
    proof_targets=["Props/C02.vo"],
    props="Props/C02.v",
    harness_timeout=3000,
    trusted=COMMON_TRUSTED + [
        "translator tr-ops (interp/op.go, run.go neg/pos/bitNot/not/convert, value.go extractors -> coq/gen/OpTable_gen.v); it refuses closure shapes it does not understand and has a mutation self-test (vh tr-ops -selftest)",
        "modelling assumptions of Num/OpDsl.v: reflect.Value.SetInt/SetUint/Convert on an integer slot store the value wrapped to the slot's width; Value.Int()/Uint() read the full value; int, uint, uintptr are 64 bits (linux/amd64) -- validated on every run by the complete enumeration",
        "native oracle of the harness (typed Go arithmetic in the compiled harness binary), compared with `go build` of the same generated programs on a rotating 1/8 shard (quick) or on all programs (thorough)",
    ],
    level_text="Coq theorems for ALL operand values of the integer kinds (int8..int64, int, uint8..uint64, uint, uintptr), booleans and strings: every integer row of the operator table regenerated from interp/op.go on every run (88 binary, 44 op=, 22 fold, 84 comparison, 4 ++/--, 8 unary rows) denotes Go's operator at its kind (wrap-around, truncated division, x / -1, division by zero, shifts with counts of any integer kind >= 0, comparisons, negation, complement, ++/--, integer conversions); refutation witnesses for negative shift counts and for ++/-- on uintptr. The table is tied to the source by exact equality with a hand-written model table, function by function. Floating point and complex operators are tied structurally and decided by a complete enumeration (operator x kind x operand form x result context x boundary values, about 2.1 million evaluations per run) of real yaegi against compiled Go: validated, not proved.",
    level_note="Trusted: Coq kernel + vm_compute, no axioms; translator tr-ops; harness and its native oracle (cross-checked against go build); reflect's typed Set*/Convert modelled as wrap. Floats/complex: enumeration only.",
    technique="Coq proof (modular arithmetic, generic normal-form lemmas + finite table check by vm_compute) over a table regenerated from the source + complete enumeration against compiled Go",
    assumptions=["int/uint/uintptr are 64 bits wide (the platform of the check)",
                 "floating point and complex semantics are validated by enumeration against compiled Go, not proved",
                 "the go/constant folding branches of the *Const functions are tied textually only (constant expressions are C03's subject)"],
)
CFG["id"] = "C02"
