"""C15 configuration fragment for the check driver."""
from common_cfg import COMMON_TRUSTED

CFG = dict(
    harness="c15",
    translators=[],
    model_targets=["Init/Cases.vo"],
    proof_targets=["Props/C15.vo"],
    props="Props/C15.v",
    harness_timeout=5400,
    trusted=COMMON_TRUSTED + ["compiled Go programs (go build, one module with sub-packages) as reference for the initialisation order",
                              "hand-written model Init/Model.v of interp/cfg.go genGlobalVarDecl/getVarDependencies, program.go Execute and src.go importSrc, tied by behavioural correspondence: the initialisation log of every generated program under real yaegi (Eval and EvalPath) must equal the model's prediction, inside and outside the defect regions"],
    level_text="Coq theorems (unbounded: all declaration lists, all dependency graphs, all acyclic import graphs) about executable models of yaegi's ordering of package-level variables and packages (Y) and of the Go specification (G): agreement under decidable side conditions, refutation witnesses elsewhere, full-strength correctness of yaegi's (repaired) scheduling loop on every dependency graph, unconditional soundness facts about it and about the memoised package loader; Y is tied to the source on every run by comparing the initialisation log of seeded random programs under real yaegi with Y evaluated inside Coq; G is validated against the same programs compiled by the Go toolchain.",
    level_note="Trusted: Coq kernel + vm_compute, no axioms; harness; Go toolchain as the reference. No translator: the mechanism is a loop, not a table; it is modelled by hand and tied by correspondence (600 programs per quick run, 20000 per thorough run, the first 13 of every run being the theorem witnesses).",
    technique="Coq proof by induction over declaration lists, scans and fuel + model/implementation correspondence evaluated in Coq",
    assumptions=["identifiers are unique within a package (yaegi and Go both reject redeclarations)",
                 "the syntactic form of an initialiser around its logging call (composite literals, pointer, parentheses, binary expression, conversion, call of a function literal) and the variable's type are rendering dimensions only: compared behaviourally, absent from the models",
                 "the history of the interpreter before the program is evaluated (fresh, after a successful / cancelled / non-compiling / panicking evaluation) is compared behaviourally: the program must print the same marks as on a fresh interpreter; the models have no notion of history",
                 "a blank variable is modelled as a variable with a fresh identifier that nothing refers to; the identifier '_' that its declaration mentions is modelled as a misleading occurrence (RX) of the variable owning yaegi's single symbol '_' (the last 'var ..., _, ... = e' declaration, none when the last declaration with a blank is 'var _, x = f()'): that rule is computed by the harness and validated behaviourally (Y must predict yaegi on every case), it is not derived in Coq",
                 "explicit types in declarations (var x int = e) are a rendering dimension only: compared behaviourally, absent from the models",
                 "the names of the files of a multi-file package (drawn from pools whose byte order differs from the case-folded, numeric and writing order; 2-4 files; EvalPath on fstest.MapFS and on a real directory) are a rendering dimension: both models receive the declaration list in byte-sorted file-name order, the order in which the go tool presents the files to the compiler",
                 "constants, cross-package variable references and interface method calls carry no initialisation dependency in either model; the generator does not produce constants",
                 "function bodies that read a variable declared by 'var x, y = f()' are kept out of the generated programs: yaegi panics in the host on such a read (unrelated to ordering)"],
)
CFG["id"] = "C15"
