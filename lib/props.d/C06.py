"""C06 configuration fragment for the check driver."""
from common_cfg import COMMON_TRUSTED

CFG = dict(
    harness="c06",
    translators=[],
    model_targets=["Defer/Cases.vo"],
    proof_targets=["Props/C06.vo"],
    props="Props/C06.v",
    harness_timeout=3000,
    trusted=COMMON_TRUSTED + ["compiled Go (go build + run of the same source) as reference for defer/panic/recover",
                              "hand-written model Defer/Model.v of the unwinding mechanism of interp/run.go (runCfg, call/callBin/genBuiltinDeferWrapper defer branches, _recover, _panic, getFunc) and of Execute, tied by behavioural correspondence on generated programs evaluated inside Coq",
                              "printer of harness/c06.go (one AST rendered as Go source and as a Gallina term) and parser of the printed lines into events"],
    level_text="Coq theorems about two executable models of defer/panic/recover over abstract programs (function tables with print/set/defer/panic/fault/call/recover/re-panic/return): Y transcribes yaegi's mechanism (per-frame deferred list and recovered field, Go-level recover/re-panic in runCfg, _recover reading the parent frame, argument slots kept by reference, Execute), G states Go's rules. C06_partial proves Y = G (trace, value seen by every recover, named results, final panic value) for all programs, unbounded call trees and defer stacks, on which none of the known-finding flags is raised, by simulation over the fuel; unbounded corollaries (LIFO / exactly once / after a deferred panic / arguments fixed / recover only direct / named results / top level) and five refutation witnesses and the regression theorem of the repaired closure-lock finding. Y is tied to the source on every run by behavioural correspondence: every generated program is run by real yaegi in child processes (whole program, and Eval+Eval+Eval on one interpreter) and compared with Y inside Coq, also inside the defect regions; G is validated against the same source compiled by the Go toolchain.",
    level_note="Trusted: Coq kernel + vm_compute, no axioms; harness printer/parser; compiled Go as reference. The mechanism of interp/run.go is modelled by hand; the tie is behavioural (about 1,500 programs per quick run, 15,000+ per thorough run), not a translation of the source.",
    technique="Coq simulation proof by induction on fuel through open recursion + model/implementation correspondence evaluated in Coq on generated programs + compiled-Go reference",
    assumptions=["the failed-type-assertion fault is modelled in Coq as an abstract fault only; which assertions fail is checked behaviourally by the assert stream (complete matrix of static type x dynamic value x target class x form in every run) against compiled Go; the 135 cells on which interp.typeAssert already deviates are held to a recorded baseline (harness/c06_assert_today.go), which is a transcription of behaviour, not of the mechanism",
                 "Y models Execute only: that no panic escapes through the other entry points (EvalWithContext, EvalPath, EvalPathWithContext, Compile, ExecuteWithContext, REPL) and from code run at compile time (initialisation of imported source packages) is checked behaviourally by the entry stream in child processes against the contract; the cells that already break it (finding import-init-panic-escapes) are held to the behaviour of the unchanged tree (c06EntryExpectedToday)",
                 "the models have no interpreter state that outlives Execute (the function table is an immutable input of y_eval): that closures, method values, globals and host-held function values defined before a panicking Eval keep working is checked behaviourally by the session stream of harness/c06_aux.go against the same session compiled, not proved (no C06_toplevel_state_preserved theorem)",
                 "the receiver-pool stream (host method values, interpreted methods, function values; the same defer statement executed in a loop and in a recursion) is compared with compiled Go and, for interpreted methods in a loop (finding defer-arg-alias: the receiver is read when the call runs), with a source-level rendering of Y; it is not evaluated in Coq",
                 "run-time faults are modelled as panics with an abstract class; the wording of their messages is canonicalised (classifyPanic)",
                 "goroutines, runtime.Goexit, os.Exit / log.Fatal (restricted.go) and panics during compilation are outside the model",
                 "Panic.Value is compared through Panic.Error() (fmt.Sprint of the value): for explicit panics it is a reflect.Value wrapping the original value"],
)
CFG["id"] = "C06"
