"""C07 configuration fragment for the check driver."""
from common_cfg import COMMON_TRUSTED

CFG = dict(
    harness="c07",
    translators=[],
    model_targets=["Boundary/Cases.vo"],
    proof_targets=["Props/C07.vo"],
    props="Props/C07.v",
    trusted=COMMON_TRUSTED + [
        "reflect (Value.Call / CallSlice packing, MakeFunc, Set, IsZero as of go1.22) is written down in Boundary/Marshal.v as yaegi relies on it, not verified",
        "hand-written model Boundary/Marshal.v of genFunctionWrapper / callBin / call / convertLiteralValue / genInterfaceWrapper, tied by behavioural correspondence on every generated crossing",
        "reference = the same call or access without a boundary: native observation of the manufactured Go values, Go's parameter binding rule, native calls of the host methods, compiled Go (go build) for the script-types-as-host-interfaces stream",
    ],
    level_text="Coq theorems (unbounded: all types of the grammar, all values incl. nested function graphs, all argument lists, all placements) about an executable model Y of yaegi's boundary marshalling and the contract G (identity / Go's parameter binding): round trip of one value in both directions, functions wrapped once and called through wrappers, variadic packing/spreading, zero-skip soundness, result placement, host variables, receiver offset, interface wrappers, method dispatch of script types embedding host interfaces (over measured reflect facts), session histories with cancellations, the shape of the argument expression (box nesting to any depth), go/defer statements (when arguments are read); each under a decidable side condition whose negation is a recorded finding with a refutation witness. Y is tied to the source on every run by correspondence: every generated crossing (arguments, results, variables, methods, wrapper probes) observed on the real interpreter is re-computed by Y inside Coq.",
    level_note="Partial: reflect itself is assumed (trusted base). Trusted: Coq kernel + vm_compute, no axioms; the harness (value generators, canonical renderers on both sides, parser); the Go toolchain for the interface stream.",
    technique="Coq proof by induction over rose-tree values and lists + model/implementation correspondence evaluated in Coq on seeded signatures x values, both directions",
    assumptions=[
        "function values are compared extensionally on the probe points of their type (2 per function type), recursively",
        "the main stream contains no negative zero anywhere (in-script rendering calls would lose it); negative zero has its own stream",
        "embedded-interface stream: the facts about reflect that genInterfaceWrapper depends on (does the reconstructed frame type implement the interface, has it promoted methods, are they callable) are measured natively in the harness binary and given to Y as inputs",
        "session stream: only top-level functions are kept across a cancellation (closures created by getFunc are dead after any cancellation: C10-closure-after-cancel)",
        "go/defer stream: observed in a child process with GOMAXPROCS(1), so that a goroutine started by a go statement does not run before the script blocks (after the re-assignment); on the unchanged tree every main-stream cell is also scheduling-independent",
        "argument-shape stream: echoes are compared by class (concrete value / host wrapper / interp.valueInterface / panic); the plainest shape's echo in the same interpreter is recorded with each mismatch",
        "composite literals of host-declared named types: slice/array element positions are re-computed by Y (lit_indexes) on every case; map and struct literals and all forms (variable, conversion from a script type, nested) are compared behaviourally with the literal evaluated natively",
        "result placement with captured variables (closure / pointer taken before a := re-declaration or = of a multi-result host call): compared behaviourally with Go's rule and with the same statement calling a script function; not modelled in Coq",
        "host-declared func types (stream F: 10 positions x 8 kinds of function expression, consumed in the script, through the host method, by a host function and natively): compared behaviourally with the function's own results; Y only says at which positions a declared function's name is wrapped (y_functype_wraps), region cells are pinned to the panic class",
        "destination of a host call's result (stream D: literal/named context x 11 destination kinds incl. variables captured at nesting 1 and 2 x 10 statement forms x 7 result types, neighbouring locals of every function level printed afterwards): compared behaviourally with Go's assignment rule computed natively; not modelled in Coq",
        "script-side observation uses strconv/math host calls as trusted infrastructure (also used by the in-script oracle)",
    ],
    harness_timeout=2400,
)
CFG["id"] = "C07"
