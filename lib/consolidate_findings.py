#!/usr/bin/env python3
"""Merges findings.d/*.json into KNOWN_FINDINGS.json (the single known-findings file) and removes the fragments."""
import glob, json, os
V = os.path.dirname(os.path.dirname(os.path.abspath(__file__)))
main = os.path.join(V, "KNOWN_FINDINGS.json")
kf = json.load(open(main))
ids = {f["id"] for f in kf["findings"]}
for path in sorted(glob.glob(os.path.join(V, "findings.d", "*.json"))):
    frag = json.load(open(path))
    for f in frag.get("findings", []):
        if f["id"] in ids:
            kf["findings"] = [g for g in kf["findings"] if g["id"] != f["id"]]
        kf["findings"].append(f)
        ids.add(f["id"])
    os.remove(path)
kf["findings"].sort(key=lambda f: (f["property"], f["id"]))
json.dump(kf, open(main, "w"), indent=1)
print(len(kf["findings"]), "findings;", sum(1 for f in kf["findings"] if str(f.get("status", "open")).startswith("fixed")), "fixed")
