#!/usr/bin/env python3
"""Runs the registered checks against the seeded changes kept under /verif/seeded/<id>/.

usage: lib/seeded.py [<seeded-id> ...] [--tier quick|thorough]

For each seeded change: git -C /repo apply patch.diff; ./check <property>; git -C /repo checkout -- .
(and removal of files the patch added).  /repo must be clean before.  Writes seeded/RESULTS.json.
"""
import json, os, subprocess, sys, time

V = os.path.dirname(os.path.dirname(os.path.abspath(__file__)))
REPO = "/repo"


def sh(cmd, **kw):
    return subprocess.run(cmd, shell=True, text=True, capture_output=True, **kw)


def main():
    argv = sys.argv[1:]
    tier = "quick"
    if "--tier" in argv:
        i = argv.index("--tier")
        tier = argv[i + 1]
        del argv[i:i + 2]
    tier0 = tier
    args = [a for a in argv if not a.startswith("--")]
    scratch = "--scratch" in sys.argv
    ids = args or sorted(d for d in os.listdir(os.path.join(V, "seeded")) if os.path.isdir(os.path.join(V, "seeded", d)))
    dirty = sh(f"git -C {REPO} status --porcelain --untracked-files=no").stdout.strip()
    if dirty:
        print("refusing: /repo has uncommitted changes to tracked files:\n" + dirty)
        sys.exit(2)
    res_path = os.path.join(V, "seeded", "RESULTS.json")
    try:
        results = json.load(open(res_path))
    except Exception:
        results = {}
    for sid in ids:
        d = os.path.join(V, "seeded", sid)
        meta = json.load(open(os.path.join(d, "meta.json")))
        props = meta["property"] if isinstance(meta["property"], list) else [meta["property"]]
        tier = tier0
        if str(meta.get("tier", "")).startswith("thorough"):
            tier = "thorough"  # changes that only the thorough tier can see (e.g. tables of other platforms)
        if scratch:
            # while other jobs use /repo: apply the change to a scratch worktree and point the check at it
            wt = "/tmp/seedrepo-" + sid
            sh(f"git -C {REPO} worktree remove --force {wt}")
            sh(f"git -C {REPO} worktree add --detach {wt} HEAD")
            ap = sh(f"git -C {wt} apply {d}/patch.diff")
            if ap.returncode != 0:
                print(sid, "patch does not apply:", ap.stderr[:300])
                results[sid] = dict(error="patch does not apply")
                sh(f"git -C {REPO} worktree remove --force {wt}")
                continue
            for p in props + meta.get("also_run", []):
                t0 = time.time()
                r = sh(f"cd {V} && VERIF_REPO={wt} ./check {p} --tier {tier}", timeout=7200)
                lines = [l for l in r.stdout.splitlines() if l.startswith("VIOLATION")]
                detected = r.returncode == 1 and bool(lines)
                results.setdefault(sid, {})[p] = dict(detected=detected, exit=r.returncode, violation=lines[:1], tier=tier,
                                                       wall_s=round(time.time() - t0), tail=r.stderr.strip().splitlines()[-1:])
                print(f"{sid:34s} {p} detected={detected} exit={r.returncode} {lines[:1]} ({time.time()-t0:.0f}s)", flush=True)
            sh(f"git -C {REPO} worktree remove --force {wt}")
            json.dump(results, open(res_path, "w"), indent=1)
            continue
        before = set(sh(f"git -C {REPO} status --porcelain").stdout.splitlines())
        ap = sh(f"git -C {REPO} apply {d}/patch.diff")
        if ap.returncode != 0:
            print(sid, "patch does not apply:", ap.stderr[:300])
            results[sid] = dict(error="patch does not apply")
            continue
        try:
            for p in props + meta.get("also_run", []):
                t0 = time.time()
                r = sh(f"cd {V} && VERIF_TIER={tier} ./check {p} --tier {tier}", timeout=7200)
                lines = [l for l in r.stdout.splitlines() if l.startswith("VIOLATION")]
                detected = r.returncode == 1 and bool(lines)
                results.setdefault(sid, {})[p] = dict(detected=detected, exit=r.returncode, violation=lines[:1], tier=tier,
                                                       wall_s=round(time.time() - t0), tail=r.stderr.strip().splitlines()[-1:] )
                print(f"{sid:28s} {p} detected={detected} exit={r.returncode} {lines[:1]} ({time.time()-t0:.0f}s)", flush=True)
        finally:
            sh(f"git -C {REPO} checkout -- .")
            after = set(sh(f"git -C {REPO} status --porcelain").stdout.splitlines())
            for l in after - before:
                if l.startswith("??"):
                    sh(f"rm -rf {REPO}/{l[3:]}")
        json.dump(results, open(res_path, "w"), indent=1)
    # evidence written while a seeded change was applied describes a mutated tree: never keep it
    sh(f"git -C {V} checkout -- evidence")


if __name__ == "__main__":
    main()
