COMMON_TRUSTED = [
    "translators and correspondence harness (/verif/harness, built from /repo with -tags verif)",
    "Go toolchain go1.23.5 as the reference for Go semantics",
]
