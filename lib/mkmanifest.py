#!/usr/bin/env python3
"""Regenerates MANIFEST.json from lib/props.py (claimed checks) and properties.jsonl."""
import json, os, subprocess, sys
V = os.path.dirname(os.path.dirname(os.path.abspath(__file__)))
sys.path.insert(0, os.path.join(V, "lib"))
from props import PROPS
ids = [json.loads(l)["id"] for l in open(os.path.join(V, "properties.jsonl"))]
hooks = subprocess.run(["git", "-C", "/repo", "log", "--format=%H %s"], capture_output=True, text=True).stdout.splitlines()
hook_commits = [l.split()[0] for l in hooks if "verif hook" in l]
checks = []
for pid in ids:
    if pid not in PROPS:
        continue
    c = PROPS[pid]
    checks.append({
        "property_id": pid, "quick_cmd": f"./check {pid} --tier quick", "thorough_cmd": f"./check {pid} --tier thorough",
        "evidence_file": f"/verif/evidence/{pid}.json", "replay_cmd_template": f"./check {pid} --replay {{path}}",
        "engine": "coq-models",
        "level_claimed": {"category": "proof", "text": c["level_text"], "design_ref": c.get("design_ref", "DESIGN.md section 3 " + pid)},
        "level_note": c["level_note"], "technique": c["technique"]})
m = {"version": 1, "setup_cmd": "./setup.sh",
     "hooks": {"guard": "verif", "enable": "go build -tags verif (harness module /verif/harness, replace github.com/traefik/yaegi => /repo)",
               "baseline_off_cmd": "cd /repo && go test -vet=off -count=1 -timeout 25m ./...",
               "source_commits": hook_commits, "add_only": True},
     "engines": [{"name": "coq-models", "path": "/verif/coq", "serves_properties": [c["property_id"] for c in checks],
                  "kind_free_text": "Coq 8.16 models (Y = mechanism as implemented, G = what Go / the contract prescribes) with theorems; /verif/harness (Go, -tags verif) runs implementation and reference on generated cases and writes cases_*.v that coqc evaluates against the models; translators regenerate table-like parts of the models from the source"}],
     "checks": checks,
     "notes": "Driver: ./check <id> [--tier quick|thorough]. Design, trusted base, findings: DESIGN.md, KNOWN_FINDINGS.json.",
     "not_applicable": [{"property_id": p, "reason": "not claimed yet: check under construction (see DESIGN.md section 3 for the planned model)"} for p in ids if p not in PROPS]}
json.dump(m, open(os.path.join(V, "MANIFEST.json"), "w"), indent=1)
print("MANIFEST.json:", len(checks), "checks,", len(m["not_applicable"]), "not applicable")
