#!/bin/sh
# merges a finished property branch (built in a worktree under /tmp/vw) into main
set -e
cd /verif
P=$1
if [ -n "$(git status --porcelain)" ]; then git add -A; git commit -qm "wip before merging $P"; fi
git merge --no-commit --no-ff prop-$P >/dev/null 2>&1 || true
# evidence of other properties committed by the branch is never taken; shared files keep main's version
for f in $(git diff --name-only --diff-filter=U); do
  case "$f" in
    evidence/*|MANIFEST.json) git checkout HEAD -- "$f" ;;
    *) echo "CONFLICT in $f"; exit 1 ;;
  esac
done
git checkout HEAD -- evidence/C17.json 2>/dev/null || true
git commit -qm "merge prop-$P" || true
git worktree remove --force /tmp/vw/$P 2>/dev/null || true
python3 lib/mkmanifest.py
git add -A; git commit -qm "manifest after merging $P" || true
git diff HEAD~2 --stat -- check harness/common.go harness/runners.go harness/main.go coq/Lib/Str.v AGENT_BRIEF.md | tail -8
