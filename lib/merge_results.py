#!/usr/bin/env python3
"""Merges seeded/RESULTS.json files written by lib/seeded.py in other checkouts of /verif (background
snapshots, scratch clones used so that /verif's own evidence is not disturbed) into /verif/seeded/RESULTS.json.
usage: lib/merge_results.py <other RESULTS.json> [<id> ...]   (ids default: entries that differ)"""
import json, os, sys
V = os.path.dirname(os.path.dirname(os.path.abspath(__file__)))
dst = os.path.join(V, "seeded", "RESULTS.json")
a = json.load(open(dst))
b = json.load(open(sys.argv[1]))
ids = sys.argv[2:] or [k for k in b if b[k] != a.get(k)]
n = 0
for k in ids:
    if k in b and os.path.isdir(os.path.join(V, "seeded", k)):
        a[k] = b[k]
        n += 1
json.dump(a, open(dst, "w"), indent=1, sort_keys=True)
print("merged", n, "entries")
