#!/bin/sh
# usage: confirm.sh <P> <slug> <demo-pkg> <needs>
export GOFLAGS=-mod=mod GOPROXY=off GOSUMDB=off GOTOOLCHAIN=local
P=$1; SID=$P-$2; PKG=$3; NEEDS=$4
cd /verif
python3 lib/confirm_seed.py /tmp/w5/out-$P $SID $P --demo-pkg $PKG --needs "$NEEDS" > /tmp/w5/confirm-$P.log 2>&1
if grep -q '^CONFIRMED' /tmp/w5/confirm-$P.log; then
  rsync -a /verif/seeded/$SID /tmp/vw/seedrun/seeded/
  # one check at a time in the seedrun clone
  flock /tmp/w5/seedrun.lock sh -c "cd /tmp/vw/seedrun && python3 lib/seeded.py --scratch $SID" > /tmp/w5/res-$P.log 2>&1
fi
echo finished >> /tmp/w5/confirm-$P.log
