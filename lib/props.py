"""Per-property configuration of the check driver: one fragment per property in lib/props.d/."""
import glob, importlib.util, os, sys

_here = os.path.dirname(os.path.abspath(__file__))
sys.path.insert(0, _here)
from common_cfg import COMMON_TRUSTED  # noqa: E402,F401

PROPS = {}
for _f in sorted(glob.glob(os.path.join(_here, "props.d", "*.py"))):
    _spec = importlib.util.spec_from_file_location("props_" + os.path.basename(_f)[:-3], _f)
    _m = importlib.util.module_from_spec(_spec)
    _spec.loader.exec_module(_m)
    PROPS[_m.CFG["id"]] = _m.CFG
