#!/bin/sh
# merges a finished branch of a /verif worktree (extension / strengthening rounds) into main.
# seeded/RESULTS.json and evidence/* never conflict-block: RESULTS entries are merged by lib/merge_results.py,
# evidence of the branch is taken (and regenerated afterwards by ./check on main).
set -e
cd /verif
B=$1; shift
git show $B:seeded/RESULTS.json > /tmp/RESULTS.$$.json
git merge --no-ff --no-commit $B >/dev/null 2>&1 || true
for f in $(git diff --name-only --diff-filter=U); do
  case "$f" in
    seeded/RESULTS.json) git checkout HEAD -- "$f" ;;
    evidence/*) git checkout --theirs -- "$f"; git add "$f" ;;
    KNOWN_FINDINGS.json) git show $(git merge-base HEAD $B):$f > /tmp/kf.base.$$; git show HEAD:$f > /tmp/kf.ours.$$; git show $B:$f > /tmp/kf.theirs.$$;
       python3 lib/merge_findings.py /tmp/kf.base.$$ /tmp/kf.ours.$$ /tmp/kf.theirs.$$ > $f; rm -f /tmp/kf.*.$$; git add $f ;;
    *) echo "CONFLICT in $f"; exit 1 ;;
  esac
done
git checkout HEAD -- seeded/RESULTS.json 2>/dev/null || true
[ $# -gt 0 ] && python3 lib/merge_results.py /tmp/RESULTS.$$.json "$@"
rm -f /tmp/RESULTS.$$.json
git add -A seeded/RESULTS.json
git commit -qm "merge $B"
git log --oneline | head -1
