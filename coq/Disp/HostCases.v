(** Evaluation of the wrapper-selection model on the cases written by the harness:
    (id, consumer name, verb class, methods yaegi attributes to the operand's type, method set of
    the operand for Go, interface observed to be served by yaegi, by compiled Go). *)
From Verif Require Import Lib.Str Disp.Host.
From Verif Require Import gen.MapTypes_gen.
From Coq Require Import NArith.

Definition hcase := (N * str * str * list str * list str * str * str)%type.

Definition host_mis_y (cs : list hcase) : list N :=
  flat_map (fun '(id, name, cls, iy, _, oy, _) =>
    if str_eqb (y_result maptypes_gen (consumer_of name cls) iy) oy then [] else [id]) cs.

Definition host_mis_g (cs : list hcase) : list N :=
  flat_map (fun '(id, name, cls, _, ig, _, og) =>
    if str_eqb (g_result (consumer_of name cls) ig) og then [] else [id]) cs.
