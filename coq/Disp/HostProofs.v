(** C05 — proofs about the wrapper-selection model (Disp/Host.v) and the finite obligations on the
    table regenerated from stdlib/maptypes.go and stdlib/wrapper-composed.go. *)
From Verif Require Import Lib.Str Disp.Host.
From Verif Require Import gen.MapTypes_gen.

Lemma subset_in a b : subset a b = true -> forall x, In x a -> In x b.
Proof.
  induction a as [|y a IH]; cbn [subset]; [intros _ x []|].
  intros H x [<-|Hx]; apply andb_true_iff in H as [H1 H2]; [apply mem_In; exact H1|apply IH; assumption].
Qed.

Lemma in_subset a b : (forall x, In x a -> In x b) -> subset a b = true.
Proof.
  induction a as [|y a IH]; cbn [subset]; [reflexivity|]. intros H. apply andb_true_iff. split.
  - apply mem_In. apply H. left; reflexivity.
  - apply IH. intros x Hx. apply H. right; exact Hx.
Qed.

Lemma subset_trans a b c : subset a b = true -> subset b c = true -> subset a c = true.
Proof.
  intros H1 H2. apply in_subset. intros x Hx. eapply subset_in; [exact H2|]. eapply subset_in; eassumption.
Qed.

(** The general fact behind the finite checks, for every table, consumer and method set: when the
    wrapper shows only methods the value has, and it shows the methods of the interface the
    compiled function would find on the value itself, the compiled function finds the same interface. *)
Lemma first_probe_agree vis impl ps p :
  subset vis impl = true -> first_probe impl ps = Some p -> subset (snd p) vis = true ->
  first_probe vis ps = Some p.
Proof.
  intros Hvi. induction ps as [|q ps IH]; cbn [first_probe]; [discriminate|].
  destruct (subset (snd q) impl) eqn:Ei.
  - intros [= <-] Hv. rewrite Hv. reflexivity.
  - intros Hf Hv. destruct (subset (snd q) vis) eqn:Ev.
    + rewrite (subset_trans _ _ _ Ev Hvi) in Ei. discriminate.
    + apply IH; assumption.
Qed.

Theorem host_agree : forall tbl c impl p,
  subset (y_visible tbl c impl) impl = true ->
  first_probe impl (c_probes c) = Some p -> subset (snd p) (y_visible tbl c impl) = true ->
  y_result tbl c impl = g_result c impl.
Proof.
  intros tbl c impl p Hv Hp Hs. unfold y_result, g_result.
  rewrite (first_probe_agree _ _ _ _ Hv Hp Hs), Hp. reflexivity.
Qed.

(** the finite obligations on the lists as they stand in the source now *)
Lemma registered_ok_now : registered_ok maptypes_gen = true.
Proof. vm_compute. reflexivity. Qed.

Lemma order_ok_now : order_ok maptypes_gen = true.
Proof. vm_compute. reflexivity. Qed.

(** witnesses: interfaces that compiled code probes for and that no registered wrapper carries *)
Lemma fmt_error_refuted :
  y_result maptypes_gen (consumer_of (s "fmt.Println") (s "str")) [s "Error"; s "String"] = s "Stringer"
  /\ g_result (consumer_of (s "fmt.Println") (s "str")) [s "Error"; s "String"] = s "error"
  /\ y_result maptypes_gen (consumer_of (s "fmt.Sprint") (s "str")) [s "Error"] = s "none"
  /\ g_result (consumer_of (s "fmt.Sprint") (s "str")) [s "Error"] = s "error".
Proof. vm_compute. repeat split. Qed.

Lemma fmt_gostringer_refuted :
  y_result maptypes_gen (consumer_of (s "fmt.Sprintf") (s "sharp")) [s "GoString"; s "String"] = s "none"
  /\ g_result (consumer_of (s "fmt.Sprintf") (s "sharp")) [s "GoString"; s "String"] = s "GoStringer".
Proof. vm_compute. split; reflexivity. Qed.

Lemma string_writer_refuted :
  y_result maptypes_gen write_string [s "Write"; s "WriteString"] = s "Writer"
  /\ g_result write_string [s "Write"; s "WriteString"] = s "StringWriter".
Proof. vm_compute. split; reflexivity. Qed.

Lemma log_print_refuted :
  y_result maptypes_gen (consumer_of (s "log.Print") (s "str")) [s "String"] = s "none"
  /\ g_result (consumer_of (s "log.Print") (s "str")) [s "String"] = s "Stringer".
Proof. vm_compute. split; reflexivity. Qed.

Lemma errors_is_refuted :
  y_result maptypes_gen (consumer_of (s "errors.Is") (s "")) [s "Error"; s "Is"] = s "error"
  /\ g_result (consumer_of (s "errors.Is") (s "")) [s "Error"; s "Is"] = s "Is"
  /\ y_result maptypes_gen (consumer_of (s "errors.Unwrap") (s "")) [s "Error"; s "Unwrap"] = s "error"
  /\ g_result (consumer_of (s "errors.Unwrap") (s "")) [s "Error"; s "Unwrap"] = s "Unwrap".
Proof. vm_compute. repeat split. Qed.

(** the composed wrappers: every subset of {Read, WriteTo}, {Write, ReadFrom}, {Header, Write, WriteHeader, Hijack}
    containing the static interface is served as in compiled Go, whatever the provenance of the methods *)
Lemma composed_ok_now :
  consumer_ok maptypes_gen copy_src = true /\ consumer_ok maptypes_gen copy_dst = true /\ consumer_ok maptypes_gen http_rw = true
  /\ y_result maptypes_gen copy_src [s "Read"; s "WriteTo"] = s "WriterTo"
  /\ y_result maptypes_gen copy_dst [s "ReadFrom"; s "Write"; s "WriteString"] = s "ReaderFrom"
  /\ y_result maptypes_gen http_rw (map s ["Header"; "Hijack"; "Write"; "WriteHeader"]%string) = s "Hijacker".
Proof. vm_compute. repeat split. Qed.

Lemma host_side_inhabited :
  y_result maptypes_gen (consumer_of (s "fmt.Sprintf") (s "str")) [s "Format"; s "String"] = s "Formatter"
  /\ g_result (consumer_of (s "fmt.Sprintf") (s "str")) [s "Format"; s "String"] = s "Formatter"
  /\ y_result maptypes_gen copy_src [s "Read"; s "WriteTo"] = s "WriterTo"
  /\ y_result maptypes_gen json_consumer [s "MarshalJSON"; s "MarshalText"] = s "Marshaler".
Proof. vm_compute. repeat split. Qed.
