(** Evaluation of the C05 models on the cases written by the harness (correspondence check).
    [c05_mis_y]: ids of the cases where the implementation's observed answer differs from Y;
    [c05_mis_g]: ids of the cases where the reference's (go/types, compiled Go) answer differs from G. *)
From Verif Require Import Lib.Str Disp.Model.
From Coq Require Import NArith.

Definition opt_eqb {A} (e : A -> A -> bool) (a b : option A) : bool :=
  match a, b with
  | Some x, Some y => e x y
  | None, None => true
  | _, _ => false
  end.

Fixpoint incl_str (a b : list str) : bool :=
  match a with [] => true | x :: a' => mem x b && incl_str a' b end.

Definition set_eqb (a b : list str) : bool := incl_str a b && incl_str b a.

(** function level: raw lookupField / lookupMethod / methodDepth, and go/types' LookupFieldOrMethod *)
Definition fl_case := (N * tid * str * option (list nat) * option (list nat) * option nat * res)%type.

Definition fl_ok_y (U : universe) (c : fl_case) : bool :=
  let '(_, t, name, of, om, od, _) := c in
  opt_eqb list_nat_eqb (y_lookup_field U t name) of
  && opt_eqb list_nat_eqb (option_map fst (y_lookup_method U t name)) om
  && opt_eqb Nat.eqb (y_method_depth U t name) od.

Definition fl_ok_g (U : universe) (c : fl_case) : bool :=
  let '(_, t, name, _, _, _, ref) := c in res_eqb (g_select U t name) ref.

(** function level: key set of methods(), go/types' method set *)
Definition ms_case := (N * tid * bool * list str * list str)%type.

Definition ms_ok_y (U : universe) (c : ms_case) : bool :=
  let '(_, t, _, yn, _) := c in set_eqb (y_method_names U t) yn.
Definition ms_ok_g (U : universe) (c : ms_case) : bool :=
  let '(_, t, ptr, _, gn) := c in set_eqb (g_method_names U t ptr) gn.

(** function level: implements(), go/types' Implements *)
Definition impl_case := (N * tid * bool * nat * bool * bool)%type.

Definition impl_ok_y (U : universe) (c : impl_case) : bool :=
  let '(_, t, _, j, i, _) := c in Bool.eqb (y_implements U t j) i.
Definition impl_ok_g (U : universe) (c : impl_case) : bool :=
  let '(_, t, ptr, j, _, r) := c in Bool.eqb (g_implements U t ptr j) r.

(** program level: which field / method a selector reached, decoded from the printed identity and state *)
Inductive form := FSel | FDyn | FExprBad.
Inductive obs := OSel (r : res) | OPanic | OOther.

Definition obs_eqb (a b : obs) : bool :=
  match a, b with
  | OSel x, OSel y => res_eqb x y
  | OPanic, OPanic | OOther, OOther => true
  | _, _ => false
  end.

Definition psel_case := (N * tid * str * form * obs * obs)%type.

Definition y_obs (U : universe) (t : tid) (name : str) (f : form) : obs :=
  match f with
  | FSel => OSel (y_select U t name)
  | FDyn => OSel (y_dyn U t name)
  | FExprBad => OPanic   (* method expressions other than T.M(v) / ( *T).M(p) on T's own method: reflect panics *)
  end.

Definition psel_ok_y (U : universe) (c : psel_case) : bool :=
  let '(_, t, name, f, oy, _) := c in obs_eqb (y_obs U t name f) oy.
Definition psel_ok_g (U : universe) (c : psel_case) : bool :=
  let '(_, t, name, _, _, og) := c in obs_eqb (OSel (g_select U t name)) og.

(** program level: assertions *)
Definition aobs_eqb (a b : aobs) : bool :=
  match a, b with
  | ATrue, ATrue | AFalse, AFalse | APanic, APanic | ALate, ALate | AOther, AOther => true
  | _, _ => false
  end.

Definition assert_case := (N * srck * list (str * N) * dyn * target * aform * aobs * aobs)%type.

Definition assert_ok_y (U : universe) (c : assert_case) : bool :=
  let '(_, src, srcm, d, tg, f, oy, _) := c in aobs_eqb (y_assert U src srcm d tg f) oy.
Definition assert_ok_g (U : universe) (c : assert_case) : bool :=
  let '(_, _, _, d, tg, f, _, og) := c in aobs_eqb (g_assert U d tg f) og.

(** program level: type switches (index of the clause taken) *)
Definition switch_case := (N * dyn * list target * option nat * option nat)%type.

Definition switch_ok_y (U : universe) (c : switch_case) : bool :=
  let '(_, d, cs, oy, _) := c in opt_eqb Nat.eqb (Some (y_switch d cs)) oy.
Definition switch_ok_g (U : universe) (c : switch_case) : bool :=
  let '(_, d, cs, _, og) := c in opt_eqb Nat.eqb (Some (g_switch U d cs)) og.

Definition ucase := (universe * list fl_case * list ms_case * list impl_case * list psel_case * list assert_case * list switch_case)%type.

Definition bad {A} (ok : A -> bool) (id : A -> N) (l : list A) : list N :=
  flat_map (fun c => if ok c then [] else [id c]) l.

Definition id7 {A B C D E F} (c : N * A * B * C * D * E * F) : N := let '(i, _, _, _, _, _, _) := c in i.
Definition id5 {A B C D} (c : N * A * B * C * D) : N := let '(i, _, _, _, _) := c in i.
Definition id6 {A B C D E} (c : N * A * B * C * D * E) : N := let '(i, _, _, _, _, _) := c in i.
Definition id8 {A B C D E F G} (c : N * A * B * C * D * E * F * G) : N := let '(i, _, _, _, _, _, _, _) := c in i.

Definition c05_mis_y (cs : list ucase) : list N :=
  flat_map (fun '(U, fl, ms, im, ps, asr, sw) =>
    bad (fl_ok_y U) id7 fl ++ bad (ms_ok_y U) id5 ms ++ bad (impl_ok_y U) id6 im
    ++ bad (psel_ok_y U) id6 ps ++ bad (assert_ok_y U) id8 asr ++ bad (switch_ok_y U) id5 sw) cs.

Definition c05_mis_g (cs : list ucase) : list N :=
  flat_map (fun '(U, fl, ms, im, ps, asr, sw) =>
    bad (fl_ok_g U) id7 fl ++ bad (ms_ok_g U) id5 ms ++ bad (impl_ok_g U) id6 im
    ++ bad (psel_ok_g U) id6 ps ++ bad (assert_ok_g U) id8 asr ++ bad (switch_ok_g U) id5 sw) cs.
