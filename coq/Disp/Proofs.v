(** C05 — proofs about the selector, method-set, assertion and type-switch models. *)
From Verif Require Import Lib.Str Disp.Model.
From Coq Require Import NArith Lia.

Set Implicit Arguments.

(* ------------------------------------------------------------------------------------------ *)
(** * Paths of fields *)

(** [reach desc U t p t']: following the index path [p] from struct [t] through fields that
    [desc] enters leads to struct [t']. *)
Inductive reach (desc : field -> option tid) (U : universe) : tid -> list nat -> tid -> Prop :=
| reach_nil t : reach desc U t [] t
| reach_cons t i p t1 t' d f :
    sdecl_of U t = Some d -> nth_error (s_fields d) i = Some f -> desc f = Some t1 ->
    reach desc U t1 p t' -> reach desc U t (i :: p) t'.

Fixpoint iter_level (U : universe) (n : nat) (lvl : list entry) : list entry :=
  match n with 0 => lvl | S k => iter_level U k (next_level U lvl) end.

Lemma embeds_in p i fs k f t' :
  nth_error fs k = Some f -> embed_target f = Some t' -> In (p ++ [i + k], t') (embeds p i fs).
Proof.
  revert i k; induction fs as [|g fs IH]; intros i k Hn He; [destruct k; discriminate|].
  destruct k as [|k]; cbn [nth_error] in Hn; cbn [embeds].
  - injection Hn as ->. rewrite He. rewrite Nat.add_0_r. apply in_or_app; left; left; reflexivity.
  - apply in_or_app; right. replace (i + S k) with (S i + k) by lia. apply IH; assumption.
Qed.

Lemma embeds_len p i fs e : In e (embeds p i fs) -> length (fst e) = S (length p).
Proof.
  revert i; induction fs as [|g fs IH]; intros i H; [destruct H|].
  cbn [embeds] in H. apply in_app_or in H as [H|H]; [|eapply IH; eassumption].
  destruct (embed_target g); [|destruct H].
  destruct H as [<-|[]]. cbn [fst]. rewrite app_length; cbn; lia.
Qed.

Lemma next_level_in U lvl q t i t' d f :
  In (q, t) lvl -> sdecl_of U t = Some d -> nth_error (s_fields d) i = Some f -> embed_target f = Some t' ->
  In (q ++ [i], t') (next_level U lvl).
Proof.
  intros Hin Hd Hn He. unfold next_level. apply in_flat_map. exists (q, t). split; [assumption|].
  cbn [fst snd]. rewrite Hd. apply (embeds_in q 0 (s_fields d) i Hn He).
Qed.

Lemma next_level_len U lvl m :
  (forall e, In e lvl -> length (fst e) = m) -> forall e, In e (next_level U lvl) -> length (fst e) = S m.
Proof.
  intros H e He. unfold next_level in He. apply in_flat_map in He as [[q t] [Hin He]].
  cbn [fst snd] in He. destruct (sdecl_of U t); [|destruct He].
  apply embeds_len in He. rewrite He. f_equal. apply (H (q, t) Hin).
Qed.

Lemma iter_level_len U n : forall lvl m,
  (forall e, In e lvl -> length (fst e) = m) -> forall e, In e (iter_level U n lvl) -> length (fst e) = m + n.
Proof.
  induction n as [|n IH]; intros lvl m H e He; cbn [iter_level] in He.
  - rewrite Nat.add_0_r. auto.
  - replace (m + S n) with (S m + n) by lia. eapply IH; [|eassumption]. apply next_level_len; assumption.
Qed.

Lemma reach_in_level U t p t' :
  reach embed_target U t p t' -> forall lvl q0, In (q0, t) lvl -> In (q0 ++ p, t') (iter_level U (length p) lvl).
Proof.
  induction 1 as [t|t i p t1 t' d f Hd Hn He _ IH]; intros lvl q0 Hin.
  - rewrite app_nil_r. exact Hin.
  - cbn [length iter_level]. replace (q0 ++ i :: p) with ((q0 ++ [i]) ++ p) by (rewrite <- app_assoc; reflexivity).
    apply IH. eapply next_level_in; eassumption.
Qed.

(* ------------------------------------------------------------------------------------------ *)
(** * Hits *)

Lemma field_hits_in name p i fs k f :
  nth_error fs k = Some f -> str_eqb (f_name f) name = true -> In (SField (p ++ [i + k])) (field_hits name p i fs).
Proof.
  revert i k; induction fs as [|g fs IH]; intros i k Hn He; [destruct k; discriminate|].
  destruct k as [|k]; cbn [nth_error] in Hn; cbn [field_hits].
  - injection Hn as ->. rewrite He, Nat.add_0_r. left; reflexivity.
  - apply in_or_app; right. replace (i + S k) with (S i + k) by lia. apply IH; assumption.
Qed.

Lemma field_hits_depth name p i fs x : In x (field_hits name p i fs) -> sel_depth x = length p.
Proof.
  revert i; induction fs as [|g fs IH]; intros i H; [destruct H|].
  cbn [field_hits] in H. apply in_app_or in H as [H|H]; [|eapply IH; eassumption].
  destruct (str_eqb (f_name g) name); [|destruct H]. destruct H as [<-|[]].
  cbn [sel_depth]. rewrite app_length; cbn; lia.
Qed.

Lemma meth_hits_depth name p ms x : In x (meth_hits name p ms) -> sel_depth x = length p.
Proof. unfold meth_hits. intros H. apply in_map_iff in H as [m [<- _]]. reflexivity. Qed.

Lemma hits_depth U name e x : In x (hits U name e) -> sel_depth x = length (fst e).
Proof.
  unfold hits. destruct (sdecl_of U (snd e)); [|intros []].
  intros H. apply in_app_or in H as [H|H]; [eapply field_hits_depth|eapply meth_hits_depth]; eassumption.
Qed.

Lemma field_index_spec name fs : forall i j,
  field_index name i fs = Some j -> exists k f, j = i + k /\ nth_error fs k = Some f /\ str_eqb (f_name f) name = true.
Proof.
  induction fs as [|g fs IH]; intros i j H; [discriminate|]. cbn [field_index] in H.
  destruct (str_eqb (f_name g) name) eqn:E.
  - injection H as <-. exists 0, g. repeat split; [lia|assumption].
  - apply IH in H as [k [f [-> [Hn He]]]]. exists (S k), f. repeat split; [lia|assumption|assumption].
Qed.

Lemma get_method_spec name ms m : get_method name ms = Some m -> In m ms /\ str_eqb (m_name m) name = true.
Proof.
  induction ms as [|g ms IH]; [discriminate|]. cbn [get_method].
  destruct (str_eqb (m_name g) name) eqn:E.
  - intros [= <-]. split; [left; reflexivity|assumption].
  - intros H. apply IH in H as [H1 H2]. split; [right|]; assumption.
Qed.

(** a field found by following embedded fields is a hit of the level of its depth *)
Lemma field_is_hit U name t q t' d i f :
  reach embed_target U t q t' -> sdecl_of U t' = Some d -> nth_error (s_fields d) i = Some f ->
  str_eqb (f_name f) name = true ->
  In (SField (q ++ [i])) (flat_map (hits U name) (iter_level U (length q) [([], t)])).
Proof.
  intros Hr Hd Hn He. apply in_flat_map. exists (q, t'). split.
  - apply (reach_in_level Hr [([], t)] []). left; reflexivity.
  - unfold hits; cbn [fst snd]. rewrite Hd. apply in_or_app; left.
    apply (field_hits_in name q 0 (s_fields d) i Hn He).
Qed.

Lemma meth_is_hit U name t q t' d m :
  reach embed_target U t q t' -> sdecl_of U t' = Some d -> get_method name (s_meths d) = Some m ->
  In (SMethod q m) (flat_map (hits U name) (iter_level U (length q) [([], t)])).
Proof.
  intros Hr Hd Hg. apply get_method_spec in Hg as [Hin He]. apply in_flat_map. exists (q, t'). split.
  - apply (reach_in_level Hr [([], t)] []). left; reflexivity.
  - unfold hits; cbn [fst snd]. rewrite Hd. apply in_or_app; right. unfold meth_hits.
    apply in_map_iff. exists m. split; [reflexivity|]. apply filter_In. split; assumption.
Qed.

Lemma level_hit_depth U name t n x :
  In x (flat_map (hits U name) (iter_level U n [([], t)])) -> sel_depth x = n.
Proof.
  intros H. apply in_flat_map in H as [e [Hin Hx]]. apply hits_depth in Hx. rewrite Hx.
  pose proof (@iter_level_len U n [([], t)] 0) as L. cbn [plus] in L. apply L; [|assumption].
  intros e' [<-|[]]. reflexivity.
Qed.

(* ------------------------------------------------------------------------------------------ *)
(** * G finds the unique hit of some level *)

Lemma g_levels_sel fuel U name : forall lvl b,
  g_levels fuel U name lvl = RSel b -> exists n, flat_map (hits U name) (iter_level U n lvl) = [b].
Proof.
  induction fuel as [|k IH]; intros lvl b H; [discriminate|]. cbn [g_levels] in H.
  destruct (flat_map (hits U name) lvl) as [|x [|y l]] eqn:E.
  - apply IH in H as [n Hn]. exists (S n). exact Hn.
  - injection H as <-. exists 0. exact E.
  - discriminate.
Qed.

(* ------------------------------------------------------------------------------------------ *)
(** * The depth-first searches return genuine members *)

Lemma scan_sound A desc (rec : list tid -> tid -> list tid * option A) cons fs : forall i seen seen' r,
  scan desc rec cons fs i seen = (seen', Some r) ->
  exists k f t1 s1 s2 r1, nth_error fs k = Some f /\ desc f = Some t1 /\ rec s1 t1 = (s2, Some r1) /\ r = cons (i + k) r1.
Proof.
  induction fs as [|g fs IH]; intros i seen seen' r H; [discriminate|]. cbn [scan] in H.
  destruct (desc g) as [t1|] eqn:Ed.
  - destruct (rec seen t1) as [s2 [r1|]] eqn:Er.
    + injection H as <- <-. exists 0, g, t1, seen, s2, r1. rewrite Nat.add_0_r. auto.
    + apply IH in H as [k [f [t2 [s1 [s3 [r2 [Hn [Hd [Hr ->]]]]]]]]].
      exists (S k), f, t2, s1, s3, r2. repeat split; try assumption. f_equal; lia.
  - apply IH in H as [k [f [t2 [s1 [s3 [r2 [Hn [Hd [Hr ->]]]]]]]]].
    exists (S k), f, t2, s1, s3, r2. repeat split; try assumption. f_equal; lia.
Qed.

Lemma y_field_sound U name fuel : forall seen t seen' p,
  y_field fuel U name seen t = (seen', Some p) ->
  exists q i t' d f, p = q ++ [i] /\ reach any_struct U t q t' /\ sdecl_of U t' = Some d
                     /\ nth_error (s_fields d) i = Some f /\ str_eqb (f_name f) name = true.
Proof.
  induction fuel as [|k IH]; intros seen t seen' p H; [discriminate|]. cbn [y_field] in H.
  destruct (memb t seen); [discriminate|].
  destruct (sdecl_of U t) as [d|] eqn:Ed; [|discriminate].
  destruct (field_index name 0 (s_fields d)) as [j|] eqn:Ef.
  - injection H as _ <-. apply field_index_spec in Ef as [k' [f [-> [Hn He]]]].
    exists [], k', t, d, f. repeat split; try assumption. apply reach_nil.
  - apply scan_sound in H as [k' [f [t1 [s1 [s2 [r1 [Hn [Hd [Hr ->]]]]]]]]].
    apply IH in Hr as [q [i [t' [d' [f' [-> [Hreach [Hd' [Hn' He']]]]]]]]].
    exists (k' :: q), i, t', d', f'. repeat split; try assumption.
    eapply reach_cons; eassumption.
Qed.

Lemma y_meth_sound U name fuel : forall seen t seen' p m,
  y_meth fuel U name seen t = (seen', Some (p, m)) ->
  exists t' d, reach embed_target U t p t' /\ sdecl_of U t' = Some d /\ get_method name (s_meths d) = Some m.
Proof.
  induction fuel as [|k IH]; intros seen t seen' p m H; [discriminate|]. cbn [y_meth] in H.
  destruct (memb t seen); [discriminate|].
  destruct (sdecl_of U t) as [d|] eqn:Ed; [|discriminate].
  destruct (get_method name (s_meths d)) as [m0|] eqn:Eg.
  - injection H as _ <- <-. exists t, d. repeat split; try assumption. apply reach_nil.
  - apply scan_sound in H as [k' [f [t1 [s1 [s2 [[p1 m1] [Hn [Hd [Hr Heq]]]]]]]]].
    cbn [fst snd] in Heq. injection Heq as -> ->.
    apply IH in Hr as [t' [d' [Hreach [Hd' Hg']]]].
    exists t', d'. repeat split; try assumption. eapply reach_cons; eassumption.
Qed.

(** without named struct-typed fields, the fields lookupField enters are the embedded ones *)
Lemma no_named_any_struct U t d i f t1 :
  no_named_struct_fields U = true -> sdecl_of U t = Some d -> nth_error (s_fields d) i = Some f ->
  any_struct f = Some t1 -> embed_target f = Some t1.
Proof.
  intros HU Hd Hn Ha. unfold no_named_struct_fields in HU. rewrite forallb_forall in HU.
  apply nth_error_In in Hd. specialize (HU d Hd). rewrite forallb_forall in HU.
  apply nth_error_In in Hn. specialize (HU f Hn).
  unfold any_struct in Ha. unfold embed_target. destruct (f_styp f) as [[b t2]|]; [|discriminate].
  rewrite HU. exact Ha.
Qed.

Lemma reach_any_embed U t p t' :
  no_named_struct_fields U = true -> reach any_struct U t p t' -> reach embed_target U t p t'.
Proof.
  intros HU. induction 1 as [t|t i p t1 t' d f Hd Hn He _ IH]; [apply reach_nil|].
  eapply reach_cons; try eassumption. eapply no_named_any_struct; eassumption.
Qed.

(** whatever yaegi's selector resolution returns is a hit of the level of its depth *)
Lemma y_select_is_hit U t name a :
  no_named_struct_fields U = true -> y_select U t name = RSel a ->
  In a (flat_map (hits U name) (iter_level U (sel_depth a) [([], t)])).
Proof.
  intros HU H.
  assert (HF : forall ti, y_lookup_field U t name = Some ti ->
                 In (SField ti) (flat_map (hits U name) (iter_level U (sel_depth (SField ti)) [([], t)]))).
  { intros ti Hf. unfold y_lookup_field in Hf.
    destruct (y_field (S (length (structs U))) U name [] t) as [s' o] eqn:E. cbn [snd] in Hf. subst o.
    apply y_field_sound in E as [q [i [t' [d [f [-> [Hr [Hd [Hn He]]]]]]]]].
    cbn [sel_depth]. rewrite app_length; cbn [length]. replace (pred (length q + 1)) with (length q) by lia.
    eapply field_is_hit; try eassumption. apply reach_any_embed; assumption. }
  assert (HM : forall mp m, y_lookup_method U t name = Some (mp, m) ->
                 In (SMethod mp m) (flat_map (hits U name) (iter_level U (length mp) [([], t)]))).
  { intros mp m Hm. unfold y_lookup_method in Hm.
    destruct (y_meth (S (length (structs U))) U name [] t) as [s' o] eqn:E. cbn [snd] in Hm. subst o.
    apply y_meth_sound in E as [t' [d [Hr [Hd Hg]]]]. eapply meth_is_hit; eassumption. }
  unfold y_select in H.
  destruct (y_lookup_field U t name) as [ti|] eqn:Ef.
  - destruct (y_lookup_method U t name) as [[mp m]|] eqn:Em.
    + destruct (length mp <? length ti) eqn:E1.
      * injection H as <-. cbn [sel_depth]. apply HM; reflexivity.
      * destruct (length mp =? length ti); [discriminate|]. injection H as <-. apply HF; reflexivity.
    + injection H as <-. apply HF; reflexivity.
  - destruct (y_binfield_returns _ U t); [|discriminate].
    destruct (y_lookup_method U t name) as [[mp m]|] eqn:Em; [|discriminate].
    injection H as <-. cbn [sel_depth]. apply HM; reflexivity.
Qed.

(** ** C05_lookup_partial *)
Theorem lookup_agree : forall U t name,
  no_named_struct_fields U = true -> dfs_first_is_shallowest U t name = true ->
  y_select U t name = g_select U t name.
Proof.
  intros U t name HU H. unfold dfs_first_is_shallowest in H.
  destruct (y_select U t name) as [| | |a] eqn:Ey; destruct (g_select U t name) as [| | |b] eqn:Eg; try discriminate; try reflexivity.
  apply Nat.eqb_eq in H.
  pose proof (y_select_is_hit U t name HU Ey) as Ha.
  unfold g_select in Eg. apply g_levels_sel in Eg as [n Hn].
  assert (Hb : In b (flat_map (hits U name) (iter_level U n [([], t)]))) by (rewrite Hn; left; reflexivity).
  apply level_hit_depth in Hb. rewrite H, Hb, Hn in Ha. destruct Ha as [<-|[]]. reflexivity.
Qed.

(* ------------------------------------------------------------------------------------------ *)
(** * Witnesses: the faithful model violates the property *)

Definition plainF (n : string) : field := mkF (s n) false None.
Definition embF (n : string) (t : tid) : field := mkF (s n) true (Some (false, t)).

(** type A struct{ X int };  func (A) M()      -- T0
    type B struct{ A }                          -- T1
    type D struct{ X int };  func (D) M()      -- T2
    type C struct{ B; D }                       -- T3 *)
Definition U_depth : universe :=
  mkU [ mkS [plainF "X"] [mkM (s "M") false 0 10];
        mkS [embF "A" 0] [];
        mkS [plainF "X"] [mkM (s "M") false 0 20];
        mkS [embF "B" 1; embF "D" 2] [] ] [mkI [(s "M", 0%N)] []].

Lemma lookup_refuted :
  (y_select U_depth 3 (s "M") = RSel (SMethod [0; 0] (mkM (s "M") false 0 10)) /\ g_select U_depth 3 (s "M") = RSel (SMethod [1] (mkM (s "M") false 0 20)))
  /\ (y_select U_depth 3 (s "X") = RSel (SField [0; 0; 0]) /\ g_select U_depth 3 (s "X") = RSel (SField [1; 0]))
  /\ no_named_struct_fields U_depth = true /\ dfs_first_is_shallowest U_depth 3 (s "M") = false.
Proof. vm_compute. repeat split. Qed.

(** type B struct{ X int }; type D struct{ X int }; type T struct{ b B; D }: t.X is t.D.X, yaegi reads t.b.X *)
Definition U_named : universe :=
  mkU [ mkS [plainF "X"] []; mkS [plainF "X"] [];
        mkS [mkF (s "b") false (Some (false, 0)); embF "D" 1] [] ] [].

Lemma named_field_refuted :
  y_select U_named 2 (s "X") = RSel (SField [0; 0]) /\ g_select U_named 2 (s "X") = RSel (SField [1; 0])
  /\ dfs_first_is_shallowest U_named 2 (s "X") = true /\ no_named_struct_fields U_named = false.
Proof. vm_compute. repeat split. Qed.

(** type E struct{ Y int }; func (E) X();  type T struct{ X int; E }: t.X is the field, yaegi: "ambiguous selector" *)
Definition U_fm : universe :=
  mkU [ mkS [plainF "Y"] [mkM (s "X") false 0 1]; mkS [plainF "X"; embF "E" 0] [] ] [].

Lemma field_method_refuted :
  y_select U_fm 1 (s "X") = RAmbig /\ g_select U_fm 1 (s "X") = RSel (SField [0]).
Proof. vm_compute. split; reflexivity. Qed.

(** type A struct{ *B; X int }; func (A) M();  type B struct{ *A; Y int }: a.M() never returns from lookupBinField *)
Definition U_cycle : universe :=
  mkU [ mkS [mkF (s "B") true (Some (true, 1)); plainF "X"] [mkM (s "M") false 0 1];
        mkS [mkF (s "A") true (Some (true, 0)); plainF "Y"] [] ] [].

Lemma embed_cycle_refuted :
  y_select U_cycle 0 (s "M") = RCrash /\ g_select U_cycle 0 (s "M") = RSel (SMethod [] (mkM (s "M") false 0 1))
  /\ y_select U_cycle 0 (s "X") = RSel (SField [1]).
Proof. vm_compute. repeat split. Qed.

(** non-vacuity of the side condition: promoted and shadowed members where the first hit is the shallowest *)
Definition U_ok : universe :=
  mkU [ mkS [plainF "X"; plainF "Y"] [mkM (s "M") false 0 1; mkM (s "P") true 0 2];
        mkS [embF "T0" 0; plainF "X"] [mkM (s "M") true 0 3];
        mkS [mkF (s "T1") true (Some (true, 1)); plainF "Z"] [] ] [].

Lemma lookup_side_inhabited :
  no_named_struct_fields U_ok = true
  /\ dfs_first_is_shallowest U_ok 2 (s "M") = true /\ g_select U_ok 2 (s "M") = RSel (SMethod [0] (mkM (s "M") true 0 3))
  /\ dfs_first_is_shallowest U_ok 2 (s "P") = true /\ g_select U_ok 2 (s "P") = RSel (SMethod [0; 0] (mkM (s "P") true 0 2))
  /\ dfs_first_is_shallowest U_ok 2 (s "Y") = true /\ g_select U_ok 2 (s "Y") = RSel (SField [0; 0; 1])
  /\ dfs_first_is_shallowest U_ok 2 (s "X") = true /\ g_select U_ok 2 (s "X") = RSel (SField [0; 1]).
Proof. vm_compute. repeat split. Qed.

(* ------------------------------------------------------------------------------------------ *)
(** * Type switches *)

Lemma first_index_ext A (p q : A -> bool) l : forall i,
  (forall x, In x l -> p x = q x) -> first_index p l i = first_index q l i.
Proof.
  induction l as [|x l IH]; intros i H; [reflexivity|]. cbn [first_index].
  rewrite (H x (or_introl eq_refl)). destruct (q x); [reflexivity|]. apply IH. intros y Hy. apply H. right; exact Hy.
Qed.

(** ** C05_switch_partial: clauses naming concrete types are chosen as in Go, for every dynamic type *)
Theorem switch_agree : forall U d cases,
  forallb concrete_target cases = true -> y_switch d cases = g_switch U d cases.
Proof.
  intros U d cases H. unfold y_switch, g_switch. apply first_index_ext.
  intros tg Hin. rewrite forallb_forall in H. specialize (H tg Hin).
  destruct tg; try discriminate; destruct d as [[t' p']|]; reflexivity.
Qed.

Lemma switch_refuted :
  y_switch (Some (3, false)) [TIface 0; TStruct 3] = 1 /\ g_switch U_depth (Some (3, false)) [TIface 0; TStruct 3] = 0
  /\ y_switch None [TNil] = 1 /\ g_switch U_depth None [TNil] = 0.
Proof. vm_compute. repeat split. Qed.

(* ------------------------------------------------------------------------------------------ *)
(** * Maps *)

Lemma keys_mset k v m : keys (mset k v m) = if mem k (keys m) then keys m else keys m ++ [k].
Proof.
  induction m as [|[k' v'] m IH]; [reflexivity|]. cbn [mset keys map fst mem].
  destruct (str_eqb k' k) eqn:E; cbn [orb keys map fst]; [reflexivity|].
  fold (keys (mset k v m)). fold (keys m). rewrite IH. destruct (mem k (keys m)); reflexivity.
Qed.

Lemma keys_mset_mono k v m x : In x (keys m) -> In x (keys (mset k v m)).
Proof. rewrite keys_mset. destruct (mem k (keys m)); [auto|]. intros H; apply in_or_app; left; exact H. Qed.

Lemma keys_mset_key k v m : In k (keys (mset k v m)).
Proof.
  rewrite keys_mset. destruct (mem k (keys m)) eqn:E.
  - apply mem_In; exact E.
  - apply in_or_app; right; left; reflexivity.
Qed.

Lemma keys_mset_inv k v m x : In x (keys (mset k v m)) -> x = k \/ In x (keys m).
Proof.
  rewrite keys_mset. destruct (mem k (keys m)); [auto|]. intros H. apply in_app_or in H as [H|[H|[]]]; auto.
Qed.

Lemma nodup_snoc (A : Type) (l : list A) (x : A) : NoDup l -> ~ In x l -> NoDup (l ++ [x]).
Proof.
  induction l as [|y l IH]; intros H Hn; cbn.
  - constructor; [intros []|constructor].
  - inversion H; subst. constructor.
    + intros Hin. apply in_app_or in Hin as [Hin|[<-|[]]]; [contradiction|]. apply Hn; left; reflexivity.
    + apply IH; [assumption|]. intros Hin; apply Hn; right; exact Hin.
Qed.

Lemma keys_mset_nodup k v m : NoDup (keys m) -> NoDup (keys (mset k v m)).
Proof.
  intros H. rewrite keys_mset. destruct (mem k (keys m)) eqn:E; [exact H|].
  apply nodup_snoc; [exact H|]. intros Hin. apply mem_In in Hin. congruence.
Qed.

Lemma mset_in k v m kv : In kv (mset k v m) -> kv = (k, v) \/ In kv m.
Proof.
  induction m as [|[k' v'] m IH]; cbn [mset].
  - intros [<-|[]]; auto.
  - destruct (str_eqb k' k) eqn:E.
    + apply str_eqb_eq in E. subst k'. intros [<-|H]; [left; reflexivity|right; right; exact H].
    + intros [<-|H]; [right; left; reflexivity|]. apply IH in H as [H|H]; [left|right; right]; exact H.
Qed.

Lemma mget_in k m v : mget k m = Some v -> In (k, v) m.
Proof.
  induction m as [|[k' v'] m IH]; [discriminate|]. cbn [mget].
  destruct (str_eqb k' k) eqn:E.
  - apply str_eqb_eq in E. subst k'. intros [= ->]. left; reflexivity.
  - intros H. right. apply IH; exact H.
Qed.

Lemma mget_keys k m : In k (keys m) -> exists v, mget k m = Some v.
Proof.
  induction m as [|[k' v'] m IH]; [intros []|]. cbn [keys map fst mget].
  destruct (str_eqb k' k) eqn:E; [eexists; reflexivity|].
  intros [H|H]; [subst k'; rewrite str_eqb_refl in E; discriminate|]. apply IH; exact H.
Qed.

Lemma mget_some_keys k m v : mget k m = Some v -> In k (keys m).
Proof. intros H. apply mget_in in H. apply (in_map fst) in H. exact H. Qed.

Section Merge.
  Let step := (fun (acc : mmap) (kv : str * N) => mset (fst kv) (snd kv) acc).

  Lemma mmerge_keys_l from : forall into x, In x (keys into) -> In x (keys (mmerge into from)).
  Proof.
    unfold mmerge. induction from as [|kv from IH]; intros into x H; [exact H|].
    cbn [fold_left]. apply IH. apply keys_mset_mono; exact H.
  Qed.

  Lemma mmerge_keys_r from : forall into x, In x (keys from) -> In x (keys (mmerge into from)).
  Proof.
    unfold mmerge. induction from as [|kv from IH]; intros into x H; [destruct H|].
    cbn [fold_left]. cbn [keys map] in H. destruct H as [<-|H].
    - apply (mmerge_keys_l from). apply keys_mset_key.
    - apply IH; exact H.
  Qed.

  Lemma mmerge_keys_inv from : forall into x, In x (keys (mmerge into from)) -> In x (keys into) \/ In x (keys from).
  Proof.
    unfold mmerge. induction from as [|kv from IH]; intros into x H; [left; exact H|].
    cbn [fold_left] in H. apply IH in H as [H|H].
    - apply keys_mset_inv in H as [->|H]; [right; left; reflexivity|left; exact H].
    - right; right; exact H.
  Qed.

  Lemma mmerge_nodup from : forall into, NoDup (keys into) -> NoDup (keys (mmerge into from)).
  Proof.
    unfold mmerge. induction from as [|kv from IH]; intros into H; [exact H|].
    cbn [fold_left]. apply IH. apply keys_mset_nodup; exact H.
  Qed.

  Lemma mmerge_in from : forall into kv, In kv (mmerge into from) -> In kv into \/ In kv from.
  Proof.
    unfold mmerge. induction from as [|kv0 from IH]; intros into kv H; [left; exact H|].
    cbn [fold_left] in H. apply IH in H as [H|H].
    - apply mset_in in H as [->|H]; [right; left; destruct kv0; reflexivity|left; exact H].
    - right; right; exact H.
  Qed.
End Merge.

(** folding the methods declared on the type itself into the map *)
Definition add_own (ms : list meth) (r : mmap) : mmap := fold_left (fun acc m => mset (m_name m) (m_sig m) acc) ms r.

Lemma add_own_mono ms : forall r x, In x (keys r) -> In x (keys (add_own ms r)).
Proof.
  unfold add_own. induction ms as [|m ms IH]; intros r x H; [exact H|]. cbn [fold_left]. apply IH, keys_mset_mono, H.
Qed.

Lemma add_own_names ms : forall r m, In m ms -> In (m_name m) (keys (add_own ms r)).
Proof.
  unfold add_own. induction ms as [|m0 ms IH]; intros r m H; [destruct H|]. cbn [fold_left]. destruct H as [->|H].
  - apply (add_own_mono ms). apply keys_mset_key.
  - apply IH; exact H.
Qed.

Lemma add_own_nodup ms : forall r, NoDup (keys r) -> NoDup (keys (add_own ms r)).
Proof.
  unfold add_own. induction ms as [|m ms IH]; intros r H; [exact H|]. cbn [fold_left]. apply IH, keys_mset_nodup, H.
Qed.

Lemma add_own_in ms : forall r kv, In kv (add_own ms r) -> In kv r \/ exists m, In m ms /\ kv = (m_name m, m_sig m).
Proof.
  unfold add_own. induction ms as [|m0 ms IH]; intros r kv H; [left; exact H|]. cbn [fold_left] in H.
  apply IH in H as [H|[m [Hin ->]]].
  - apply mset_in in H as [->|H]; [right; exists m0; split; [left; reflexivity|reflexivity]|left; exact H].
  - right; exists m; split; [right; exact Hin|reflexivity].
Qed.

(* ------------------------------------------------------------------------------------------ *)
(** * methods() visits every type reachable through embedded fields *)

Definition estep (U : universe) (t t' : tid) : Prop :=
  exists d f, sdecl_of U t = Some d /\ In f (s_fields d) /\ embed_target f = Some t'.

Inductive reachable (U : universe) : tid -> tid -> Prop :=
| r_refl t : reachable U t t
| r_step t t1 t' : estep U t t1 -> reachable U t1 t' -> reachable U t t'.

Definition bounded (U : universe) (l : list tid) : Prop := forall x, In x l -> x < length (structs U).

Definition own_names_in (U : universe) (u : tid) (r : mmap) : Prop :=
  forall d m, sdecl_of U u = Some d -> In m (s_meths d) -> In (m_name m) (keys r).

Definition visited_ok (U : universe) (seen seen' : list tid) (r : mmap) : Prop :=
  forall u, In u seen' -> ~ In u seen -> (forall u', estep U u u' -> In u' seen') /\ own_names_in U u r.

Definition post (U : universe) (seen : list tid) (t : tid) (seen' : list tid) (r : mmap) : Prop :=
  incl seen seen' /\ In t seen' /\ NoDup seen' /\ bounded U seen' /\ visited_ok U seen seen' r.

Lemma memb_In t l : memb t l = true <-> In t l.
Proof.
  induction l as [|x l IH]; cbn [memb In]; [split; [discriminate|tauto]|].
  rewrite orb_true_iff, Nat.eqb_eq, IH. tauto.
Qed.

Lemma bounded_length U l : NoDup l -> bounded U l -> length l <= length (structs U).
Proof.
  intros Hn Hb. rewrite <- (seq_length (length (structs U)) 0). apply NoDup_incl_length; [exact Hn|].
  intros x Hx. apply in_seq. specialize (Hb x Hx). lia.
Qed.

Lemma wf_target U t d f t' :
  wf U = true -> sdecl_of U t = Some d -> In f (s_fields d) -> embed_target f = Some t' -> t' < length (structs U).
Proof.
  intros HU Hd Hf He. unfold wf in HU. rewrite forallb_forall in HU.
  apply nth_error_In in Hd. specialize (HU d Hd). rewrite forallb_forall in HU. specialize (HU f Hf).
  unfold embed_target in He. destruct (f_embed f); [|discriminate].
  destruct (f_styp f) as [[b t2]|]; [|discriminate]. cbn in He. injection He as ->.
  apply Nat.ltb_lt in HU. exact HU.
Qed.

Lemma y_methods_aux_S k U seen t :
  y_methods_aux (S k) U seen t =
  if memb t seen then (seen, [])
  else match sdecl_of U t with
       | None => (t :: seen, [])
       | Some d => let '(seen', r) := walk_fields (y_methods_aux k U) (s_fields d) (t :: seen) [] in
                   (seen', add_own (s_meths d) r)
       end.
Proof. reflexivity. Qed.

Section Closure.
  Variable U : universe.
  Hypothesis HU : wf U = true.
  Let n := length (structs U).

  Section Loop.
    Variable k : nat.
    Hypothesis Hrec : forall seen t seen' r,
      NoDup seen -> bounded U seen -> t < n -> k + length seen > n ->
      y_methods_aux k U seen t = (seen', r) -> post U seen t seen' r.
    Variable base : list tid.

    Lemma walk_loop : forall fs seen0 acc seen' r,
      (forall f t', In f fs -> embed_target f = Some t' -> t' < n) ->
      NoDup seen0 -> bounded U seen0 -> k + length seen0 > n ->
      (forall u, In u seen0 -> ~ In u base -> (forall u', estep U u u' -> In u' seen0) /\ own_names_in U u acc) ->
      walk_fields (y_methods_aux k U) fs seen0 acc = (seen', r) ->
      incl seen0 seen' /\ NoDup seen' /\ bounded U seen'
      /\ (forall f t', In f fs -> embed_target f = Some t' -> In t' seen')
      /\ (forall x, In x (keys acc) -> In x (keys r))
      /\ (forall u, In u seen' -> ~ In u base -> (forall u', estep U u u' -> In u' seen') /\ own_names_in U u r).
    Proof.
      induction fs as [|f fs IH]; intros seen0 acc seen' r HT Hnd Hb Hk Hinv H; cbn [walk_fields] in H.
      - injection H as <- <-. repeat split; auto using incl_refl; try apply Hinv; try assumption.
        intros f t' [].
      - destruct (embed_target f) as [t1|] eqn:Et.
        + destruct (y_methods_aux k U seen0 t1) as [seen2 r2] eqn:Er.
          assert (Ht1 : t1 < n) by (apply (HT f t1); [left; reflexivity|exact Et]).
          pose proof (Hrec Hnd Hb Ht1 Hk Er) as [Hi2 [Hin2 [Hnd2 [Hb2 Hv2]]]].
          assert (Hlen : length seen0 <= length seen2) by (apply NoDup_incl_length; assumption).
          assert (Hinv2 : forall u, In u seen2 -> ~ In u base ->
                     (forall u', estep U u u' -> In u' seen2) /\ own_names_in U u (mmerge acc r2)).
          { intros u Hu Hnb. destruct (in_dec Nat.eq_dec u seen0) as [Hin0|Hnin0].
            - destruct (Hinv u Hin0 Hnb) as [Hc Ho]. split.
              + intros u' Hs. apply Hi2, Hc, Hs.
              + intros d m Hd Hm. apply mmerge_keys_l. eapply Ho; eassumption.
            - destruct (Hv2 u Hu Hnin0) as [Hc Ho]. split; [exact Hc|].
              intros d m Hd Hm. apply mmerge_keys_r. eapply Ho; eassumption. }
          assert (HT' : forall f0 t', In f0 fs -> embed_target f0 = Some t' -> t' < n)
            by (intros f0 t' Hf0; apply HT; right; exact Hf0).
          assert (Hk2 : k + length seen2 > n) by (unfold n, tid in *; lia).
          destruct (IH seen2 (mmerge acc r2) seen' r HT' Hnd2 Hb2 Hk2 Hinv2 H) as [Hi [Hnd' [Hb' [Htg [Hkeys Hinv']]]]].
          repeat split; try assumption.
          * eapply incl_tran; eassumption.
          * intros f0 t' [<-|Hf0] He; [|eapply Htg; eassumption].
            rewrite Et in He. injection He as <-. apply Hi, Hin2.
          * intros x Hx. apply Hkeys, mmerge_keys_l, Hx.
          * apply Hinv'; assumption.
          * apply Hinv'; assumption.
        + assert (HT' : forall f0 t', In f0 fs -> embed_target f0 = Some t' -> t' < n)
            by (intros f0 t' Hf0; apply HT; right; exact Hf0).
          destruct (IH seen0 acc seen' r HT' Hnd Hb Hk Hinv H) as [Hi [Hnd' [Hb' [Htg [Hkeys Hinv']]]]].
          repeat split; try assumption.
          * intros f0 t' [<-|Hf0] He; [congruence|eapply Htg; eassumption].
          * apply Hinv'; assumption.
          * apply Hinv'; assumption.
    Qed.
  End Loop.

  Lemma aux_post : forall fuel seen t seen' r,
    NoDup seen -> bounded U seen -> t < n -> fuel + length seen > n ->
    y_methods_aux fuel U seen t = (seen', r) -> post U seen t seen' r.
  Proof.
    induction fuel as [|k IH]; intros seen t seen' r Hnd Hb Ht Hk H.
    - exfalso. pose proof (bounded_length Hnd Hb). unfold n, tid in *. lia.
    - rewrite y_methods_aux_S in H. destruct (memb t seen) eqn:Em.
      + injection H as <- <-. apply memb_In in Em. unfold post.
        split; [apply incl_refl|]. split; [exact Em|]. split; [exact Hnd|]. split; [exact Hb|].
        intros u Hu Hnu. contradiction.
      + assert (Hnin : ~ In t seen) by (intros Hin; apply memb_In in Hin; congruence).
        destruct (sdecl_of U t) as [d|] eqn:Ed.
        2:{ exfalso. unfold sdecl_of in Ed. apply nth_error_None in Ed. unfold n, tid in *. lia. }
        match type of H with context [walk_fields ?a ?b ?c ?e] =>
          destruct (walk_fields a b c e) as [seen1 r1] eqn:Ew end.
        injection H as <- <-.
        assert (Hnd1 : NoDup (t :: seen)) by (constructor; assumption).
        assert (Hb1 : bounded U (t :: seen)) by (intros x [<-|Hx]; [exact Ht|apply Hb, Hx]).
        assert (HT : forall f t', In f (s_fields d) -> embed_target f = Some t' -> t' < n)
          by (intros f t' Hf He; eapply wf_target; eassumption).
        assert (Hk1 : k + length (t :: seen) > n) by (cbn [length]; unfold n, tid in *; lia).
        assert (Hinv0 : forall u, In u (t :: seen) -> ~ In u (t :: seen) ->
                   (forall u', estep U u u' -> In u' (t :: seen)) /\ own_names_in U u []) by (intros; contradiction).
        destruct (@walk_loop k IH (t :: seen) (s_fields d) (t :: seen) [] seen1 r1 HT Hnd1 Hb1 Hk1 Hinv0 Ew)
          as [Hi [Hnd' [Hb' [Htg [_ Hinv']]]]].
        unfold post.
        split; [intros x Hx; apply Hi; right; exact Hx|].
        split; [apply Hi; left; reflexivity|].
        split; [exact Hnd'|]. split; [exact Hb'|].
        intros u Hu Hnu. destruct (Nat.eq_dec u t) as [->|Hne].
        * split.
          -- intros u' [d' [f [Hd' [Hf He]]]]. rewrite Ed in Hd'. injection Hd' as <-. eapply Htg; eassumption.
          -- intros d' m Hd' Hm. rewrite Ed in Hd'. injection Hd' as <-. apply add_own_names; exact Hm.
        * assert (Hnb : ~ In u (t :: seen)) by (intros [Heq|Hin]; [congruence|contradiction]).
          destruct (Hinv' u Hu Hnb) as [Hc Ho]. split; [exact Hc|].
          intros d' m Hd' Hm. apply add_own_mono. eapply Ho; eassumption.
  Qed.

  (** every type reachable from [t] has its method names in [y_methods U t] *)
  Lemma y_methods_complete t t' d m :
    t < n -> reachable U t t' -> sdecl_of U t' = Some d -> In m (s_meths d) -> In (m_name m) (y_method_names U t).
  Proof.
    intros Ht Hr Hd Hm. unfold y_method_names, y_methods.
    destruct (y_methods_aux (S (length (structs U))) U [] t) as [seen' r] eqn:E. cbn [snd].
    assert (Hp : post U [] t seen' r).
    { apply (@aux_post (S (length (structs U))) [] t seen' r); try assumption.
      - constructor. - intros x []. - cbn [length]. unfold n, tid. lia. }
    destruct Hp as [_ [Hin [_ [_ Hv]]]].
    assert (Hall : forall u, In u seen' -> forall u', reachable U u u' -> In u' seen').
    { intros u Hu u' Hru. induction Hru as [u|u u1 u' Hs _ IH]; [exact Hu|].
      apply IH. destruct (Hv u Hu (fun x => x)) as [Hc _]. apply Hc, Hs. }
    destruct (Hv t' (Hall t Hin t' Hr) (fun x => x)) as [_ Ho]. eapply Ho; eassumption.
  Qed.
End Closure.

(** entries of a level are reachable from the root *)
Lemma embeds_target p i fs e : In e (embeds p i fs) -> exists f, In f fs /\ embed_target f = Some (snd e).
Proof.
  revert i; induction fs as [|g fs IH]; intros i H; [destruct H|]. cbn [embeds] in H.
  apply in_app_or in H as [H|H].
  - destruct (embed_target g) as [t1|] eqn:E; [|destruct H]. destruct H as [<-|[]].
    exists g. split; [left; reflexivity|exact E].
  - apply IH in H as [f [Hf He]]. exists f. split; [right; exact Hf|exact He].
Qed.

Lemma next_level_step U lvl e' : In e' (next_level U lvl) -> exists e, In e lvl /\ estep U (snd e) (snd e').
Proof.
  unfold next_level. intros H. apply in_flat_map in H as [e [Hin He]]. exists e. split; [exact Hin|].
  destruct (sdecl_of U (snd e)) as [d|] eqn:Ed; [|destruct He].
  apply embeds_target in He as [f [Hf Ht]]. exists d, f. auto.
Qed.

Lemma iter_level_reachable U n : forall lvl e', In e' (iter_level U n lvl) -> exists e, In e lvl /\ reachable U (snd e) (snd e').
Proof.
  induction n as [|n IH]; intros lvl e' H; cbn [iter_level] in H.
  - exists e'. split; [exact H|apply r_refl].
  - apply IH in H as [e1 [H1 Hr]]. apply next_level_step in H1 as [e [Hin Hs]].
    exists e. split; [exact Hin|]. eapply r_step; eassumption.
Qed.

Lemma field_hits_not_method name p i fs q m : ~ In (SMethod q m) (field_hits name p i fs).
Proof.
  revert i; induction fs as [|g fs IH]; intros i H; [destruct H|]. cbn [field_hits] in H.
  apply in_app_or in H as [H|H]; [|eapply IH; eassumption].
  destruct (str_eqb (f_name g) name); [|destruct H]. destruct H as [H|[]]. discriminate.
Qed.

(** a method selected by G is declared, under that name, on a type reachable from the root *)
Lemma g_select_method U t name p m :
  g_select U t name = RSel (SMethod p m) ->
  exists t' d, reachable U t t' /\ sdecl_of U t' = Some d /\ In m (s_meths d) /\ m_name m = name.
Proof.
  unfold g_select. intros H. apply g_levels_sel in H as [k Hk].
  assert (Hin : In (SMethod p m) (flat_map (hits U name) (iter_level U k [([], t)]))) by (rewrite Hk; left; reflexivity).
  apply in_flat_map in Hin as [e [He Hh]].
  apply iter_level_reachable in He as [e0 [[<-|[]] Hr]]. cbn [snd] in Hr.
  unfold hits in Hh. destruct (sdecl_of U (snd e)) as [d|] eqn:Ed; [|destruct Hh].
  apply in_app_or in Hh as [Hh|Hh]; [exfalso; eapply field_hits_not_method; eassumption|].
  unfold meth_hits in Hh. apply in_map_iff in Hh as [m' [Heq Hf]]. injection Heq as _ ->.
  apply filter_In in Hf as [Hm Hn]. apply str_eqb_eq in Hn.
  exists (snd e), d. auto.
Qed.

Lemma g_method_spec U t ptr name m :
  g_method U t ptr name = Some m ->
  exists t' d, reachable U t t' /\ sdecl_of U t' = Some d /\ In m (s_meths d) /\ m_name m = name.
Proof.
  unfold g_method. destruct (g_select U t name) as [| | |[q|q m']] eqn:E; try discriminate.
  destruct (negb (m_ptr m') || ptr || through_ptr (length q) U t q); [|discriminate].
  intros [= ->]. eapply g_select_method; eassumption.
Qed.

(** ** C05_methodset: the names yaegi attributes to a type contain Go's method set of [T] and of [*T] *)
Theorem methodset_over : forall U t ptr nm,
  wf U = true -> t < length (structs U) -> In nm (g_method_names U t ptr) -> In nm (y_method_names U t).
Proof.
  intros U t ptr nm HU Ht H. unfold g_method_names in H. apply filter_In in H as [_ H].
  destruct (g_method U t ptr nm) as [m|] eqn:E; [|discriminate].
  apply g_method_spec in E as [t' [d [Hr [Hd [Hm <-]]]]]. eapply y_methods_complete; eassumption.
Qed.

(* ------------------------------------------------------------------------------------------ *)
(** * Assertions to an interface type *)

Lemma imethods_in fuel U : forall j ks, In ks (imethods fuel U j) -> exists d, In d (ifaces U) /\ In ks (i_meths d).
Proof.
  induction fuel as [|k IH]; intros j ks H; [destruct H|]. cbn [imethods] in H.
  destruct (nth_error (ifaces U) j) as [d|] eqn:E; [|destruct H].
  apply in_app_or in H as [H|H].
  - apply in_flat_map in H as [j' [_ H]]. eapply IH; eassumption.
  - exists d. split; [eapply nth_error_In; eassumption|exact H].
Qed.

Lemma g_imethods_sigs U j ks : In ks (g_imethods U j) -> In ks (all_sigs U).
Proof.
  intros H. apply imethods_in in H as [d [Hd Hk]]. unfold all_sigs. apply in_or_app; right.
  apply in_flat_map. exists d. auto.
Qed.

Lemma y_imethods_in U j kv : In kv (y_imethods U j) -> In kv (g_imethods U j).
Proof. unfold y_imethods. intros H. apply mmerge_in in H as [[]|H]. exact H. Qed.

Lemma y_imethods_keys U j k : In k (keys (y_imethods U j)) <-> In k (keys (g_imethods U j)).
Proof.
  unfold y_imethods. split; intros H.
  - apply mmerge_keys_inv in H as [[]|H]. exact H.
  - apply mmerge_keys_r; exact H.
Qed.

Lemma y_imethods_nodup U j : NoDup (keys (y_imethods U j)).
Proof. unfold y_imethods. apply mmerge_nodup. constructor. Qed.

Definition declared (U : universe) (kv : str * N) : Prop :=
  exists d m, In d (structs U) /\ In m (s_meths d) /\ kv = (m_name m, m_sig m).

Lemma walk_fields_declared U rec :
  (forall s t s' r, rec s t = (s', r) -> forall kv, In kv r -> declared U kv) ->
  forall fs seen acc seen' r, walk_fields rec fs seen acc = (seen', r) ->
    (forall kv, In kv acc -> declared U kv) -> forall kv, In kv r -> declared U kv.
Proof.
  intros Hrec. induction fs as [|f fs IH]; intros seen acc seen' r H Hacc kv Hkv; cbn [walk_fields] in H.
  - injection H as _ <-. apply Hacc, Hkv.
  - destruct (embed_target f) as [t1|].
    + destruct (rec seen t1) as [s2 r2] eqn:Er. eapply IH; [exact H| |exact Hkv].
      intros kv' Hin. apply mmerge_in in Hin as [Hin|Hin]; [apply Hacc, Hin|eapply Hrec; eassumption].
    + eapply IH; eassumption.
Qed.

Lemma y_methods_aux_declared U fuel : forall seen t seen' r,
  y_methods_aux fuel U seen t = (seen', r) -> forall kv, In kv r -> declared U kv.
Proof.
  induction fuel as [|k IH]; intros seen t seen' r H kv Hkv.
  - cbn in H. injection H as _ <-. destruct Hkv.
  - rewrite y_methods_aux_S in H. destruct (memb t seen); [injection H as _ <-; destruct Hkv|].
    destruct (sdecl_of U t) as [d|] eqn:Ed; [|injection H as _ <-; destruct Hkv].
    match type of H with context [walk_fields ?a ?b ?c ?e] => destruct (walk_fields a b c e) as [s1 r1] eqn:Ew end.
    injection H as _ <-. apply add_own_in in Hkv as [Hkv|[m [Hm ->]]].
    + eapply (@walk_fields_declared U (y_methods_aux k U) IH); [exact Ew| |exact Hkv]. intros kv' [].
    + exists d, m. split; [eapply nth_error_In; exact Ed|]. auto.
Qed.

Lemma y_methods_declared U t kv : In kv (y_methods U t) -> declared U kv.
Proof.
  unfold y_methods. destruct (y_methods_aux (S (length (structs U))) U [] t) as [s' r] eqn:E. cbn [snd].
  eapply y_methods_aux_declared; eassumption.
Qed.

Lemma declared_sigs U kv : declared U kv -> In kv (all_sigs U).
Proof.
  intros [d [m [Hd [Hm ->]]]]. unfold all_sigs. apply in_or_app; left. apply in_flat_map. exists d. split; [exact Hd|].
  apply in_map_iff. exists m. auto.
Qed.

Lemma sig_cons U k a b : sig_consistent U = true -> In (k, a) (all_sigs U) -> In (k, b) (all_sigs U) -> a = b.
Proof.
  intros H Ha Hb. unfold sig_consistent in H. rewrite forallb_forall in H. specialize (H _ Ha).
  rewrite forallb_forall in H. specialize (H _ Hb). cbn [fst snd] in H. rewrite str_eqb_refl in H. cbn in H.
  apply N.eqb_eq in H. exact H.
Qed.

Lemma g_method_declared U t ptr k m : g_method U t ptr k = Some m -> In (k, m_sig m) (all_sigs U).
Proof.
  intros H. apply g_method_spec in H as [t' [d [_ [Hd [Hm <-]]]]]. apply declared_sigs.
  exists d, m. split; [eapply nth_error_In; exact Hd|]. auto.
Qed.

Lemma in_keys (m : mmap) k v : In (k, v) m -> In k (keys m).
Proof. intros H. apply (in_map fst) in H. exact H. Qed.

(** ** C05_assert_partial: two-result assertion of a non-nil value to an interface type *)
Theorem assert_agree : forall U t ptr j srcm,
  wf U = true -> t < length (structs U) -> sig_consistent U = true -> names_agree U t ptr = true ->
  y_assert U SrcIface srcm (Some (t, ptr)) (TIface j) A2 = g_assert U (Some (t, ptr)) (TIface j) A2.
Proof.
  intros U t ptr j srcm HU Ht Hsig Hnames.
  unfold y_assert, g_assert. cbn [y_static_reject g_holds].
  assert (Hsub : g_implements U t ptr j = true -> incl (keys (y_imethods U j)) (keys (y_methods U t))).
  { intros Hg k Hk. apply y_imethods_keys in Hk. unfold keys in Hk. apply in_map_iff in Hk as [[k' s1] [<- Hin]].
    unfold g_implements in Hg. rewrite forallb_forall in Hg. specialize (Hg _ Hin). cbn [fst snd] in Hg.
    destruct (g_method U t ptr k') as [m|] eqn:Em; [|discriminate].
    apply g_method_spec in Em as [t' [d [Hr [Hd [Hm <-]]]]].
    apply (@y_methods_complete U HU t t' d m Ht Hr Hd Hm). }
  destruct (g_implements U t ptr j) eqn:Eg.
  - (* Go: holds *)
    specialize (Hsub eq_refl).
    assert (Hlen : length (y_methods U t) <? length (y_imethods U j) = false).
    { apply Nat.ltb_ge. rewrite <- (map_length fst (y_imethods U j)), <- (map_length fst (y_methods U t)).
      apply NoDup_incl_length; [apply y_imethods_nodup|exact Hsub]. }
    rewrite Hlen.
    assert (Hok : y_iface_ok U t j = true).
    { unfold y_iface_ok. apply forallb_forall. intros [k s1] Hin. cbn [fst snd].
      assert (Hk : In k (keys (y_methods U t))) by (apply Hsub; eapply in_keys; exact Hin).
      apply mget_keys in Hk as [s0 Hs0]. rewrite Hs0.
      assert (s0 = s1) as ->.
      { eapply sig_cons; [exact Hsig| |].
        - apply declared_sigs. apply (@y_methods_declared U t). apply mget_in, Hs0.
        - apply (@g_imethods_sigs U j). apply y_imethods_in, Hin. }
      unfold y_sig_match. rewrite N.eqb_refl. reflexivity. }
    rewrite Hok. reflexivity.
  - (* Go: does not hold *)
    destruct (length (y_methods U t) <? length (y_imethods U j)); [reflexivity|].
    destruct (y_iface_ok U t j) eqn:Eok; [|reflexivity]. exfalso.
    assert (Hg : g_implements U t ptr j = true); [|congruence].
    unfold g_implements. apply forallb_forall. intros [k s1] Hin. cbn [fst snd].
    assert (Hk1 : In k (keys (y_imethods U j))) by (apply y_imethods_keys; eapply in_keys; exact Hin).
    apply mget_keys in Hk1 as [s1' Hs1']. apply mget_in in Hs1'.
    unfold y_iface_ok in Eok. rewrite forallb_forall in Eok. specialize (Eok _ Hs1'). cbn [fst snd] in Eok.
    destruct (mget k (y_methods U t)) as [s0|] eqn:Em0; [|discriminate].
    apply mget_some_keys in Em0.
    unfold names_agree in Hnames. rewrite forallb_forall in Hnames. specialize (Hnames k Em0).
    destruct (g_method U t ptr k) as [m|] eqn:Em; [|discriminate].
    apply N.eqb_eq. eapply sig_cons; [exact Hsig| |].
    + eapply g_method_declared; exact Em.
    + apply (@g_imethods_sigs U j), Hin.
Qed.

(** ** C05_methodset_partial: equality of the two name sets when every name yaegi finds resolves in Go *)
Theorem methodset_agree : forall U t ptr nm,
  wf U = true -> t < length (structs U) -> names_agree U t ptr = true ->
  (In nm (y_method_names U t) <-> In nm (g_method_names U t ptr)).
Proof.
  intros U t ptr nm HU Ht Hn. split; [|apply methodset_over; assumption].
  intros H. unfold g_method_names. apply filter_In.
  unfold names_agree in Hn. rewrite forallb_forall in Hn. specialize (Hn nm H). split; [|exact Hn].
  unfold y_method_names in H. apply mget_keys in H as [v Hv]. apply mget_in in Hv. apply y_methods_declared in Hv.
  destruct Hv as [d [m [Hd [Hm Heq]]]]. injection Heq as -> _.
  unfold all_meth_names. apply in_flat_map. exists d. split; [exact Hd|]. apply in_map; exact Hm.
Qed.

(** witnesses *)
(** type A struct{ X int }; func (A) M(); func ( *A) P();  type B struct{ A };
    type I interface{ M() }; type J interface{ M(); P() }; type K interface{ M(int) } *)
Definition U_assert : universe :=
  mkU [ mkS [plainF "X"] [mkM (s "M") false 0 1; mkM (s "P") true 0 2]; mkS [embF "A" 0] [] ]
      [ mkI [(s "M", 0%N)] []; mkI [(s "M", 0%N); (s "P", 0%N)] []; mkI [(s "M", 1%N)] [] ].

(** a B value is not a J (P needs an addressable receiver), yaegi says it is *)
Lemma assert_methodset_refuted :
  y_assert U_assert SrcIface [(s "M", 0%N)] (Some (1, false)) (TIface 1) A2 = ATrue
  /\ g_assert U_assert (Some (1, false)) (TIface 1) A2 = AFalse
  /\ names_agree U_assert 1 false = false /\ sig_consistent (mkU (structs U_assert) (firstn 2 (ifaces U_assert))) = true.
Proof. vm_compute. repeat split. Qed.

(** signature clash: type T struct{}; func (T) M(k int); interface{ M() }: the first parameter is stripped *)
Definition U_sig : universe := mkU [ mkS [plainF "X"] [mkM (s "M") false 1 1] ] [ mkI [(s "M", 0%N)] [] ].

Lemma assert_sig_refuted :
  y_assert U_sig SrcIface [] (Some (0, false)) (TIface 0) A2 = ATrue
  /\ g_assert U_sig (Some (0, false)) (TIface 0) A2 = AFalse
  /\ sig_consistent U_sig = false /\ names_agree U_sig 0 false = true.
Proof. vm_compute. repeat split. Qed.

(** one-result form: a failing assertion does not panic unless the value has fewer methods than the target *)
Lemma assert1_refuted :
  y_assert U_assert SrcIface [] (Some (0, false)) (TIface 2) A1 = ALate
  /\ g_assert U_assert (Some (0, false)) (TIface 2) A1 = APanic.
Proof. vm_compute. split; reflexivity. Qed.

(** nil interface value, two-result form to an interface type: yaegi panics *)
Lemma assert_nil_refuted :
  y_assert U_assert SrcIface [] None (TIface 0) A2 = APanic /\ g_assert U_assert None (TIface 0) A2 = AFalse.
Proof. vm_compute. split; reflexivity. Qed.

(** type T0 struct{}; func ( *T0) N();  type T1 struct{ *T0 }: i.(T1) is legal for an interface{ N() }, yaegi rejects it *)
Definition U_static : universe :=
  mkU [ mkS [plainF "X"] [mkM (s "N") true 0 1]; mkS [mkF (s "T0") true (Some (true, 0))] [] ] [ mkI [(s "N", 0%N)] [] ].

Lemma assert_static_refuted :
  y_assert U_static SrcIface [(s "N", 0%N)] (Some (1, false)) (TStruct 1) A2 = AOther
  /\ g_assert U_static (Some (1, false)) (TStruct 1) A2 = ATrue /\ g_implements U_static 1 false 0 = true.
Proof. vm_compute. repeat split. Qed.

(** type T0 struct{}; func (T0) M();  type T2 struct{}; func (T2) M(int);  type T3 struct{ T2 };
    type T5 struct{ T3; T0 }: T5 has M() at depth 1 and implements interface{ M() }; the static check
    finds T2.M(int) first (depth 2 through T3) and rejects i.(T5) and i.( *T5) *)
Definition U_static_sig : universe :=
  mkU [ mkS [plainF "S0"] [mkM (s "M") false 0 1]; mkS [plainF "S2"] [mkM (s "M") false 1 2];
        mkS [embF "T2" 1] []; mkS [embF "T3" 2; embF "T0" 0] [] ] [ mkI [(s "M", 0%N)] [] ].

Lemma assert_static_sig_refuted :
  y_assert U_static_sig SrcIface [(s "M", 0%N)] (Some (3, false)) (TStruct 3) A2 = AOther
  /\ g_assert U_static_sig (Some (3, false)) (TStruct 3) A2 = ATrue
  /\ y_assert U_static_sig SrcIface [(s "M", 0%N)] (Some (3, true)) (TPtr 3) A2 = AOther
  /\ g_assert U_static_sig (Some (3, true)) (TPtr 3) A2 = ATrue
  /\ g_implements U_static_sig 3 false 0 = true.
Proof. vm_compute. repeat split. Qed.

Lemma assert_side_inhabited :
  wf U_assert = true /\ sig_consistent (mkU (structs U_assert) (firstn 2 (ifaces U_assert))) = true
  /\ names_agree U_assert 1 true = true
  /\ g_assert U_assert (Some (1, true)) (TIface 1) A2 = ATrue /\ g_assert U_assert (Some (0, false)) (TIface 0) A2 = ATrue
  /\ names_agree U_assert 0 true = true /\ y_method_names U_assert 1 = [s "M"; s "P"].
Proof. vm_compute. repeat split. Qed.
