(** C05 — interpreted values handed to compiled code that probes for interfaces dynamically.

    A *consumer* is a compiled function (parameter) that receives an interpreted value and then
    looks, in a fixed order, for the interfaces it knows ("probes"): compiled fmt looks for
    Formatter, then (for %#v) GoStringer, then (for the string verbs) error, then Stringer;
    encoding/json for Marshaler then TextMarshaler; io.Copy for WriterTo on the source and
    ReaderFrom on the destination; io.WriteString for StringWriter.

    G: the compiled function sees the whole method set of the value.
    Y: yaegi hands over a wrapper struct.  For an interface{} parameter the wrapper is the FIRST
       interface of the list registered for that function in stdlib/maptypes.go that the type
       implements (callBin / getMapType; no wrapper when the list has no match or the function is not
       registered); for a parameter of static interface type it is that interface's wrapper, or the
       first composed wrapper of stdlib/wrapper-composed.go whose methods the type has (use.go /
       getWrapper).  The compiled function then sees the methods of the wrapper only.
    The lists themselves are regenerated from the source on every run (gen/MapTypes_gen.v). *)
From Verif Require Import Lib.Str.

Definition mtable := list (str * list (str * list str)).

Fixpoint subset (a b : list str) : bool :=
  match a with [] => true | x :: a' => mem x b && subset a' b end.

Fixpoint assoc {A} (k : str) (l : list (str * A)) : option A :=
  match l with [] => None | (k', v) :: l' => if str_eqb k' k then Some v else assoc k l' end.

(** what the compiled function looks for, in order; the last entry may have no method (fallback) *)
Record consumer := mkC {
  c_key : str;                          (* key of the regenerated table *)
  c_static : list str;                  (* methods of the static parameter type ([] for interface{}) *)
  c_probes : list (str * list str)      (* probe name, methods required *)
}.

Fixpoint first_probe (vis : list str) (ps : list (str * list str)) : option (str * list str) :=
  match ps with
  | [] => None
  | p :: ps' => if subset (snd p) vis then Some p else first_probe vis ps'
  end.

Definition probe_name (o : option (str * list str)) : str :=
  match o with Some p => fst p | None => s "none" end.

(** G *)
Definition g_result (c : consumer) (impl : list str) : str := probe_name (first_probe impl (c_probes c)).

(** Y *)
Fixpoint first_wrapper (impl : list str) (ws : list (str * list str)) : option (list str) :=
  match ws with
  | [] => None
  | w :: ws' => if subset (snd w) impl then Some (snd w) else first_wrapper impl ws'
  end.

Definition y_visible (tbl : mtable) (c : consumer) (impl : list str) : list str :=
  match assoc (c_key c) tbl with
  | Some ws => match first_wrapper impl ws with Some ms => ms | None => c_static c end
  | None => c_static c
  end.

Definition y_result (tbl : mtable) (c : consumer) (impl : list str) : str :=
  probe_name (first_probe (y_visible tbl c impl) (c_probes c)).

(* ------------------------------------------------------------------------------------------ *)
(** * The consumers (what the compiled packages of the installed release do) *)

(** fmt's handleMethods, by class of verb *)
Definition fmt_str_probes : list (str * list str) :=
  [(s "Formatter", [s "Format"]); (s "error", [s "Error"]); (s "Stringer", [s "String"])].
Definition fmt_sharp_probes : list (str * list str) :=
  [(s "Formatter", [s "Format"]); (s "GoStringer", [s "GoString"])].
Definition fmt_num_probes : list (str * list str) := [(s "Formatter", [s "Format"])].

Definition fmt_consumers (fn : str) : list consumer :=
  [mkC fn [] fmt_str_probes; mkC fn [] fmt_sharp_probes; mkC fn [] fmt_num_probes].

Definition json_consumer : consumer :=
  mkC (s "json.Marshal") [] [(s "Marshaler", [s "MarshalJSON"]); (s "TextMarshaler", [s "MarshalText"])].

Definition copy_src : consumer :=
  mkC (s "_io_Reader") [s "Read"] [(s "WriterTo", [s "WriteTo"]); (s "Reader", [s "Read"])].
Definition copy_dst : consumer :=
  mkC (s "_io_Writer") [s "Write"] [(s "ReaderFrom", [s "ReadFrom"]); (s "Writer", [s "Write"])].
Definition write_string : consumer :=
  mkC (s "_io_Writer") [s "Write"] [(s "StringWriter", [s "WriteString"]); (s "Writer", [s "Write"])].

(** net/http: a ResponseWriter may also be a Hijacker (composed wrapper of wrapper-composed.go) *)
Definition http_rw : consumer :=
  mkC (s "_net_http_ResponseWriter") (map s ["Header"; "Write"; "WriteHeader"]%string)
      [(s "Hijacker", [s "Hijack"]); (s "ResponseWriter", map s ["Header"; "Write"; "WriteHeader"]%string)].

(** In all of these [impl] is the FULL method set of the interpreted value as getWrapper / implements see
    it through methods(): interpreted methods, methods promoted from embedded interpreted structs, and
    methods promoted from embedded COMPILED types (e.g. WriteTo of an embedded *bytes.Buffer). *)

(** the print functions that take interface{} operands *)
Definition print_fns : list str :=
  map s ["fmt.Print"; "fmt.Printf"; "fmt.Println"; "fmt.Sprint"; "fmt.Sprintf"; "fmt.Sprintln";
         "fmt.Fprint"; "fmt.Fprintf"; "fmt.Fprintln"; "fmt.Errorf";
         "log.Fatal"; "log.Fatalf"; "log.Fatalln"; "log.Panic"; "log.Panicf"; "log.Panicln"]%string.

Definition consumer_of (name : str) (cls : str) : consumer :=
  if str_eqb name (s "json.Marshal") then json_consumer
  else if str_eqb name (s "io.Copy.src") then copy_src
  else if str_eqb name (s "io.Copy.dst") then copy_dst
  else if str_eqb name (s "io.WriteString") then write_string
  else if str_eqb name (s "io.ReadAll") then mkC (s "_io_Reader") [s "Read"] [(s "Reader", [s "Read"])]
  else if str_eqb name (s "errors.Is") then
    mkC (s "_error") [s "Error"] [(s "Is", [s "Is"]); (s "Unwrap", [s "Unwrap"]); (s "error", [s "Error"])]
  else if str_eqb name (s "errors.Unwrap") then
    mkC (s "_error") [s "Error"] [(s "Unwrap", [s "Unwrap"]); (s "error", [s "Error"])]
  else if str_eqb name (s "sort.Sort") then
    mkC (s "_sort_Interface") (map s ["Len"; "Less"; "Swap"]%string) [(s "Interface", map s ["Len"; "Less"; "Swap"]%string)]
  else if str_eqb name (s "flag.Var") then
    mkC (s "_flag_Value") (map s ["Set"; "String"]%string) [(s "Value", map s ["Set"; "String"]%string)]
  else mkC name []
         (if str_eqb cls (s "sharp") then fmt_sharp_probes
          else if str_eqb cls (s "num") then fmt_num_probes else fmt_str_probes).

(* ------------------------------------------------------------------------------------------ *)
(** * The finite obligation on the regenerated table *)

Fixpoint sublists {A} (l : list A) : list (list A) :=
  match l with [] => [[]] | x :: l' => let r := sublists l' in r ++ map (cons x) r end.

(** the methods yaegi knows about for a consumer: those of its registered wrappers and of the static type *)
Definition known_methods (tbl : mtable) (c : consumer) : list str :=
  c_static c ++ match assoc (c_key c) tbl with Some ws => flat_map snd ws | None => [] end.

(** every interpreted type that implements only interfaces registered for the consumer is
    dispatched by the compiled function exactly as in compiled Go *)
Definition consumer_ok (tbl : mtable) (c : consumer) : bool :=
  forallb (fun impl => negb (subset (c_static c) impl) || str_eqb (y_result tbl c impl) (g_result c impl))
          (sublists (known_methods tbl c)).

Definition registered_ok (tbl : mtable) : bool :=
  forallb (fun fn => match assoc fn tbl with Some _ => true | None => false end) (s "json.Marshal" :: print_fns)
  && forallb (fun fn => forallb (consumer_ok tbl) (fmt_consumers fn)) print_fns
  && consumer_ok tbl json_consumer && consumer_ok tbl copy_src && consumer_ok tbl copy_dst && consumer_ok tbl http_rw
  && forallb (fun k => match assoc k tbl with Some (_ :: _) => true | _ => false end)
       (map s ["_io_Reader"; "_io_Writer"; "_net_http_ResponseWriter"]%string).

(** the order of two interfaces in the list registered for a function *)
Fixpoint index_of (k : str) (ws : list (str * list str)) (i : nat) : option nat :=
  match ws with [] => None | w :: ws' => if str_eqb (fst w) k then Some i else index_of k ws' (S i) end.

Definition before (tbl : mtable) (fn a b : str) : bool :=
  match assoc fn tbl with
  | Some ws => match index_of a ws 0, index_of b ws 0 with Some i, Some j => Nat.ltb i j | _, _ => false end
  | None => false
  end.

Definition order_ok (tbl : mtable) : bool :=
  forallb (fun fn => before tbl fn (s "fmt.Formatter") (s "fmt.Stringer")) print_fns
  && before tbl (s "json.Marshal") (s "json.Marshaler") (s "encoding.TextMarshaler").
