(** C05 — selectors, method sets, assertions and type switches.

    Executable definitions only (no proofs).  Two models over the same universes of declared types:

    - [g_*]  what Go prescribes: a selector denotes the field or method at the *shallowest* depth,
             it is illegal when that depth holds more than one; method sets of [T] and [*T];
             [implements]; type assertion and type switch on the dynamic type.
    - [y_*]  what yaegi does (interp/type.go, cfg.go, run.go), *including its defects*:
             depth-FIRST [lookupField] / [lookupMethod2] with a [seen] set (own members first, then the
             fields in declaration order, first hit wins; [lookupField] descends into every struct-typed
             field, embedded or not), the [methodDepth] comparison of the selectorExpr case,
             [lookupBinField] without a [seen] set, the name-keyed map of [methods()], name-only
             [contains], and [typeAssert] with its [len(m0) < len(m1)] test and receiver stripping. *)
From Verif Require Import Lib.Str.
From Coq Require Import NArith.

Definition tid := nat.

(** A struct field: plain ([f_styp = None], an [int]) or of struct type [T] / [*T]
    ([f_styp = Some (is_pointer, T)]), embedded or not.  An embedded field is named after its type. *)
Record field := mkF { f_name : str; f_embed : bool; f_styp : option (bool * tid) }.

(** A method: name, pointer receiver?, signature (number of [int] parameters; result [string]), unique id. *)
Record meth := mkM { m_name : str; m_ptr : bool; m_sig : N; m_id : N }.

Record sdecl := mkS { s_fields : list field; s_meths : list meth }.

(** An interface: explicit methods (name, signature) and embedded interfaces. *)
Record idecl := mkI { i_meths : list (str * N); i_embeds : list nat }.

Record universe := mkU { structs : list sdecl; ifaces : list idecl }.

Definition sdecl_of (U : universe) (t : tid) : option sdecl := nth_error (structs U) t.

(** What a selector [x.name] denotes: a field through an index path (as yaegi's []int and
    go/types' index), or a method reached through a path of fields to its receiver. *)
Inductive sel := SField (p : list nat) | SMethod (p : list nat) (m : meth).

Inductive res :=
| RNone            (* no such field or method *)
| RAmbig           (* G: ambiguous selector (illegal program); Y: cfg error "ambiguous selector" *)
| RCrash           (* Y only: unbounded recursion of lookupBinField, fatal stack overflow of the host *)
| RSel (s : sel).

Definition sel_depth (s : sel) : nat :=
  match s with SField p => pred (length p) | SMethod p _ => length p end.

(* ------------------------------------------------------------------------------------------ *)
(** * G: shallowest depth with ambiguity *)

(** One entry of a level: the path of embedded fields followed so far and the struct reached. *)
Definition entry := (list nat * tid)%type.

Fixpoint field_hits (name : str) (p : list nat) (i : nat) (fs : list field) : list sel :=
  match fs with
  | [] => []
  | f :: fs' => (if str_eqb (f_name f) name then [SField (p ++ [i])] else []) ++ field_hits name p (S i) fs'
  end.

Definition meth_hits (name : str) (p : list nat) (ms : list meth) : list sel :=
  map (SMethod p) (filter (fun m => str_eqb (m_name m) name) ms).

Definition hits (U : universe) (name : str) (e : entry) : list sel :=
  match sdecl_of U (snd e) with
  | None => []
  | Some d => field_hits name (fst e) 0 (s_fields d) ++ meth_hits name (fst e) (s_meths d)
  end.

Definition embed_target (f : field) : option tid :=
  if f_embed f then option_map snd (f_styp f) else None.

Fixpoint embeds (p : list nat) (i : nat) (fs : list field) : list entry :=
  match fs with
  | [] => []
  | f :: fs' => (match embed_target f with Some t => [(p ++ [i], t)] | None => [] end) ++ embeds p (S i) fs'
  end.

Definition next_level (U : universe) (lvl : list entry) : list entry :=
  flat_map (fun e => match sdecl_of U (snd e) with None => [] | Some d => embeds (fst e) 0 (s_fields d) end) lvl.

Fixpoint g_levels (fuel : nat) (U : universe) (name : str) (lvl : list entry) : res :=
  match fuel with
  | 0 => RNone
  | S k =>
      match flat_map (hits U name) lvl with
      | [] => g_levels k U name (next_level U lvl)
      | [x] => RSel x
      | _ :: _ :: _ => RAmbig
      end
  end.

(** Every reachable type is reachable through fewer than [length (structs U)] embedded fields. *)
Definition g_select (U : universe) (t : tid) (name : str) : res :=
  g_levels (S (length (structs U))) U name [([], t)].

(* ------------------------------------------------------------------------------------------ *)
(** * Y: depth first *)

Fixpoint memb (t : tid) (l : list tid) : bool :=
  match l with [] => false | x :: l' => Nat.eqb x t || memb t l' end.

Fixpoint field_index (name : str) (i : nat) (fs : list field) : option nat :=
  match fs with
  | [] => None
  | f :: fs' => if str_eqb (f_name f) name then Some i else field_index name (S i) fs'
  end.

(** The loop "for i, f := range typ.field { if <descend f> { if r := rec(f.typ); found { return i :: r } } }"
    threading the [seen] set. *)
Fixpoint scan {A} (descend : field -> option tid) (rec : list tid -> tid -> list tid * option A)
         (cons : nat -> A -> A) (fs : list field) (i : nat) (seen : list tid) : list tid * option A :=
  match fs with
  | [] => (seen, None)
  | f :: fs' =>
      match descend f with
      | Some t' =>
          match rec seen t' with
          | (seen', Some r) => (seen', Some (cons i r))
          | (seen', None) => scan descend rec cons fs' (S i) seen'
          end
      | None => scan descend rec cons fs' (S i) seen
      end
  end.

(** lookupField (type.go): every field whose type is a struct or a pointer to one is entered. *)
Definition any_struct (f : field) : option tid := option_map snd (f_styp f).

Fixpoint y_field (fuel : nat) (U : universe) (name : str) (seen : list tid) (t : tid) : list tid * option (list nat) :=
  match fuel with
  | 0 => (seen, None)
  | S k =>
      if memb t seen then (seen, None)
      else match sdecl_of U t with
           | None => (t :: seen, None)
           | Some d =>
               match field_index name 0 (s_fields d) with
               | Some i => (t :: seen, Some [i])
               | None => scan any_struct (y_field k U name) (fun i p => i :: p) (s_fields d) 0 (t :: seen)
               end
           end
  end.

Definition y_lookup_field (U : universe) (t : tid) (name : str) : option (list nat) :=
  snd (y_field (S (length (structs U))) U name [] t).

Fixpoint get_method (name : str) (ms : list meth) : option meth :=
  match ms with
  | [] => None
  | m :: ms' => if str_eqb (m_name m) name then Some m else get_method name ms'
  end.

(** lookupMethod2 (type.go): own methods, then the embedded fields in order. *)
Fixpoint y_meth (fuel : nat) (U : universe) (name : str) (seen : list tid) (t : tid) : list tid * option (list nat * meth) :=
  match fuel with
  | 0 => (seen, None)
  | S k =>
      if memb t seen then (seen, None)
      else match sdecl_of U t with
           | None => (t :: seen, None)
           | Some d =>
               match get_method name (s_meths d) with
               | Some m => (t :: seen, Some ([], m))
               | None => scan embed_target (y_meth k U name) (fun i pm => (i :: fst pm, snd pm)) (s_fields d) 0 (t :: seen)
               end
           end
  end.

Definition y_lookup_method (U : universe) (t : tid) (name : str) : option (list nat * meth) :=
  snd (y_meth (S (length (structs U))) U name [] t).

(** methodDepth: -1 (None) when there is no method. *)
Definition y_method_depth (U : universe) (t : tid) (name : str) : option nat :=
  option_map (fun pm => length (fst pm)) (y_lookup_method U t name).

(** lookupBinField recurses through the embedded fields without a [seen] set: it returns iff
    no cycle of embedded (pointer) fields is reachable. *)
Fixpoint y_binfield_returns (fuel : nat) (U : universe) (t : tid) : bool :=
  match fuel with
  | 0 => false
  | S k =>
      match sdecl_of U t with
      | None => true
      | Some d => forallb (fun f => match embed_target f with Some t' => y_binfield_returns k U t' | None => true end) (s_fields d)
      end
  end.

(** The selectorExpr case of cfg.go on an interpreted struct (or pointer to struct). *)
Definition y_select (U : universe) (t : tid) (name : str) : res :=
  match y_lookup_field U t name with
  | Some ti =>
      match y_lookup_method U t name with
      | Some (mp, m) =>
          if length mp <? length ti then RSel (SMethod mp m)
          else if length mp =? length ti then RAmbig
          else RSel (SField ti)
      | None => RSel (SField ti)
      end
  | None =>
      if y_binfield_returns (S (length (structs U))) U t then
        match y_lookup_method U t name with
        | Some (mp, m) => RSel (SMethod mp m)
        | None => RNone
        end
      else RCrash
  end.

(** Dynamic dispatch through an interpreted interface value (getMethodByName / lookupMethodValue):
    lookupMethod on the dynamic type, nothing else. *)
Definition y_dyn (U : universe) (t : tid) (name : str) : res :=
  match y_lookup_method U t name with
  | Some (mp, m) => RSel (SMethod mp m)
  | None => RNone
  end.

(* ------------------------------------------------------------------------------------------ *)
(** * Method sets *)

(** A Go map from names to signatures: distinct keys, later insertions overwrite. *)
Definition mmap := list (str * N).

Fixpoint mset (k : str) (v : N) (m : mmap) : mmap :=
  match m with
  | [] => [(k, v)]
  | (k', v') :: m' => if str_eqb k' k then (k', v) :: m' else (k', v') :: mset k v m'
  end.

Fixpoint mget (k : str) (m : mmap) : option N :=
  match m with
  | [] => None
  | (k', v') :: m' => if str_eqb k' k then Some v' else mget k m'
  end.

Definition mmerge (into from : mmap) : mmap := fold_left (fun acc kv => mset (fst kv) (snd kv) acc) from into.

Definition keys (m : mmap) : list str := map fst m.

(** methods() (type.go) on a struct type or a pointer to it: the embedded fields, then the methods
    declared on the type itself, whatever their receiver kind, whatever the depth. *)
Fixpoint walk_fields (rec : list tid -> tid -> list tid * mmap) (fs : list field) (seen : list tid) (acc : mmap) : list tid * mmap :=
  match fs with
  | [] => (seen, acc)
  | f :: fs' =>
      match embed_target f with
      | Some t' => let '(seen', r) := rec seen t' in walk_fields rec fs' seen' (mmerge acc r)
      | None => walk_fields rec fs' seen acc
      end
  end.

Fixpoint y_methods_aux (fuel : nat) (U : universe) (seen : list tid) (t : tid) : list tid * mmap :=
  match fuel with
  | 0 => (seen, [])
  | S k =>
      if memb t seen then (seen, [])
      else match sdecl_of U t with
           | None => (t :: seen, [])
           | Some d =>
               let '(seen', r) := walk_fields (y_methods_aux k U) (s_fields d) (t :: seen) [] in
               (seen', fold_left (fun acc m => mset (m_name m) (m_sig m) acc) (s_meths d) r)
           end
  end.

Definition y_methods (U : universe) (t : tid) : mmap :=
  snd (y_methods_aux (S (length (structs U))) U [] t).

Definition y_method_names (U : universe) (t : tid) : list str := keys (y_methods U t).

(** Interfaces: the flattened method list (shared by Y and G: embedding cycles among interfaces
    are illegal and rejected by both); Y stores it in a map. *)
Fixpoint imethods (fuel : nat) (U : universe) (j : nat) : list (str * N) :=
  match fuel with
  | 0 => []
  | S k =>
      match nth_error (ifaces U) j with
      | None => []
      | Some d => flat_map (imethods k U) (i_embeds d) ++ i_meths d
      end
  end.

Definition g_imethods (U : universe) (j : nat) : list (str * N) := imethods (S (length (ifaces U))) U j.
Definition y_imethods (U : universe) (j : nat) : mmap := mmerge [] (g_imethods U j).

(** All method names declared in the universe: the candidates of a method set. *)
Definition all_meth_names (U : universe) : list str :=
  flat_map (fun d => map m_name (s_meths d)) (structs U).

(** Does the path of fields from [t] go through a pointer? *)
Fixpoint through_ptr (fuel : nat) (U : universe) (t : tid) (p : list nat) : bool :=
  match fuel, p with
  | S k, i :: p' =>
      match sdecl_of U t with
      | None => false
      | Some d => match nth_error (s_fields d) i with
                  | Some f => match f_styp f with
                              | Some (isptr, t') => isptr || through_ptr k U t' p'
                              | None => false
                              end
                  | None => false
                  end
      end
  | _, _ => false
  end.

(** The method named [n] of the method set of [T] ([ptr = false]) or [*T] ([ptr = true]), if any:
    the selector must denote a method, and a pointer-receiver method belongs to the method set of
    [T] only when it is promoted through an embedded pointer. *)
Definition g_method (U : universe) (t : tid) (ptr : bool) (n : str) : option meth :=
  match g_select U t n with
  | RSel (SMethod p m) => if negb (m_ptr m) || ptr || through_ptr (length p) U t p then Some m else None
  | _ => None
  end.

Definition g_method_names (U : universe) (t : tid) (ptr : bool) : list str :=
  filter (fun n => match g_method U t ptr n with Some _ => true | None => false end) (all_meth_names U).

Definition g_implements (U : universe) (t : tid) (ptr : bool) (j : nat) : bool :=
  forallb (fun ks => match g_method U t ptr (fst ks) with
                     | Some m => N.eqb (m_sig m) (snd ks)
                     | None => false
                     end) (g_imethods U j).

(** implements() / contains() (type.go): names only. *)
Definition y_implements (U : universe) (t : tid) (j : nat) : bool :=
  forallb (fun k => mem k (y_method_names U t)) (keys (y_imethods U j)).

(* ------------------------------------------------------------------------------------------ *)
(** * Type assertions and type switches *)

Inductive target := TStruct (t : tid) | TPtr (t : tid) | TIface (j : nat) | TNil.
Inductive srck := SrcIface | SrcEmpty.          (* static type of the asserted expression *)
Inductive aform := A2 | A1.                      (* v, ok := x.(T)   |   v := x.(T) *)
Inductive aobs :=
| ATrue      (* A2: ok = true;   A1: no panic, the result is usable *)
| AFalse     (* A2: ok = false *)
| APanic     (* panic at the assertion *)
| ALate      (* A1: the assertion does not panic although it fails; the first use of the result panics *)
| AOther.    (* the program is rejected before running *)

Definition dyn := option (tid * bool).           (* dynamic type T / *T of the interface value, None = nil interface *)

Definition concrete_match (d : dyn) (t : tid) (ptr : bool) : bool :=
  match d with Some (t', ptr') => Nat.eqb t t' && Bool.eqb ptr ptr' | None => false end.

(** G *)
Definition g_holds (U : universe) (d : dyn) (tg : target) : bool :=
  match tg, d with
  | TStruct t, _ => concrete_match d t false
  | TPtr t, _ => concrete_match d t true
  | TIface j, Some (t, ptr) => g_implements U t ptr j
  | TIface _, None => false
  | TNil, None => true
  | TNil, Some _ => false
  end.

Definition g_assert (U : universe) (d : dyn) (tg : target) (f : aform) : aobs :=
  if g_holds U d tg then ATrue else match f with A2 => AFalse | A1 => APanic end.

Fixpoint first_index {A} (p : A -> bool) (l : list A) (i : nat) : nat :=
  match l with [] => i | x :: l' => if p x then i else first_index p l' (S i) end.

(** index of the clause taken; [length cases] = default *)
Definition g_switch (U : universe) (d : dyn) (cases : list target) : nat := first_index (g_holds U d) cases 0.

(** Y.  Signature strings are compared; when they differ the first parameter of the concrete
    method's signature is stripped (it is taken for the receiver) and the comparison repeated. *)
Definition y_sig_match (s0 s1 : N) : bool := N.eqb s0 s1 || N.eqb s0 (s1 + 1).

Definition y_iface_ok (U : universe) (t : tid) (j : nat) : bool :=
  forallb (fun ks => match mget (fst ks) (y_methods U t) with
                     | Some s0 => y_sig_match s0 (snd ks)
                     | None => false
                     end) (y_imethods U j).

(** typecheck.typeAssertionExpr: for every method name of the source interface the method of the
    concrete target is looked up depth first; a non-pointer target is rejected when that method has
    a pointer receiver, any target when its signature differs from the interface's. *)
Definition y_static_reject (U : universe) (srcm : list (str * N)) (tg : target) : bool :=
  let bad (t : tid) (isptr : bool) :=
    existsb (fun ks => match y_lookup_method U t (fst ks) with
                       | Some (_, m) => (negb isptr && m_ptr m) || negb (N.eqb (m_sig m) (snd ks))
                       | None => false
                       end) srcm in
  match tg with
  | TStruct t => bad t false
  | TPtr t => bad t true
  | _ => false
  end.

Definition y_assert (U : universe) (src : srck) (srcm : list (str * N)) (d : dyn) (tg : target) (f : aform) : aobs :=
  if y_static_reject U srcm tg then AOther else
  match tg with
  | TStruct t => if concrete_match d t false then ATrue else match f with A2 => AFalse | A1 => APanic end
  | TPtr t => if concrete_match d t true then ATrue else match f with A2 => AFalse | A1 => APanic end
  | TNil => AOther
  | TIface j =>
      match src, d with
      | _, None => APanic                                            (* v.node is nil *)
      | _, Some (t, _) =>
          let m0 := y_methods U t in
          let m1 := y_imethods U j in
          if length m0 <? length m1 then match f with A2 => AFalse | A1 => APanic end
          else if y_iface_ok U t j then ATrue
          else match f with A2 => AFalse | A1 => ALate end
      end
  end.

(** _case (run.go) on a value of an interpreted interface type: type identity only. *)
Definition y_case_holds (d : dyn) (tg : target) : bool :=
  match tg with
  | TStruct t => concrete_match d t false
  | TPtr t => concrete_match d t true
  | TIface _ | TNil => false
  end.

Definition y_switch (d : dyn) (cases : list target) : nat := first_index (y_case_holds d) cases 0.

(* ------------------------------------------------------------------------------------------ *)
(** * Side conditions of the partial theorems (decidable) *)

Fixpoint list_nat_eqb (a b : list nat) : bool :=
  match a, b with
  | [], [] => true
  | x :: a', y :: b' => Nat.eqb x y && list_nat_eqb a' b'
  | _, _ => false
  end.

Definition meth_eqb (a b : meth) : bool :=
  str_eqb (m_name a) (m_name b) && Bool.eqb (m_ptr a) (m_ptr b) && N.eqb (m_sig a) (m_sig b) && N.eqb (m_id a) (m_id b).

Definition sel_eqb (a b : sel) : bool :=
  match a, b with
  | SField p, SField q => list_nat_eqb p q
  | SMethod p m, SMethod q m' => list_nat_eqb p q && meth_eqb m m'
  | _, _ => false
  end.

Definition res_eqb (a b : res) : bool :=
  match a, b with
  | RNone, RNone | RAmbig, RAmbig | RCrash, RCrash => true
  | RSel x, RSel y => sel_eqb x y
  | _, _ => false
  end.

(** Well-formed: every struct-typed field refers to a declared struct. *)
Definition wf (U : universe) : bool :=
  forallb (fun d => forallb (fun f => match f_styp f with Some (_, t) => t <? length (structs U) | None => true end) (s_fields d)) (structs U).

(** No struct-typed field that is not embedded (into which lookupField would wrongly descend). *)
Definition no_named_struct_fields (U : universe) : bool :=
  forallb (fun d => forallb (fun f => match f_styp f with Some _ => f_embed f | None => true end) (s_fields d)) (structs U).

(** The first hit of the depth-first search lies at the shallowest depth at which Go finds the
    selector (and yaegi neither reports an ambiguity nor crashes).  Its negation is the region of
    the known findings "depth-first", "field-method-depth" and "embed-cycle". *)
Definition dfs_first_is_shallowest (U : universe) (t : tid) (name : str) : bool :=
  match y_select U t name, g_select U t name with
  | RSel a, RSel b => Nat.eqb (sel_depth a) (sel_depth b)
  | RNone, RNone => true
  | _, _ => false
  end.

(** Equal method names carry equal signatures, in struct methods and interface methods alike. *)
Definition all_sigs (U : universe) : list (str * N) :=
  flat_map (fun d => map (fun m => (m_name m, m_sig m)) (s_meths d)) (structs U) ++ flat_map i_meths (ifaces U).

Definition sig_consistent (U : universe) : bool :=
  forallb (fun a => forallb (fun b => negb (str_eqb (fst a) (fst b)) || N.eqb (snd a) (snd b)) (all_sigs U)) (all_sigs U).

(** Every method name yaegi attributes to [T] is, for Go, in the method set of [T] / [*T]. *)
Definition names_agree (U : universe) (t : tid) (ptr : bool) : bool :=
  forallb (fun n => match g_method U t ptr n with Some _ => true | None => false end) (y_method_names U t).

Definition concrete_target (tg : target) : bool :=
  match tg with TStruct _ | TPtr _ => true | _ => false end.
