(** C14 — the literal parser of the model against go/constant on generated literals.
    The tables only contain decimal integers, decimal floats and simple strings; the property is
    decided with [parse_literal] / [unquote] also when a literal is rewritten in another form
    (hexadecimal, octal, binary, digit separators, exponents, hexadecimal floats, runes, escapes,
    raw strings).  The harness generates such literals (seeded), lets constant.MakeFromLiteral
    read them (the very function the compiled tables call), and writes the exact values here.
    [lit_mis_y]: ids of the literals on which the parser of the model disagrees. *)
From Verif Require Import Lib.Str Bind.Literal Bind.Model.
Open Scope Z_scope.

Inductive lit_obs :=
| LNum (n d : Z)     (* constant of kind Int or Float, exact value n/d, d > 0 *)
| LStr (b : str)     (* constant of kind String *)
| LUnknown.          (* constant.MakeFromLiteral returned an unknown value: not a literal *)

Definition lit_case := (N * tok * str * lit_obs)%type.

Definition lit_ok (t : tok) (x : str) (o : lit_obs) : bool :=
  match t, o with
  | TSTRING, LStr b => match unquote x with Some b' => seqb b' b | None => false end
  | TSTRING, LUnknown => match unquote x with Some _ => false | None => true end
  | TSTRING, LNum _ _ => false
  | _, LNum n d => (0 <? d) && match parse_literal t x with
                               | Some (n', d') => (0 <? d') && q_eqb (n', d') (n, d)
                               | None => false
                               end
  | _, LUnknown => match parse_literal t x with Some _ => false | None => true end
  | _, LStr _ => false
  end.

Definition lit_mis_y (cs : list lit_case) : list N :=
  flat_map (fun '(id, t, x, o) => if lit_ok t x o then [] else [id]) cs.
