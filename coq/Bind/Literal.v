(** C14 — Go literals as go/constant.MakeFromLiteral reads them, parsed inside Coq.
    [parse_literal tok lit] is the exact rational value (numerator, denominator > 0, not
    necessarily reduced) of the literal text handed to constant.MakeFromLiteral(lit, token.tok, 0):
    decimal / hexadecimal / octal / binary integers, decimal and hexadecimal floats with
    exponent, digit separators, an optional sign (strconv.ParseInt and big.Float.SetString accept
    one), rune literals; [unquote] is the byte string denoted by a Go string literal.
    [print_dec] is the decimal rendering of a non-negative integer (constant.Value.ExactString on
    integers).  Definitions only; proofs are in Bind/Proofs.v. *)
From Verif Require Import Lib.Str.
Open Scope Z_scope.

Definition code (a : ascii) : Z := Z.of_N (N_of_ascii a).

Definition chr (z : Z) : ascii := ascii_of_N (Z.to_N z).

(** bytes given by their codes (used by the translator for texts with non-printable bytes) *)
Definition bs (l : list Z) : str := map chr l.

Definition digit_val (a : ascii) : option Z :=
  let n := code a in
  if (48 <=? n) && (n <=? 57) then Some (n - 48)
  else if (97 <=? n) && (n <=? 102) then Some (n - 87)
  else if (65 <=? n) && (n <=? 70) then Some (n - 55)
  else None.

Inductive tok := TINT | TFLOAT | TCHAR | TSTRING | TIMAG | TOTHER.

Definition tok_eqb (a b : tok) : bool :=
  match a, b with
  | TINT, TINT | TFLOAT, TFLOAT | TCHAR, TCHAR | TSTRING, TSTRING | TIMAG, TIMAG | TOTHER, TOTHER => true
  | _, _ => false
  end.

(** mantissa scanner: digits of [base], '_' skipped, at most one '.';
    result: value of the digits, number of digits after the point, number of digits, point seen, rest *)
Fixpoint mant (base : Z) (x : str) (acc frac nd : Z) (dot : bool) : Z * Z * Z * bool * str :=
  match x with
  | [] => (acc, frac, nd, dot, [])
  | a :: t =>
      if Ascii.eqb a "_"%char then mant base t acc frac nd dot
      else if Ascii.eqb a "."%char then
        (if dot then (acc, frac, nd, dot, x) else mant base t acc frac nd true)
      else match digit_val a with
           | Some d => if d <? base
                       then mant base t (acc * base + d) (if dot then frac + 1 else frac) (nd + 1) dot
                       else (acc, frac, nd, dot, x)
           | None => (acc, frac, nd, dot, x)
           end
  end.

Definition is_char (c : ascii) (a b : string) : bool :=
  match a, b with
  | String x EmptyString, String y EmptyString => Ascii.eqb c x || Ascii.eqb c y
  | _, _ => false
  end.

(** exponent: optional sign, at least one decimal digit, nothing else *)
Definition expo (x : str) : option Z :=
  let '(sg, t) := match x with
                  | a :: t => if Ascii.eqb a "+"%char then (1, t)
                              else if Ascii.eqb a "-"%char then (-1, t) else (1, x)
                  | [] => (1, [])
                  end in
  match t with
  | [] => None
  | _ => option_map (Z.mul sg) (digits_val 0 t)
  end.

(** m * base^(-frac) * ebase^e as a fraction *)
Definition mkq (m base frac ebase e : Z) : Z * Z :=
  if 0 <=? e then (m * ebase ^ e, base ^ frac) else (m, base ^ frac * ebase ^ (- e)).

(** an unsigned number: (numerator, denominator, written with integer syntax).
    As big.Float.SetString reads it: a mantissa in the base of the prefix with an optional
    fraction, then an optional exponent — 'p' (power of two) after any mantissa, 'e' (power of
    ten) after a mantissa that is not hexadecimal. *)
Definition parse_exp (m base frac : Z) (rest : str) : option (Z * Z * bool) :=
  match rest with
  | [] => None
  | c :: ex =>
      if is_char c "p" "P" then
        match expo ex with
        | Some e => let '(n, d) := mkq m base frac 2 e in Some (n, d, false)
        | None => None
        end
      else if negb (base =? 16) && is_char c "e" "E" then
        match expo ex with
        | Some e => let '(n, d) := mkq m base frac 10 e in Some (n, d, false)
        | None => None
        end
      else None
  end.

Definition parse_based (base : Z) (t : str) : option (Z * Z * bool) :=
  let '(m, frac, nd, dot, rest) := mant base t 0 0 0 false in
  if nd =? 0 then None
  else match rest with
       | [] => if dot then Some (m, base ^ frac, false) else Some (m, 1, true)
       | _ => parse_exp m base frac rest
       end.

Definition parse_decimal (legacy_octal : bool) (x : str) : option (Z * Z * bool) :=
  let '(m, frac, nd, dot, rest) := mant 10 x 0 0 0 false in
  if nd =? 0 then None
  else match rest with
       | [] =>
           if dot then Some (m, 10 ^ frac, false)
           else match x with
                | z :: _ :: _ =>
                    if Ascii.eqb z "0"%char && legacy_octal then parse_based 8 x
                    else Some (m, 1, true)
                | _ => Some (m, 1, true)
                end
       | _ => parse_exp m 10 frac rest
       end.

Definition parse_unsigned (legacy_octal : bool) (x : str) : option (Z * Z * bool) :=
  match x with
  | z :: c :: t =>
      if Ascii.eqb z "0"%char then
        if is_char c "x" "X" then parse_based 16 t
        else if is_char c "b" "B" then parse_based 2 t
        else if is_char c "o" "O" then parse_based 8 t
        else parse_decimal legacy_octal x
      else parse_decimal legacy_octal x
  | _ => parse_decimal legacy_octal x
  end.

Definition parse_signed (legacy_octal : bool) (x : str) : option (Z * Z * bool) :=
  match x with
  | a :: t =>
      if Ascii.eqb a "-"%char then
        match parse_unsigned legacy_octal t with
        | Some (n, d, i) => Some (- n, d, i)
        | None => None
        end
      else if Ascii.eqb a "+"%char then parse_unsigned legacy_octal t
      else parse_unsigned legacy_octal x
  | [] => None
  end.

(* ------------------------------------------------------------------ *)
(** * Quoted texts *)

Fixpoint hex_val (n : nat) (x : str) (acc : Z) : option (Z * str) :=
  match n with
  | O => Some (acc, x)
  | S n' => match x with
            | a :: t => match digit_val a with
                        | Some d => hex_val n' t (acc * 16 + d)
                        | None => None
                        end
            | [] => None
            end
  end.

Fixpoint oct_val (n : nat) (x : str) (acc : Z) : option (Z * str) :=
  match n with
  | O => Some (acc, x)
  | S n' => match x with
            | a :: t => match digit_val a with
                        | Some d => if d <? 8 then oct_val n' t (acc * 8 + d) else None
                        | None => None
                        end
            | [] => None
            end
  end.

(** UTF-8 encoding of a code point (surrogates and values above 0x10FFFF are rejected by Go). *)
Definition utf8 (c : Z) : option str :=
  if c <? 0 then None
  else if c <? 128 then Some [chr c]
  else if c <? 2048 then Some [chr (192 + c / 64); chr (128 + c mod 64)]
  else if (55296 <=? c) && (c <=? 57343) then None
  else if c <? 65536 then Some [chr (224 + c / 4096); chr (128 + (c / 64) mod 64); chr (128 + c mod 64)]
  else if c <=? 1114111 then
    Some [chr (240 + c / 262144); chr (128 + (c / 4096) mod 64); chr (128 + (c / 64) mod 64); chr (128 + c mod 64)]
  else None.

(** one escape sequence after the backslash: (bytes, code point if it denotes one, rest) *)
Definition escape (quote : ascii) (x : str) : option (str * option Z * str) :=
  match x with
  | [] => None
  | a :: t =>
      let simple (v : Z) := Some ([chr v], Some v, t) in
      if Ascii.eqb a "a"%char then simple 7
      else if Ascii.eqb a "b"%char then simple 8
      else if Ascii.eqb a "f"%char then simple 12
      else if Ascii.eqb a "n"%char then simple 10
      else if Ascii.eqb a "r"%char then simple 13
      else if Ascii.eqb a "t"%char then simple 9
      else if Ascii.eqb a "v"%char then simple 11
      else if Ascii.eqb a "\"%char then simple 92
      else if Ascii.eqb a quote then simple (code quote)
      else if Ascii.eqb a "x"%char then
        match hex_val 2 t 0 with Some (v, r) => Some ([chr v], Some v, r) | None => None end
      else if Ascii.eqb a "u"%char then
        match hex_val 4 t 0 with
        | Some (v, r) => match utf8 v with Some b => Some (b, Some v, r) | None => None end
        | None => None
        end
      else if Ascii.eqb a "U"%char then
        match hex_val 8 t 0 with
        | Some (v, r) => match utf8 v with Some b => Some (b, Some v, r) | None => None end
        | None => None
        end
      else match digit_val a with
           | Some d => if d <? 8 then
                         match oct_val 3 x 0 with
                         | Some (v, r) => if v <? 256 then Some ([chr v], Some v, r) else None
                         | None => None
                         end
                       else None
           | None => None
           end
  end.

(** body of an interpreted string literal up to the closing quote, which must end the text *)
Fixpoint unquote_body (fuel : nat) (x : str) : option str :=
  match fuel with
  | O => None
  | S f =>
      match x with
      | [] => None
      | a :: t =>
          if Ascii.eqb a """"%char then (match t with [] => Some [] | _ => None end)
          else if Ascii.eqb a "\"%char then
            match escape """"%char t with
            | Some (b, _, r) => option_map (app b) (unquote_body f r)
            | None => None
            end
          else if code a =? 10 then None
          else option_map (cons a) (unquote_body f t)
      end
  end.

Fixpoint raw_body (x : str) : option str :=
  match x with
  | [] => None
  | a :: t =>
      if Ascii.eqb a "`"%char then (match t with [] => Some [] | _ => None end)
      else if code a =? 13 then raw_body t
      else option_map (cons a) (raw_body t)
  end.

(** the bytes denoted by a Go string literal (interpreted or raw) *)
Definition unquote (x : str) : option str :=
  match x with
  | a :: t =>
      if Ascii.eqb a """"%char then unquote_body (S (length t)) t
      else if Ascii.eqb a "`"%char then raw_body t
      else None
  | [] => None
  end.

(** decoding of one UTF-8 sequence at the head of a byte string *)
Definition utf8_decode (x : str) : option (Z * str) :=
  match x with
  | [] => None
  | a :: t =>
      let c := code a in
      let cont (b : ascii) := let v := code b in if (128 <=? v) && (v <? 192) then Some (v - 128) else None in
      if c <? 128 then Some (c, t)
      else if c <? 194 then None
      else if c <? 224 then
        match t with
        | b1 :: r => match cont b1 with Some v1 => Some ((c - 192) * 64 + v1, r) | None => None end
        | _ => None
        end
      else if c <? 240 then
        match t with
        | b1 :: b2 :: r =>
            match cont b1, cont b2 with
            | Some v1, Some v2 => let v := (c - 224) * 4096 + v1 * 64 + v2 in
                                  if (v <? 2048) || ((55296 <=? v) && (v <=? 57343)) then None else Some (v, r)
            | _, _ => None
            end
        | _ => None
        end
      else if c <? 245 then
        match t with
        | b1 :: b2 :: b3 :: r =>
            match cont b1, cont b2, cont b3 with
            | Some v1, Some v2, Some v3 => let v := (c - 240) * 262144 + v1 * 4096 + v2 * 64 + v3 in
                                           if (v <? 65536) || (1114111 <? v) then None else Some (v, r)
            | _, _, _ => None
            end
        | _ => None
        end
      else None
  end.

(** a rune literal: one character or one escape between single quotes *)
Definition parse_char (x : str) : option Z :=
  match x with
  | q :: a :: t =>
      if negb (Ascii.eqb q "'"%char) then None
      else if Ascii.eqb a "\"%char then
        match escape "'"%char t with
        | Some (_, Some v, [q']) => if Ascii.eqb q' "'"%char then Some v else None
        | _ => None
        end
      else if Ascii.eqb a "'"%char || (code a =? 10) then None
      else match utf8_decode (a :: t) with
           | Some (v, [q']) => if Ascii.eqb q' "'"%char then Some v else None
           | _ => None
           end
  | _ => None
  end.

(* ------------------------------------------------------------------ *)
(** * constant.MakeFromLiteral *)

Definition parse_literal (t : tok) (x : str) : option (Z * Z) :=
  match t with
  | TINT => match parse_signed true x with
            | Some (n, d, true) => Some (n, d)
            | _ => None
            end
  | TFLOAT => match parse_signed false x with
              | Some (n, d, _) => Some (n, d)
              | None => None
              end
  | TCHAR => option_map (fun v => (v, 1)) (parse_char x)
  | _ => None
  end.

(** equality of fractions with positive denominators *)
Definition q_eqb (a b : Z * Z) : bool := (fst a * snd b =? fst b * snd a).

Definition oq_eqb (a : option (Z * Z)) (b : Z * Z) : bool :=
  match a with Some q => q_eqb q b | None => false end.

(* ------------------------------------------------------------------ *)
(** * Decimal rendering of non-negative integers *)

Definition digit_char (d : Z) : ascii := chr (48 + d).

Fixpoint digs (fuel : nat) (n : Z) : str :=
  match fuel with
  | O => []
  | S f => if n <? 10 then [digit_char n] else digs f (n / 10) ++ [digit_char (n mod 10)]
  end.

Definition print_dec (n : Z) : str := digs (S (Z.to_nat (Z.log2 n))) n.
