(** C14 — proofs about the binding model (Bind/Model.v, Bind/Literal.v).
    1. the short-circuiting comparisons are the library ones;
    2. [parse_literal] reads back the decimal rendering of every integer (unbounded);
    3. extract.fixConst ([y_fixconst]: binary rounding to max(bitlen num, bitlen den, 64) bits, then
       decimal rendering with that many digits) is exact on every dyadic rational, hence the generator
       model Y and the property G agree on every row outside the float region (unbounded);
    4. the decision procedures decide what they are meant to: [obj_row_ok const_g] is the relation
       [denotes], [complete] yields a row for every expected object, [forwards] yields the forwarding
       shape of every wrapper method. *)
From Verif Require Import Lib.Str Bind.Literal Bind.Model gen.BindRestricted_gen.
Open Scope Z_scope.

Lemma seqb_str_eqb a b : seqb a b = str_eqb a b.
Proof.
  revert b; induction a as [|x a IH]; intros [|y b]; simpl; reflexivity.
Qed.

Lemma seqb_eq a b : seqb a b = true <-> a = b.
Proof. rewrite seqb_str_eqb. apply str_eqb_eq. Qed.

Lemma seqb_refl a : seqb a a = true.
Proof. now apply seqb_eq. Qed.

Lemma exb_existsb {A} (f : A -> bool) l : exb f l = existsb f l.
Proof. induction l as [|x l IH]; simpl; [reflexivity|]. destruct (f x); simpl; auto. Qed.

Lemma exb_exists {A} (f : A -> bool) l : exb f l = true <-> exists x, In x l /\ f x = true.
Proof. rewrite exb_existsb. apply existsb_exists. Qed.

Lemma smem_In x l : smem x l = true <-> In x l.
Proof.
  unfold smem. rewrite exb_exists. split.
  - intros (y & Hy & E). apply seqb_eq in E. now subst.
  - intros H. exists x. split; [assumption|apply seqb_refl].
Qed.

(* ---------- decimal digits *)

Definition isdig (a : ascii) : Prop := exists d, 0 <= d < 10 /\ a = digit_char d.

Lemma digit_facts d : 0 <= d < 10 ->
  Ascii.eqb (digit_char d) "_"%char = false /\ Ascii.eqb (digit_char d) "."%char = false
  /\ Ascii.eqb (digit_char d) "-"%char = false /\ Ascii.eqb (digit_char d) "+"%char = false
  /\ digit_val (digit_char d) = Some d
  /\ (Ascii.eqb (digit_char d) "0"%char = true -> d = 0).
Proof.
  intros H.
  assert (d = 0 \/ d = 1 \/ d = 2 \/ d = 3 \/ d = 4 \/ d = 5 \/ d = 6 \/ d = 7 \/ d = 8 \/ d = 9) as C by lia.
  repeat (destruct C as [->|C]); try subst d; vm_compute; repeat split; try reflexivity; intros; try discriminate; reflexivity.
Qed.

Definition dval (acc : Z) (l : str) : Z := fold_left (fun a c => a * 10 + (code c - 48)) l acc.

Lemma code_digit d : 0 <= d < 10 -> code (digit_char d) - 48 = d.
Proof.
  intros H.
  assert (d = 0 \/ d = 1 \/ d = 2 \/ d = 3 \/ d = 4 \/ d = 5 \/ d = 6 \/ d = 7 \/ d = 8 \/ d = 9) as C by lia.
  repeat (destruct C as [->|C]); try subst d; reflexivity.
Qed.

Lemma mant_digits l : Forall isdig l -> forall acc frac nd,
  mant 10 l acc frac nd false = (dval acc l, frac, nd + Z.of_nat (length l), false, []).
Proof.
  induction 1 as [|a l (d & Hd & ->) _ IH]; intros acc frac nd.
  - simpl. now rewrite Z.add_0_r.
  - destruct (digit_facts d Hd) as (E1 & E2 & _ & _ & E5 & _).
    cbn [mant]. rewrite E1, E2, E5.
    replace (d <? 10) with true by (symmetry; apply Z.ltb_lt; lia).
    rewrite IH. cbn [dval fold_left length]. rewrite (code_digit d Hd).
    replace (nd + 1 + Z.of_nat (length l)) with (nd + Z.of_nat (S (length l))) by lia. reflexivity.
Qed.

Lemma dval_snoc acc l c : dval acc (l ++ [c]) = dval acc l * 10 + (code c - 48).
Proof. unfold dval. now rewrite fold_left_app. Qed.

Lemma digs_spec fuel : forall n, 0 <= n < 10 ^ Z.of_nat fuel -> (0 < fuel)%nat ->
  Forall isdig (digs fuel n) /\ dval 0 (digs fuel n) = n /\ digs fuel n <> []
  /\ (10 <= n -> exists d t, 1 <= d < 10 /\ digs fuel n = digit_char d :: t /\ t <> []).
Proof.
  induction fuel as [|f IH]; intros n Hn Hf; [lia|].
  cbn [digs]. destruct (n <? 10) eqn:E.
  - apply Z.ltb_lt in E. repeat split.
    + constructor; [exists n; split; [lia|reflexivity]|constructor].
    + unfold dval; simpl. apply code_digit. lia.
    + discriminate.
    + lia.
  - apply Z.ltb_ge in E.
    assert (Hq : 0 <= n / 10 < 10 ^ Z.of_nat f).
    { split; [apply Z.div_pos; lia|]. apply Z.div_lt_upper_bound; [lia|].
      replace (Z.of_nat (S f)) with (Z.of_nat f + 1) in Hn by lia.
      rewrite Z.pow_add_r, Z.pow_1_r in Hn by lia. lia. }
    assert (Hf' : (0 < f)%nat).
    { destruct f; [|lia]. simpl in Hq. assert (n / 10 >= 1) by (apply Z.le_ge, Z.div_le_lower_bound; lia). lia. }
    destruct (IH (n / 10) Hq Hf') as (A & B & C & D).
    assert (Hm : 0 <= n mod 10 < 10) by (apply Z.mod_pos_bound; lia).
    repeat split.
    + apply Forall_app; split; [assumption|]. constructor; [|constructor]. exists (n mod 10). split; [lia|reflexivity].
    + rewrite dval_snoc, B, code_digit by lia. rewrite (Z.div_mod n 10) at 3 by lia. lia.
    + destruct (digs f (n / 10)); discriminate.
    + intros _. destruct (Z_lt_le_dec (n / 10) 10) as [L|L].
      * destruct f as [|f']; [lia|]. cbn [digs]. replace (n / 10 <? 10) with true by (symmetry; apply Z.ltb_lt; lia).
        exists (n / 10), [digit_char (n mod 10)]. repeat split; try discriminate.
        -- apply Z.div_le_lower_bound; lia.
        -- lia.
      * destruct (D L) as (d & t & Hd & -> & Ht). exists d, (t ++ [digit_char (n mod 10)]).
        repeat split; try lia. destruct t; [congruence|discriminate].
Qed.

Lemma parse_decimal_digits lo l : Forall isdig l -> l <> [] ->
  (forall z c t, l = z :: c :: t -> Ascii.eqb z "0"%char = false) ->
  parse_decimal lo l = Some (dval 0 l, 1, true).
Proof.
  intros Hd Hne Hz. unfold parse_decimal. rewrite (mant_digits l Hd).
  destruct l as [|z [|c t]]; [congruence| |].
  - reflexivity.
  - replace (0 + Z.of_nat (length (z :: c :: t)) =? 0) with false
      by (symmetry; apply Z.eqb_neq; cbn [length]; lia).
    rewrite (Hz z c t eq_refl). reflexivity.
Qed.

Lemma parse_unsigned_digits lo l : Forall isdig l -> l <> [] ->
  (forall z c t, l = z :: c :: t -> Ascii.eqb z "0"%char = false) ->
  parse_unsigned lo l = Some (dval 0 l, 1, true).
Proof.
  intros Hd Hne Hz. unfold parse_unsigned.
  destruct l as [|z [|c t]]; [congruence| |].
  - now apply parse_decimal_digits.
  - rewrite (Hz z c t eq_refl). now apply parse_decimal_digits.
Qed.

Lemma print_dec_fuel n : 0 <= n -> n < 10 ^ Z.of_nat (S (Z.to_nat (Z.log2 n))).
Proof.
  intros Hn. rewrite Nat2Z.inj_succ, Z2Nat.id by apply Z.log2_nonneg.
  destruct (Z.eq_dec n 0) as [->|Hz]; [reflexivity|].
  assert (H := Z.log2_spec n ltac:(lia)).
  eapply Z.lt_le_trans; [apply H|].
  apply Z.pow_le_mono_l. lia.
Qed.

Lemma print_dec_shape n : 0 <= n ->
  Forall isdig (print_dec n) /\ dval 0 (print_dec n) = n /\ print_dec n <> []
  /\ (forall z c t, print_dec n = z :: c :: t -> Ascii.eqb z "0"%char = false)
  /\ (exists a t, print_dec n = a :: t /\ Ascii.eqb a "-"%char = false /\ Ascii.eqb a "+"%char = false).
Proof.
  intros Hn. unfold print_dec.
  destruct (digs_spec _ n (conj Hn (print_dec_fuel n Hn)) ltac:(lia)) as (A & B & C & D).
  repeat split; try assumption.
  - intros z c t E. destruct (Z_lt_le_dec n 10) as [L|L].
    + exfalso. cbn [digs] in E. replace (n <? 10) with true in E by (symmetry; apply Z.ltb_lt; lia). discriminate.
    + destruct (D L) as (d & t' & Hd & E' & _). rewrite E' in E. injection E as <- _.
      destruct (digit_facts d ltac:(lia)) as (_ & _ & _ & _ & _ & Z0).
      destruct (Ascii.eqb (digit_char d) "0"%char); [|reflexivity]. specialize (Z0 eq_refl). lia.
  - destruct (digs (S (Z.to_nat (Z.log2 n))) n) as [|a t] eqn:E; [congruence|].
    inversion A as [|? ? (d & Hd & ->) _]; subst.
    destruct (digit_facts d Hd) as (_ & _ & M & P & _). exists (digit_char d), t. auto.
Qed.

(** constant.Value.ExactString of an integer, read back by MakeFromLiteral(_, token.INT, 0) *)
Theorem parse_print_dec n : 0 <= n -> parse_literal TINT (print_dec n) = Some (n, 1).
Proof.
  intros Hn. destruct (print_dec_shape n Hn) as (A & B & C & D & a & t & E & M & P).
  unfold parse_literal, parse_signed. rewrite E, M, P, <- E.
  rewrite (parse_unsigned_digits true _ A C D), B. reflexivity.
Qed.

Theorem parse_neg_print_dec n : 0 <= n -> parse_literal TINT ("-"%char :: print_dec n) = Some (- n, 1).
Proof.
  intros Hn. destruct (print_dec_shape n Hn) as (A & B & C & D & _).
  unfold parse_literal, parse_signed. cbn [Ascii.eqb Bool.eqb].
  rewrite (parse_unsigned_digits true _ A C D), B. reflexivity.
Qed.

(** the same literal under token.FLOAT (integers are valid float literals) *)
Theorem parse_print_dec_float n : 0 <= n -> parse_literal TFLOAT (print_dec n) = Some (n, 1).
Proof.
  intros Hn. destruct (print_dec_shape n Hn) as (A & B & C & D & a & t & E & M & P).
  unfold parse_literal, parse_signed. rewrite E, M, P, <- E.
  rewrite (parse_unsigned_digits false _ A C D), B. reflexivity.
Qed.

Lemma rne_div_exact q b : 0 < b -> rne_div (q * b) b = q.
Proof.
  intros Hb. unfold rne_div. rewrite Z.div_mul, Z.mod_mul by lia.
  replace (2 * 0 <? b) with true by (symmetry; apply Z.ltb_lt; lia). reflexivity.
Qed.

Lemma sgn_abs_eq n : Z.sgn n * Z.abs n = n.
Proof. destruct n; reflexivity. Qed.

Lemma bitlen_pow2 k : 0 <= k -> bitlen (2 ^ k) = k + 1.
Proof.
  intros Hk. unfold bitlen. assert (0 < 2 ^ k) by (apply Z.pow_pos_nonneg; lia).
  replace (2 ^ k =? 0) with false by (symmetry; apply Z.eqb_neq; lia).
  rewrite Z.abs_eq by lia. now rewrite Z.log2_pow2.
Qed.

Lemma bitlen_abs n : bitlen (Z.abs n) = bitlen n.
Proof. unfold bitlen. rewrite Z.abs_involutive. destruct n; reflexivity. Qed.

Lemma bitlen_bound n : Z.abs n < 2 ^ bitlen n.
Proof.
  unfold bitlen. destruct (n =? 0) eqn:E.
  - apply Z.eqb_eq in E; subst. reflexivity.
  - apply Z.eqb_neq in E. assert (H := Z.log2_spec (Z.abs n) ltac:(lia)).
    replace (Z.log2 (Z.abs n) + 1) with (Z.succ (Z.log2 (Z.abs n))) by lia. lia.
Qed.

Lemma bitlen_nonneg n : 0 <= bitlen n.
Proof. unfold bitlen. destruct (n =? 0); [lia|]. assert (H := Z.log2_nonneg (Z.abs n)). lia. Qed.

(** big.Float.SetRat is exact on a dyadic rational whose numerator fits the precision *)
Lemma round_bits_dyadic p n k : 0 <= k -> bitlen n <= p -> k + 1 <= p ->
  let '(N, D) := round_bits p n (2 ^ k) in 0 < D /\ N * 2 ^ k = n * D.
Proof.
  intros Hk Hn Hp. unfold round_bits.
  destruct (n =? 0) eqn:E0.
  - apply Z.eqb_eq in E0; subst. split; lia.
  - apply Z.eqb_neq in E0.
    rewrite bitlen_abs, bitlen_pow2 by assumption.
    set (a := Z.abs n). assert (Ha : 0 < a) by (subst a; lia).
    set (e0 := bitlen n - (k + 1) - p).
    assert (He0 : e0 + 1 <= - k) by (subst e0; lia).
    destruct (scaled 2 a (2 ^ k) e0) as [a0 d0].
    set (e := if 2 ^ p * d0 <=? a0 then e0 + 1 else e0).
    assert (He : e <= - k) by (subst e; destruct (2 ^ p * d0 <=? a0); lia).
    clearbody e. clear He0 a0 d0.
    assert (H2k : 0 < 2 ^ k) by (apply Z.pow_pos_nonneg; lia).
    unfold scaled. destruct (0 <=? e) eqn:Ee.
    + apply Z.leb_le in Ee. assert (e = 0) by lia. assert (k = 0) by lia. subst e k.
      change (2 ^ 0) with 1. replace a with (a * (1 * 1)) at 1 by lia.
      rewrite rne_div_exact by lia. split; [lia|]. rewrite <- (sgn_abs_eq n) at 2. subst a. lia.
    + apply Z.leb_gt in Ee.
      replace (a * 2 ^ (- e)) with ((a * 2 ^ (- e - k)) * 2 ^ k)
        by (rewrite <- Z.mul_assoc, <- Z.pow_add_r by lia; do 2 f_equal; lia).
      rewrite rne_div_exact by assumption.
      split; [apply Z.pow_pos_nonneg; lia|].
      replace (2 ^ (- e)) with (2 ^ (- e - k) * 2 ^ k) by (rewrite <- Z.pow_add_r by lia; f_equal; lia).
      rewrite <- (sgn_abs_eq n) at 2. subst a. ring.
Qed.

Lemma dec_exp_spec fuel : forall p a d k0 k, dec_exp fuel p a d k0 = Some k ->
  let '(a1, d1) := scaled 10 a d k in 10 ^ (p - 1) * d1 <= a1 /\ a1 < 10 ^ p * d1.
Proof.
  induction fuel as [|f IH]; intros p a d k0 k H; simpl in H; [discriminate|].
  destruct (scaled 10 a d k0) as [a1 d1] eqn:E.
  destruct (a1 <? 10 ^ (p - 1) * d1) eqn:L1; [now apply IH in H|].
  destruct (10 ^ p * d1 <=? a1) eqn:L2; [now apply IH in H|].
  injection H as <-. rewrite E. apply Z.ltb_ge in L1. apply Z.leb_gt in L2. lia.
Qed.

Lemma pow10_split x : 0 <= x -> 10 ^ x = 2 ^ x * 5 ^ x.
Proof. intros. change 10 with (2 * 5). now rewrite Z.pow_mul_l. Qed.

Lemma sgn_of_eq N D n c : 0 < D -> 0 < c -> N * c = n * D -> Z.sgn N = Z.sgn n.
Proof.
  intros HD Hc H. apply (f_equal Z.sgn) in H. rewrite !Z.sgn_mul in H.
  rewrite (Z.sgn_pos c), (Z.sgn_pos D) in H by assumption. lia.
Qed.

Lemma abs_of_eq N D n c : 0 < D -> 0 < c -> N * c = n * D -> Z.abs N * c = Z.abs n * D.
Proof.
  intros HD Hc H. apply (f_equal Z.abs) in H. rewrite !Z.abs_mul in H.
  rewrite (Z.abs_eq c), (Z.abs_eq D) in H by lia. exact H.
Qed.

(** big.Float.Text('g', p) is exact on a value n/2^k whose decimal expansion has at most p digits *)
Lemma round_dec_exact p N D n k : 0 < D -> N * 2 ^ k = n * D -> 0 <= k -> Z.abs n * 5 ^ k < 10 ^ p -> 0 < p ->
  let '(M, E) := round_dec p N D in 0 < E /\ M * 2 ^ k = n * E.
Proof.
  intros HD Hv Hk Hfit Hp. unfold round_dec.
  assert (H2k : 0 < 2 ^ k) by (apply Z.pow_pos_nonneg; lia).
  assert (H5k : 0 < 5 ^ k) by (apply Z.pow_pos_nonneg; lia).
  destruct (N =? 0) eqn:E0.
  - apply Z.eqb_eq in E0; subst N. assert (n = 0) by nia. subst. split; lia.
  - apply Z.eqb_neq in E0.
    set (a := Z.abs N).
    destruct (dec_exp 8 p a D _) as [kk|] eqn:Ek; [|split; assumption].
    apply dec_exp_spec in Ek.
    assert (Hs := sgn_of_eq N D n (2 ^ k) HD H2k Hv).
    assert (Ha : a * 2 ^ k = Z.abs n * D) by (apply abs_of_eq; assumption).
    assert (Hp1 : 10 ^ p = 10 ^ (p - 1) * 10).
    { replace p with (p - 1 + 1) at 1 by lia. now rewrite Z.pow_add_r by lia. }
    assert (Hp1pos : 0 < 10 ^ (p - 1)) by (apply Z.pow_pos_nonneg; lia).
    unfold scaled in *. destruct (0 <=? kk) eqn:Ekk.
    + apply Z.leb_le in Ekk. destruct Ek as [Ek _].
      assert (Hkk : 0 < 10 ^ kk) by (apply Z.pow_pos_nonneg; lia).
      (* 10^(p-1) * 10^kk * 10^k <= |n| * 5^k < 10^(p-1) * 10 *)
      assert (B1 : 10 ^ (p - 1) * 10 ^ kk * 2 ^ k <= Z.abs n).
      { apply Z.mul_le_mono_pos_r with (p := D); [assumption|]. rewrite <- Ha. nia. }
      assert (B2 : 10 ^ (p - 1) * (10 ^ kk * 10 ^ k) < 10 ^ (p - 1) * 10).
      { rewrite (pow10_split k) by assumption. nia. }
      apply Z.mul_lt_mono_pos_l in B2; [|assumption].
      rewrite <- Z.pow_add_r in B2 by lia.
      assert (kk + k < 1).
      { apply (Z.pow_lt_mono_r_iff 10); [lia|lia|]. now rewrite Z.pow_1_r. }
      assert (kk = 0) by lia. assert (k = 0) by lia. subst kk k.
      change (10 ^ 0) with 1 in *. change (2 ^ 0) with 1 in *.
      replace a with (Z.abs n * (D * 1)) by lia.
      rewrite rne_div_exact by lia. split; [lia|]. rewrite Hs, sgn_abs_eq. lia.
    + apply Z.leb_gt in Ekk. destruct Ek as [Ek _].
      assert (Hkk : 0 < 10 ^ (- kk)) by (apply Z.pow_pos_nonneg; lia).
      assert (B1 : 10 ^ (p - 1) * 2 ^ k <= Z.abs n * 10 ^ (- kk)).
      { apply Z.mul_le_mono_pos_r with (p := D); [assumption|].
        replace (Z.abs n * 10 ^ (- kk) * D) with (a * 2 ^ k * 10 ^ (- kk)) by (rewrite Ha; ring). nia. }
      assert (B2 : 10 ^ (p - 1) * 10 ^ k < 10 ^ (p - 1) * (10 * 10 ^ (- kk))).
      { rewrite (pow10_split k) by assumption. nia. }
      apply Z.mul_lt_mono_pos_l in B2; [|assumption].
      replace (10 * 10 ^ (- kk)) with (10 ^ (1 - kk)) in B2
        by (rewrite <- (Z.pow_1_r 10) at 2; rewrite <- Z.pow_add_r by lia; f_equal; lia).
      apply Z.pow_lt_mono_r_iff in B2; [|lia|lia].
      assert (Hle : k <= - kk) by lia.
      set (c := 2 ^ (- kk - k) * 5 ^ (- kk)).
      assert (Hc : 10 ^ (- kk) = 2 ^ k * c).
      { subst c. rewrite pow10_split by lia. rewrite Z.mul_assoc, <- Z.pow_add_r by lia. do 2 f_equal. lia. }
      replace (a * 10 ^ (- kk)) with ((Z.abs n * c) * D) by (rewrite Hc; nia).
      rewrite rne_div_exact by assumption. split; [assumption|].
      rewrite Hs, Hc. transitivity ((Z.sgn n * Z.abs n) * (2 ^ k * c)); [ring|now rewrite sgn_abs_eq].
Qed.

(** extract.fixConst binds exactly the value of every dyadic untyped float constant n/2^k *)
Theorem y_fixconst_dyadic n k : 0 <= k ->
  let '(M, E) := y_fixconst n (2 ^ k) in 0 < E /\ M * 2 ^ k = n * E.
Proof.
  intros Hk. unfold y_fixconst. set (p := fix_prec n (2 ^ k)).
  assert (Hp1 : bitlen n <= p) by (subst p; unfold fix_prec; lia).
  assert (Hp2 : k + 1 <= p) by (subst p; unfold fix_prec; rewrite bitlen_pow2 by assumption; lia).
  assert (Hp3 : 64 <= p) by (subst p; unfold fix_prec; lia).
  assert (H := round_bits_dyadic p n k Hk Hp1 Hp2).
  destruct (round_bits p n (2 ^ k)) as [N D]. destruct H as [HD Hv].
  apply round_dec_exact; try assumption; try lia.
  rewrite pow10_split by lia.
  assert (B1 := bitlen_bound n).
  assert (B2 : 2 ^ bitlen n <= 2 ^ p) by (apply Z.pow_le_mono_r; lia).
  assert (B3 : 5 ^ k <= 5 ^ p) by (apply Z.pow_le_mono_r; lia).
  assert (0 < 5 ^ k) by (apply Z.pow_pos_nonneg; lia).
  assert (0 <= Z.abs n) by lia.
  nia.
Qed.

Lemma is_pow2_pos_spec p : is_pow2_pos p = true -> exists k, 0 <= k /\ Zpos p = 2 ^ k.
Proof.
  induction p as [p IH|p IH|]; simpl; intros H; [discriminate| |exists 0; split; [lia|reflexivity]].
  destruct (IH H) as (k & Hk & E). exists (k + 1). split; [lia|].
  rewrite Z.pow_add_r, Z.pow_1_r by lia. rewrite <- E. rewrite (Pos2Z.inj_xO p). lia.
Qed.

Lemma is_pow2_spec d : is_pow2 d = true -> exists k, 0 <= k /\ d = 2 ^ k.
Proof. destruct d; simpl; try discriminate. apply is_pow2_pos_spec. Qed.

Lemma q_eqb_shift a b y z : 0 < snd y -> 0 < snd z -> fst y * snd z = fst z * snd y ->
  q_eqb (a, b) y = q_eqb (a, b) z.
Proof.
  destruct y as [c d], z as [n m]; simpl; intros Hd Hm H. unfold q_eqb; simpl.
  destruct (a * d =? c * b) eqn:E1; destruct (a * m =? n * b) eqn:E2; try reflexivity.
  - apply Z.eqb_eq in E1. apply Z.eqb_neq in E2. exfalso. apply E2.
    apply Z.mul_reg_l with (p := d); [lia|].
    replace (d * (a * m)) with ((a * d) * m) by ring. rewrite E1.
    replace (c * b * m) with ((c * m) * b) by ring. rewrite H. ring.
  - apply Z.eqb_neq in E1. apply Z.eqb_eq in E2. exfalso. apply E1.
    apply Z.mul_reg_l with (p := m); [lia|].
    replace (m * (a * d)) with ((a * m) * d) by ring. rewrite E2.
    replace (m * (c * b)) with ((c * m) * b) by ring. rewrite H. ring.
Qed.

Lemma const_agree k t lit : const_region k = false -> const_y k t lit = const_g k t lit.
Proof.
  destruct k; try reflexivity; [intros H; vm_compute in H; discriminate|].
  unfold const_region. cbn [rune_region]. rewrite orb_false_r.
  simpl. intros H. apply negb_false_iff in H.
  destruct (is_pow2_spec d H) as (j & Hj & ->).
  assert (Y := y_fixconst_dyadic n j Hj). destruct (y_fixconst n (2 ^ j)) as [M E]. destruct Y as [HE HY].
  f_equal. destruct (parse_literal t lit) as [[a b]|]; [|reflexivity]. simpl.
  apply q_eqb_shift; simpl; try assumption. apply Z.pow_pos_nonneg; lia.
Qed.

Lemma obj_row_ok_agree f tp name k fm : const_region k = false ->
  obj_row_ok const_y f tp name k fm = obj_row_ok const_g f tp name k fm.
Proof.
  intros H. destruct k, fm; try reflexivity; exact (const_agree _ t lit H).
Qed.

(** outside the region of the finding the generator model emits exactly what the property demands *)
Theorem row_ok_agree g f r : row_region g r = false -> row_ok const_y g f r = row_ok const_g g f r.
Proof.
  unfold row_ok, row_region, row_kind.
  destruct (find_pkg g (r_key r)) as [tp|]; [|reflexivity].
  destruct (r_name r) as [|a iname]; [reflexivity|].
  destruct (Ascii.eqb a uscore); [reflexivity|].
  destruct (find_obj tp (a :: iname)) as [o|]; [|reflexivity].
  simpl. intros H. f_equal. now apply obj_row_ok_agree.
Qed.

Corollary row_ok_y_g g f r : row_ok const_y g f r = true -> row_region g r = false -> row_ok const_g g f r = true.
Proof. intros H R. now rewrite <- row_ok_agree. Qed.

(** * The untyped kind of integer-valued constants (second finding) *)

(** for EVERY untyped rune constant and every literal: what the generator emits is not what the
    property demands (the token, hence the default type, differs) ... *)
Theorem const_rune_disagree z t lit : const_y (KURune z) t lit = true -> const_g (KURune z) t lit = false.
Proof.
  cbn [const_y const_g]. intros H. apply andb_true_iff in H. destruct H as [Ht _].
  destruct t; try discriminate. reflexivity.
Qed.

(** ... but the VALUE is exact: the literal is an INT literal whose value is the constant's *)
Theorem const_rune_value z t lit : const_y (KURune z) t lit = true ->
  t = TINT /\ exists n d, parse_literal TINT lit = Some (n, d) /\ n * 1 = z * d.
Proof.
  cbn [const_y]. intros H. apply andb_true_iff in H. destruct H as [Ht Hv].
  destruct t; try discriminate. split; [reflexivity|]. unfold oq_eqb in Hv.
  destruct (parse_literal TINT lit) as [[n d]|]; [|discriminate].
  unfold q_eqb in Hv; simpl in Hv. apply Z.eqb_eq in Hv. eauto.
Qed.

(** lifted to bound expressions: whatever the generator model accepts for an untyped rune constant
    is an INT literal of exactly the constant's value, and G rejects it *)
Theorem obj_row_rune_spec f tp name z fm : obj_row_ok const_y f tp name (KURune z) fm = true ->
  (exists lit n d, fm = FLit TINT lit /\ parse_literal TINT lit = Some (n, d) /\ n * 1 = z * d)
  /\ obj_row_ok const_g f tp name (KURune z) fm = false.
Proof.
  destruct fm as [| | | | |t lit| |]; try discriminate. cbn [obj_row_ok]. intros H.
  destruct (const_rune_value z t lit H) as (-> & n & d & E & V).
  split; [exists lit, n, d; auto|]. now apply const_rune_disagree.
Qed.

(** one literal denotes at most one integer: a table shared by platforms on which the constant has
    different values (math.MaxInt, strconv.IntSize, ...) is wrong on all of them but one *)
Theorem const_int_functional z1 z2 t lit n d : parse_literal t lit = Some (n, d) -> d <> 0 ->
  const_g (KUInt z1) t lit = true -> const_g (KUInt z2) t lit = true -> z1 = z2.
Proof.
  cbn [const_g]. intros E Hd H1 H2.
  apply andb_true_iff in H1. destruct H1 as [_ H1]. apply andb_true_iff in H2. destruct H2 as [_ H2].
  unfold oq_eqb in H1, H2. rewrite E in H1, H2. unfold q_eqb in H1, H2; simpl in H1, H2.
  apply Z.eqb_eq in H1. apply Z.eqb_eq in H2.
  apply Z.mul_reg_r with (p := d); [assumption|]. congruence.
Qed.

(* ------------------------------------------------------------------ *)
(** * G as a relation: what it means for a bound expression to denote an object *)

Inductive denotes (f : file) (tp : tpkg) (name : str) : kind -> form -> Prop :=
| D_func q : qualifier f tp = Some q -> denotes f tp name KFunc (FSel q name)
| D_func_restricted : In (tp_name tp ++ name) restricted -> In (tp_name tp ++ name) restricted_decls ->
    denotes f tp name KFunc (FIdent (tp_name tp ++ name))
| D_var q : qualifier f tp = Some q -> denotes f tp name KVar (FAddrSel q name)
| D_type q : qualifier f tp = Some q -> denotes f tp name KType (FTypeSel q name)
| D_iface q ms : qualifier f tp = Some q -> denotes f tp name (KIface ms) (FTypeSel q name)
| D_type_restricted : In (tp_name tp ++ name) restricted -> In (tp_name tp ++ name) restricted_decls ->
    denotes f tp name KType (FTypeIdent (tp_name tp ++ name))
| D_const q : qualifier f tp = Some q -> denotes f tp name KConstId (FSel q name)
| D_int z t lit n d : t = TINT \/ t = TCHAR -> parse_literal t lit = Some (n, d) -> n * 1 = z * d ->
    denotes f tp name (KUInt z) (FLit t lit)
| D_rune z lit n d : parse_literal TCHAR lit = Some (n, d) -> n * 1 = z * d ->
    denotes f tp name (KURune z) (FLit TCHAR lit)
| D_float n0 d0 lit n d : parse_literal TFLOAT lit = Some (n, d) -> n * d0 = n0 * d ->
    denotes f tp name (KUFloat n0 d0) (FLit TFLOAT lit)
| D_string b lit : unquote lit = Some b -> denotes f tp name (KUString b) (FLit TSTRING lit)
| D_builtin : In (lower_first name) (f_locals f) -> denotes f tp name KBuiltin (FIdent (lower_first name))
| D_builtin_lit : denotes f tp name KBuiltin FFuncLit.

Lemma sel_ok_spec f tp name q id : sel_ok f tp name q id = true <-> qualifier f tp = Some q /\ id = name.
Proof.
  unfold sel_ok. destruct (qualifier f tp) as [q'|].
  - rewrite andb_true_iff, !seqb_eq. split; [intros [-> ->]; auto|intros [[= ->] ->]; auto].
  - split; [discriminate|intros [? _]; discriminate].
Qed.

Lemma repl_ok_spec tp name id : repl_ok tp name id = true <->
  id = tp_name tp ++ name /\ In id restricted /\ In id restricted_decls.
Proof. unfold repl_ok. now rewrite !andb_true_iff, seqb_eq, !smem_In, and_assoc. Qed.

Lemma tok_eqb_eq a b : tok_eqb a b = true <-> a = b.
Proof. destruct a, b; simpl; split; congruence. Qed.

(** the decision procedure decides exactly the relation *)
Theorem obj_row_ok_denotes f tp name k fm : obj_row_ok const_g f tp name k fm = true <-> denotes f tp name k fm.
Proof.
  split.
  - destruct k, fm; simpl; try discriminate; intros H;
      try (apply sel_ok_spec in H; destruct H as [Hq ->]; econstructor; eassumption);
      try (apply repl_ok_spec in H; destruct H as (-> & H1 & H2); constructor; assumption).
    + (* KUInt *)
      apply andb_true_iff in H. destruct H as [Ht Hv]. unfold oq_eqb in Hv.
      destruct (parse_literal t lit) as [[n d]|] eqn:E; [|discriminate].
      unfold q_eqb in Hv; simpl in Hv. apply Z.eqb_eq in Hv.
      apply D_int with (n := n) (d := d); try assumption.
      apply orb_true_iff in Ht. destruct Ht as [Ht|Ht]; apply tok_eqb_eq in Ht; auto.
    + (* KURune *)
      apply andb_true_iff in H. destruct H as [Ht Hv]. apply tok_eqb_eq in Ht. subst t. unfold oq_eqb in Hv.
      destruct (parse_literal TCHAR lit) as [[n d]|] eqn:E; [|discriminate].
      unfold q_eqb in Hv; simpl in Hv. apply Z.eqb_eq in Hv.
      now apply D_rune with (n := n) (d := d).
    + (* KUFloat *)
      apply andb_true_iff in H. destruct H as [Ht Hv]. apply tok_eqb_eq in Ht. subst t. unfold oq_eqb in Hv.
      destruct (parse_literal TFLOAT lit) as [[n' d']|] eqn:E; [|discriminate].
      unfold q_eqb in Hv; simpl in Hv. apply Z.eqb_eq in Hv.
      now apply D_float with (n := n') (d := d').
    + (* KUString *)
      apply andb_true_iff in H. destruct H as [Ht Hv]. apply tok_eqb_eq in Ht. subst t.
      destruct (unquote lit) as [b'|] eqn:E; [|discriminate]. apply seqb_eq in Hv. subst b'.
      now constructor.
    + (* KBuiltin, FIdent *)
      apply andb_true_iff in H. destruct H as [H1 H2]. apply seqb_eq in H1. subst id.
      apply smem_In in H2. now constructor.
    + constructor.
  - intros H. destruct H; cbn [obj_row_ok const_g tok_eqb orb andb];
      try (apply sel_ok_spec; split; [assumption|reflexivity]);
      try (apply repl_ok_spec; repeat split; assumption).
    + apply andb_true_iff; split.
      * destruct H as [->| ->]; reflexivity.
      * rewrite H0. unfold oq_eqb, q_eqb; simpl. now apply Z.eqb_eq.
    + rewrite H. unfold oq_eqb, q_eqb; simpl. now apply Z.eqb_eq.
    + rewrite H. unfold oq_eqb, q_eqb; simpl. now apply Z.eqb_eq.
    + rewrite H. apply seqb_refl.
    + apply andb_true_iff; split; [apply seqb_refl|now apply smem_In].
    + reflexivity.
Qed.

(* ------------------------------------------------------------------ *)
(** * Completeness *)

Lemma find_some_iff {A} (p : A -> bool) l x : find p l = Some x -> In x l /\ p x = true.
Proof. apply find_some. Qed.

Theorem complete_spec g : complete g = true -> g_complete g = true ->
  forall tp t, In tp (g_truth g) -> In t (tp_objs tp) -> expected (g_release g) t = true ->
  exists f r, In f (g_files g) /\ In r (f_rows f) /\ r_key r = key_of tp /\ r_name r = t_name t.
Proof.
  unfold complete. intros H Hc tp t Htp Ht He. rewrite Hc in H. simpl in H.
  rewrite forallb_forall in H. specialize (H tp Htp). rewrite forallb_forall in H. specialize (H t Ht).
  unfold obj_complete in H. rewrite He in H. simpl in H. apply andb_true_iff in H. destruct H as [H _].
  unfold has_row in H. apply exb_exists in H. destruct H as (f & Hf & H).
  apply exb_exists in H. destruct H as (r & Hr & H).
  destruct (seqb (r_name r) (t_name t)) eqn:E; [|discriminate].
  apply seqb_eq in E. apply seqb_eq in H. exists f, r. auto.
Qed.

(** ... and an interface also has its wrapper entry and wrapper type *)
Theorem complete_iface_spec g : complete g = true -> g_complete g = true ->
  forall tp t ms, In tp (g_truth g) -> In t (tp_objs tp) -> expected (g_release g) t = true ->
  t_kind t = KIface ms ->
  (exists f r, In f (g_files g) /\ In r (f_rows f) /\ r_key r = key_of tp /\ r_name r = uscore :: t_name t)
  /\ (exists f w, In f (g_files g) /\ In w (f_wrappers f) /\ w_name w = wrapper_prefix (tp_path tp) ++ t_name t).
Proof.
  unfold complete. intros H Hc tp t ms Htp Ht He Hk. rewrite Hc in H. simpl in H.
  rewrite forallb_forall in H. specialize (H tp Htp). rewrite forallb_forall in H. specialize (H t Ht).
  unfold obj_complete in H. rewrite He, Hk in H. simpl in H.
  apply andb_true_iff in H. destruct H as [_ H]. apply andb_true_iff in H. destruct H as [H1 H2]. split.
  - unfold has_row in H1. apply exb_exists in H1. destruct H1 as (f & Hf & H).
    apply exb_exists in H. destruct H as (r & Hr & H).
    destruct (seqb (r_name r) (uscore :: t_name t)) eqn:E; [|discriminate].
    apply seqb_eq in E. apply seqb_eq in H. exists f, r. auto.
  - unfold has_wrapper in H2. apply exb_exists in H2. destruct H2 as (f & Hf & H).
    apply exb_exists in H. destruct H as (w & Hw & H). apply seqb_eq in H. exists f, w. auto.
Qed.

(* ------------------------------------------------------------------ *)
(** * Wrappers *)

Lemma list_eqb_Forall2 {A B} (e : A -> B -> bool) (R : A -> B -> Prop) :
  (forall x y, e x y = true -> R x y) -> forall a b, list_eqb e a b = true -> Forall2 R a b.
Proof.
  intros He. induction a as [|x a IH]; intros [|y b] H; simpl in H; try discriminate; constructor.
  - apply andb_true_iff in H. apply He, H.
  - apply andb_true_iff in H. apply IH, H.
Qed.

Lemma list_eqb_seqb a b : list_eqb seqb a b = true -> a = b.
Proof.
  revert b. induction a as [|x a IH]; intros [|y b] H; simpl in H; try discriminate; [reflexivity|].
  apply andb_true_iff in H. destruct H as [H1 H2]. apply seqb_eq in H1. f_equal; auto.
Qed.

Lemma list_eqb_args args ps : list_eqb arg_eqb args ps = true ->
  args = map (fun p => (p_name p, is_variadic p)) ps.
Proof.
  revert ps. induction args as [|[n v] args IH]; intros [|p ps] H; simpl in H; try discriminate; [reflexivity|].
  apply andb_true_iff in H. destruct H as [H1 H2]. unfold arg_eqb in H1; simpl in H1.
  apply andb_true_iff in H1. destruct H1 as [Hn Hv]. apply seqb_eq in Hn. apply eqb_prop in Hv. subst.
  simpl. f_equal. auto.
Qed.

Lemma assoc_In {A} k (l : list (str * A)) v : assoc k l = Some v -> In (k, v) l.
Proof.
  induction l as [|[k' v'] l IH]; simpl; [discriminate|].
  destruct (seqb k' k) eqn:E; [apply seqb_eq in E; intros [= ->]; subst; now left|intros H; right; auto].
Qed.

(** every method of a wrapper of a checked group is a forwarding call of the field of its name,
    with its own parameters in order (spread on the variadic one), returning the call's results,
    through a field of the same signature *)
Theorem forwards_spec g : forwards g = true ->
  forall f w m, In f (g_files g) -> In w (f_wrappers f) -> In m (w_methods w) ->
  exists guard ps rs,
    wm_body m = BForward (match wm_results m with [] => false | _ => true end) (wm_recv m) (wfield (wm_name m))
                         (map (fun p => (p_name p, is_variadic p)) (wm_params m)) guard
    /\ (guard = true -> wm_name m = s "String")
    /\ In (wfield (wm_name m), FTFunc ps rs) (w_fields w)
    /\ types_of ps = types_of (wm_params m) /\ types_of rs = types_of (wm_results m).
Proof.
  unfold forwards. intros H f w m Hf Hw Hm.
  rewrite forallb_forall in H. specialize (H f Hf). rewrite forallb_forall in H. specialize (H w Hw).
  unfold wrapper_forwards in H. apply andb_true_iff in H. destruct H as [H _].
  unfold wrapper_ok in H. apply andb_true_iff in H. destruct H as [H _].
  apply andb_true_iff in H. destruct H as [_ H].
  rewrite forallb_forall in H. specialize (H m Hm). unfold method_ok in H.
  destruct (wm_body m) as [hr recv field args guard|]; [|discriminate].
  repeat (apply andb_true_iff in H; destruct H as [H ?]).
  apply seqb_eq in H. subst recv.
  match goal with X : seqb field _ = true |- _ => apply seqb_eq in X; subst field end.
  match goal with X : list_eqb arg_eqb _ _ = true |- _ => apply list_eqb_args in X; subst args end.
  match goal with X : Bool.eqb hr _ = true |- _ => apply eqb_prop in X; subst hr end.
  destruct (assoc (wfield (wm_name m)) (w_fields w)) as [[ps rs|]|] eqn:Ea; try discriminate.
  match goal with X : _ && _ = true |- _ => apply andb_true_iff in X; destruct X as [X1 X2] end.
  apply list_eqb_seqb in X1. apply list_eqb_seqb in X2.
  exists guard, ps, rs. repeat split; try assumption.
  - intros ->. match goal with X : negb true || _ = true |- _ => simpl in X; now apply seqb_eq in X end.
  - now apply assoc_In.
Qed.

(** in a group generated for a whole package every wrapper has exactly the exported methods the
    release declares for the interface it is named after, with the same parameter and result types *)
Theorem forwards_iface_spec g : forwards g = true -> g_complete g = true ->
  forall f w, In f (g_files g) -> In w (f_wrappers f) ->
  exists ms, iface_of g (w_name w) = Some ms
    /\ Forall2 (fun m tm => wm_name m = tm_name tm /\ types_of (wm_params m) = tm_params tm
                            /\ types_of (wm_results m) = tm_results tm)
               (w_methods w) (filter (fun tm => tm_since tm <=? g_release g) ms).
Proof.
  unfold forwards. intros H Hc f w Hf Hw.
  rewrite forallb_forall in H. specialize (H f Hf). rewrite forallb_forall in H. specialize (H w Hw).
  unfold wrapper_forwards in H. apply andb_true_iff in H. destruct H as [_ H]. rewrite Hc in H. simpl in H.
  destruct (iface_of g (w_name w)) as [ms|]; [|discriminate]. exists ms. split; [reflexivity|].
  eapply list_eqb_Forall2; [|exact H]. intros m tm E. unfold method_matches in E.
  repeat (apply andb_true_iff in E; destruct E as [E ?]).
  apply seqb_eq in E. repeat split; try assumption; now apply list_eqb_seqb.
Qed.

(* ------------------------------------------------------------------ *)
(** * Whole groups *)

Theorem check_group_spec g : check_group g = true ->
  (forall f r, In f (g_files g) -> In r (f_rows f) -> row_ok const_y g f r = true)
  /\ complete g = true /\ forwards g = true.
Proof.
  unfold check_group, rows_ok. intros H.
  apply andb_true_iff in H. destruct H as [H Hf]. apply andb_true_iff in H. destruct H as [Hr Hc].
  repeat split; try assumption.
  intros f r Hin Hrin. rewrite forallb_forall in Hr. specialize (Hr f Hin).
  rewrite forallb_forall in Hr. now apply Hr.
Qed.

Corollary check_group_exact g : check_group g = true ->
  forall f r, In f (g_files g) -> In r (f_rows f) -> row_region g r = false -> row_ok const_g g f r = true.
Proof. intros H f r Hf Hr Hreg. apply row_ok_y_g; [|assumption]. now apply (check_group_spec g H). Qed.

Lemma check_groups_In gs : check_groups gs = true -> forall g, In g gs -> check_group g = true.
Proof. unfold check_groups. intros H g Hg. rewrite forallb_forall in H. auto. Qed.

(** cross-platform groups: rows and wrappers without exception, completeness up to the drift list *)
Theorem check_xgroup_spec drift g : check_xgroup drift g = true ->
  (forall f r, In f (g_files g) -> In r (f_rows f) -> row_ok const_y g f r = true)
  /\ complete_upto drift g = true /\ forwards g = true.
Proof.
  unfold check_xgroup, rows_ok. intros H.
  apply andb_true_iff in H. destruct H as [H Hf]. apply andb_true_iff in H. destruct H as [Hr Hc].
  repeat split; try assumption.
  intros f r Hin Hrin. rewrite forallb_forall in Hr. specialize (Hr f Hin).
  rewrite forallb_forall in Hr. now apply Hr.
Qed.

Corollary check_xgroup_exact drift g : check_xgroup drift g = true ->
  forall f r, In f (g_files g) -> In r (f_rows f) -> row_region g r = false -> row_ok const_g g f r = true.
Proof. intros H f r Hf Hr Hreg. apply row_ok_y_g; [|assumption]. now apply (check_xgroup_spec drift g H). Qed.

Lemma check_xgroups_In drift gs : check_xgroups drift gs = true -> forall g, In g gs -> check_xgroup drift g = true.
Proof. unfold check_xgroups. intros H g Hg. rewrite forallb_forall in H. auto. Qed.

Lemma nmem_In x l : nmem x l = true <-> In x l.
Proof.
  unfold nmem. rewrite exb_exists. split.
  - intros (y & Hy & E). apply N.eqb_eq in E. now subst.
  - intros H. exists x. split; [assumption | apply N.eqb_refl].
Qed.

(** what [complete_upto] means: an expected object without a row is one of the listed drift objects,
    and the api lists say nothing about it *)
Theorem complete_upto_spec drift g : complete_upto drift g = true -> g_complete g = true ->
  forall tp t, In tp (g_truth g) -> In t (tp_objs tp) ->
  obj_complete g tp t = true \/ (t_api t = ANone /\ In (t_id t) drift).
Proof.
  unfold complete_upto. intros H Hc tp t Htp Ht. rewrite Hc in H. cbn in H.
  rewrite forallb_forall in H. specialize (H tp Htp). rewrite forallb_forall in H. specialize (H t Ht).
  unfold obj_complete_upto in H. destruct (obj_complete g tp t); [now left|]. right.
  unfold no_api in H. destruct (t_api t); [|discriminate]. split; [reflexivity|]. now apply nmem_In.
Qed.

(** with an empty drift list this is completeness itself *)
Lemma obj_complete_upto_nil g tp t : obj_complete_upto [] g tp t = obj_complete g tp t.
Proof. unfold obj_complete_upto. destruct (obj_complete g tp t); [reflexivity|]. destruct (no_api t); reflexivity. Qed.

Lemma complete_upto_nil g : complete_upto [] g = complete g.
Proof.
  unfold complete_upto, complete. f_equal.
  induction (g_truth g) as [|tp l IH]; cbn [forallb]; [reflexivity|]. rewrite IH. f_equal.
  induction (tp_objs tp) as [|t l' IH']; cbn [forallb]; [reflexivity|].
  now rewrite IH', obj_complete_upto_nil.
Qed.

(* ------------------------------------------------------------------ *)
(** * Witnesses and packaged statements *)

Lemma fixconst_refuted :
  q_eqb (y_fixconst 1 10) (1, 10) = false
  /\ q_eqb (y_fixconst 271828182845904523536028747135266249775724709369995957496696763
                       100000000000000000000000000000000000000000000000000000000000000)
           (271828182845904523536028747135266249775724709369995957496696763,
            100000000000000000000000000000000000000000000000000000000000000) = false.
Proof. split; vm_compute; reflexivity. Qed.

Lemma int_literal_exact n : 0 <= n ->
  parse_literal TINT (print_dec n) = Some (n, 1)
  /\ parse_literal TINT ("-"%char :: print_dec n) = Some (- n, 1).
Proof. intros H. split; [now apply parse_print_dec|now apply parse_neg_print_dec]. Qed.

(* ------------------------------------------------------------------ *)
(** * Non-vacuity: a small hand-written table that passes, so that the hypotheses of the
      specification theorems are satisfiable, also with a wrapper and a variadic method *)

Definition ex_truth : tpkg :=
  TP (s "fmt") (s "fmt")
     [T 1 (s "Println") KFunc 0 ANone;
      T 2 (s "Logger") (KIface [TM (s "Logf") 0 [s "string"; s "...any"] [];
                                TM (s "String") 0 [] [s "string"]]) 0 ANone;
      T 3 (s "Version") (KUInt 7) 0 ANone;
      T 4 (s "Half") (KUFloat 1 2) 0 ANone;
      T 5 (s "Out") KVar 0 ANone;
      T 6 (s "Later") KFunc 99 ANone].

Definition ex_wrapper : wrapper :=
  W 1 (s "_fmt_Logger")
    [(s "IValue", FTOther (s "interface{}"));
     (s "WLogf", FTFunc [P (s "format") (s "string"); P (s "a") (s "...any")] []);
     (s "WString", FTFunc [] [P (s "") (s "string")])]
    [WM (s "Logf") (s "W") [P (s "format") (s "string"); P (s "a") (s "...any")] []
        (BForward false (s "W") (s "WLogf") [(s "format", false); (s "a", true)] false);
     WM (s "String") (s "W") [] [P (s "") (s "string")]
        (BForward true (s "W") (s "WString") [] true)].

Definition ex_group : group :=
  G (s "example") 22 true
    [F (s "stdlib/example.go") [(s "", s "fmt"); (s "", s "reflect")] []
       [R 1 (s "fmt/fmt") (s "Println") (FSel (s "fmt") (s "Println"));
        R 2 (s "fmt/fmt") (s "Logger") (FTypeSel (s "fmt") (s "Logger"));
        R 3 (s "fmt/fmt") (s "_Logger") (FTypeIdent (s "_fmt_Logger"));
        R 4 (s "fmt/fmt") (s "Version") (FLit TINT (s "7"));
        R 5 (s "fmt/fmt") (s "Half") (FLit TFLOAT (s "0.5"));
        R 6 (s "fmt/fmt") (s "Out") (FAddrSel (s "fmt") (s "Out"))]
       [ex_wrapper]]
    [ex_truth].

Lemma ex_group_checks :
  check_group ex_group = true /\ g_complete ex_group = true
  /\ rows_ok const_g ex_group = true
  /\ (exists t, In t (tp_objs ex_truth) /\ expected (g_release ex_group) t = true)
  /\ (exists m, In m (w_methods ex_wrapper) /\ existsb is_variadic (wm_params m) = true).
Proof.
  repeat split; try (vm_compute; reflexivity).
  - exists (T 1 (s "Println") KFunc 0 ANone). split; [now left|reflexivity].
  - eexists. split; [left; reflexivity|reflexivity].
Qed.

(** mis-bindings of the kinds the property is about are rejected by the decision procedure *)
Lemma ex_mutants_rejected :
  let f := hd (F [] [] [] [] []) (g_files ex_group) in
  (* another function of the same package *)
  row_ok const_g ex_group f (R 1 (s "fmt/fmt") (s "Println") (FSel (s "fmt") (s "Print"))) = false
  (* a variable bound by value *)
  /\ row_ok const_g ex_group f (R 6 (s "fmt/fmt") (s "Out") (FSel (s "fmt") (s "Out"))) = false
  (* a literal off by one *)
  /\ row_ok const_g ex_group f (R 4 (s "fmt/fmt") (s "Version") (FLit TINT (s "8"))) = false
  (* an object of a later release *)
  /\ row_ok const_g ex_group f (R 7 (s "fmt/fmt") (s "Later") (FSel (s "fmt") (s "Later"))) = false
  (* a missing row *)
  /\ complete (G (s "example") 22 true
                 [F (s "stdlib/example.go") [(s "", s "fmt")] [] (tl (f_rows f)) [ex_wrapper]] [ex_truth]) = false
  (* a wrapper method forwarding to another field of the same signature *)
  /\ wrapper_ok (W 1 (s "_x") [(s "IValue", FTOther (s "interface{}")); (s "WA", FTFunc [] []); (s "WB", FTFunc [] [])]
                   [WM (s "A") (s "W") [] [] (BForward false (s "W") (s "WB") [] false);
                    WM (s "B") (s "W") [] [] (BForward false (s "W") (s "WB") [] false)]) = false.
Proof. repeat split; vm_compute; reflexivity. Qed.
