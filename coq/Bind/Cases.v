(** Evaluation of the C14 tables on what the harness observed (correspondence check).
    [bind_mis_y]: ids of
      - rows that are not what the generator model Y emits for their object ([row_ok const_y]),
      - truth objects without a row, wrappers that do not forward,
      - rows whose compiled table entry (observed at run time in stdlib.Symbols etc.) is not what the
        source text of the row predicts: the function's linker name, addressability, nil pointer,
        the exact constant value — this ties the rows, and [parse_literal], to the compiled tables.
    [bind_mis_g]: ids of truth objects (go/types on $GOROOT/src) that disagree with the independent
      record of $GOROOT/api/go1*.txt (kind, exact constant value). *)
From Verif Require Import Lib.Str Bind.Literal Bind.Model.
Open Scope Z_scope.

Inductive obs :=
| OFunc (name : str)       (* non-addressable func value; runtime.FuncForPC(v.Pointer()).Name() *)
| OAddr                    (* addressable, settable value *)
| ONilPtr                  (* nil pointer *)
| OConst (n d : Z)         (* go/constant value of kind Int or Float, exact *)
| OConstStr (b : str)      (* go/constant value of kind String *)
| OValue                   (* any other non-addressable value *)
| OMissing.                (* no such entry in the compiled table *)

Definition yaegi_mod : str := s "github.com/traefik/yaegi/".

Fixpoint dirname_rev (x : str) : str :=
  match x with
  | [] => []
  | a :: t => if Ascii.eqb a slash then t else dirname_rev t
  end.

(** "stdlib/unsafe/unsafe.go" -> "stdlib/unsafe" *)
Definition dirname (x : str) : str := rev (dirname_rev (rev x)).

(** the package a qualifier of file [f] refers to, among the packages of the truth *)
Definition pkg_of_qualifier (g : group) (f : file) (q : str) : option tpkg :=
  find (fun tp => match qualifier f tp with Some q' => seqb q q' | None => false end) (g_truth g).

Definition dot : ascii := "."%char.

Definition obs_ok (g : group) (f : file) (r : row) (o : obs) : bool :=
  match r_form r, o with
  | FSel q id, OFunc name =>
      match pkg_of_qualifier g f q with
      | Some tp => match option_map t_kind (find_obj tp id) with
                   | Some KFunc => seqb name (tp_path tp ++ dot :: id)
                   | _ => false
                   end
      | None => false
      end
  | FSel q id, OValue =>
      match pkg_of_qualifier g f q with
      | Some tp => match option_map t_kind (find_obj tp id) with
                   | Some KFunc => false
                   | _ => true
                   end
      | None => true
      end
  | FIdent id, OFunc name => seqb name (yaegi_mod ++ dirname (f_path f) ++ dot :: id)
  | FFuncLit, OFunc _ => true
  | FAddrSel _ _, OAddr => true
  | FTypeSel _ _, ONilPtr => true
  | FTypeIdent _, ONilPtr => true
  | FLit TSTRING lit, OConstStr b => match unquote lit with Some b' => seqb b' b | None => false end
  | FLit t lit, OConst n d => (0 <? d) && oq_eqb (parse_literal t lit) (n, d)
  | _, _ => false
  end.

Definition group_rows (g : group) : list (file * row) :=
  flat_map (fun f => map (fun r => (f, r)) (f_rows f)) (g_files g).

Fixpoint obs_mismatches (g : group) (rs : list (file * row)) (os : list (N * obs)) : list N :=
  match rs with
  | [] => map fst os
  | (f, r) :: rs' =>
      match os with
      | (id, o) :: os' =>
          (if N.eqb id (r_id r) && obs_ok g f r o then [] else [r_id r]) ++ obs_mismatches g rs' os'
      | [] => r_id r :: obs_mismatches g rs' []
      end
  end.

Definition group_mis_y (observed : list (str * list (N * obs))) (g : group) : list N :=
  bad_row_ids const_y g ++ incomplete_ids g ++ unforwarding_ids g
  ++ match assoc (g_name g) observed with
     | Some os => obs_mismatches g (group_rows g) os
     | None => []
     end.

Definition bind_mis_y (gs : list group) (observed : list (str * list (N * obs))) : list N :=
  flat_map (group_mis_y observed) gs.

(** ids excused by the harness (release drift on platforms the installed release cannot decide;
    always empty for the host platform) *)
Definition without (ex : list N) (l : list N) : list N :=
  filter (fun id => negb (existsb (N.eqb id) ex)) l.

(** ids of the rows that do not denote their object exactly (G); on the unchanged tree these are
    the rows of the known finding *)
Definition bind_inexact (gs : list group) : list N := flat_map (bad_row_ids const_g) gs.

(** ... and those among them outside the region of the finding: must be empty *)
Definition bind_inexact_outside (gs : list group) : list N :=
  flat_map (fun g => flat_map (fun f => flat_map (fun r =>
     if row_region g r || row_ok const_g g f r then [] else [r_id r]) (f_rows f)) (g_files g)) gs.

Definition akind_eqb (a b : akind) : bool :=
  match a, b with AFunc, AFunc | AVar, AVar | AType, AType | AConst, AConst => true | _, _ => false end.

Definition class_of (k : kind) : akind :=
  match k with
  | KFunc | KGenFunc | KBuiltin => AFunc
  | KVar => AVar
  | KType | KIface _ | KGenType | KConstraint => AType
  | KConstId | KUInt _ | KURune _ | KUFloat _ _ | KUString _ => AConst
  end.

Definition api_agrees (t : tobj) : bool :=
  match t_api t with
  | ANone => true
  | AKnown ak v =>
      akind_eqb ak (class_of (t_kind t)) &&
      match v, t_kind t with
      | Some q, KUInt z => q_eqb q (z, 1)
      | Some q, KURune z => q_eqb q (z, 1)
      | Some q, KUFloat n d => q_eqb q (n, d)
      | _, _ => true
      end
  end.

Definition bind_mis_g (gs : list group) : list N :=
  flat_map (fun g => flat_map (fun tp => flat_map (fun t => if api_agrees t then [] else [t_id t])
                                                  (tp_objs tp)) (g_truth g)) gs.
