(** C14 — table shard math: every regenerated group of coq/gen/Bind_math_gen.v passes [check_group]
    (rows are what the generator model Y emits for their objects, nothing the release declares is
    missing, every wrapper forwards).  Finite, by computation; re-checked whenever the tables change. *)
From Verif Require Import Lib.Str Bind.Literal Bind.Model.
From Verif Require gen.Bind_math_gen.

Lemma ok : check_groups Bind_math_gen.groups = true.
Proof. vm_compute. reflexivity. Qed.
