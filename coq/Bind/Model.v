(** C14 — every standard-library binding denotes the symbol it is named after.

    Data (regenerated from the source text by the translator tr-bind on every run):
      [row]     one entry  "Name": reflect.ValueOf(...)  of a  Symbols["path/pkg"]  table;
      [wrapper] one generated interface wrapper  type _pkg_I struct{IValue; W<M> func...}  with
                its forwarding methods;
      [tobj]    one exported package-level object of the wrapped package as go/types sees it in
                $GOROOT/src for the platform of the file (kind, exact constant value, the release
                that introduced it according to $GOROOT/api, the api record itself);
      [group]   the files that together wrap a package for one release and platform, and the truth.

    G (what the property prescribes): [row_ok const_g]  — the bound expression is the identically
       named object of the wrapped package (functions and typed constants by value, variables by
       address, types as a nil pointer), or a documented restricted replacement; an untyped
       constant is bound to a literal whose value, parsed here, is exactly the constant's value.
    Y (what yaegi's generator does): [row_ok const_y] — the same, except that an untyped float
       constant is bound to the literal that extract.fixConst prints: the value rounded to a
       binary float of max(bitlen num, bitlen den, 64) bits, printed with that many decimal digits.
    [complete]: every exported non-generic object the release declares has a row (interfaces also
       a wrapper row and a wrapper type); [forwards]: every wrapper method calls the field
       W<Method> with the same parameters (spread on the variadic) and results.
    Definitions only; proofs are in Bind/Proofs.v. *)
From Verif Require Import Lib.Str Bind.Literal.
From Verif Require Import gen.BindRestricted_gen.
Open Scope Z_scope.

(* ------------------------------------------------------------------ *)
(** * Short-circuiting comparisons (vm_compute is call-by-value: [&&] and [||] evaluate both sides) *)

Fixpoint seqb (a b : str) : bool :=
  match a, b with
  | [], [] => true
  | x :: a', y :: b' => if Ascii.eqb x y then seqb a' b' else false
  | _, _ => false
  end.

Fixpoint exb {A} (f : A -> bool) (l : list A) : bool :=
  match l with [] => false | x :: t => if f x then true else exb f t end.

Definition smem (x : str) (l : list str) : bool := exb (fun y => seqb y x) l.

(* ------------------------------------------------------------------ *)
(** * Rows of the binding files *)

Inductive form :=
| FSel (q id : str)          (* reflect.ValueOf(q.id) *)
| FIdent (id : str)          (* reflect.ValueOf(id) *)
| FAddrSel (q id : str)      (* reflect.ValueOf(&q.id).Elem() *)
| FTypeSel (q id : str)      (* reflect.ValueOf(( *q.id)(nil)) *)
| FTypeIdent (id : str)      (* reflect.ValueOf(( *id)(nil)) *)
| FLit (t : tok) (lit : str) (* reflect.ValueOf(constant.MakeFromLiteral(lit, token.t, 0)) *)
| FFuncLit                   (* reflect.ValueOf(func(...) ... {...}) *)
| FOther (txt : str).

Record row := R { r_id : N; r_key : str; r_name : str; r_form : form }.

Record param := P { p_name : str; p_type : str }.   (* the type text starts with "..." on a variadic *)

Inductive body :=
| BForward (has_ret : bool) (recv field : str) (args : list (str * bool)) (guard : bool)
    (* [if recv.WString == nil { return "" }]? [return]? recv.field(args), bool = followed by "..." *)
| BOther.

Record wmethod := WM { wm_name : str; wm_recv : str; wm_params : list param; wm_results : list param;
                       wm_body : body }.

Inductive ftype := FTFunc (ps rs : list param) | FTOther (txt : str).

Record wrapper := W { w_id : N; w_name : str; w_fields : list (str * ftype); w_methods : list wmethod }.

Record file := F {
  f_path : str;                    (* path of the file below the repository root *)
  f_imports : list (str * str);    (* explicit name or empty, import path *)
  f_locals : list str;             (* functions declared in the file *)
  f_rows : list row;
  f_wrappers : list wrapper }.

(* ------------------------------------------------------------------ *)
(** * Truth: the wrapped packages as the Go release declares them *)

Record tmethod := TM { tm_name : str; tm_since : Z; tm_params : list str; tm_results : list str }.

Inductive kind :=
| KFunc | KGenFunc | KVar
| KType | KIface (ms : list tmethod) | KGenType | KConstraint
| KConstId                      (* typed constant, untyped boolean or complex: bound by identifier *)
| KUInt (z : Z)                 (* untyped integer constant: default type int *)
| KURune (z : Z)                (* untyped RUNE constant: same values, default type rune (int32) *)
| KUFloat (n d : Z) | KUString (b : str)
| KBuiltin.

Inductive akind := AFunc | AVar | AType | AConst.
Inductive api := ANone | AKnown (k : akind) (v : option (Z * Z)).

Record tobj := T { t_id : N; t_name : str; t_kind : kind; t_since : Z; t_api : api }.

Record tpkg := TP { tp_path : str; tp_name : str; tp_objs : list tobj }.

Record group := G {
  g_name : str;
  g_release : Z;                   (* N of the go1.N the files target *)
  g_complete : bool;               (* generated by extract for the whole package: completeness demanded *)
  g_files : list file;
  g_truth : list tpkg }.

(* ------------------------------------------------------------------ *)
(** * Y: extract.fixConst on an untyped float constant *)

Definition bitlen (z : Z) : Z := if z =? 0 then 0 else Z.log2 (Z.abs z) + 1.

(** nearest integer to a/b (a >= 0, b > 0), ties to even *)
Definition rne_div (a b : Z) : Z :=
  let q := a / b in
  let r := a mod b in
  if 2 * r <? b then q else if b <? 2 * r then q + 1 else if Z.even q then q else q + 1.

(** a / (d * base^e) as a fraction of integers *)
Definition scaled (base a d e : Z) : Z * Z :=
  if 0 <=? e then (a, d * base ^ e) else (a * base ^ (- e), d).

(** n/d (d > 0) rounded to a binary float of p bits (big.Float.SetRat, ToNearestEven) *)
Definition round_bits (p n d : Z) : Z * Z :=
  if n =? 0 then (0, 1) else
  let a := Z.abs n in
  let e0 := bitlen a - bitlen d - p in
  let '(a0, d0) := scaled 2 a d e0 in
  let e := if 2 ^ p * d0 <=? a0 then e0 + 1 else e0 in
  let '(a1, d1) := scaled 2 a d e in
  let m := Z.sgn n * rne_div a1 d1 in
  if 0 <=? e then (m * 2 ^ e, 1) else (m, 2 ^ (- e)).

(** search of the decimal exponent k with 10^(p-1) <= a/(d*10^k) < 10^p, from an estimate *)
Fixpoint dec_exp (fuel : nat) (p a d k : Z) : option Z :=
  match fuel with
  | O => None
  | S f =>
      let '(a1, d1) := scaled 10 a d k in
      if a1 <? 10 ^ (p - 1) * d1 then dec_exp f p a d (k - 1)
      else if 10 ^ p * d1 <=? a1 then dec_exp f p a d (k + 1)
      else Some k
  end.

(** n/d (d > 0) rounded to p significant decimal digits (big.Float.Text('g', p), nearest even).
    The exponent is searched around log10(2)*(log2 a - log2 d); the search always ends within the
    fuel on real values (the estimate is off by at most two) — should it not, the value is
    returned unrounded. *)
Definition round_dec (p n d : Z) : Z * Z :=
  if n =? 0 then (0, 1) else
  let a := Z.abs n in
  let est := ((Z.log2 a - Z.log2 d) * 1233) / 4096 + 1 - p in
  match dec_exp 8 p a d est with
  | None => (n, d)
  | Some k =>
      let '(a1, d1) := scaled 10 a d k in
      let m := Z.sgn n * rne_div a1 d1 in
      if 0 <=? k then (m * 10 ^ k, 1) else (m, 10 ^ (- k))
  end.

Definition fix_prec (n d : Z) : Z := Z.max (Z.max (bitlen n) (bitlen d)) 64.

(** the value of the literal fixConst prints for the exact value n/d *)
Definition y_fixconst (n d : Z) : Z * Z :=
  let p := fix_prec n d in
  let '(n1, d1) := round_bits p n d in
  round_dec p n1 d1.

Fixpoint is_pow2_pos (p : positive) : bool :=
  match p with xH => true | xO p' => is_pow2_pos p' | xI _ => false end.

Definition is_pow2 (z : Z) : bool := match z with Zpos p => is_pow2_pos p | _ => false end.

(* ------------------------------------------------------------------ *)
(** * Constants *)

(** The untyped kind of a constant is part of what it denotes (it fixes the default type:
    [x := utf8.RuneError] declares a rune).  A literal carries it in its token: CHAR for a rune
    constant.  G demands it; the generator (extract.fixConst switches on go/constant's Kind, which
    has no rune kind) prints every integer-valued constant with token.INT. *)
Definition const_g (k : kind) (t : tok) (lit : str) : bool :=
  match k with
  | KUInt z => (tok_eqb t TINT || tok_eqb t TCHAR) && oq_eqb (parse_literal t lit) (z, 1)
  | KURune z => tok_eqb t TCHAR && oq_eqb (parse_literal t lit) (z, 1)
  | KUFloat n d => tok_eqb t TFLOAT && oq_eqb (parse_literal t lit) (n, d)
  | KUString b => tok_eqb t TSTRING && match unquote lit with Some b' => seqb b' b | None => false end
  | _ => false
  end.

Definition const_y (k : kind) (t : tok) (lit : str) : bool :=
  match k with
  | KUFloat n d => tok_eqb t TFLOAT && oq_eqb (parse_literal t lit) (y_fixconst n d)
  | KURune z => tok_eqb t TINT && oq_eqb (parse_literal t lit) (z, 1)
  | _ => const_g k t lit
  end.

(** the region of the known finding: untyped float constants whose value is not a dyadic rational *)
Definition float_region (k : kind) : bool :=
  match k with KUFloat n d => negb (is_pow2 d) | _ => false end.

(** the region of the second finding: untyped rune constants (bound as untyped integers) *)
Definition rune_region (k : kind) : bool := match k with KURune _ => true | _ => false end.

Definition const_region (k : kind) : bool := float_region k || rune_region k.

(* ------------------------------------------------------------------ *)
(** * Rows *)

Definition slash : ascii := "/"%char.
Definition uscore : ascii := "_"%char.

Definition key_of (tp : tpkg) : str := tp_path tp ++ slash :: tp_name tp.

Definition find_pkg (g : group) (key : str) : option tpkg :=
  find (fun tp => seqb (key_of tp) key) (g_truth g).

Definition find_obj (tp : tpkg) (name : str) : option tobj :=
  find (fun t => seqb (t_name t) name) (tp_objs tp).

(** the identifier by which file [f] refers to package [tp] *)
Definition qualifier (f : file) (tp : tpkg) : option str :=
  match find (fun ip => seqb (snd ip) (tp_path tp)) (f_imports f) with
  | Some (a, _) => Some (match a with [] => tp_name tp | _ => a end)
  | None => None
  end.

(** "_" + import path with / - . ~ replaced by "_" + "_"  (extract.genContent) *)
Definition wrapper_prefix (path : str) : str :=
  uscore :: map (fun a => if Ascii.eqb a slash || Ascii.eqb a "-"%char || Ascii.eqb a "."%char
                             || Ascii.eqb a "~"%char then uscore else a) path ++ [uscore].

Definition lower_first (x : str) : str :=
  match x with
  | a :: t => let c := code a in (if (65 <=? c) && (c <=? 90) then chr (c + 32) else a) :: t
  | [] => []
  end.

Definition sel_ok (f : file) (tp : tpkg) (name q id : str) : bool :=
  match qualifier f tp with
  | Some q' => seqb q q' && seqb id name
  | None => false
  end.

(** a documented replacement: the identifier pkg+Name, listed in extract's [restricted] table and
    declared in stdlib/restricted.go *)
Definition repl_ok (tp : tpkg) (name id : str) : bool :=
  seqb id (tp_name tp ++ name) && smem id restricted && smem id restricted_decls.

Definition obj_row_ok (cok : kind -> tok -> str -> bool) (f : file) (tp : tpkg) (name : str)
           (k : kind) (fm : form) : bool :=
  match k, fm with
  | KFunc, FSel q id => sel_ok f tp name q id
  | KFunc, FIdent id => repl_ok tp name id
  | KVar, FAddrSel q id => sel_ok f tp name q id
  | KType, FTypeSel q id => sel_ok f tp name q id
  | KIface _, FTypeSel q id => sel_ok f tp name q id
  | KType, FTypeIdent id => repl_ok tp name id
  | KConstId, FSel q id => sel_ok f tp name q id
  | KUInt _, FLit t lit => cok k t lit
  | KURune _, FLit t lit => cok k t lit
  | KUFloat _ _, FLit t lit => cok k t lit
  | KUString _, FLit t lit => cok k t lit
  | KBuiltin, FIdent id => seqb id (lower_first name) && smem id (f_locals f)
  | KBuiltin, FFuncLit => true
  | _, _ => false
  end.

Definition row_ok (cok : kind -> tok -> str -> bool) (g : group) (f : file) (r : row) : bool :=
  match find_pkg g (r_key r) with
  | None => false
  | Some tp =>
      match r_name r with
      | [] => false
      | a :: iname =>
          if Ascii.eqb a uscore then
            match find_obj tp iname with
            | Some t =>
                (t_since t <=? g_release g) &&
                match t_kind t, r_form r with
                | KIface _, FTypeIdent id => seqb id (wrapper_prefix (tp_path tp) ++ iname)
                | _, _ => false
                end
            | None => false
            end
          else
            match find_obj tp (r_name r) with
            | Some t => (t_since t <=? g_release g) && obj_row_ok cok f tp (r_name r) (t_kind t) (r_form r)
            | None => false
            end
      end
  end.

Definition row_kind (g : group) (r : row) : option kind :=
  match find_pkg g (r_key r) with
  | Some tp => option_map t_kind (find_obj tp (r_name r))
  | None => None
  end.

Definition row_region (g : group) (r : row) : bool :=
  match row_kind g r with Some k => const_region k | None => false end.

Definition row_rune_region (g : group) (r : row) : bool :=
  match row_kind g r with Some k => rune_region k | None => false end.

(* ------------------------------------------------------------------ *)
(** * Completeness *)

Definition expected (rel : Z) (t : tobj) : bool :=
  (t_since t <=? rel) &&
  match t_kind t with KGenFunc | KGenType | KConstraint | KBuiltin => false | _ => true end.

Definition has_row (g : group) (key name : str) : bool :=
  exb (fun f => exb (fun r => if seqb (r_name r) name then seqb (r_key r) key else false) (f_rows f)) (g_files g).

Definition has_wrapper (g : group) (wname : str) : bool :=
  exb (fun f => exb (fun w => seqb (w_name w) wname) (f_wrappers f)) (g_files g).

Definition obj_complete (g : group) (tp : tpkg) (t : tobj) : bool :=
  negb (expected (g_release g) t) ||
  (has_row g (key_of tp) (t_name t) &&
   match t_kind t with
   | KIface _ => has_row g (key_of tp) (uscore :: t_name t)
                 && has_wrapper g (wrapper_prefix (tp_path tp) ++ t_name t)
   | _ => true
   end).

Definition complete (g : group) : bool :=
  negb (g_complete g) || forallb (fun tp => forallb (obj_complete g tp) (tp_objs tp)) (g_truth g).

(** ids of the truth objects that lack a row *)
Definition incomplete_ids (g : group) : list N :=
  if g_complete g then
    flat_map (fun tp => flat_map (fun t => if obj_complete g tp t then [] else [t_id t]) (tp_objs tp)) (g_truth g)
  else [].

(* ------------------------------------------------------------------ *)
(** * Wrappers *)

Fixpoint list_eqb {A B} (e : A -> B -> bool) (a : list A) (b : list B) : bool :=
  match a, b with
  | [], [] => true
  | x :: a', y :: b' => e x y && list_eqb e a' b'
  | _, _ => false
  end.

Definition ellipsis : str := s "...".
Definition types_of (ps : list param) : list str := map p_type ps.
Definition is_variadic (p : param) : bool := has_prefix ellipsis (p_type p).

Definition arg_eqb (a : str * bool) (p : param) : bool :=
  seqb (fst a) (p_name p) && Bool.eqb (snd a) (is_variadic p).

Fixpoint assoc {A} (k : str) (l : list (str * A)) : option A :=
  match l with
  | [] => None
  | (k', v) :: t => if seqb k' k then Some v else assoc k t
  end.

Definition wfield (m : str) : str := "W"%char :: m.

Definition method_ok (w : wrapper) (m : wmethod) : bool :=
  match wm_body m with
  | BForward has_ret recv field args guard =>
      seqb recv (wm_recv m) && negb (seqb recv [])
      && seqb field (wfield (wm_name m))
      && list_eqb arg_eqb args (wm_params m)
      && Bool.eqb has_ret (match wm_results m with [] => false | _ => true end)
      && (negb guard || seqb (wm_name m) (s "String"))
      && match assoc field (w_fields w) with
         | Some (FTFunc ps rs) =>
             list_eqb seqb (types_of ps) (types_of (wm_params m))
             && list_eqb seqb (types_of rs) (types_of (wm_results m))
         | _ => false
         end
  | BOther => false
  end.

Definition ivalue : str := s "IValue".

Definition wrapper_ok (w : wrapper) : bool :=
  match w_fields w with
  | (n, FTOther t) :: _ => seqb n ivalue && (seqb t (s "interface{}") || seqb t (s "any"))
  | _ => false
  end
  && forallb (method_ok w) (w_methods w)
  && forallb (fun fl => seqb (fst fl) ivalue
                        || exb (fun m => seqb (wfield (wm_name m)) (fst fl)) (w_methods w)) (w_fields w).

Definition method_matches (m : wmethod) (tm : tmethod) : bool :=
  seqb (wm_name m) (tm_name tm)
  && list_eqb seqb (types_of (wm_params m)) (tm_params tm)
  && list_eqb seqb (types_of (wm_results m)) (tm_results tm).

(** the interface of the group's truth a generated wrapper is named after *)
Definition iface_of (g : group) (wname : str) : option (list tmethod) :=
  let cands := flat_map (fun tp => flat_map (fun t =>
                 match t_kind t with
                 | KIface ms => if seqb (wrapper_prefix (tp_path tp) ++ t_name t) wname then [ms] else []
                 | _ => []
                 end) (tp_objs tp)) (g_truth g) in
  match cands with ms :: _ => Some ms | [] => None end.

Definition wrapper_forwards (g : group) (w : wrapper) : bool :=
  wrapper_ok w &&
  (negb (g_complete g) ||
   match iface_of g (w_name w) with
   | Some ms => list_eqb method_matches (w_methods w)
                         (filter (fun tm => tm_since tm <=? g_release g) ms)
   | None => false
   end).

Definition forwards (g : group) : bool :=
  forallb (fun f => forallb (wrapper_forwards g) (f_wrappers f)) (g_files g).

Definition unforwarding_ids (g : group) : list N :=
  flat_map (fun f => flat_map (fun w => if wrapper_forwards g w then [] else [w_id w]) (f_wrappers f)) (g_files g).

(* ------------------------------------------------------------------ *)
(** * Whole tables *)

Definition rows_ok (cok : kind -> tok -> str -> bool) (g : group) : bool :=
  forallb (fun f => forallb (row_ok cok g f) (f_rows f)) (g_files g).

Definition bad_row_ids (cok : kind -> tok -> str -> bool) (g : group) : list N :=
  flat_map (fun f => flat_map (fun r => if row_ok cok g f r then [] else [r_id r]) (f_rows f)) (g_files g).

(** what is checked by computation on every regenerated table: the rows are what the generator
    emits (Y), nothing is missing, every wrapper forwards *)
Definition check_group (g : group) : bool := rows_ok const_y g && complete g && forwards g.

Definition check_groups (gs : list group) : bool := forallb check_group gs.

(** Cross-platform tables (the files of the other platforms, judged against go/types for their
    GOOS/GOARCH): the truth is the installed release, the files target an earlier one, and
    $GOROOT/api is silent about most platforms.  Completeness is therefore demanded up to a
    regenerated list [drift] of truth objects (coq/gen/BindXDrift_gen.v: declared by the installed
    source, no api record for the platform, absent from both releases of the table).  Rows and
    wrappers are decided without exception. *)
Definition nmem (x : N) (l : list N) : bool := exb (N.eqb x) l.

Definition no_api (t : tobj) : bool := match t_api t with ANone => true | AKnown _ _ => false end.

Definition obj_complete_upto (drift : list N) (g : group) (tp : tpkg) (t : tobj) : bool :=
  if obj_complete g tp t then true else if no_api t then nmem (t_id t) drift else false.

Definition complete_upto (drift : list N) (g : group) : bool :=
  negb (g_complete g) || forallb (fun tp => forallb (obj_complete_upto drift g tp) (tp_objs tp)) (g_truth g).

Definition check_xgroup (drift : list N) (g : group) : bool :=
  rows_ok const_y g && complete_upto drift g && forwards g.

Definition check_xgroups (drift : list N) (gs : list group) : bool := forallb (check_xgroup drift) gs.

(** rows outside the float region denote their object exactly (G) *)
Definition rows_ok_g_outside (g : group) : bool :=
  forallb (fun f => forallb (fun r => row_region g r || row_ok const_g g f r) (f_rows f)) (g_files g).
