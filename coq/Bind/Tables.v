(** C14 — the regenerated tables of the quick set, assembled: all groups of coq/gen/Bind_*_gen.v.
    Each shard is checked by computation in its own file (Bind/Shard*.v, in parallel); here the
    results are lifted to statements about every group, file, row, object and wrapper. *)
From Verif Require Import Lib.Str Bind.Literal Bind.Model Bind.Proofs.
From Verif Require gen.Bind_math_gen gen.Bind_00_gen gen.Bind_01_gen gen.Bind_02_gen gen.Bind_03_gen gen.Bind_04_gen gen.Bind_05_gen gen.Bind_06_gen gen.Bind_07_gen gen.Bind_08_gen gen.Bind_09_gen gen.Bind_10_gen gen.Bind_11_gen gen.Bind_12_gen gen.Bind_13_gen gen.Bind_14_gen gen.Bind_15_gen.
From Verif Require Bind.ShardMath Bind.Shard00 Bind.Shard01 Bind.Shard02 Bind.Shard03 Bind.Shard04 Bind.Shard05 Bind.Shard06 Bind.Shard07 Bind.Shard08 Bind.Shard09 Bind.Shard10 Bind.Shard11 Bind.Shard12 Bind.Shard13 Bind.Shard14 Bind.Shard15.

From Verif Require gen.BindW_gen.
From Verif Require gen.BindXDrift_gen gen.BindX_00_gen gen.BindX_01_gen gen.BindX_02_gen gen.BindX_03_gen gen.BindX_04_gen gen.BindX_05_gen gen.BindX_06_gen gen.BindX_07_gen gen.BindX_08_gen gen.BindX_09_gen gen.BindX_10_gen gen.BindX_11_gen gen.BindX_12_gen gen.BindX_13_gen gen.BindX_14_gen gen.BindX_15_gen.
From Verif Require Bind.ShardX00 Bind.ShardX01 Bind.ShardX02 Bind.ShardX03 Bind.ShardX04 Bind.ShardX05 Bind.ShardX06 Bind.ShardX07 Bind.ShardX08 Bind.ShardX09 Bind.ShardX10 Bind.ShardX11 Bind.ShardX12 Bind.ShardX13 Bind.ShardX14 Bind.ShardX15.

Definition all_groups : list group :=
  Bind_math_gen.groups
  ++ Bind_00_gen.groups
  ++ Bind_01_gen.groups
  ++ Bind_02_gen.groups
  ++ Bind_03_gen.groups
  ++ Bind_04_gen.groups
  ++ Bind_05_gen.groups
  ++ Bind_06_gen.groups
  ++ Bind_07_gen.groups
  ++ Bind_08_gen.groups
  ++ Bind_09_gen.groups
  ++ Bind_10_gen.groups
  ++ Bind_11_gen.groups
  ++ Bind_12_gen.groups
  ++ Bind_13_gen.groups
  ++ Bind_14_gen.groups
  ++ Bind_15_gen.groups.

Lemma all_groups_ok : forall g, In g all_groups -> check_group g = true.
Proof.
  unfold all_groups. intros g H.
  repeat (apply in_app_or in H; destruct H as [H|H]).
  - exact (check_groups_In _ ShardMath.ok g H).
  - exact (check_groups_In _ Shard00.ok g H).
  - exact (check_groups_In _ Shard01.ok g H).
  - exact (check_groups_In _ Shard02.ok g H).
  - exact (check_groups_In _ Shard03.ok g H).
  - exact (check_groups_In _ Shard04.ok g H).
  - exact (check_groups_In _ Shard05.ok g H).
  - exact (check_groups_In _ Shard06.ok g H).
  - exact (check_groups_In _ Shard07.ok g H).
  - exact (check_groups_In _ Shard08.ok g H).
  - exact (check_groups_In _ Shard09.ok g H).
  - exact (check_groups_In _ Shard10.ok g H).
  - exact (check_groups_In _ Shard11.ok g H).
  - exact (check_groups_In _ Shard12.ok g H).
  - exact (check_groups_In _ Shard13.ok g H).
  - exact (check_groups_In _ Shard14.ok g H).
  - exact (check_groups_In _ Shard15.ok g H).
Qed.

(** every row is what the generator model emits for the object it is named after *)
Lemma all_rows_generated : forall g f r, In g all_groups -> In f (g_files g) -> In r (f_rows f) ->
  row_ok const_y g f r = true.
Proof. intros g f r Hg. now apply (check_group_spec g (all_groups_ok g Hg)). Qed.

(** ... hence denotes it exactly, outside the region of the float finding *)
Lemma all_rows_exact_outside : forall g f r, In g all_groups -> In f (g_files g) -> In r (f_rows f) ->
  row_region g r = false -> row_ok const_g g f r = true.
Proof. intros g f r Hg. now apply (check_group_exact g (all_groups_ok g Hg)). Qed.

Lemma all_complete : forall g, In g all_groups -> complete g = true.
Proof. intros g Hg. now apply (check_group_spec g (all_groups_ok g Hg)). Qed.

Lemma all_forward : forall g, In g all_groups -> forwards g = true.
Proof. intros g Hg. now apply (check_group_spec g (all_groups_ok g Hg)). Qed.

(** the witness of the finding, found by computation in the table of stdlib/go1_22_math.go *)
Definition math_group : group := hd (G [] 0 false [] []) Bind_math_gen.groups.
Definition math_file : file := hd (F [] [] [] [] []) (g_files math_group).
Definition first_inexact : option row :=
  find (fun r => negb (row_ok const_g math_group math_file r)) (f_rows math_file).

Lemma math_group_in : In math_group all_groups.
Proof. unfold all_groups. apply in_or_app. left. left. reflexivity. Qed.

Lemma math_file_in : In math_file (g_files math_group).
Proof. left. reflexivity. Qed.

Lemma first_inexact_found : exists r, first_inexact = Some r /\ r_name r = s "E".
Proof. vm_compute. eexists. split; reflexivity. Qed.

Lemma tables_refuted : exists g f r, In g all_groups /\ In f (g_files g) /\ In r (f_rows f)
  /\ row_ok const_y g f r = true /\ row_region g r = true /\ row_ok const_g g f r = false.
Proof.
  destruct first_inexact_found as (r & E & _).
  exists math_group, math_file, r.
  apply find_some in E. destruct E as [Hin Hbad]. apply negb_true_iff in Hbad.
  assert (Hy := all_rows_generated _ _ _ math_group_in math_file_in Hin).
  repeat split; try assumption; try apply math_group_in; try apply math_file_in.
  destruct (row_region math_group r) eqn:R; [reflexivity|].
  rewrite (row_ok_y_g _ _ _ Hy R) in Hbad. discriminate.
Qed.

(** non-vacuity: rows outside the region exist, float constants among them *)
Lemma outside_inhabited :
  exists r1 r2, In r1 (f_rows math_file) /\ In r2 (f_rows math_file)
    /\ r_name r1 = s "MaxInt64" /\ row_region math_group r1 = false /\ row_ok const_g math_group math_file r1 = true
    /\ r_name r2 = s "MaxFloat32" /\ row_region math_group r2 = false /\ row_ok const_g math_group math_file r2 = true
    /\ (exists n d, row_kind math_group r2 = Some (KUFloat n d)).
Proof.
  destruct (find (fun r => seqb (r_name r) (s "MaxInt64")) (f_rows math_file)) as [r1|] eqn:E1; [|vm_compute in E1; discriminate].
  destruct (find (fun r => seqb (r_name r) (s "MaxFloat32")) (f_rows math_file)) as [r2|] eqn:E2; [|vm_compute in E2; discriminate].
  exists r1, r2.
  assert (H1 := find_some _ _ E1). assert (H2 := find_some _ _ E2).
  destruct H1 as [I1 N1], H2 as [I2 N2]. apply seqb_eq in N1. apply seqb_eq in N2.
  vm_compute in E1. vm_compute in E2. injection E1 as <-. injection E2 as <-.
  repeat split; try assumption; try (vm_compute; reflexivity).
  vm_compute. eexists. eexists. reflexivity.
Qed.

Lemma statement_refuted :
  ~ (forall g, In g all_groups ->
       (forall f r, In f (g_files g) -> In r (f_rows f) -> row_ok const_g g f r = true)
       /\ complete g = true /\ forwards g = true).
Proof.
  intros S. destruct tables_refuted as (g & f & r & Hg & Hf & Hr & _ & _ & Hbad).
  destruct (S g Hg) as [Hrows _]. rewrite (Hrows f r Hf Hr) in Hbad. discriminate.
Qed.

(* ------------------------------------------------------------------ *)
(** * The witness of the second finding: an untyped rune constant of stdlib/go1_22_unicode_utf8.go
      (found by computation), bound as an untyped integer literal *)

Definition rune_group : group :=
  match find (fun g => seqb (g_name g) (s "go1_22_unicode_utf8.go")) all_groups with
  | Some g => g | None => G [] 0 false [] [] end.
Definition rune_file : file := hd (F [] [] [] [] []) (g_files rune_group).
Definition first_rune : option row :=
  find (fun r => row_rune_region rune_group r && negb (row_ok const_g rune_group rune_file r)) (f_rows rune_file).

Lemma rune_group_in : In rune_group all_groups.
Proof.
  unfold rune_group. destruct (find _ all_groups) as [g|] eqn:E;
    [apply find_some in E; tauto | vm_compute in E; discriminate].
Qed.

Lemma rune_file_in : In rune_file (g_files rune_group).
Proof. vm_compute. left. reflexivity. Qed.

Lemma rune_refuted : exists g f r z, In g all_groups /\ In f (g_files g) /\ In r (f_rows f)
  /\ row_kind g r = Some (KURune z) /\ row_ok const_y g f r = true /\ row_region g r = true
  /\ row_ok const_g g f r = false.
Proof.
  destruct first_rune as [r|] eqn:E; [|vm_compute in E; discriminate].
  apply find_some in E. destruct E as [Hin Hb]. apply andb_true_iff in Hb. destruct Hb as [Hreg Hbad].
  apply negb_true_iff in Hbad.
  unfold row_rune_region in Hreg. destruct (row_kind rune_group r) as [k|] eqn:K; [|discriminate].
  destruct k; try discriminate.
  exists rune_group, rune_file, r, z. repeat split; try assumption.
  - apply rune_group_in.
  - apply rune_file_in.
  - exact (all_rows_generated _ _ _ rune_group_in rune_file_in Hin).
  - unfold row_region. rewrite K. reflexivity.
Qed.

(* ------------------------------------------------------------------ *)
(** * The cross-platform tables of the quick set: all groups of coq/gen/BindX_*_gen.v

    The binding files of the other platforms (stdlib/syscall/go1_N_syscall_<os>_<arch>.go and their
    stdlib/unrestricted counterparts, N = the release the installed toolchain compiles), each with
    the go/types truth of package syscall for its own GOOS/GOARCH. *)

Definition xplat_groups : list group :=
  BindX_00_gen.groups
  ++ BindX_01_gen.groups
  ++ BindX_02_gen.groups
  ++ BindX_03_gen.groups
  ++ BindX_04_gen.groups
  ++ BindX_05_gen.groups
  ++ BindX_06_gen.groups
  ++ BindX_07_gen.groups
  ++ BindX_08_gen.groups
  ++ BindX_09_gen.groups
  ++ BindX_10_gen.groups
  ++ BindX_11_gen.groups
  ++ BindX_12_gen.groups
  ++ BindX_13_gen.groups
  ++ BindX_14_gen.groups
  ++ BindX_15_gen.groups.

Definition xplat_drift : list N := BindXDrift_gen.drift.

Lemma xplat_groups_ok : forall g, In g xplat_groups -> check_xgroup xplat_drift g = true.
Proof.
  unfold xplat_groups, xplat_drift. intros g H.
  repeat (apply in_app_or in H; destruct H as [H|H]).
  - exact (check_xgroups_In _ _ ShardX00.ok g H).
  - exact (check_xgroups_In _ _ ShardX01.ok g H).
  - exact (check_xgroups_In _ _ ShardX02.ok g H).
  - exact (check_xgroups_In _ _ ShardX03.ok g H).
  - exact (check_xgroups_In _ _ ShardX04.ok g H).
  - exact (check_xgroups_In _ _ ShardX05.ok g H).
  - exact (check_xgroups_In _ _ ShardX06.ok g H).
  - exact (check_xgroups_In _ _ ShardX07.ok g H).
  - exact (check_xgroups_In _ _ ShardX08.ok g H).
  - exact (check_xgroups_In _ _ ShardX09.ok g H).
  - exact (check_xgroups_In _ _ ShardX10.ok g H).
  - exact (check_xgroups_In _ _ ShardX11.ok g H).
  - exact (check_xgroups_In _ _ ShardX12.ok g H).
  - exact (check_xgroups_In _ _ ShardX13.ok g H).
  - exact (check_xgroups_In _ _ ShardX14.ok g H).
  - exact (check_xgroups_In _ _ ShardX15.ok g H).
Qed.

Lemma xplat_rows_generated : forall g f r, In g xplat_groups -> In f (g_files g) -> In r (f_rows f) ->
  row_ok const_y g f r = true.
Proof. intros g f r Hg. now apply (check_xgroup_spec _ g (xplat_groups_ok g Hg)). Qed.

Lemma xplat_rows_exact_outside : forall g f r, In g xplat_groups -> In f (g_files g) -> In r (f_rows f) ->
  row_region g r = false -> row_ok const_g g f r = true.
Proof. intros g f r Hg. now apply (check_xgroup_exact _ g (xplat_groups_ok g Hg)). Qed.

Lemma xplat_complete_upto : forall g, In g xplat_groups -> complete_upto xplat_drift g = true.
Proof. intros g Hg. now apply (check_xgroup_spec _ g (xplat_groups_ok g Hg)). Qed.

Lemma xplat_forward : forall g, In g xplat_groups -> forwards g = true.
Proof. intros g Hg. now apply (check_xgroup_spec _ g (xplat_groups_ok g Hg)). Qed.

(** non-vacuity: the cross-platform set is not empty, holds integer constant rows, and its truth
    differs from platform to platform: the first group that binds O_LARGEFILE to a non-zero value
    (found by computation; on the host, linux/amd64, the constant is 0) *)
Definition xplat_witness : option (group * file * row) :=
  let cands := flat_map (fun g => flat_map (fun f => flat_map (fun r =>
     if seqb (r_name r) (s "O_LARGEFILE")
     then match row_kind g r with Some (KUInt z) => if z =? 0 then [] else [(g, f, r)] | _ => [] end
     else []) (f_rows f)) (g_files g)) xplat_groups in
  match cands with x :: _ => Some x | [] => None end.

Lemma xplat_inhabited :
  exists g f r z, In g xplat_groups /\ In f (g_files g) /\ In r (f_rows f)
    /\ r_name r = s "O_LARGEFILE" /\ row_kind g r = Some (KUInt z) /\ z <> 0
    /\ row_region g r = false /\ row_ok const_g g f r = true.
Proof.
  destruct xplat_witness as [[[g f] r]|] eqn:E; [|vm_compute in E; discriminate].
  unfold xplat_witness in E.
  match type of E with match ?c with _ => _ end = _ => destruct c as [|x l] eqn:C; [discriminate|] end.
  injection E as ->.
  assert (Hin : In (g, f, r) ((g, f, r) :: l)) by now left. rewrite <- C in Hin. clear C.
  apply in_flat_map in Hin. destruct Hin as (g' & Hg & Hin).
  apply in_flat_map in Hin. destruct Hin as (f' & Hf & Hin).
  apply in_flat_map in Hin. destruct Hin as (r' & Hr & Hin).
  destruct (seqb (r_name r') (s "O_LARGEFILE")) eqn:N; [|destruct Hin].
  destruct (row_kind g' r') as [k|] eqn:K; [|destruct Hin].
  destruct k; try destruct Hin.
  destruct (z =? 0) eqn:Z; [destruct Hin|]. destruct Hin as [Hin|[]]. injection Hin as -> -> ->.
  apply seqb_eq in N. apply Z.eqb_neq in Z.
  assert (Reg : row_region g r = false) by (unfold row_region; rewrite K; reflexivity).
  exists g, f, r, z. repeat split; try assumption.
  now apply xplat_rows_exact_outside.
Qed.

(** the property at full strength over both sets is refuted by the same witness *)
Lemma statement_all_refuted :
  ~ (forall g, In g (all_groups ++ xplat_groups) ->
       (forall f r, In f (g_files g) -> In r (f_rows f) -> row_ok const_g g f r = true)
       /\ complete g = true /\ forwards g = true).
Proof.
  intros S. apply statement_refuted. intros g Hg. apply S. apply in_or_app. now left.
Qed.

(* ------------------------------------------------------------------ *)
(** * Word-size dependent constants: the platform-INDEPENDENT files of the compiled release against
      the go/types truth of a 32-bit platform (linux/386).  coq/gen/BindW_gen.v holds exactly the
      untyped constants whose value there differs from the host truth, with their rows. *)

Definition wordsize_groups : list group := BindW_gen.groups.

Definition ws_all_differ : bool :=
  forallb (fun g => forallb (fun f => forallb (fun r => negb (row_region g r) && negb (row_ok const_g g f r))
                                              (f_rows f)) (g_files g)) wordsize_groups.

Lemma wordsize_all_differ : forall g f r, In g wordsize_groups -> In f (g_files g) -> In r (f_rows f) ->
  row_region g r = false /\ row_ok const_g g f r = false.
Proof.
  assert (H : ws_all_differ = true) by (vm_compute; reflexivity).
  unfold ws_all_differ in H. intros g f r Hg Hf Hr.
  rewrite forallb_forall in H. specialize (H g Hg). rewrite forallb_forall in H. specialize (H f Hf).
  rewrite forallb_forall in H. specialize (H r Hr). apply andb_true_iff in H. destruct H as [A B].
  apply negb_true_iff in A. apply negb_true_iff in B. now split.
Qed.

Definition ws_first : option (group * file * row) :=
  match flat_map (fun g => flat_map (fun f => map (fun r => (g, f, r)) (f_rows f)) (g_files g)) wordsize_groups with
  | x :: _ => Some x | [] => None end.

Lemma wordsize_refuted : exists g f r, In g wordsize_groups /\ In f (g_files g) /\ In r (f_rows f)
  /\ row_region g r = false /\ row_ok const_g g f r = false.
Proof.
  destruct ws_first as [[[g f] r]|] eqn:E; [|vm_compute in E; discriminate].
  unfold ws_first in E.
  match type of E with match ?c with _ => _ end = _ => destruct c as [|x l] eqn:C; [discriminate|] end.
  injection E as ->.
  assert (Hin : In (g, f, r) ((g, f, r) :: l)) by now left. rewrite <- C in Hin. clear C.
  apply in_flat_map in Hin. destruct Hin as (g' & Hg & Hin).
  apply in_flat_map in Hin. destruct Hin as (f' & Hf & Hin).
  apply in_map_iff in Hin. destruct Hin as (r' & Heq & Hr). injection Heq as -> -> ->.
  exists g, f, r. repeat split; try assumption; now apply (wordsize_all_differ g f r).
Qed.
