(** C14 — cross-platform table shard 14: every regenerated group of coq/gen/BindX_14_gen.v (binding
    tables of other platforms than the host's, for the release the installed toolchain compiles,
    with the go/types truth of their own GOOS/GOARCH) passes [check_xgroup]: every row is what the
    generator model Y emits for its object, every wrapper forwards, nothing the release declares is
    missing up to the regenerated drift list.  Finite, by computation; re-checked whenever the tables change. *)
From Verif Require Import Lib.Str Bind.Literal Bind.Model.
From Verif Require gen.BindXDrift_gen gen.BindX_14_gen.

Lemma ok : check_xgroups BindXDrift_gen.drift BindX_14_gen.groups = true.
Proof. vm_compute. reflexivity. Qed.
