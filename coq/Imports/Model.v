(** C16 — source imports: right directory, once, no cycles.
    Paths are lists of components; a filesystem is an oracle [path -> bool] (the answers of
    [fs.Stat]: "is a directory") plus, for the specification, "contains Go files".

    Y: transcription of interp/src.go — [effectivePkg] (index arithmetic kept literally),
       [previousRoot] (both loops, the fallback on the last "vendor" element), [pkgDir]
       (recursion with fuel), the relative branch of [importSrc]
       ([Join(Dir(interp.name), rPath, importPath)]), the loader [importSrc] with its memo
       [srcPkg] keyed by the import path *string* and the never-cleared set [rdir], and the
       rewriting of "x/x" into "x" done by gta's importSpec before anything else.
    G: what Go prescribes (cmd/go GOPATH mode, [vendoredImportPath]): the nearest enclosing
       directory [A] of the importing package, walking up to GOPATH/src, such that
       [A/vendor/<path>] is a directory with Go files, else [GOPATH/src/<path>]; a relative
       import is resolved against the importing package's directory; a package is a *directory*
       and is initialised once; only a real cycle of directories is an error.
    Definitions only; proofs are in Imports/Proofs.v. *)
From Verif Require Import Lib.Str.

(* ------------------------------------------------------------------ *)
(** * Paths *)

Definition path := list str.

Definition vendor : str := s "vendor".
Definition mainid : str := s "main".
Definition dot1 : str := s ".".
Definition dot2 : str := s "..".
Definition slash : ascii := "/"%char.

Fixpoint path_eqb (a b : path) : bool :=
  match a, b with
  | [], [] => true
  | x :: a', y :: b' => str_eqb x y && path_eqb a' b'
  | _, _ => false
  end.

(** [is_prefix p q]: [p] is a (component-wise) prefix of [q]. *)
Fixpoint is_prefix (p q : path) : bool :=
  match p, q with
  | [], _ => true
  | x :: p', y :: q' => str_eqb x y && is_prefix p' q'
  | _ :: _, [] => false
  end.

Fixpoint mem_path (x : path) (l : list path) : bool :=
  match l with [] => false | y :: l' => path_eqb y x || mem_path x l' end.

Definition nonempty (w : str) : bool := match w with [] => false | _ => true end.

(** a component that [filepath.Clean] leaves alone *)
Definition plain_comp (w : str) : bool :=
  nonempty w && negb (str_eqb w dot1) && negb (str_eqb w dot2).
Definition plain (p : path) : bool := forallb plain_comp p.

(** [filepath.Clean] on a relative path given by components ([acc] is the reversed result). *)
Fixpoint clean_go (acc : list str) (p : path) : path :=
  match p with
  | [] => rev acc
  | w :: r =>
      if negb (nonempty w) || str_eqb w dot1 then clean_go acc r
      else if str_eqb w dot2 then
        match acc with
        | [] => clean_go [dot2] r
        | t :: acc' => if str_eqb t dot2 then clean_go (dot2 :: acc) r else clean_go acc' r
        end
      else clean_go (w :: acc) r
  end.
Definition clean (p : path) : path := clean_go [] p.

(** [strings.Split(x, "/")] of the string a component list stands for: never empty. *)
Definition go_split (p : path) : list str := match p with [] => [[]] | _ => p end.

(** the answers of [fs.Stat] (is a directory) *)
Definition statfn := path -> bool.

(* ------------------------------------------------------------------ *)
(** * Y — interp/src.go *)

(** [effectivePkg(root, path)], l.296: the loop over [splitPath] from its last element, with
    [rootIndex] / [prevRootIndex] exactly as written. [i] counts from 0, [n] is the number of
    iterations left. *)
Fixpoint y_eff_loop (sr sp : list str) (n i rootIndex prevRootIndex : nat) (result : list str)
  : list str :=
  match n with
  | 0 => result
  | S n' =>
      let part := nth (length sp - 1 - i) sp [] in
      let index := (Z.of_nat (length sr) - 1 - Z.of_nat rootIndex)%Z in
      if (0 <? index)%Z && str_eqb part (nth (Z.to_nat index) sr []) && negb (i =? 0)
      then y_eff_loop sr sp n' (S i) (S rootIndex) rootIndex result
      else if prevRootIndex =? rootIndex
           then y_eff_loop sr sp n' (S i) rootIndex prevRootIndex (result ++ [part])
           else y_eff_loop sr sp n' (S i) rootIndex prevRootIndex result
  end.

(** [frag] is the reversed [result] joined, the answer is [filepath.Join(root, frag)]
    (Join drops empty elements and cleans). *)
Definition y_effective_pkg (root ip : path) : path :=
  let sr := go_split root in
  let sp := go_split ip in
  let result := y_eff_loop sr sp (length sp) 0 0 0 [] in
  clean (root ++ filter nonempty (rev result)).

(** [previousRoot], first loop (l.243): walk up from [parent]; [prefix] is [rootPath - root]
    (GOPATH/src). [Some parent] = the [vendored] assignment was reached with that parent. *)
Fixpoint y_prev_loop (st : statfn) (prefix : path) (fuel : nat) (parent : path) : option path :=
  match fuel with
  | 0 => None
  | S f =>
      if st (parent ++ [vendor]) then Some parent
      else if path_eqb parent prefix then None
      else
        let parent' := removelast parent in
        if path_eqb parent' prefix then None
        else match parent' with
             | [] => None
             | _ => y_prev_loop st prefix f parent'
             end
  end.

(** second loop (l.282): [for i := len-1; i >= 0; i-- { if splitRoot[i] == "vendor" ... }];
    [n] = i+1. *)
Fixpoint y_last_vendor (sr : list str) (n : nat) : nat :=
  match n with
  | 0 => 0
  | S i => if str_eqb (nth i sr []) vendor then i else y_last_vendor sr i
  end.

Definition y_prev_fallback (root : path) : path :=
  let sr := go_split root in
  let index := y_last_vendor sr (length sr) in
  if index =? 0 then [] else firstn index sr.

(** [previousRoot(fs, rootPath, root)] with [rootPath = gsrc/root] (its only call site). *)
Definition y_previous_root (st : statfn) (gsrc root : path) : path :=
  let rootPath := gsrc ++ root in
  let parent := removelast rootPath in
  let final := last rootPath [] in
  let vendored :=
    if negb (path_eqb root [mainid]) && negb (str_eqb final vendor) then
      match y_prev_loop st gsrc (S (length rootPath)) parent with
      | Some p => skipn (length gsrc) p
      | None => []
      end
    else [] in
  match vendored with
  | _ :: _ => vendored
  | [] => y_prev_fallback root
  end.

Inductive found :=
| Found (dir rpath : path)
| NotFound
| OutOfFuel.

(** [pkgDir(goPath, root, importPath)], l.198; [gsrc] = goPath/src. *)
Fixpoint y_pkg_dir (st : statfn) (gsrc : path) (fuel : nat) (root ip : path) : found :=
  match fuel with
  | 0 => OutOfFuel
  | S f =>
      let rpath := root ++ [vendor] in
      let dir := gsrc ++ rpath ++ ip in
      if st dir then Found dir rpath
      else
        let dir2 := gsrc ++ y_effective_pkg root ip in
        if st dir2 then Found dir2 root
        else match root with
             | [] => NotFound
             | _ => y_pkg_dir st gsrc f (y_previous_root st gsrc root) ip
             end
  end.

Definition found_dir (r : found) : option path :=
  match r with Found d _ => Some d | _ => None end.

(** resolution of a non-relative import from the package whose [rPath] is [root] *)
Definition y_resolve (st : statfn) (gsrc root ip : path) : option path :=
  found_dir (y_pkg_dir st gsrc (S (length root)) root ip).

(** [isPathRelative]: the string starts with "./" or "../". *)
Definition is_rel (ip : path) : bool :=
  match ip with
  | w :: _ :: _ => str_eqb w dot1 || str_eqb w dot2
  | _ => false
  end.

(** gta, importSpec: [if path.Dir(ipath) == path.Base(ipath) { ipath = Base }]. *)
Definition y_key (ip : path) : path :=
  match ip with
  | [x; y] => if str_eqb x y && plain_comp x then [x] else ip
  | [d; x; y] => if str_eqb d dot1 && str_eqb x y && plain_comp x then [x] else ip
  | _ => ip
  end.

(** the relative branch of importSrc: [Join(Dir(interp.name), rPath, importPath)], with
    [rPath = "."] when it was "main". [entry] = Dir(interp.name). *)
Definition y_rel_rpath (rpath : path) : path :=
  if path_eqb rpath [mainid] then [] else rpath.
Definition y_rel_dir (entry rpath ip : path) : path :=
  clean (entry ++ y_rel_rpath rpath ++ ip).

(* ------------------------------------------------------------------ *)
(** * G — Go (GOPATH mode) *)

(** [rd] is the importing directory relative to GOPATH/src, *reversed* (innermost first):
    try [d/vendor/ip], then go to the parent, down to GOPATH/src itself. *)
Fixpoint g_vendor_walk (hasgo : statfn) (gsrc : path) (rd : list str) (ip : path) : option path :=
  let cand := gsrc ++ rev rd ++ vendor :: ip in
  if hasgo cand then Some cand
  else match rd with
       | [] => None
       | _ :: up => g_vendor_walk hasgo gsrc up ip
       end.

Definition g_resolve (st hasgo : statfn) (gsrc d ip : path) : option path :=
  match g_vendor_walk hasgo gsrc (rev d) ip with
  | Some c => Some c
  | None => if st (gsrc ++ ip) then Some (gsrc ++ ip) else None
  end.

(** any import of the package in directory [dir] (a path from the same origin as [gsrc]) *)
Definition g_import (st hasgo : statfn) (gsrc dir ip : path) : option path :=
  if is_rel ip then Some (clean (dir ++ ip))
  else if is_prefix gsrc dir then g_resolve st hasgo gsrc (skipn (length gsrc) dir) ip
  else if st (gsrc ++ ip) then Some (gsrc ++ ip) else None.

(* ------------------------------------------------------------------ *)
(** * Programs: a tree of package directories with their imports in source order *)

Record pkg := { pdir : path; pimps : list path }.
Definition tree := list pkg.

Definition tree_stat (t : tree) : statfn := fun p => existsb (fun k => is_prefix p (pdir k)) t.
Definition tree_hasgo (t : tree) : statfn := fun p => existsb (fun k => path_eqb (pdir k) p) t.

Fixpoint imports_of (t : tree) (d : path) : option (list path) :=
  match t with
  | [] => None
  | k :: t' => if path_eqb (pdir k) d then Some (pimps k) else imports_of t' d
  end.

Record ctx := {
  c_gsrc : path;     (* GOPATH/src *)
  c_entry : path;    (* Dir(interp.name): directory of the entry file, [] for "_.go" *)
  c_retry : path;    (* rootFromSourceLocation(): the root of the second pkgDir attempt — the directory
                        of the input file relative to GOPATH/src when the process's working directory
                        joined with the file's directory lies inside GOPATH/src, "" for "_.go"; any
                        other location gives a root below which nothing exists, which behaves as "" *)
  c_tree : tree
}.

Inductive event :=
| EvInit (d : path)              (* the init function of the package in directory d ran *)
| EvEdge (d ip r : path)         (* in package d, the import ip is bound to the package of directory r *)
| EvMain (d : path).

Inductive err := ENotFound | ECycle | ENoGo | EFuel.

Fixpoint fold_load {S : Type} (ld : S -> path -> S * option err) (st : S) (imps : list path)
  : S * option err :=
  match imps with
  | [] => (st, None)
  | i :: r => match ld st i with
              | (st', None) => fold_load ld st' r
              | e => e
              end
  end.

Fixpoint assoc (k : path) (m : list (path * path)) : option path :=
  match m with
  | [] => None
  | (k', v) :: m' => if path_eqb k' k then Some v else assoc k m'
  end.

(** ** Y loader: importSrc *)

Record ystate := {
  y_memo : list (path * path);   (* srcPkg / pkgNames: import path string -> directory loaded *)
  y_rdir : list path;            (* rdir: import path strings, never cleared *)
  y_log : list event
}.

Definition y_edges (memo : list (path * path)) (dir : path) (imps : list path) : list event :=
  map (fun i => EvEdge dir i (match assoc (y_key i) memo with Some r => r | None => [] end)) imps.

Fixpoint y_load (c : ctx) (fuel : nat) (st : ystate) (rpath ip0 : path) : ystate * option err :=
  match fuel with
  | 0 => (st, Some EFuel)
  | S f =>
      let ip := y_key ip0 in
      match assoc ip (y_memo st) with
      | Some _ => (st, None)
      | None =>
          let res :=
            if is_rel ip then Found (y_rel_dir (c_entry c) rpath ip) (y_rel_rpath rpath)
            else match y_pkg_dir (tree_stat (c_tree c)) (c_gsrc c) (S (length rpath)) rpath ip with
                 | NotFound =>
                     (* "Try again, assuming a root dir at the source location": for any importer *)
                     y_pkg_dir (tree_stat (c_tree c)) (c_gsrc c) (S (length (c_retry c))) (c_retry c) ip
                 | r => r
                 end in
          match res with
          | OutOfFuel => (st, Some EFuel)
          | NotFound => (st, Some ENotFound)
          | Found dir rp =>
              if mem_path ip (y_rdir st) then (st, Some ECycle)
              else
                let st1 := {| y_memo := y_memo st; y_rdir := ip :: y_rdir st; y_log := y_log st |} in
                match imports_of (c_tree c) dir with
                | None => (st1, Some (if tree_stat (c_tree c) dir then ENoGo else ENotFound))
                | Some imps =>
                    let sub := y_effective_pkg rp ip in
                    match fold_load (fun s i => y_load c f s sub i) st1 imps with
                    | (st2, None) =>
                        let memo := y_memo st2 ++ [(ip, dir)] in
                        ({| y_memo := memo; y_rdir := y_rdir st2;
                            y_log := y_log st2 ++ EvInit dir :: y_edges memo dir imps |}, None)
                    | e => e
                    end
                end
          end
      end
  end.

Definition y_init : ystate := {| y_memo := []; y_rdir := []; y_log := [] |}.

Definition all_imports (t : tree) : list path := flat_map pimps t.
Definition load_fuel (t : tree) : nat := S (S (length (all_imports t))).

(** [EvalPath(<import path of a main package>)]: importSrc("main", e). *)
Definition y_run_path (c : ctx) (e : path) : list event * option err :=
  match y_load c (load_fuel (c_tree c)) y_init [mainid] e with
  | (st, None) => (y_log st ++ [EvMain (match assoc e (y_memo st) with Some d => d | None => [] end)], None)
  | (st, Some x) => (y_log st, Some x)
  end.

(** [EvalPath(<file>)]: the imports of the entry file are processed by gta with rPath "main",
    then the file itself runs. *)
Definition y_run_file (c : ctx) : list event * option err :=
  match imports_of (c_tree c) (c_entry c) with
  | None => ([], Some ENotFound)
  | Some imps =>
      match fold_load (fun s i => y_load c (load_fuel (c_tree c)) s [mainid] i) y_init imps with
      | (st, None) =>
          (y_log st ++ EvInit (c_entry c) :: y_edges (y_memo st) (c_entry c) imps ++ [EvMain (c_entry c)], None)
      | (st, Some x) => (y_log st, Some x)
      end
  end.

(** ** G loader: packages are directories *)

Record gstate := { g_done : list path; g_log : list event }.

Definition g_imp (c : ctx) (dir ip : path) : option path :=
  g_import (tree_stat (c_tree c)) (tree_hasgo (c_tree c)) (c_gsrc c) dir ip.

Definition g_edges (c : ctx) (dir : path) (imps : list path) : list event :=
  map (fun i => EvEdge dir i (match g_imp c dir i with Some r => r | None => [] end)) imps.

Fixpoint g_load (c : ctx) (fuel : nat) (stack : list path) (st : gstate) (dir : path)
  : gstate * option err :=
  match fuel with
  | 0 => (st, Some EFuel)
  | S f =>
      if mem_path dir (g_done st) then (st, None)
      else if mem_path dir stack then (st, Some ECycle)
      else match imports_of (c_tree c) dir with
           | None => (st, Some (if tree_stat (c_tree c) dir then ENoGo else ENotFound))
           | Some imps =>
               match fold_load (fun s i => match g_imp c dir i with
                                           | None => (s, Some ENotFound)
                                           | Some d' => g_load c f (dir :: stack) s d'
                                           end) st imps with
               | (st2, None) =>
                   ({| g_done := dir :: g_done st2;
                       g_log := g_log st2 ++ EvInit dir :: g_edges c dir imps |}, None)
               | e => e
               end
           end
  end.

Definition g_init : gstate := {| g_done := []; g_log := [] |}.

Definition g_run_dir (c : ctx) (fuel : nat) (dir : path) : list event * option err :=
  match g_load c fuel [] g_init dir with
  | (st, None) => (g_log st ++ [EvMain dir], None)
  | (st, Some x) => (g_log st, Some x)
  end.

(** [go run .] in GOPATH/src/e; the fuel is more than the depth of any import chain *)
Definition g_run_path (c : ctx) (e : path) : list event * option err :=
  g_run_dir c (load_fuel (c_tree c)) (c_gsrc c ++ e).
(** [go run <file>] in its directory *)
Definition g_run_file (c : ctx) : list event * option err :=
  g_run_dir c (S (load_fuel (c_tree c))) (c_entry c).

(* ------------------------------------------------------------------ *)
(** * Decidable side conditions (their negations are the known-finding regions) *)

(** all prefixes of a path, shortest first *)
Fixpoint prefixes (d : path) : list path :=
  [] :: match d with [] => [] | x :: t => map (cons x) (prefixes t) end.

Definition opt_path_eqb (a b : option path) : bool :=
  match a, b with
  | Some x, Some y => path_eqb x y
  | None, None => true
  | _, _ => false
  end.

(** region "vendor-nogofiles": a directory [A/vendor/ip] without Go files on the way up *)
Definition nogo_free (st hasgo : statfn) (gsrc d ip : path) : bool :=
  forallb (fun a => let c := gsrc ++ a ++ vendor :: ip in implb (st c) (hasgo c)) (prefixes d).

(** region "subdir-shadow": at some root [r] on the way up, [effectivePkg(r, ip)] exists although
    it is not the directory Go resolves to *)
Definition shadow_free (st hasgo : statfn) (gsrc d ip : path) : bool :=
  forallb (fun r =>
             match r with
             | [] => true
             | _ => st (gsrc ++ r ++ vendor :: ip)
                    || negb (st (gsrc ++ y_effective_pkg r ip))
                    || opt_path_eqb (g_resolve st hasgo gsrc r ip) (Some (gsrc ++ y_effective_pkg r ip))
             end) (prefixes d).

Definition resolve_side (st hasgo : statfn) (gsrc d ip : path) : bool :=
  plain ip && nogo_free st hasgo gsrc d ip && shadow_free st hasgo gsrc d ip.

(** a filesystem: every ancestor of a directory is a directory; Go files live in directories *)
Definition fs_closed (st : statfn) : Prop := forall p q, st (p ++ q) = true -> st p = true.
Definition fs_hasgo_dir (st hasgo : statfn) : Prop := forall p, hasgo p = true -> st p = true.

(* ------------------------------------------------------------------ *)
(** * Notation for concrete cases *)

Definition pth (x : string) : path := filter nonempty (split slash (s x)).
Definition mkpkg (d : string) (imps : list string) : pkg := {| pdir := pth d; pimps := map pth imps |}.
(** the context of a run whose working directory is the origin of all paths and whose entry file
    is named relative to it: the retry root is the entry directory relative to GOPATH/src when it
    lies strictly below GOPATH/src *)
Definition retry_of (gsrc entry : path) : path :=
  if is_prefix gsrc entry then skipn (length gsrc) entry else [].
Definition mkctx (gsrc entry : string) (t : tree) : ctx :=
  {| c_gsrc := pth gsrc; c_entry := pth entry; c_retry := retry_of (pth gsrc) (pth entry); c_tree := t |}.
