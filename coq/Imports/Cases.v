(** Evaluation of the C16 models on the cases written by the harness (correspondence check).
    [*_mis_y]: ids of the cases where the implementation's observed answer differs from Y;
    [*_mis_g]: ids of the cases where the reference's answer (GOPATH-mode [go run]) differs from G. *)
From Verif Require Import Lib.Str Imports.Model Imports.Load.

(** a path written as a string with "/" separators *)
Definition pstr (x : str) : path := filter nonempty (split slash x).
Definition show (p : path) : str := join slash p.

(** function level: a filesystem given by its leaf directories *)
Definition dirs_tree (dirs : list str) : tree := map (fun d => {| pdir := pstr d; pimps := [] |}) dirs.
Definition dirs_stat (dirs : list str) : statfn := tree_stat (dirs_tree dirs).

(** effectivePkg(root, path) = observed *)
Definition eff_case := (N * str * str * str)%type.
Definition eff_mis_y (cs : list eff_case) : list N :=
  flat_map (fun '(id, root, ip, obs) =>
    if str_eqb (show (y_effective_pkg (pstr root) (pstr ip))) obs then [] else [id]) cs.
Definition eff_mis_g (cs : list eff_case) : list N := [].

(** previousRoot(fs, gsrc/root, root) = observed, on the filesystem [dirs] *)
Definition prev_case := (N * list str * str * str * str)%type.
Definition prev_mis_y (cs : list prev_case) : list N :=
  flat_map (fun '(id, dirs, gsrc, root, obs) =>
    if str_eqb (show (y_previous_root (dirs_stat dirs) (pstr gsrc) (pstr root))) obs then [] else [id]) cs.
Definition prev_mis_g (cs : list prev_case) : list N := [].

(** pkgDir(gopath, root, path) = (dir, rPath) or an error *)
Definition pkgdir_case := (N * list str * str * str * str * option (str * str))%type.
Definition found_eqb (r : found) (obs : option (str * str)) : bool :=
  match r, obs with
  | Found d rp, Some (od, orp) => str_eqb (show d) od && str_eqb (show rp) orp
  | NotFound, None => true
  | _, _ => false
  end.
Definition pkgdir_mis_y (cs : list pkgdir_case) : list N :=
  flat_map (fun '(id, dirs, gsrc, root, ip, obs) =>
    let r := pstr root in
    if found_eqb (y_pkg_dir (dirs_stat dirs) (pstr gsrc) (S (length r)) r (pstr ip)) obs then [] else [id]) cs.
Definition pkgdir_mis_g (cs : list pkgdir_case) : list N := [].

(** end to end *)
Definition event_eqb (a b : event) : bool :=
  match a, b with
  | EvInit x, EvInit y => path_eqb x y
  | EvEdge d i r, EvEdge d' i' r' => path_eqb d d' && path_eqb i i' && path_eqb r r'
  | EvMain x, EvMain y => path_eqb x y
  | _, _ => false
  end.

Fixpoint events_eqb (a b : list event) : bool :=
  match a, b with
  | [], [] => true
  | x :: a', y :: b' => event_eqb x y && events_eqb a' b'
  | _, _ => false
  end.

Definition count_ev (e : event) (l : list event) : nat :=
  length (filter (event_eqb e) l).

(** same multiset: the Go toolchain initialises packages in another (legal) order *)
Definition events_same (a b : list event) : bool :=
  (length a =? length b) && forallb (fun e => count_ev e a =? count_ev e b) a.

Definition err1_eqb (a b : err) : bool :=
  match a, b with
  | ENotFound, ENotFound => true
  | ECycle, ECycle => true
  | ENoGo, ENoGo => true
  | EFuel, EFuel => true
  | _, _ => false
  end.

Definition err_eqb (a b : option err) : bool :=
  match a, b with
  | None, None => true
  | Some x, Some y => err1_eqb x y
  | _, _ => false
  end.

Definition outcome := (list event * option err)%type.

(** the implementation's output is compared exactly, also the partial output before an error *)
Definition outcome_eqb_y (m obs : outcome) : bool :=
  events_eqb (fst m) (fst obs) && err_eqb (snd m) (snd obs).

(** the toolchain builds before it runs: on an error only the kind of error is compared; when
    one build reports several kinds of error ([Some EFuel] in the reference) any error of G fits *)
Definition outcome_eqb_g (m obs : outcome) : bool :=
  match snd obs, snd m with
  | Some EFuel, Some _ => true
  | _, _ => err_eqb (snd m) (snd obs)
            && match snd m with None => events_same (fst m) (fst obs) | Some _ => true end
  end.

(** events as the generated programs print them *)
Definition init (d : string) : event := EvInit (pth d).
Definition edge (d i r : string) : event := EvEdge (pth d) (pth i) (pth r).
Definition main (d : string) : event := EvMain (pth d).

(** Packages of several source files. The loaders (Imports/Load.v: y_load / g_load, and the theorems
    C16_load_*, C16_once, C16_no_cycle about them) work on the package graph: a directory holding
    several files is the package whose import list is the concatenation, in directory order, of the
    import lists of its files that are not skipped (_test.go, build constraints); which file
    declares an import is not an observable of the models. The harness lays programs out as
    directories of 1-3 files plus skipped files and writes them with [mkpkgf]; an implementation
    whose answer depends on the file an import is declared in differs from Y (MY). *)
Definition mkpkgf (d : string) (files : list (list string)) : pkg := mkpkg d (concat files).

(** (id, inside the side conditions according to the generator? ([None]: a constructed case whose
    label is not cross-checked), file mode?, context, entry import path, implementation outcome,
    reference outcome) *)
Definition run_case := (N * option bool * bool * ctx * path * outcome * outcome)%type.
Definition run_mis_y (cs : list run_case) : list N :=
  flat_map (fun x : run_case => let '(id, _, file, c, e, impl, _) := x in
    if outcome_eqb_y (if file then y_run_file c else y_run_path c e) impl then [] else [id]) cs.
(** the reference against G; and the generator's labelling against the side conditions of
    C16_load_partial / C16_load_file_partial *)
Definition run_mis_g (cs : list run_case) : list N :=
  flat_map (fun x : run_case => let '(id, inside, file, c, e, _, ref) := x in
    if outcome_eqb_g (if file then g_run_file c else g_run_path c e) ref
       && match inside with
          | Some b => Bool.eqb b (if file then good_file c else good_prog c e)
          | None => true
          end then [] else [id]) cs.
