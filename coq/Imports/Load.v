(** C16 — whole loads: outside the finding regions importSrc (Y, keyed by import path strings)
    and the specification loader (G, keyed by directories) do the same thing, step by step. *)
From Verif Require Import Lib.Str Imports.Model Imports.Proofs.

(* ------------------------------------------------------------------ *)
(** * The decidable side condition on a program *)

(** the directory relative to GOPATH/src *)
Definition under_gsrc (gsrc dir : path) : option path :=
  if is_prefix gsrc dir then Some (skipn (length gsrc) dir) else None.

Definition good_edge (c : ctx) (d i : path) : bool :=
  path_eqb (y_key i) i && negb (is_rel i) && negb (mem vendor i)
  && match i with [] => false | _ => true end
  && resolve_side (tree_stat (c_tree c)) (tree_hasgo (c_tree c)) (c_gsrc c) d i.

Definition good_pkg (c : ctx) (k : pkg) : bool :=
  match under_gsrc (c_gsrc c) (pdir k) with
  | Some d => plain d && forallb (good_edge c d) (pimps k)
  | None => false
  end.

(** every import of the program with the directory Go resolves it to; the entry itself *)
Definition table (c : ctx) (e : path) : list (path * option path) :=
  (e, Some (c_gsrc c ++ e))
  :: flat_map (fun k => map (fun i => (i, g_imp c (pdir k) i)) (pimps k)) (c_tree c).

(** an import path names one directory, a directory has one import path (region "memo-by-path") *)
Definition coherent (tb : list (path * option path)) : bool :=
  forallb (fun a => forallb (fun b =>
     implb (path_eqb (fst a) (fst b)) (opt_path_eqb (snd a) (snd b))
     && implb (match snd a with Some _ => opt_path_eqb (snd a) (snd b) | None => false end)
              (path_eqb (fst a) (fst b))) tb) tb.

(** the entry is found at GOPATH/src/<e> from the pseudo root "main" (region "entry-shadow") *)
Definition entry_ok (c : ctx) (e : path) : bool :=
  path_eqb (y_key e) e && negb (is_rel e) && plain e
  && match y_pkg_dir (tree_stat (c_tree c)) (c_gsrc c) 2 [mainid] e with
     | Found dir rp => path_eqb dir (c_gsrc c ++ e) && path_eqb rp []
     | _ => false
     end.

Definition good_prog (c : ctx) (e : path) : bool :=
  entry_ok c e && forallb (good_pkg c) (c_tree c) && coherent (table c e).

(* ------------------------------------------------------------------ *)
(** * Consequences of the side condition *)

Lemma imports_of_pkg t d imps :
  imports_of t d = Some imps -> exists k, In k t /\ pdir k = d /\ pimps k = imps.
Proof.
  induction t as [|k t IH]; simpl; [discriminate|].
  destruct (path_eqb_spec (pdir k) d) as [E|E].
  - intros [= <-]. exists k. auto.
  - intros H. destruct (IH H) as [k' [Hin Hk]]. exists k'. auto.
Qed.

Lemma table_edge c e k i : In k (c_tree c) -> In i (pimps k) -> In (i, g_imp c (pdir k) i) (table c e).
Proof.
  intros Hk Hi. right. apply in_flat_map. exists k. split; [assumption|].
  apply in_map_iff. now exists i.
Qed.

Section Coherent.
  Variables (c : ctx) (e : path).
  Hypothesis Hco : coherent (table c e) = true.

  Lemma coherent_fun k a b : In (k, a) (table c e) -> In (k, b) (table c e) -> a = b.
  Proof.
    intros Ha Hb. unfold coherent in Hco. rewrite forallb_forall in Hco.
    specialize (Hco _ Ha). rewrite forallb_forall in Hco. specialize (Hco _ Hb).
    apply andb_true_iff in Hco as [H _]. simpl in H. rewrite path_eqb_refl in H. simpl in H.
    now apply opt_path_eqb_eq.
  Qed.

  Lemma coherent_inj k k' t : In (k, Some t) (table c e) -> In (k', Some t) (table c e) -> k = k'.
  Proof.
    intros Ha Hb. unfold coherent in Hco. rewrite forallb_forall in Hco.
    specialize (Hco _ Ha). rewrite forallb_forall in Hco. specialize (Hco _ Hb).
    apply andb_true_iff in Hco as [_ H]. simpl in H. rewrite path_eqb_refl in H. simpl in H.
    now apply path_eqb_eq.
  Qed.
End Coherent.

Lemma mem_In_str x l : mem x l = true <-> In x l.
Proof. apply mem_In. Qed.

Lemma under_gsrc_some gsrc dir d : under_gsrc gsrc dir = Some d -> dir = gsrc ++ d.
Proof.
  unfold under_gsrc. destruct (is_prefix gsrc dir) eqn:E; [|discriminate].
  intros [= <-]. apply is_prefix_spec in E as [r ->].
  now rewrite skipn_app, skipn_all, Nat.sub_diag.
Qed.

Lemma under_gsrc_app gsrc d : under_gsrc gsrc (gsrc ++ d) = Some d.
Proof.
  unfold under_gsrc. rewrite is_prefix_app. now rewrite skipn_app, skipn_all, Nat.sub_diag.
Qed.

(** what a good edge gives: pkgDir from the importing directory finds what Go finds, and the
    rPath of the found package is its directory *)
Lemma good_edge_resolve c d i :
  good_edge c d i = true -> plain d = true ->
  y_key i = i /\ is_rel i = false /\
  match y_pkg_dir (tree_stat (c_tree c)) (c_gsrc c) (S (length d)) d i with
  | Found dir rp => g_imp c (c_gsrc c ++ d) i = Some dir
                    /\ exists d', dir = c_gsrc c ++ d' /\ y_effective_pkg rp i = d'
  | NotFound => g_imp c (c_gsrc c ++ d) i = None
  | OutOfFuel => False
  end.
Proof.
  intros H Hd. unfold good_edge in H.
  apply andb_true_iff in H as [H Hside]. apply andb_true_iff in H as [H Hne].
  apply andb_true_iff in H as [H Hv]. apply andb_true_iff in H as [Hk Hr].
  apply path_eqb_eq in Hk. apply negb_true_iff in Hr, Hv.
  split; [assumption|]. split; [assumption|].
  assert (Hi : i <> []) by (destruct i; [discriminate|discriminate]).
  pose proof (resolve_agree _ _ _ _ _ (tree_stat_closed (c_tree c)) (tree_hasgo_dir (c_tree c)) Hside) as Hag.
  assert (Hg : g_imp c (c_gsrc c ++ d) i = g_resolve (tree_stat (c_tree c)) (tree_hasgo (c_tree c)) (c_gsrc c) d i).
  { unfold g_imp, g_import. rewrite Hr, is_prefix_app. now rewrite skipn_app, skipn_all, Nat.sub_diag. }
  unfold y_resolve in Hag.
  pose proof (pkg_dir_fuel (tree_stat (c_tree c)) (c_gsrc c) i (S (length d)) d ltac:(lia)) as Hfuel.
  unfold resolve_side in Hside. apply andb_true_iff in Hside as [Hside _]. apply andb_true_iff in Hside as [Hpl _].
  destruct (y_pkg_dir _ _ _ d i) as [dir rp| |] eqn:E; [| |congruence].
  - simpl in Hag. split; [now rewrite Hg, <- Hag|].
    pose proof (sub_rpath_is_dir (tree_stat (c_tree c)) (c_gsrc c) i Hpl Hi) as Hsub.
    assert (Hnv : ~ In vendor (removelast i)).
    { intros Hin. assert (In vendor i) as Hin'.
      { destruct (exists_last Hi) as [l [x ->]]. rewrite removelast_app_unit in Hin. apply in_or_app. now left. }
      apply mem_In_str in Hin'. congruence. }
    specialize (Hsub Hnv _ _ _ _ Hd E). exists (y_effective_pkg rp i). auto.
  - simpl in Hag. now rewrite Hg, <- Hag.
Qed.

(* ------------------------------------------------------------------ *)
(** * The simulation *)

Section Sim.
  Variables (c : ctx) (e : path).
  Hypothesis Hpk : forallb (good_pkg c) (c_tree c) = true.
  Hypothesis Hco : coherent (table c e) = true.

  Let tb := table c e.

  (** [s] (importSrc's state) and [g] (the specification's) describe the same history; [stk] is
      the stack of directories being loaded *)
  Record inv (s : ystate) (g : gstate) (stk : list path) : Prop := {
    i_log : y_log s = g_log g;
    i_tab : forall k t, In (k, t) (y_memo s) -> In (k, Some t) tb;
    i_done : forall t, In t (g_done g) <-> In t (map snd (y_memo s));
    i_rdir : forall k, In k (y_rdir s) <-> In k (keys (y_memo s)) \/ exists t, In t stk /\ In (k, Some t) tb
  }.

  (** one import [i] of the package in directory [gsrc ++ d], on the specification side *)
  Definition g_step (n : nat) (stk : list path) (d : path) (g : gstate) (i : path) : gstate * option err :=
    match g_imp c (c_gsrc c ++ d) i with
    | None => (g, Some ENotFound)
    | Some t => g_load c n stk g t
    end.

  Definition agree (stk : list path) (ry : ystate * option err) (rg : gstate * option err) : Prop :=
    snd ry = snd rg /\ y_log (fst ry) = g_log (fst rg) /\ (snd ry = None -> inv (fst ry) (fst rg) stk).

  Lemma pkg_good k : In k (c_tree c) -> good_pkg c k = true.
  Proof. intros H. rewrite forallb_forall in Hpk. now apply Hpk. Qed.

  Lemma assoc_In k m t : assoc k m = Some t -> In (k, t) m.
  Proof. apply assoc_some. Qed.

  Lemma in_keys_assoc k m : In k (keys m) -> exists t, assoc k m = Some t.
  Proof.
    intros H. destruct (assoc k m) eqn:E; [eauto|]. apply assoc_none in E. contradiction.
  Qed.

  Definition no_fuel (ry : ystate * option err) : Prop := snd ry <> Some EFuel.

  Lemma fold_agree n stk d imps0 :
    (forall s g i, In i imps0 -> inv s g stk -> no_fuel (y_load c n s d i) ->
                   agree stk (y_load c n s d i) (g_step n stk d g i)) ->
    forall imps, incl imps imps0 -> forall s g, inv s g stk ->
      no_fuel (fold_load (fun s i => y_load c n s d i) s imps) ->
      agree stk (fold_load (fun s i => y_load c n s d i) s imps)
                (fold_load (fun g i => g_step n stk d g i) g imps).
  Proof.
    intros Hstep. induction imps as [|i r IH]; intros Hincl s g Hinv Hnf; cbn [fold_load] in *.
    - split; [reflexivity|]. split; [apply Hinv|]. intros _. exact Hinv.
    - assert (Hi : In i imps0) by (apply Hincl; now left).
      assert (Hr : incl r imps0) by (intros x Hx; apply Hincl; now right).
      pose proof (Hstep s g i Hi Hinv) as Hs.
      destruct (y_load c n s d i) as [s1 [ey|]] eqn:Ey.
      + specialize (Hs Hnf). destruct Hs as [He [Hl _]]. simpl in He, Hl.
        destruct (g_step n stk d g i) as [g1 [eg|]]; simpl in He; [|discriminate].
        split; [assumption|]. split; [assumption|]. intros H; discriminate.
      + specialize (Hs ltac:(unfold no_fuel; simpl; discriminate)). destruct Hs as [He [Hl Hi']]. simpl in He, Hl, Hi'.
        destruct (g_step n stk d g i) as [g1 [eg|]]; simpl in He; [discriminate|].
        apply IH; [assumption|now apply Hi'|assumption].
  Qed.

  Lemma assoc_app_some k m m' t : assoc k m = Some t -> assoc k (m ++ m') = Some t.
  Proof.
    induction m as [|[k' v] m IH]; simpl; [discriminate|].
    destruct (path_eqb k' k); [auto|apply IH].
  Qed.

  Lemma in_map_snd (t : path) (m : list (path * path)) : In t (map snd m) -> exists k, In (k, t) m.
  Proof.
    intros H. apply in_map_iff in H as [[k t'] [E Hin]]. simpl in E. subst t'. now exists k.
  Qed.

  (** the edges printed by a package whose imports all loaded: both sides bind the same directories *)
  Lemma edges_agree memo dir d' imps k1 :
    dir = c_gsrc c ++ d' -> In k1 (c_tree c) -> pdir k1 = dir -> pimps k1 = imps ->
    forallb (good_edge c d') imps = true -> plain d' = true ->
    (forall k t, In (k, t) memo -> In (k, Some t) tb) ->
    (forall i, In i imps -> In (y_key i) (keys memo)) ->
    y_edges memo dir imps = g_edges c dir imps.
  Proof.
    intros Hdir Hk1 Hk1d Hk1i Hgood Hd' Htab Hkeys. unfold y_edges, g_edges.
    apply map_ext_in. intros i Hi.
    rewrite forallb_forall in Hgood.
    destruct (good_edge_resolve c d' i (Hgood i Hi) Hd') as [Hkey _].
    specialize (Hkeys i Hi). rewrite Hkey in *.
    destruct (in_keys_assoc _ _ Hkeys) as [t Ht]. rewrite Ht.
    apply assoc_In, Htab in Ht.
    assert (In (i, g_imp c dir i) tb) as He.
    { rewrite <- Hk1d. apply table_edge; [assumption|]. now rewrite Hk1i. }
    rewrite <- (coherent_fun c e Hco _ _ _ Ht He). reflexivity.
  Qed.

  (** the part of importSrc after the cycle check, against the body of the specification loader *)
  Lemma body_agree f stk s g i dir d' imps :
    (forall stk d s g i, plain d = true -> inv s g stk -> good_edge c d i = true ->
        (exists k, In k (c_tree c) /\ pdir k = c_gsrc c ++ d /\ In i (pimps k)) ->
        no_fuel (y_load c f s d i) -> agree stk (y_load c f s d i) (g_step f stk d g i)) ->
    dir = c_gsrc c ++ d' -> imports_of (c_tree c) dir = Some imps -> In (i, Some dir) tb ->
    inv s g stk -> assoc i (y_memo s) = None -> ~ In i (y_rdir s) ->
    let ry := match fold_load (fun s i' => y_load c f s d' i') (y_mark s i) imps with
              | (st2, None) => (y_done st2 i dir imps, None)
              | r => r
              end in
    let rg := match fold_load (fun g i' => g_step f (dir :: stk) d' g i') g imps with
              | (g2, None) => ({| g_done := dir :: g_done g2; g_log := g_log g2 ++ EvInit dir :: g_edges c dir imps |}, None)
              | r => r
              end in
    no_fuel ry -> agree stk ry rg.
  Proof.
    intros IH Hdir Himp Hedge Hinv Ha Hnr ry rg Hnf.
    destruct (imports_of_pkg _ _ _ Himp) as [k1 [Hk1 [Hk1d Hk1i]]].
    pose proof (pkg_good k1 Hk1) as Hg1. unfold good_pkg in Hg1.
    rewrite Hk1d, Hdir, under_gsrc_app in Hg1. apply andb_true_iff in Hg1 as [Hd' Hgood]. rewrite Hk1i in Hgood.
    (* the invariant with the package on the stack *)
    assert (Hinv1 : inv (y_mark s i) g (dir :: stk)).
    { destruct Hinv as [Il It Id Ir]. constructor; simpl; try assumption.
      intros k. split.
      - intros [<-|Hk]; [right; exists dir; split; [now left|assumption]|].
        apply Ir in Hk as [Hk|[t [Ht Hkt]]]; [now left|]. right. exists t. split; [now right|assumption].
      - intros [Hk|[t [[<-|Ht] Hkt]]].
        + right. apply Ir. now left.
        + left. eapply coherent_inj; eassumption.
        + right. apply Ir. right. now exists t. }
    assert (Hfold : no_fuel (fold_load (fun s i' => y_load c f s d' i') (y_mark s i) imps)).
    { unfold no_fuel in *. subst ry. destruct (fold_load _ (y_mark s i) imps) as [st2 [x|]]; [exact Hnf|simpl; discriminate]. }
    pose proof (fold_agree f (dir :: stk) d' imps) as Hfa.
    specialize (Hfa ltac:(intros s0 g0 i0 Hi0 Hinv0 Hnf0; apply IH; try assumption;
                          [rewrite forallb_forall in Hgood; now apply Hgood
                          |exists k1; rewrite Hk1d, Hk1i, Hdir; auto])).
    specialize (Hfa imps (incl_refl _) _ _ Hinv1 Hfold).
    subst ry rg.
    destruct (fold_load (fun s i' => y_load c f s d' i') (y_mark s i) imps) as [st2 [ey|]] eqn:Ey;
      destruct (fold_load (fun g i' => g_step f (dir :: stk) d' g i') g imps) as [g2 [eg|]] eqn:Eg;
      destruct Hfa as [He [Hl Hi2]]; simpl in He, Hl, Hi2; try discriminate.
    - split; [assumption|]. split; [assumption|]. intros H; discriminate.
    - specialize (Hi2 eq_refl). destruct Hi2 as [Il It Id Ir].
      assert (Hedges : y_edges (y_memo st2 ++ [(i, dir)]) dir imps = g_edges c dir imps).
      { eapply edges_agree; try eassumption; try reflexivity.
        - intros k t Hin. apply in_app_or in Hin as [Hin|[[= <- <-]|[]]]; [now apply It|assumption].
        - intros i0 Hi0. rewrite keys_app. apply in_or_app. left.
          eapply (fold_ok_keys c f d'); eassumption. }
      unfold agree, y_done. cbv zeta. cbn [fst snd y_log y_memo y_rdir g_log g_done].
      split; [reflexivity|]. split; [rewrite Il; f_equal; f_equal; exact Hedges|]. intros _.
      constructor; cbn [y_log y_memo y_rdir g_log g_done].
      + rewrite Il; f_equal; f_equal; exact Hedges.
      + intros k t Hin. apply in_app_or in Hin as [Hin|[[= <- <-]|[]]]; [now apply It|assumption].
      + intros t. rewrite map_app, in_app_iff. simpl. rewrite <- Id. tauto.
      + intros k. rewrite keys_app, in_app_iff. simpl. rewrite Ir. split.
        * intros [Hk|[t [[<-|Ht] Hkt]]]; [tauto| |right; now exists t].
          left. right. left. symmetry. eapply coherent_inj; eassumption.
        * intros [[Hk|[<-|[]]]|[t [Ht Hkt]]]; [tauto| |right; exists t; split; [now right|assumption]].
          right. exists dir. split; [now left|assumption].
  Qed.

  Lemma step_agree : forall n stk d s g i,
    plain d = true -> inv s g stk -> good_edge c d i = true ->
    (exists k, In k (c_tree c) /\ pdir k = c_gsrc c ++ d /\ In i (pimps k)) ->
    no_fuel (y_load c n s d i) -> agree stk (y_load c n s d i) (g_step n stk d g i).
  Proof.
    induction n as [|f IH]; intros stk d s g i Hd Hinv Hgood [k0 [Hk0 [Hk0d Hk0i]]] Hnf.
    - exfalso. apply Hnf. reflexivity.
    - destruct (good_edge_resolve c d i Hgood Hd) as [Hkey [Hrel Hres]].
      assert (Hedge : In (i, g_imp c (c_gsrc c ++ d) i) tb).
      { rewrite <- Hk0d. now apply table_edge. }
      unfold g_step. rewrite y_load_S in *. rewrite Hkey in *.
      destruct (assoc i (y_memo s)) as [t|] eqn:Ea.
      + (* already loaded *)
        pose proof (i_tab _ _ _ Hinv _ _ (assoc_In _ _ _ Ea)) as Ht.
        rewrite <- (coherent_fun c e Hco _ _ _ Ht Hedge).
        cbn [g_load].
        assert (mem_path t (g_done g) = true) as ->.
        { apply mem_path_In. apply (i_done _ _ _ Hinv).
          exact (in_map snd _ _ (assoc_In _ _ _ Ea)). }
        split; [reflexivity|]. split; [apply Hinv|]. intros _. exact Hinv.
      + unfold y_find in *. rewrite Hrel in *.
        destruct (y_pkg_dir (tree_stat (c_tree c)) (c_gsrc c) (S (length d)) d i) as [dir rp| |] eqn:Ef.
        * destruct Hres as [Hgi [d' [Hdir Hsub]]]. rewrite Hgi in *.
          apply assoc_none in Ea.
          assert (Hnd : ~ In dir (g_done g)).
          { intros Hin. apply (i_done _ _ _ Hinv) in Hin. apply in_map_snd in Hin as [k' Hk'].
            pose proof (i_tab _ _ _ Hinv _ _ Hk') as Hk't.
            assert (k' = i) by (eapply coherent_inj; eassumption). subst k'.
            apply Ea. now apply (in_map fst) in Hk'. }
          cbn [g_load]. apply mem_path_not_In in Hnd. rewrite Hnd.
          destruct (mem_path i (y_rdir s)) eqn:Em.
          -- (* in progress: a cycle on both sides *)
             apply mem_path_In in Em. apply (i_rdir _ _ _ Hinv) in Em as [Em|[t [Ht Hit]]]; [contradiction|].
             assert (Some t = Some dir) as [= ->] by (eapply coherent_fun; eassumption).
             apply mem_path_In in Ht. rewrite Ht.
             split; [reflexivity|]. split; [apply Hinv|]. intros H; discriminate.
          -- apply mem_path_not_In in Em.
             assert (Hns : mem_path dir stk = false).
             { apply mem_path_not_In. intros Hin. apply Em. apply (i_rdir _ _ _ Hinv). right. now exists dir. }
             rewrite Hns.
             destruct (imports_of (c_tree c) dir) as [imps|] eqn:Ei.
             ++ rewrite Hsub in *.
                pose proof (body_agree f stk s g i dir d' imps IH Hdir Ei Hedge Hinv
                              (proj2 (assoc_none _ _) Ea) Em) as Hb.
                cbv zeta in Hb. rewrite Hdir in *. apply Hb. exact Hnf.
             ++ split; [reflexivity|]. split; [apply Hinv|]. intros H; discriminate.
        * rewrite Hres. split; [reflexivity|]. split; [apply Hinv|]. intros H; discriminate.
        * contradiction.
  Qed.
End Sim.

(* ------------------------------------------------------------------ *)
(** * Whole programs *)

Theorem load_agree c e : good_prog c e = true -> y_run_path c e = g_run_path c e.
Proof.
  intros Hgood. unfold good_prog in Hgood.
  apply andb_true_iff in Hgood as [Hgood Hco]. apply andb_true_iff in Hgood as [Hentry Hpk].
  unfold entry_ok in Hentry.
  apply andb_true_iff in Hentry as [Hentry Hfind]. apply andb_true_iff in Hentry as [Hentry Hpl].
  apply andb_true_iff in Hentry as [Hkey Hrel]. apply path_eqb_eq in Hkey. apply negb_true_iff in Hrel.
  pose proof (load_terminates_path c e) as Hterm.
  unfold y_run_path, g_run_path, g_run_dir in *. unfold load_fuel in *.
  set (F := S (length (all_imports (c_tree c)))) in *.
  rewrite y_load_S in *. rewrite Hkey in *. unfold y_init in *. cbn [y_memo assoc] in *.
  unfold y_find in *. rewrite Hrel in *. cbn [length] in *.
  destruct (y_pkg_dir (tree_stat (c_tree c)) (c_gsrc c) 2 [mainid] e) as [dir rp| |]; try discriminate.
  apply andb_true_iff in Hfind as [Hd Hr]. apply path_eqb_eq in Hd, Hr. subst dir rp.
  cbn [y_rdir mem_path g_load g_init g_done].
  cbn [y_rdir mem_path] in Hterm.
  destruct (imports_of (c_tree c) (c_gsrc c ++ e)) as [imps|] eqn:Ei; [|reflexivity].
  rewrite eff_root_nil in * by assumption.
  assert (Hedge : In (e, Some (c_gsrc c ++ e)) (table c e)) by now left.
  assert (Hinv : inv c e {| y_memo := []; y_rdir := []; y_log := [] |} g_init []).
  { constructor; simpl; try tauto. intros k. split; [tauto|]. intros [[]|[t [[] _]]]. }
  pose proof (body_agree c e Hpk Hco F [] {| y_memo := []; y_rdir := []; y_log := [] |} g_init e (c_gsrc c ++ e) e imps
                (step_agree c e Hpk Hco F) eq_refl Ei Hedge Hinv eq_refl (fun H => H)) as Hb.
  cbv zeta in Hb. unfold y_mark in Hb. cbn [y_memo y_rdir y_log] in Hb.
  change (fun (g : gstate) (i' : path) => g_step c F [c_gsrc c ++ e] e g i')
    with (fun (s : gstate) (i : path) => match g_imp c (c_gsrc c ++ e) i with
                                          | Some d' => g_load c F [c_gsrc c ++ e] s d'
                                          | None => (s, Some ENotFound)
                                          end) in Hb.
  destruct (fold_load (fun s i => y_load c F s e i) _ imps) as [st2 [ey|]] eqn:Ey.
  - specialize (Hb Hterm). destruct Hb as [He [Hl _]].
    destruct (fold_load _ g_init imps) as [g2 [eg|]]; simpl in He, Hl; [|discriminate].
    injection He as <-. now rewrite Hl.
  - specialize (Hb ltac:(unfold no_fuel; simpl; discriminate)). destruct Hb as [He [Hl Hi]].
    destruct (fold_load _ g_init imps) as [g2 [eg|]]; simpl in He, Hl, Hi; [discriminate|].
    cbn [y_done y_memo y_log g_log] in *. rewrite Hl.
    match goal with |- context [assoc e ?m] => assert (assoc e m = Some (c_gsrc c ++ e)) as -> end.
    { destruct (assoc e (y_memo st2)) as [t|] eqn:Ea.
      - rewrite (assoc_app_some _ _ _ _ Ea). f_equal.
        specialize (Hi eq_refl). pose proof (i_tab _ _ _ _ _ Hi e t) as Ht. simpl in Ht.
        specialize (Ht ltac:(apply in_or_app; left; now apply assoc_some)).
        pose proof (coherent_fun c e Hco _ _ _ Ht Hedge) as [= ->]. reflexivity.
      - clear -Ea. induction (y_memo st2) as [|[k v] m IH]; simpl in *; [now rewrite path_eqb_refl|].
        destruct (path_eqb k e); [discriminate|auto]. }
    reflexivity.
Qed.

(** non-vacuity: nested vendor directories, the same import path in three places, a diamond, a cycle *)
Local Open Scope string_scope.

Lemma good_prog_inhabited :
  good_prog (mkctx "gp/src" "" t_nested) (pth "a/b/c") = true
  /\ snd (g_run_path (mkctx "gp/src" "" t_nested) (pth "a/b/c")) = None
  /\ In (EvEdge (pth "gp/src/a/b/c") (pth "x") (pth "gp/src/a/b/vendor/x")) (fst (g_run_path (mkctx "gp/src" "" t_nested) (pth "a/b/c")))
  /\ good_prog (mkctx "gp/src" "" t_diamond) (pth "e") = true
  /\ good_prog (mkctx "gp/src" "" t_cycle) (pth "e") = true
  /\ snd (g_run_path (mkctx "gp/src" "" t_cycle) (pth "e")) = Some ECycle.
Proof. repeat split; vm_compute; tauto. Qed.

(** the side condition excludes every refutation witness of the path mode *)
Lemma good_prog_excludes :
  good_prog c_alias (pth "e") = false /\ good_prog c_shadow (pth "p") = false
  /\ good_prog c_false_cycle (pth "e") = false /\ good_prog (mkctx "gp/src" "" t_xx) (pth "e") = false
  /\ good_prog (mkctx "gp/src" "" t_nogo) (pth "e") = false /\ good_prog (mkctx "gp/src" "" t_twice) (pth "p") = false.
Proof. repeat split; vm_compute; reflexivity. Qed.
