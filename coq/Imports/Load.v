(** C16 — whole loads: outside the finding regions importSrc (Y, keyed by import path strings)
    and the specification loader (G, keyed by directories) do the same thing, step by step. *)
From Verif Require Import Lib.Str Imports.Model Imports.Proofs.

(* ------------------------------------------------------------------ *)
(** * The decidable side condition on a program *)

(** the directory relative to GOPATH/src *)
Definition under_gsrc (gsrc dir : path) : option path :=
  if is_prefix gsrc dir then Some (skipn (length gsrc) dir) else None.

Definition good_edge (c : ctx) (d i : path) : bool :=
  path_eqb (y_key i) i && negb (is_rel i) && negb (mem vendor i)
  && match i with [] => false | _ => true end
  && resolve_side (tree_stat (c_tree c)) (tree_hasgo (c_tree c)) (c_gsrc c) d i
  (* region "source-location-retry": what the importer's own walk does not find is not found from
     the input file's directory either (Go would not look there) *)
  && match y_pkg_dir (tree_stat (c_tree c)) (c_gsrc c) (S (length d)) d i with
     | NotFound => match y_pkg_dir (tree_stat (c_tree c)) (c_gsrc c) (S (length (c_retry c))) (c_retry c) i with
                   | NotFound => true
                   | _ => false
                   end
     | _ => true
     end.

Definition good_pkg (c : ctx) (k : pkg) : bool :=
  match under_gsrc (c_gsrc c) (pdir k) with
  | Some d => plain d && forallb (good_edge c d) (pimps k)
  | None => false
  end.

(** every import of the program with the directory Go resolves it to; the entry itself *)
Definition table (c : ctx) (e : path) : list (path * option path) :=
  (e, Some (c_gsrc c ++ e))
  :: flat_map (fun k => map (fun i => (i, g_imp c (pdir k) i)) (pimps k)) (c_tree c).

(** an import path names one directory, a directory has one import path (region "memo-by-path") *)
Definition coherent (tb : list (path * option path)) : bool :=
  forallb (fun a => forallb (fun b =>
     implb (path_eqb (fst a) (fst b)) (opt_path_eqb (snd a) (snd b))
     && implb (match snd a with Some _ => opt_path_eqb (snd a) (snd b) | None => false end)
              (path_eqb (fst a) (fst b))) tb) tb.

(** the entry is found at GOPATH/src/<e> from the pseudo root "main" (region "entry-shadow") *)
Definition entry_ok (c : ctx) (e : path) : bool :=
  path_eqb (y_key e) e && negb (is_rel e) && plain e
  && match c_entry c with [] => true | _ => false end
  && match y_pkg_dir (tree_stat (c_tree c)) (c_gsrc c) 2 [mainid] e with
     | Found dir rp => path_eqb dir (c_gsrc c ++ e) && path_eqb rp []
     | _ => false
     end.

Definition good_prog (c : ctx) (e : path) : bool :=
  entry_ok c e && forallb (good_pkg c) (c_tree c) && coherent (table c e).

(** ** the semantic per-import condition, for any importer (also outside GOPATH, also relative imports) *)

(** the rPath a package directory must get: relative to the entry file's directory if below it
    (also when that lies inside GOPATH), else relative to GOPATH/src *)
Definition rp_of (c : ctx) (dir : path) : path :=
  let gopath_rel := match under_gsrc (c_gsrc c) dir with Some d => d | None => dir end in
  match c_entry c, under_gsrc (c_entry c) dir with
  | _ :: _, Some r =>
      (* below the entry file's directory: reached by relative imports — except the packages of a
         vendor directory there, which only an import path reaches (from GOPATH/src) *)
      if mem vendor r then gopath_rel else r
  | _, _ => gopath_rel
  end.

(** importSrc called with [rp] for the import [i] of the package in [dir] finds the directory Go finds,
    and hands that directory's rPath down (regions "relative-nonentry", "relative-root",
    "entry-file-vendor", "subdir-shadow", "vendor-nogofiles", "xx-collapse" otherwise) *)
Definition edge_ok (c : ctx) (rp dir i : path) : bool :=
  path_eqb (y_key i) i &&
  match y_find c rp i with
  | Found t rp' => opt_path_eqb (g_imp c dir i) (Some t) && path_eqb (y_effective_pkg rp' i) (rp_of c t)
  | NotFound => opt_path_eqb (g_imp c dir i) None
  | OutOfFuel => false
  end.

Definition pkg_ok (c : ctx) (k : pkg) : bool :=
  forallb (edge_ok c (rp_of c (pdir k)) (pdir k)) (pimps k).

Definition all_edges (c : ctx) : list (path * option path) :=
  flat_map (fun k => map (fun i => (i, g_imp c (pdir k) i)) (pimps k)) (c_tree c).

(** programs entered by a file: every import is fine, also those of the entry file (resolved from
    the pseudo root "main"), nobody imports the entry directory, import paths and directories
    correspond one to one *)
Definition good_file (c : ctx) : bool :=
  forallb (pkg_ok c) (c_tree c)
  && match imports_of (c_tree c) (c_entry c) with
     | Some imps => forallb (edge_ok c [mainid] (c_entry c)) imps
     | None => false
     end
  && forallb (fun a => negb (opt_path_eqb (snd a) (Some (c_entry c)))) (all_edges c)
  && coherent (all_edges c).


(* ------------------------------------------------------------------ *)
(** * Consequences of the side conditions *)

Lemma imports_of_pkg t d imps :
  imports_of t d = Some imps -> exists k, In k t /\ pdir k = d /\ pimps k = imps.
Proof.
  induction t as [|k t IH]; simpl; [discriminate|].
  destruct (path_eqb_spec (pdir k) d) as [E|E].
  - intros [= <-]. exists k. auto.
  - intros H. destruct (IH H) as [k' [Hin Hk]]. exists k'. auto.
Qed.

Lemma all_edges_In c k i : In k (c_tree c) -> In i (pimps k) -> In (i, g_imp c (pdir k) i) (all_edges c).
Proof.
  intros Hk Hi. apply in_flat_map. exists k. split; [assumption|]. apply in_map_iff. now exists i.
Qed.

Section Coherent.
  Variable tb : list (path * option path).
  Hypothesis Hco : coherent tb = true.

  Lemma coherent_fun k a b : In (k, a) tb -> In (k, b) tb -> a = b.
  Proof.
    intros Ha Hb. unfold coherent in Hco. rewrite forallb_forall in Hco.
    specialize (Hco _ Ha). rewrite forallb_forall in Hco. specialize (Hco _ Hb).
    apply andb_true_iff in Hco as [H _]. simpl in H. rewrite path_eqb_refl in H. simpl in H.
    now apply opt_path_eqb_eq.
  Qed.

  Lemma coherent_inj k k' t : In (k, Some t) tb -> In (k', Some t) tb -> k = k'.
  Proof.
    intros Ha Hb. unfold coherent in Hco. rewrite forallb_forall in Hco.
    specialize (Hco _ Ha). rewrite forallb_forall in Hco. specialize (Hco _ Hb).
    apply andb_true_iff in Hco as [_ H]. simpl in H. rewrite path_eqb_refl in H. simpl in H.
    now apply path_eqb_eq.
  Qed.
End Coherent.

Lemma mem_In_str x l : mem x l = true <-> In x l.
Proof. apply mem_In. Qed.

Lemma under_gsrc_some gsrc dir d : under_gsrc gsrc dir = Some d -> dir = gsrc ++ d.
Proof.
  unfold under_gsrc. destruct (is_prefix gsrc dir) eqn:E; [|discriminate].
  intros [= <-]. apply is_prefix_spec in E as [r ->].
  now rewrite skipn_app, skipn_all, Nat.sub_diag.
Qed.

Lemma under_gsrc_app gsrc d : under_gsrc gsrc (gsrc ++ d) = Some d.
Proof.
  unfold under_gsrc. rewrite is_prefix_app. now rewrite skipn_app, skipn_all, Nat.sub_diag.
Qed.

(** what a good edge gives: pkgDir from the importing directory finds what Go finds, and the
    rPath of the found package is its directory *)
Lemma good_edge_resolve c d i :
  good_edge c d i = true -> plain d = true ->
  y_key i = i /\ is_rel i = false /\
  match y_pkg_dir (tree_stat (c_tree c)) (c_gsrc c) (S (length d)) d i with
  | Found dir rp => g_imp c (c_gsrc c ++ d) i = Some dir
                    /\ exists d', dir = c_gsrc c ++ d' /\ y_effective_pkg rp i = d'
  | NotFound => g_imp c (c_gsrc c ++ d) i = None
  | OutOfFuel => False
  end.
Proof.
  intros H Hd. unfold good_edge in H. apply andb_true_iff in H as [H _].
  apply andb_true_iff in H as [H Hside]. apply andb_true_iff in H as [H Hne].
  apply andb_true_iff in H as [H Hv]. apply andb_true_iff in H as [Hk Hr].
  apply path_eqb_eq in Hk. apply negb_true_iff in Hr, Hv.
  split; [assumption|]. split; [assumption|].
  assert (Hi : i <> []) by (destruct i; [discriminate|discriminate]).
  pose proof (resolve_agree _ _ _ _ _ (tree_stat_closed (c_tree c)) (tree_hasgo_dir (c_tree c)) Hside) as Hag.
  assert (Hg : g_imp c (c_gsrc c ++ d) i = g_resolve (tree_stat (c_tree c)) (tree_hasgo (c_tree c)) (c_gsrc c) d i).
  { unfold g_imp, g_import. rewrite Hr, is_prefix_app. now rewrite skipn_app, skipn_all, Nat.sub_diag. }
  unfold y_resolve in Hag.
  pose proof (pkg_dir_fuel (tree_stat (c_tree c)) (c_gsrc c) i (S (length d)) d ltac:(lia)) as Hfuel.
  unfold resolve_side in Hside. apply andb_true_iff in Hside as [Hside _]. apply andb_true_iff in Hside as [Hpl _].
  destruct (y_pkg_dir _ _ _ d i) as [dir rp| |] eqn:E; [| |congruence].
  - simpl in Hag. split; [now rewrite Hg, <- Hag|].
    pose proof (sub_rpath_is_dir (tree_stat (c_tree c)) (c_gsrc c) i Hpl Hi) as Hsub.
    assert (Hnv : ~ In vendor (removelast i)).
    { intros Hin. assert (In vendor i) as Hin'.
      { destruct (exists_last Hi) as [l [x ->]]. rewrite removelast_app_unit in Hin. apply in_or_app. now left. }
      apply mem_In_str in Hin'. congruence. }
    specialize (Hsub Hnv _ _ _ _ Hd E). exists (y_effective_pkg rp i). auto.
  - simpl in Hag. now rewrite Hg, <- Hag.
Qed.


Lemma rp_of_gsrc c d : c_entry c = [] -> rp_of c (c_gsrc c ++ d) = d.
Proof. intros E. unfold rp_of. rewrite E. now rewrite under_gsrc_app. Qed.

Lemma good_edge_retry c d i :
  good_edge c d i = true ->
  y_pkg_dir (tree_stat (c_tree c)) (c_gsrc c) (S (length d)) d i = NotFound ->
  y_pkg_dir (tree_stat (c_tree c)) (c_gsrc c) (S (length (c_retry c))) (c_retry c) i = NotFound.
Proof.
  unfold good_edge. intros H E. apply andb_true_iff in H as [_ H]. rewrite E in H.
  destruct (y_pkg_dir _ _ _ (c_retry c) i); congruence.
Qed.

(** for packages below GOPATH/src the intrinsic condition [good_pkg] (resolve_side ...) implies the
    semantic one: this is where C16_resolve_partial and C16_sub_rpath_is_dir are used. [Hrp]: the
    packages below GOPATH/src get their GOPATH-relative rPath (no entry file directory above them) *)
Lemma good_pkg_ok c k :
  (forall d, rp_of c (c_gsrc c ++ d) = d) -> good_pkg c k = true -> pkg_ok c k = true.
Proof.
  intros Hrp. unfold good_pkg, pkg_ok. destruct (under_gsrc (c_gsrc c) (pdir k)) as [d|] eqn:Eu; [|discriminate].
  apply under_gsrc_some in Eu. intros H. apply andb_true_iff in H as [Hd Hall].
  rewrite forallb_forall in *. intros i Hi. specialize (Hall i Hi).
  destruct (good_edge_resolve c d i Hall Hd) as [Hkey [Hrel Hres]].
  pose proof (good_edge_retry c d i Hall) as Hretry.
  unfold edge_ok. rewrite Hkey, path_eqb_refl. cbn [andb].
  rewrite Eu, Hrp. unfold y_find. rewrite Hrel.
  destruct (y_pkg_dir (tree_stat (c_tree c)) (c_gsrc c) (S (length d)) d i) as [dir rp| |].
  - destruct Hres as [Hg [d' [-> <-]]]. rewrite Hg, Hrp. simpl. now rewrite !path_eqb_refl.
  - rewrite (Hretry eq_refl). now rewrite Hres.
  - contradiction.
Qed.

(* ------------------------------------------------------------------ *)
(** * The simulation *)

Section Sim.
  Variable c : ctx.
  Variable tb : list (path * option path).
  Hypothesis Hpk : forallb (pkg_ok c) (c_tree c) = true.
  Hypothesis Hco : coherent tb = true.
  Hypothesis Htb : forall k i, In k (c_tree c) -> In i (pimps k) -> In (i, g_imp c (pdir k) i) tb.

  (** [s] (importSrc's state) and [g] (the specification's) describe the same history; [stk] is
      the stack of directories being loaded *)
  Record inv (s : ystate) (g : gstate) (stk : list path) : Prop := {
    i_log : y_log s = g_log g;
    i_tab : forall k t, In (k, t) (y_memo s) -> In (k, Some t) tb;
    i_done : forall t, In t (g_done g) <-> In t (map snd (y_memo s));
    i_rdir : forall k, In k (y_rdir s) <-> In k (keys (y_memo s)) \/ exists t, In t stk /\ In (k, Some t) tb
  }.

  (** one import [i] of the package in directory [dir], on the specification side *)
  Definition g_step (n : nat) (stk : list path) (dir : path) (g : gstate) (i : path) : gstate * option err :=
    match g_imp c dir i with
    | None => (g, Some ENotFound)
    | Some t => g_load c n stk g t
    end.

  Definition agree (stk : list path) (ry : ystate * option err) (rg : gstate * option err) : Prop :=
    snd ry = snd rg /\ y_log (fst ry) = g_log (fst rg) /\ (snd ry = None -> inv (fst ry) (fst rg) stk).

  Definition no_fuel (ry : ystate * option err) : Prop := snd ry <> Some EFuel.

  Lemma pkg_edge_ok k i : In k (c_tree c) -> In i (pimps k) -> edge_ok c (rp_of c (pdir k)) (pdir k) i = true.
  Proof.
    intros Hk Hi. rewrite forallb_forall in Hpk. specialize (Hpk k Hk). unfold pkg_ok in Hpk.
    rewrite forallb_forall in Hpk. now apply Hpk.
  Qed.

  Lemma assoc_In k m t : assoc k m = Some t -> In (k, t) m.
  Proof. apply assoc_some. Qed.

  Lemma in_keys_assoc k m : In k (keys m) -> exists t, assoc k m = Some t.
  Proof.
    intros H. destruct (assoc k m) eqn:E; [eauto|]. apply assoc_none in E. contradiction.
  Qed.

  Lemma fold_agree n stk rp dir imps0 :
    (forall s g i, In i imps0 -> inv s g stk -> no_fuel (y_load c n s rp i) ->
                   agree stk (y_load c n s rp i) (g_step n stk dir g i)) ->
    forall imps, incl imps imps0 -> forall s g, inv s g stk ->
      no_fuel (fold_load (fun s i => y_load c n s rp i) s imps) ->
      agree stk (fold_load (fun s i => y_load c n s rp i) s imps)
                (fold_load (fun g i => g_step n stk dir g i) g imps).
  Proof.
    intros Hstep. induction imps as [|i r IH]; intros Hincl s g Hinv Hnf; cbn [fold_load] in *.
    - split; [reflexivity|]. split; [apply Hinv|]. intros _. exact Hinv.
    - assert (Hi : In i imps0) by (apply Hincl; now left).
      assert (Hr : incl r imps0) by (intros x Hx; apply Hincl; now right).
      pose proof (Hstep s g i Hi Hinv) as Hs.
      destruct (y_load c n s rp i) as [s1 [ey|]] eqn:Ey.
      + specialize (Hs Hnf). destruct Hs as [He [Hl _]]. simpl in He, Hl.
        destruct (g_step n stk dir g i) as [g1 [eg|]]; simpl in He; [|discriminate].
        split; [assumption|]. split; [assumption|]. intros H; discriminate.
      + specialize (Hs ltac:(unfold no_fuel; simpl; discriminate)). destruct Hs as [He [Hl Hi']]. simpl in He, Hl, Hi'.
        destruct (g_step n stk dir g i) as [g1 [eg|]]; simpl in He; [discriminate|].
        apply IH; [assumption|now apply Hi'|assumption].
  Qed.

  Lemma assoc_app_some k m m' t : assoc k m = Some t -> assoc k (m ++ m') = Some t.
  Proof.
    induction m as [|[k' v] m IH]; simpl; [discriminate|].
    destruct (path_eqb k' k); [auto|apply IH].
  Qed.

  Lemma in_map_snd (t : path) (m : list (path * path)) : In t (map snd m) -> exists k, In (k, t) m.
  Proof.
    intros H. apply in_map_iff in H as [[k t'] [E Hin]]. simpl in E. subst t'. now exists k.
  Qed.

  (** the edges printed by a package whose imports all loaded: both sides bind the same directories *)
  Lemma edges_agree memo rp dir imps :
    (forall i, In i imps -> edge_ok c rp dir i = true /\ In (i, g_imp c dir i) tb) ->
    (forall k t, In (k, t) memo -> In (k, Some t) tb) ->
    (forall i, In i imps -> In (y_key i) (keys memo)) ->
    y_edges memo dir imps = g_edges c dir imps.
  Proof.
    intros Hok Htab Hkeys. unfold y_edges, g_edges.
    apply map_ext_in. intros i Hi. destruct (Hok i Hi) as [Hedge He].
    unfold edge_ok in Hedge. apply andb_true_iff in Hedge as [Hkey _]. apply path_eqb_eq in Hkey.
    specialize (Hkeys i Hi). rewrite Hkey in *.
    destruct (in_keys_assoc _ _ Hkeys) as [t Ht]. rewrite Ht.
    apply assoc_In, Htab in Ht.
    rewrite <- (coherent_fun tb Hco _ _ _ Ht He). reflexivity.
  Qed.

  (** the part of importSrc after the cycle check, against the body of the specification loader *)
  Lemma body_agree f stk s g i t imps :
    (forall stk rp dir s g i, inv s g stk -> edge_ok c rp dir i = true -> In (i, g_imp c dir i) tb ->
        no_fuel (y_load c f s rp i) -> agree stk (y_load c f s rp i) (g_step f stk dir g i)) ->
    imports_of (c_tree c) t = Some imps -> In (i, Some t) tb ->
    inv s g stk -> assoc i (y_memo s) = None -> ~ In i (y_rdir s) ->
    let ry := match fold_load (fun s i' => y_load c f s (rp_of c t) i') (y_mark s i) imps with
              | (st2, None) => (y_done st2 i t imps, None)
              | r => r
              end in
    let rg := match fold_load (fun g i' => g_step f (t :: stk) t g i') g imps with
              | (g2, None) => ({| g_done := t :: g_done g2; g_log := g_log g2 ++ EvInit t :: g_edges c t imps |}, None)
              | r => r
              end in
    no_fuel ry -> agree stk ry rg.
  Proof.
    intros IH Himp Hedge Hinv Ha Hnr ry rg Hnf.
    destruct (imports_of_pkg _ _ _ Himp) as [k1 [Hk1 [Hk1d Hk1i]]].
    assert (Hok : forall i0, In i0 imps -> edge_ok c (rp_of c t) t i0 = true /\ In (i0, g_imp c t i0) tb).
    { intros i0 Hi0. rewrite <- Hk1d. split; [apply pkg_edge_ok|apply Htb]; try assumption; now rewrite Hk1i. }
    (* the invariant with the package on the stack *)
    assert (Hinv1 : inv (y_mark s i) g (t :: stk)).
    { destruct Hinv as [Il It Id Ir]. constructor; simpl; try assumption.
      intros k. split.
      - intros [<-|Hk]; [right; exists t; split; [now left|assumption]|].
        apply Ir in Hk as [Hk|[t0 [Ht Hkt]]]; [now left|]. right. exists t0. split; [now right|assumption].
      - intros [Hk|[t0 [[<-|Ht] Hkt]]].
        + right. apply Ir. now left.
        + left. eapply coherent_inj; eassumption.
        + right. apply Ir. right. now exists t0. }
    assert (Hfold : no_fuel (fold_load (fun s i' => y_load c f s (rp_of c t) i') (y_mark s i) imps)).
    { unfold no_fuel in *. subst ry. destruct (fold_load _ (y_mark s i) imps) as [st2 [x|]]; [exact Hnf|simpl; discriminate]. }
    pose proof (fold_agree f (t :: stk) (rp_of c t) t imps) as Hfa.
    specialize (Hfa ltac:(intros s0 g0 i0 Hi0 Hinv0 Hnf0; destruct (Hok i0 Hi0); now apply IH)).
    specialize (Hfa imps (incl_refl _) _ _ Hinv1 Hfold).
    subst ry rg.
    destruct (fold_load (fun s i' => y_load c f s (rp_of c t) i') (y_mark s i) imps) as [st2 [ey|]] eqn:Ey;
      destruct (fold_load (fun g i' => g_step f (t :: stk) t g i') g imps) as [g2 [eg|]] eqn:Eg;
      destruct Hfa as [He [Hl Hi2]]; simpl in He, Hl, Hi2; try discriminate.
    - split; [assumption|]. split; [assumption|]. intros H; discriminate.
    - specialize (Hi2 eq_refl). destruct Hi2 as [Il It Id Ir].
      assert (Hedges : y_edges (y_memo st2 ++ [(i, t)]) t imps = g_edges c t imps).
      { eapply edges_agree; [exact Hok| |].
        - intros k t0 Hin. apply in_app_or in Hin as [Hin|[[= <- <-]|[]]]; [now apply It|assumption].
        - intros i0 Hi0. rewrite keys_app. apply in_or_app. left.
          eapply (fold_ok_keys c f (rp_of c t)); eassumption. }
      unfold agree, y_done. cbv zeta. cbn [fst snd y_log y_memo y_rdir g_log g_done].
      split; [reflexivity|]. split; [rewrite Il; f_equal; f_equal; exact Hedges|]. intros _.
      constructor; cbn [y_log y_memo y_rdir g_log g_done].
      + rewrite Il; f_equal; f_equal; exact Hedges.
      + intros k t0 Hin. apply in_app_or in Hin as [Hin|[[= <- <-]|[]]]; [now apply It|assumption].
      + intros t0. rewrite map_app, in_app_iff. simpl. rewrite <- Id. tauto.
      + intros k. rewrite keys_app, in_app_iff. simpl. rewrite Ir. split.
        * intros [Hk|[t0 [[<-|Ht] Hkt]]]; [tauto| |right; now exists t0].
          left. right. left. symmetry. eapply coherent_inj; eassumption.
        * intros [[Hk|[<-|[]]]|[t0 [Ht Hkt]]]; [tauto| |right; exists t0; split; [now right|assumption]].
          right. exists t. split; [now left|assumption].
  Qed.

  Lemma step_agree : forall n stk rp dir s g i,
    inv s g stk -> edge_ok c rp dir i = true -> In (i, g_imp c dir i) tb ->
    no_fuel (y_load c n s rp i) -> agree stk (y_load c n s rp i) (g_step n stk dir g i).
  Proof.
    induction n as [|f IH]; intros stk rp dir s g i Hinv Hok Hedge Hnf.
    - exfalso. apply Hnf. reflexivity.
    - unfold edge_ok in Hok. apply andb_true_iff in Hok as [Hkey Hres]. apply path_eqb_eq in Hkey.
      unfold g_step. rewrite y_load_S in *. rewrite Hkey in *.
      destruct (assoc i (y_memo s)) as [t|] eqn:Ea.
      + (* already loaded *)
        pose proof (i_tab _ _ _ Hinv _ _ (assoc_In _ _ _ Ea)) as Ht.
        rewrite <- (coherent_fun tb Hco _ _ _ Ht Hedge).
        cbn [g_load].
        assert (mem_path t (g_done g) = true) as ->.
        { apply mem_path_In. apply (i_done _ _ _ Hinv).
          exact (in_map snd _ _ (assoc_In _ _ _ Ea)). }
        split; [reflexivity|]. split; [apply Hinv|]. intros _. exact Hinv.
      + destruct (y_find c rp i) as [t rp'| |] eqn:Ef.
        * apply andb_true_iff in Hres as [Hgi Hsub]. apply opt_path_eqb_eq in Hgi. apply path_eqb_eq in Hsub.
          rewrite Hgi in *.
          apply assoc_none in Ea.
          assert (Hnd : ~ In t (g_done g)).
          { intros Hin. apply (i_done _ _ _ Hinv) in Hin. apply in_map_snd in Hin as [k' Hk'].
            pose proof (i_tab _ _ _ Hinv _ _ Hk') as Hk't.
            assert (k' = i) by (eapply coherent_inj; eassumption). subst k'.
            apply Ea. now apply (in_map fst) in Hk'. }
          cbn [g_load]. apply mem_path_not_In in Hnd. rewrite Hnd.
          destruct (mem_path i (y_rdir s)) eqn:Em.
          -- (* in progress: a cycle on both sides *)
             apply mem_path_In in Em. apply (i_rdir _ _ _ Hinv) in Em as [Em|[t0 [Ht Hit]]]; [contradiction|].
             assert (Some t0 = Some t) as [= ->] by (eapply coherent_fun; eassumption).
             apply mem_path_In in Ht. rewrite Ht.
             split; [reflexivity|]. split; [apply Hinv|]. intros H; discriminate.
          -- apply mem_path_not_In in Em.
             assert (Hns : mem_path t stk = false).
             { apply mem_path_not_In. intros Hin. apply Em. apply (i_rdir _ _ _ Hinv). right. now exists t. }
             rewrite Hns.
             destruct (imports_of (c_tree c) t) as [imps|] eqn:Ei.
             ++ rewrite Hsub in *.
                pose proof (body_agree f stk s g i t imps IH Ei Hedge Hinv
                              (proj2 (assoc_none _ _) Ea) Em) as Hb.
                cbv zeta in Hb. apply Hb. exact Hnf.
             ++ split; [reflexivity|]. split; [apply Hinv|]. intros H; discriminate.
        * apply opt_path_eqb_eq in Hres. rewrite Hres.
          split; [reflexivity|]. split; [apply Hinv|]. intros H; discriminate.
        * discriminate.
  Qed.
End Sim.

(* ------------------------------------------------------------------ *)
(** * Whole programs *)

Lemma table_edge c e k i : In k (c_tree c) -> In i (pimps k) -> In (i, g_imp c (pdir k) i) (table c e).
Proof. intros Hk Hi. right. now apply all_edges_In. Qed.

Lemma good_pkgs_ok c : c_entry c = [] ->
  forallb (good_pkg c) (c_tree c) = true -> forallb (pkg_ok c) (c_tree c) = true.
Proof.
  intros E. rewrite !forallb_forall. intros H k Hk.
  apply good_pkg_ok; [intros d; now apply rp_of_gsrc|now apply H].
Qed.

(** entered by an import path *)
Theorem load_agree c e : good_prog c e = true -> y_run_path c e = g_run_path c e.
Proof.
  intros Hgood. unfold good_prog in Hgood.
  apply andb_true_iff in Hgood as [Hgood Hco]. apply andb_true_iff in Hgood as [Hentry Hpk].
  unfold entry_ok in Hentry.
  apply andb_true_iff in Hentry as [Hentry Hfind]. apply andb_true_iff in Hentry as [Hentry Hnoentry].
  assert (Hce : c_entry c = []) by (destruct (c_entry c); [reflexivity|discriminate]).
  apply (good_pkgs_ok c Hce) in Hpk.
  apply andb_true_iff in Hentry as [Hentry Hpl].
  apply andb_true_iff in Hentry as [Hkey Hrel]. apply path_eqb_eq in Hkey. apply negb_true_iff in Hrel.
  pose proof (load_terminates_path c e) as Hterm.
  unfold y_run_path, g_run_path, g_run_dir in *. unfold load_fuel in *.
  set (F := S (length (all_imports (c_tree c)))) in *.
  rewrite y_load_S in *. rewrite Hkey in *. unfold y_init in *. cbn [y_memo assoc] in *.
  unfold y_find in *. rewrite Hrel in *. cbn [length] in *.
  destruct (y_pkg_dir (tree_stat (c_tree c)) (c_gsrc c) 2 [mainid] e) as [dir rp| |]; try discriminate.
  apply andb_true_iff in Hfind as [Hd Hr]. apply path_eqb_eq in Hd, Hr. subst dir rp.
  cbn [y_rdir mem_path g_load g_init g_done].
  cbn [y_rdir mem_path] in Hterm.
  destruct (imports_of (c_tree c) (c_gsrc c ++ e)) as [imps|] eqn:Ei; [|reflexivity].
  rewrite eff_root_nil in * by assumption.
  assert (Hedge : In (e, Some (c_gsrc c ++ e)) (table c e)) by now left.
  assert (Hinv : inv (table c e) {| y_memo := []; y_rdir := []; y_log := [] |} g_init []).
  { constructor; simpl; try tauto. intros k. split; [tauto|]. intros [[]|[t [[] _]]]. }
  pose proof (body_agree c (table c e) Hpk Hco (table_edge c e) F [] {| y_memo := []; y_rdir := []; y_log := [] |} g_init e (c_gsrc c ++ e) imps
                (step_agree c (table c e) Hpk Hco (table_edge c e) F) Ei Hedge Hinv eq_refl (fun H => H)) as Hb.
  cbv zeta in Hb. unfold y_mark in Hb. cbn [y_memo y_rdir y_log] in Hb. rewrite (rp_of_gsrc c e Hce) in Hb.
  change (fun (g : gstate) (i' : path) => g_step c F [c_gsrc c ++ e] (c_gsrc c ++ e) g i')
    with (fun (s : gstate) (i : path) => match g_imp c (c_gsrc c ++ e) i with
                                          | Some d' => g_load c F [c_gsrc c ++ e] s d'
                                          | None => (s, Some ENotFound)
                                          end) in Hb.
  destruct (fold_load (fun s i => y_load c F s e i) _ imps) as [st2 [ey|]] eqn:Ey.
  - specialize (Hb Hterm). destruct Hb as [He [Hl _]].
    destruct (fold_load _ g_init imps) as [g2 [eg|]]; simpl in He, Hl; [|discriminate].
    injection He as <-. now rewrite Hl.
  - specialize (Hb ltac:(unfold no_fuel; simpl; discriminate)). destruct Hb as [He [Hl Hi]].
    destruct (fold_load _ g_init imps) as [g2 [eg|]]; simpl in He, Hl, Hi; [discriminate|].
    cbn [y_done y_memo y_log g_log] in *. rewrite Hl.
    match goal with |- context [assoc e ?m] => assert (assoc e m = Some (c_gsrc c ++ e)) as -> end.
    { destruct (assoc e (y_memo st2)) as [t|] eqn:Ea.
      - rewrite (assoc_app_some _ _ _ _ Ea). f_equal.
        specialize (Hi eq_refl). pose proof (i_tab _ _ _ _ Hi e t) as Ht. simpl in Ht.
        specialize (Ht ltac:(apply in_or_app; left; now apply assoc_some)).
        pose proof (coherent_fun _ Hco _ _ _ Ht Hedge) as [= ->]. reflexivity.
      - clear -Ea. induction (y_memo st2) as [|[k v] m IH]; simpl in *; [now rewrite path_eqb_refl|].
        destruct (path_eqb k e); [discriminate|auto]. }
    reflexivity.
Qed.

(** entered by a file, with relative imports and importers outside GOPATH *)
Theorem load_file_agree c : good_file c = true -> y_run_file c = g_run_file c.
Proof.
  intros Hgood. unfold good_file in Hgood.
  apply andb_true_iff in Hgood as [Hgood Hco]. apply andb_true_iff in Hgood as [Hgood Hnoentry].
  apply andb_true_iff in Hgood as [Hpk Hentry].
  pose proof (load_terminates_file c) as Hterm.
  unfold y_run_file, g_run_file, g_run_dir in *.
  destruct (imports_of (c_tree c) (c_entry c)) as [imps|] eqn:Ei; [|discriminate].
  set (F := load_fuel (c_tree c)) in *.
  cbn [g_load g_init g_done mem_path]. rewrite Ei.
  destruct (imports_of_pkg _ _ _ Ei) as [k0 [Hk0 [Hk0d Hk0i]]].
  assert (Hok : forall i, In i imps -> edge_ok c [mainid] (c_entry c) i = true /\ In (i, g_imp c (c_entry c) i) (all_edges c)).
  { intros i Hi. split; [rewrite forallb_forall in Hentry; now apply Hentry|].
    rewrite <- Hk0d. apply all_edges_In; [assumption|now rewrite Hk0i]. }
  assert (Hinv : inv (all_edges c) y_init g_init [c_entry c]).
  { constructor; simpl; try tauto. intros k. split; [tauto|]. intros [[]|[t [[<-|[]] Hk]]].
    rewrite forallb_forall in Hnoentry. specialize (Hnoentry _ Hk). simpl in Hnoentry.
    rewrite path_eqb_refl in Hnoentry. discriminate. }
  pose proof (fold_agree c (all_edges c) F [c_entry c] [mainid] (c_entry c) imps) as Hfa.
  specialize (Hfa ltac:(intros s0 g0 i0 Hi0 Hinv0 Hnf0; destruct (Hok i0 Hi0);
                        now apply (step_agree c (all_edges c) Hpk Hco (all_edges_In c)))).
  specialize (Hfa imps (incl_refl _) y_init g_init Hinv).
  change (fun (g : gstate) (i : path) => g_step c F [c_entry c] (c_entry c) g i)
    with (fun (s : gstate) (i : path) => match g_imp c (c_entry c) i with
                                          | Some d' => g_load c F [c_entry c] s d'
                                          | None => (s, Some ENotFound)
                                          end) in Hfa.
  destruct (fold_load (fun s i => y_load c F s [mainid] i) y_init imps) as [st [ey|]] eqn:Ey.
  - specialize (Hfa Hterm). destruct Hfa as [He [Hl _]].
    destruct (fold_load _ g_init imps) as [g2 [eg|]]; simpl in He, Hl; [|discriminate].
    injection He as <-. now rewrite Hl.
  - specialize (Hfa ltac:(unfold no_fuel; simpl; discriminate)). destruct Hfa as [He [Hl Hi]].
    destruct (fold_load _ g_init imps) as [g2 [eg|]]; simpl in He, Hl, Hi; [discriminate|].
    specialize (Hi eq_refl).
    assert (Hedges : y_edges (y_memo st) (c_entry c) imps = g_edges c (c_entry c) imps).
    { eapply (edges_agree c (all_edges c) Hco); [exact Hok|apply Hi|].
      intros i0 Hi0. eapply (fold_ok_keys c F [mainid]); eassumption. }
    cbn [g_log]. rewrite Hl, Hedges. f_equal. rewrite <- app_assoc. reflexivity.
Qed.

(** non-vacuity *)
Local Open Scope string_scope.

Lemma good_prog_inhabited :
  good_prog (mkctx "gp/src" "" t_nested) (pth "a/b/c") = true
  /\ snd (g_run_path (mkctx "gp/src" "" t_nested) (pth "a/b/c")) = None
  /\ In (EvEdge (pth "gp/src/a/b/c") (pth "x") (pth "gp/src/a/b/vendor/x")) (fst (g_run_path (mkctx "gp/src" "" t_nested) (pth "a/b/c")))
  /\ good_prog (mkctx "gp/src" "" t_diamond) (pth "e") = true
  /\ good_prog (mkctx "gp/src" "" t_cycle) (pth "e") = true
  /\ snd (g_run_path (mkctx "gp/src" "" t_cycle) (pth "e")) = Some ECycle.
Proof. repeat split; vm_compute; tauto. Qed.

(** the side condition excludes every refutation witness of the path mode *)
Lemma good_prog_excludes :
  good_prog c_alias (pth "e") = false /\ good_prog c_shadow (pth "p") = false
  /\ good_prog c_false_cycle (pth "e") = false /\ good_prog (mkctx "gp/src" "" t_xx) (pth "e") = false
  /\ good_prog (mkctx "gp/src" "" t_nogo) (pth "e") = false /\ good_prog (mkctx "gp/src" "" t_twice) (pth "p") = false.
Proof. repeat split; vm_compute; reflexivity. Qed.

(** a chain of relative imports from an entry file, with GOPATH packages and a vendor directory *)
Definition t_file_ok : tree :=
  [mkpkg "work" ["./x"; "q"]; mkpkg "work/x" ["./y"; "../z"; "q"]; mkpkg "work/x/y" []; mkpkg "work/z" ["./w"];
   mkpkg "work/z/w" []; mkpkg "gp/src/q" ["r"]; mkpkg "gp/src/q/vendor/r" []; mkpkg "gp/src/r" []].

Lemma good_file_inhabited :
  good_file (mkctx "gp/src" "work" t_file_ok) = true
  /\ snd (g_run_file (mkctx "gp/src" "work" t_file_ok)) = None
  /\ In (EvEdge (pth "work/x") (pth "../z") (pth "work/z")) (fst (g_run_file (mkctx "gp/src" "work" t_file_ok)))
  /\ In (EvEdge (pth "gp/src/q") (pth "r") (pth "gp/src/q/vendor/r")) (fst (g_run_file (mkctx "gp/src" "work" t_file_ok))).
Proof. repeat split; vm_compute; tauto. Qed.

Lemma good_file_excludes :
  good_file c_relative = false /\ good_file (mkctx "gp/src" "gp/src/e" t_entry_file) = false
  /\ good_file (mkctx "gp/src" "work" t_rel_root) = false.
Proof. repeat split; vm_compute; reflexivity. Qed.

(** ** the entry file inside GOPATH/src/<proj>: the second attempt of importSrc *)

(** main.go in gp/src/org/proj imports "./local" (which imports "./sub"); the last package of the
    chain imports "dep/a", which exists only in gp/src/org/proj/vendor *)
Definition t_proj : tree :=
  [mkpkg "gp/src/org/proj" ["./local"]; mkpkg "gp/src/org/proj/local" ["./sub"];
   mkpkg "gp/src/org/proj/local/sub" ["dep/a"]; mkpkg "gp/src/org/proj/vendor/dep/a" []].
Definition c_proj : ctx := mkctx "gp/src" "gp/src/org/proj" t_proj.

Lemma retry_inhabited :
  c_retry c_proj = pth "org/proj"
  /\ good_file c_proj = true
  /\ snd (y_run_file c_proj) = None
  /\ In (EvEdge (pth "gp/src/org/proj/local/sub") (pth "dep/a") (pth "gp/src/org/proj/vendor/dep/a")) (fst (y_run_file c_proj))
  /\ y_run_file c_proj = g_run_file c_proj.
Proof. repeat split; vm_compute; tauto. Qed.

(** without the second attempt (retry root "": what the faithful model says of a run whose input
    file is not located through the working directory) the same program fails *)
Lemma retry_needed :
  snd (y_run_file {| c_gsrc := c_gsrc c_proj; c_entry := c_entry c_proj; c_retry := []; c_tree := t_proj |})
  = Some ENotFound.
Proof. vm_compute. reflexivity. Qed.

(** region "source-location-retry": a GOPATH package outside the project gets at the project's
    vendor directory through the second attempt; Go does not find the package *)
Definition t_foreign : tree :=
  [mkpkg "gp/src/org/proj" ["q"]; mkpkg "gp/src/q" ["dep/a"]; mkpkg "gp/src/org/proj/vendor/dep/a" []].
Lemma source_location_retry_refuted :
  snd (y_run_file (mkctx "gp/src" "gp/src/org/proj" t_foreign)) = None
  /\ In (EvEdge (pth "gp/src/q") (pth "dep/a") (pth "gp/src/org/proj/vendor/dep/a"))
        (fst (y_run_file (mkctx "gp/src" "gp/src/org/proj" t_foreign)))
  /\ snd (g_run_file (mkctx "gp/src" "gp/src/org/proj" t_foreign)) = Some ENotFound
  /\ good_file (mkctx "gp/src" "gp/src/org/proj" t_foreign) = false.
Proof. repeat split; vm_compute; tauto. Qed.

(** region "relative-root" in this layout: the path exists in the project's vendor directory and in
    GOPATH/src: the first attempt of the relatively imported package finds the GOPATH one *)
Definition t_proj_both : tree :=
  [mkpkg "gp/src/org/proj" ["./local"]; mkpkg "gp/src/org/proj/local" ["dep/a"];
   mkpkg "gp/src/org/proj/vendor/dep/a" []; mkpkg "gp/src/dep/a" []].
Lemma proj_both_refuted :
  In (EvEdge (pth "gp/src/org/proj/local") (pth "dep/a") (pth "gp/src/dep/a"))
     (fst (y_run_file (mkctx "gp/src" "gp/src/org/proj" t_proj_both)))
  /\ In (EvEdge (pth "gp/src/org/proj/local") (pth "dep/a") (pth "gp/src/org/proj/vendor/dep/a"))
        (fst (g_run_file (mkctx "gp/src" "gp/src/org/proj" t_proj_both)))
  /\ good_file (mkctx "gp/src" "gp/src/org/proj" t_proj_both) = false.
Proof. repeat split; vm_compute; tauto. Qed.
