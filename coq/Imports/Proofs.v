(** C16 — proofs about the models of Imports/Model.v. *)
From Verif Require Import Lib.Str Imports.Model.
From Coq Require Import Relations.Relation_Operators Relations.Operators_Properties.

(* ------------------------------------------------------------------ *)
(** * Paths *)

Lemma path_eqb_spec a b : reflect (a = b) (path_eqb a b).
Proof.
  revert b; induction a as [|x a IH]; intros [|y b]; simpl; try (constructor; congruence).
  destruct (str_eqb_spec x y) as [->|Hn]; simpl.
  - destruct (IH b) as [->|Hn]; constructor; congruence.
  - constructor; congruence.
Qed.

Lemma path_eqb_refl a : path_eqb a a = true.
Proof. destruct (path_eqb_spec a a); congruence. Qed.

Lemma path_eqb_eq a b : path_eqb a b = true <-> a = b.
Proof. destruct (path_eqb_spec a b); split; congruence. Qed.

Lemma path_eqb_neq a b : path_eqb a b = false <-> a <> b.
Proof. destruct (path_eqb_spec a b); split; congruence. Qed.

Lemma mem_path_In x l : mem_path x l = true <-> In x l.
Proof.
  induction l as [|y l IH]; simpl; [split; [discriminate|tauto]|].
  rewrite orb_true_iff, IH, path_eqb_eq. tauto.
Qed.

Lemma mem_path_not_In x l : mem_path x l = false <-> ~ In x l.
Proof. rewrite <- mem_path_In. destruct (mem_path x l); split; congruence. Qed.

Lemma is_prefix_app p q : is_prefix p (p ++ q) = true.
Proof. induction p; simpl; [reflexivity|]. now rewrite str_eqb_refl. Qed.

Lemma is_prefix_spec p q : is_prefix p q = true <-> exists r, q = p ++ r.
Proof.
  revert q; induction p as [|x p IH]; intros q; simpl.
  - split; [intros _; now exists q | reflexivity].
  - destruct q as [|y q]; [split; [discriminate | intros [r Hr]; discriminate]|].
    rewrite andb_true_iff, str_eqb_eq, IH. split.
    + intros [-> [r ->]]. now exists r.
    + intros [r Hr]. injection Hr as -> ->. split; [reflexivity | now exists r].
Qed.

Lemma app_eq_self_nil (A : Type) (a b : list A) : a ++ b = a -> b = [].
Proof. intros H. apply (app_inv_head a). now rewrite app_nil_r. Qed.

Lemma path_eqb_app_self g p : path_eqb (g ++ p) g = true -> p = [].
Proof. rewrite path_eqb_eq. apply app_eq_self_nil. Qed.

(* ------------------------------------------------------------------ *)
(** * Clean *)

Lemma clean_go_plain acc p : plain p = true -> clean_go acc p = rev acc ++ p.
Proof.
  revert acc; induction p as [|w r IH]; intros acc H; simpl.
  - now rewrite app_nil_r.
  - simpl in H. apply andb_true_iff in H as [Hw Hr]. unfold plain_comp in Hw.
    apply andb_true_iff in Hw as [Hw H2]. apply andb_true_iff in Hw as [H0 H1].
    rewrite H0. apply negb_true_iff in H1, H2. rewrite H1, H2. simpl.
    rewrite IH by assumption. simpl. now rewrite <- app_assoc.
Qed.

Lemma clean_plain p : plain p = true -> clean p = p.
Proof. intros H. unfold clean. now rewrite clean_go_plain. Qed.

Lemma plain_app a b : plain (a ++ b) = plain a && plain b.
Proof. unfold plain. apply forallb_app. Qed.

Lemma plain_filter_nonempty p : plain p = true -> filter nonempty p = p.
Proof.
  induction p as [|w r IH]; simpl; [reflexivity|]. intros H.
  apply andb_true_iff in H as [Hw Hr]. unfold plain_comp in Hw.
  apply andb_true_iff in Hw as [Hw _]. apply andb_true_iff in Hw as [H0 _].
  rewrite H0. now rewrite IH.
Qed.

(* ------------------------------------------------------------------ *)
(** * effectivePkg: what the index arithmetic computes *)

(** once an element of the import path has matched, [prevRootIndex < rootIndex] for ever and
    nothing is appended any more *)
Lemma eff_phaseB sr sp n : forall i ri pri res,
  pri < ri -> y_eff_loop sr sp n i ri pri res = res.
Proof.
  induction n as [|n IH]; intros i ri pri res Hlt; simpl; [reflexivity|].
  destruct (_ && _ && _).
  - apply IH. lia.
  - destruct (Nat.eqb_spec pri ri); [lia|]. now apply IH.
Qed.

(** the test of the first branch while [rootIndex = 0]; [j] is the loop counter *)
Definition eff_match (sr : list str) (x : str) (j : nat) : bool :=
  (0 <? Z.of_nat (length sr) - 1 - Z.of_nat 0)%Z
  && str_eqb x (nth (Z.to_nat (Z.of_nat (length sr) - 1 - Z.of_nat 0)) sr [])
  && negb (j =? 0).

(** walking the reversed import path: keep elements until the first match *)
Fixpoint eff_keep (sr : list str) (j : nat) (rp : list str) : list str :=
  match rp with
  | [] => []
  | x :: t => if eff_match sr x j then [] else x :: eff_keep sr (S j) t
  end.

Lemma nth_middle_path (l : list str) x r : nth (length l) (l ++ x :: r) [] = x.
Proof. induction l; simpl; [reflexivity|assumption]. Qed.

Lemma eff_phaseA sr : forall sp1 sp2 res,
  y_eff_loop sr (sp1 ++ sp2) (length sp1) (length sp2) 0 0 res
  = res ++ eff_keep sr (length sp2) (rev sp1).
Proof.
  induction sp1 as [|x l IH] using rev_ind; intros sp2 res.
  - simpl. now rewrite app_nil_r.
  - rewrite app_length, Nat.add_1_r, rev_unit. cbn [y_eff_loop eff_keep].
    rewrite <- app_assoc. cbn [app].
    replace (length (l ++ x :: sp2) - 1 - length sp2) with (length l)
      by (rewrite app_length; simpl; lia).
    rewrite nth_middle_path. fold (eff_match sr x (length sp2)).
    destruct (eff_match sr x (length sp2)).
    + rewrite eff_phaseB by lia. now rewrite app_nil_r.
    + cbn [Nat.eqb]. specialize (IH (x :: sp2) (res ++ [x])). cbn [length] in IH.
      rewrite IH. now rewrite <- app_assoc.
Qed.

Lemma eff_loop_result sr sp :
  y_eff_loop sr sp (length sp) 0 0 0 [] = eff_keep sr 0 (rev sp).
Proof.
  pose proof (eff_phaseA sr sp [] []) as H. rewrite app_nil_r in H. exact H.
Qed.

(** with a root of at most one element nothing ever matches *)
Lemma eff_keep_short sr : length sr <= 1 -> forall rp j, eff_keep sr j rp = rp.
Proof.
  intros Hl; induction rp as [|x t IH]; intros j; simpl; [reflexivity|].
  unfold eff_match. replace (0 <? _)%Z with false by (symmetry; apply Z.ltb_ge; lia).
  simpl. now rewrite IH.
Qed.

Lemma go_split_plain p : plain p = true -> p <> [] -> go_split p = p.
Proof. destruct p; [congruence|reflexivity]. Qed.

(** at the GOPATH root, [effectivePkg("", ip) = ip] *)
Lemma eff_root_nil ip : plain ip = true -> y_effective_pkg [] ip = ip.
Proof.
  intros Hp. unfold y_effective_pkg. rewrite eff_loop_result.
  rewrite eff_keep_short by (simpl; lia). rewrite rev_involutive. simpl app.
  destruct ip as [|w r]; [reflexivity|]. cbn [go_split].
  rewrite plain_filter_nonempty by assumption. now apply clean_plain.
Qed.

(** ** readable specification: the elements of the import path after the last occurrence,
    not counting the final element, of the last element of a root of at least two elements *)
Fixpoint keep_until (w : str) (rp : list str) : list str :=
  match rp with
  | [] => []
  | x :: t => if str_eqb x w then [] else x :: keep_until w t
  end.

Definition eff_kept (root ip : path) : path :=
  match rev ip with
  | [] => []
  | lst :: t => if 2 <=? length root then rev (keep_until (last root []) t) ++ [lst] else ip
  end.

Lemma nth_last (l : list str) : nth (length l - 1) l [] = last l [].
Proof.
  induction l as [|x l IH]; [reflexivity|]. destruct l as [|y l]; [reflexivity|].
  change (last (x :: y :: l) []) with (last (y :: l) []). rewrite <- IH.
  cbn [length]. replace (S (S (length l)) - 1) with (S (S (length l) - 1)) by lia. reflexivity.
Qed.

Lemma eff_keep_long sr : 2 <= length sr -> forall rp j, 0 < j ->
  eff_keep sr j rp = keep_until (last sr []) rp.
Proof.
  intros Hl; induction rp as [|x t IH]; intros j Hj; simpl; [reflexivity|].
  unfold eff_match. replace (0 <? _)%Z with true by (symmetry; apply Z.ltb_lt; lia).
  replace (Z.to_nat (Z.of_nat (length sr) - 1 - Z.of_nat 0)) with (length sr - 1) by lia.
  rewrite nth_last. destruct (Nat.eqb_spec j 0); [lia|]. simpl. rewrite andb_true_r.
  destruct (str_eqb x (last sr [])); [reflexivity|]. now rewrite IH by lia.
Qed.

Lemma plain_rev p : plain p = true -> plain (rev p) = true.
Proof.
  unfold plain. rewrite !forallb_forall. intros H x Hx. apply H. now apply in_rev.
Qed.

Lemma keep_until_plain w rp : plain rp = true -> plain (keep_until w rp) = true.
Proof.
  induction rp as [|x t IH]; simpl; [reflexivity|]. intros H.
  apply andb_true_iff in H as [Hx Ht]. destruct (str_eqb x w); [reflexivity|].
  simpl. now rewrite Hx, IH.
Qed.

Theorem effective_pkg_spec root ip :
  plain root = true -> plain ip = true -> ip <> [] ->
  y_effective_pkg root ip = root ++ eff_kept root ip.
Proof.
  intros Hr Hi Hne. unfold y_effective_pkg. rewrite eff_loop_result.
  rewrite (go_split_plain ip) by assumption. unfold eff_kept.
  destruct (rev ip) as [|lst t] eqn:Erev.
  { apply (f_equal (@rev str)) in Erev. rewrite rev_involutive in Erev. simpl in Erev. congruence. }
  assert (Hpl : plain (lst :: t) = true) by (rewrite <- Erev; now apply plain_rev).
  simpl in Hpl. apply andb_true_iff in Hpl as [Hlst Ht].
  destruct (Nat.leb_spec 2 (length root)) as [Hlen|Hlen].
  - assert (go_split root = root) as -> by (destruct root; [simpl in Hlen; lia|reflexivity]).
    cbn [eff_keep]. unfold eff_match at 1. cbn [Nat.eqb negb]. rewrite andb_false_r.
    rewrite eff_keep_long by lia. cbn [rev].
    assert (Hk : plain (rev (keep_until (last root []) t) ++ [lst]) = true).
    { rewrite plain_app. rewrite plain_rev by now apply keep_until_plain. simpl. now rewrite Hlst. }
    rewrite plain_filter_nonempty by assumption.
    apply clean_plain. rewrite plain_app. now rewrite Hr, Hk.
  - rewrite eff_keep_short by (destruct root as [|a [|b r]]; simpl in *; lia).
    rewrite <- Erev, rev_involutive.
    rewrite plain_filter_nonempty by assumption.
    apply clean_plain. rewrite plain_app. now rewrite Hr, Hi.
Qed.

(* ------------------------------------------------------------------ *)
(** * previousRoot: where it goes and which levels it skips *)

Lemma removelast_app_unit (A : Type) (l : list A) x : removelast (l ++ [x]) = l.
Proof. now rewrite removelast_app, app_nil_r by discriminate. Qed.

Lemma app_unit_split (A : Type) (p : list A) x e1 e2 :
  p ++ [x] = e1 ++ e2 -> e2 <> [] -> exists e2', e2 = e2' ++ [x] /\ p = e1 ++ e2'.
Proof.
  intros H Hne. destruct (exists_last Hne) as [e2' [y ->]].
  rewrite app_assoc in H. apply app_inj_tail in H as [-> ->]. now exists e2'.
Qed.

(** the first loop, started at [gsrc ++ p]: it finds the longest [p1] below [p] (of at least one
    element unless [p] itself is empty) with a [vendor] directory; every level it passed has none *)
Lemma prev_loop_spec st gsrc : forall fuel p, length p < fuel ->
  match y_prev_loop st gsrc fuel (gsrc ++ p) with
  | Some q => exists p1 p2, p = p1 ++ p2 /\ q = gsrc ++ p1
                            /\ (forall e1 e2, p2 = e1 ++ e2 -> e1 <> [] ->
                                              st (gsrc ++ (p1 ++ e1) ++ [vendor]) = false)
  | None => forall e1 e2, p = e1 ++ e2 -> e1 <> [] -> st (gsrc ++ e1 ++ [vendor]) = false
  end.
Proof.
  induction fuel as [|f IH]; intros p Hlen; [lia|].
  cbn [y_prev_loop]. rewrite <- app_assoc.
  destruct (st (gsrc ++ p ++ [vendor])) eqn:Est.
  - exists p, []. rewrite app_nil_r. split; [reflexivity|]. split; [reflexivity|].
    intros e1 e2 H Hne. destruct e1; [congruence|discriminate].
  - destruct (path_eqb (gsrc ++ p) gsrc) eqn:Eeq.
    + apply path_eqb_app_self in Eeq. subst p. intros e1 e2 H Hne.
      destruct e1; [congruence|discriminate].
    + destruct (exists_last (l := p)) as [p' [x ->]].
      { intros ->. rewrite app_nil_r, path_eqb_refl in Eeq. discriminate. }
      rewrite app_assoc, removelast_app_unit.
      destruct (path_eqb (gsrc ++ p') gsrc) eqn:Eeq'.
      * apply path_eqb_app_self in Eeq'. subst p'. simpl. intros e1 e2 H Hne.
        destruct e1 as [|a e1]; [congruence|]. injection H as <- H.
        destruct e1; [|discriminate]. simpl in Est. exact Est.
      * destruct (gsrc ++ p') as [|g0 gr] eqn:Egp.
        { apply app_eq_nil in Egp as [-> ->]. simpl in Eeq'. discriminate. }
        rewrite <- Egp. rewrite app_length in Hlen. simpl in Hlen.
        specialize (IH p' ltac:(lia)).
        destruct (y_prev_loop st gsrc f (gsrc ++ p')) as [q|].
        -- destruct IH as [p1 [p2 [-> [-> Hno]]]]. exists p1, (p2 ++ [x]).
           rewrite app_assoc. split; [reflexivity|]. split; [reflexivity|].
           intros e1 e2 H Hne. destruct e2 as [|b e2].
           ++ rewrite app_nil_r in H. subst e1. rewrite app_assoc. rewrite <- app_assoc in Est.
              rewrite <- !app_assoc. rewrite <- !app_assoc in Est. exact Est.
           ++ destruct (app_unit_split _ _ _ _ _ H ltac:(discriminate)) as [e2' [_ Hp2]].
              now apply (Hno e1 e2').
        -- intros e1 e2 H Hne. destruct e2 as [|b e2].
           ++ rewrite app_nil_r in H. subst e1. exact Est.
           ++ destruct (app_unit_split _ _ _ _ _ H ltac:(discriminate)) as [e2' [_ Hp2]].
              now apply (IH e1 e2').
Qed.

Lemma last_vendor_lt sr : forall n, 0 < n -> y_last_vendor sr n < n.
Proof.
  induction n as [|i IH]; intros H; [lia|]. simpl.
  destruct (str_eqb (nth i sr []) vendor); [lia|].
  destruct i; [simpl; lia|]. specialize (IH ltac:(lia)). lia.
Qed.

Lemma prev_fallback_spec root : root <> [] ->
  exists k, k < length root /\ y_prev_fallback root = firstn k root.
Proof.
  intros Hne. unfold y_prev_fallback.
  assert (go_split root = root) as -> by (destruct root; [congruence|reflexivity]).
  pose proof (last_vendor_lt root (length root)) as Hlt.
  assert (0 < length root) by (destruct root; [congruence|simpl; lia]).
  specialize (Hlt H). destruct (Nat.eqb_spec (y_last_vendor root (length root)) 0).
  - exists 0. split; [lia|reflexivity].
  - eexists. split; [exact Hlt|reflexivity].
Qed.

Lemma prev_fallback_last_vendor p : y_prev_fallback (p ++ [vendor]) = p.
Proof.
  unfold y_prev_fallback.
  assert (go_split (p ++ [vendor]) = p ++ [vendor]) as -> by (destruct p; reflexivity).
  rewrite app_length, Nat.add_1_r. cbn [y_last_vendor].
  rewrite nth_middle_path, str_eqb_refl.
  destruct (Nat.eqb_spec (length p) 0) as [E|E].
  - destruct p; [reflexivity|discriminate].
  - rewrite firstn_app, Nat.sub_diag, firstn_all. simpl. now rewrite app_nil_r.
Qed.

Lemma last_app_unit (l : list str) x : last (l ++ [x]) [] = x.
Proof. induction l as [|a l IH]; [reflexivity|]. simpl. destruct (l ++ [x]) eqn:E; [destruct l; discriminate|exact IH]. Qed.

Lemma firstn_skipn_split (A : Type) k (l : list A) : l = firstn k l ++ skipn k l.
Proof. symmetry; apply firstn_skipn. Qed.

(** [previousRoot] returns a strictly shorter prefix [r'] of [root]; none of the levels strictly
    between [r'] and [root] has a [vendor] directory *)
Theorem previous_root_spec st gsrc root : root <> [] ->
  exists r' ext, root = r' ++ ext /\ ext <> [] /\ y_previous_root st gsrc root = r'
    /\ (forall e1 e2, ext = e1 ++ e2 -> e1 <> [] -> e2 <> [] ->
                      st (gsrc ++ (r' ++ e1) ++ [vendor]) = false).
Proof.
  intros Hne. destruct (exists_last Hne) as [p [x ->]].
  unfold y_previous_root.
  rewrite app_assoc, removelast_app_unit, last_app_unit.
  (* the fallback, given that every level of p (if the loop ran) has no vendor directory *)
  assert (Hfb : (forall e1 e2, p = e1 ++ e2 -> e1 <> [] -> st (gsrc ++ e1 ++ [vendor]) = false) ->
          exists r' ext, p ++ [x] = r' ++ ext /\ ext <> [] /\ y_prev_fallback (p ++ [x]) = r'
            /\ (forall e1 e2, ext = e1 ++ e2 -> e1 <> [] -> e2 <> [] ->
                              st (gsrc ++ (r' ++ e1) ++ [vendor]) = false)).
  { intros Hno. destruct (prev_fallback_spec (p ++ [x]) Hne) as [k [Hk Hf]].
    exists (firstn k (p ++ [x])), (skipn k (p ++ [x])).
    split; [apply firstn_skipn_split|]. split.
    { intros E. apply (f_equal (@length str)) in E. rewrite skipn_length in E. simpl in E. lia. }
    split; [exact Hf|]. intros e1 e2 H He1 He2.
    pose proof (firstn_skipn_split _ k (p ++ [x])) as Hs. rewrite H in Hs.
    rewrite app_assoc in Hs.
    destruct (app_unit_split _ _ _ _ _ Hs He2) as [e2' [_ Hp]].
    apply (Hno _ e2' Hp). destruct (firstn k (p ++ [x])); [simpl; exact He1|discriminate]. }
  destruct (negb (path_eqb (p ++ [x]) [mainid]) && negb (str_eqb x vendor)) eqn:Eguard.
  - pose proof (prev_loop_spec st gsrc (S (length ((gsrc ++ p) ++ [x]))) p) as Hl.
    rewrite !app_length in Hl. specialize (Hl ltac:(simpl; lia)). rewrite <- !app_length in Hl.
    rewrite <- app_assoc in Hl.
    rewrite <- app_assoc.
    destruct (y_prev_loop st gsrc (S (length (gsrc ++ p ++ [x]))) (gsrc ++ p)) as [q|].
    + destruct Hl as [p1 [p2 [-> [-> Hno]]]].
      rewrite skipn_app, skipn_all, Nat.sub_diag. simpl skipn. simpl app at 1.
      destruct p1 as [|a p1].
      * apply Hfb. intros e1 e2 H He1. apply (Hno e1 e2 H He1).
      * exists (a :: p1), (p2 ++ [x]). rewrite <- app_assoc.
        split; [reflexivity|]. split; [destruct p2; discriminate|]. split; [reflexivity|].
        intros e1 e2 H He1 He2.
        destruct (app_unit_split _ _ _ _ _ H He2) as [e2' [_ Hp2]].
        now apply (Hno e1 e2').
    + apply Hfb. exact Hl.
  - apply andb_false_iff in Eguard as [E|E]; apply negb_false_iff in E.
    + apply path_eqb_eq in E. destruct p as [|a [|b p]]; try discriminate.
      injection E as ->. exists [], [mainid]. split; [reflexivity|]. split; [discriminate|].
      split; [reflexivity|]. intros e1 e2 H He1 He2.
      destruct e1 as [|u e1]; [congruence|]. destruct e1; [|destruct e1; discriminate].
      injection H as _ H. subst e2. congruence.
    + apply str_eqb_eq in E. subst x. exists p, [vendor]. split; [reflexivity|].
      split; [discriminate|]. split; [apply prev_fallback_last_vendor|].
      intros e1 e2 H He1 He2.
      destruct e1 as [|u e1]; [congruence|]. destruct e1; [|destruct e1; discriminate].
      injection H as _ H. subst e2. congruence.
Qed.

Corollary previous_root_shorter st gsrc root : root <> [] ->
  length (y_previous_root st gsrc root) < length root.
Proof.
  intros H. destruct (previous_root_spec st gsrc root H) as [r' [ext [E [Hne [-> _]]]]].
  rewrite E, app_length. destruct ext; [congruence|simpl; lia].
Qed.

(** [pkgDir] terminates: fuel [length root + 1] is enough *)
Theorem pkg_dir_fuel st gsrc ip : forall fuel root, length root < fuel ->
  y_pkg_dir st gsrc fuel root ip <> OutOfFuel.
Proof.
  induction fuel as [|f IH]; intros root Hl; [lia|]. cbn [y_pkg_dir].
  destruct (st _); [discriminate|]. destruct (st _); [discriminate|].
  destruct root as [|a r]; [discriminate|]. apply IH.
  pose proof (previous_root_shorter st gsrc (a :: r) ltac:(discriminate)). lia.
Qed.

(* ------------------------------------------------------------------ *)
(** * Resolution: Y = G under the side conditions *)

Lemma g_walk_unfold hasgo gsrc rd ip :
  g_vendor_walk hasgo gsrc rd ip =
  if hasgo (gsrc ++ rev rd ++ vendor :: ip) then Some (gsrc ++ rev rd ++ vendor :: ip)
  else match rd with [] => None | _ :: up => g_vendor_walk hasgo gsrc up ip end.
Proof. destruct rd; reflexivity. Qed.

(** levels without a candidate can be skipped *)
Lemma g_walk_skip hasgo gsrc ip r' : forall ext,
  (forall e1 e2, ext = e1 ++ e2 -> e1 <> [] -> hasgo (gsrc ++ (r' ++ e1) ++ vendor :: ip) = false) ->
  g_vendor_walk hasgo gsrc (rev (r' ++ ext)) ip = g_vendor_walk hasgo gsrc (rev r') ip.
Proof.
  induction ext as [|x e IH] using rev_ind; intros H.
  - now rewrite app_nil_r.
  - rewrite app_assoc, rev_unit, g_walk_unfold.
    replace (rev (x :: rev (r' ++ e))) with (r' ++ e ++ [x])
      by (simpl; now rewrite rev_involutive, <- app_assoc).
    rewrite (H (e ++ [x]) []) by (rewrite ?app_nil_r; try reflexivity; destruct e; discriminate).
    apply IH. intros e1 e2 -> Hne. apply (H e1 (e2 ++ [x])); [now rewrite app_assoc|assumption].
Qed.

Lemma prefixes_self d : In d (prefixes d).
Proof. induction d as [|x d IH]; simpl; [now left|]. right. now apply in_map. Qed.

Lemma prefixes_app a b : forall p, In p (prefixes a) -> In p (prefixes (a ++ b)).
Proof.
  induction a as [|x a IH]; intros p H; simpl in *.
  - destruct H as [<-|[]]. destruct b; simpl; now left.
  - destruct H as [<-|H]; [now left|]. right.
    apply in_map_iff in H as [q [<- Hq]]. apply in_map. now apply IH.
Qed.

Section Resolve.
  Variables (st hasgo : statfn) (gsrc ip : path).
  Hypothesis Hclosed : fs_closed st.
  Hypothesis Hgo : fs_hasgo_dir st hasgo.
  Hypothesis Hplain : plain ip = true.

  Definition nogo_at (a : path) : Prop :=
    st (gsrc ++ a ++ vendor :: ip) = true -> hasgo (gsrc ++ a ++ vendor :: ip) = true.
  Definition shadow_at (r : path) : Prop :=
    r <> [] ->
    st (gsrc ++ r ++ vendor :: ip) = true
    \/ st (gsrc ++ y_effective_pkg r ip) = false
    \/ g_resolve st hasgo gsrc r ip = Some (gsrc ++ y_effective_pkg r ip).

  Lemma hasgo_false c : st c = false -> hasgo c = false.
  Proof. intros H. destruct (hasgo c) eqn:E; [|reflexivity]. apply Hgo in E. congruence. Qed.

  Lemma resolve_agree_fuel : forall fuel r, length r < fuel ->
    (forall a, In a (prefixes r) -> nogo_at a) ->
    (forall a, In a (prefixes r) -> shadow_at a) ->
    found_dir (y_pkg_dir st gsrc fuel r ip) = g_resolve st hasgo gsrc r ip.
  Proof.
    induction fuel as [|f IH]; intros r Hlen Hnogo Hshadow; [lia|].
    cbn [y_pkg_dir]. rewrite <- (app_assoc r [vendor] ip). cbn [app].
    destruct (st (gsrc ++ r ++ vendor :: ip)) eqn:E1.
    - (* found in r/vendor *)
      cbn [found_dir]. unfold g_resolve. rewrite g_walk_unfold, rev_involutive.
      rewrite (Hnogo r (prefixes_self r) E1). reflexivity.
    - pose proof (hasgo_false _ E1) as G1.
      destruct (st (gsrc ++ y_effective_pkg r ip)) eqn:E2.
      + cbn [found_dir]. destruct r as [|x r].
        * rewrite eff_root_nil in * by assumption. unfold g_resolve. simpl rev.
          rewrite g_walk_unfold. simpl rev. simpl app at 2. simpl in G1. rewrite G1, E2. reflexivity.
        * destruct (Hshadow (x :: r) (prefixes_self _) ltac:(discriminate)) as [H|[H|H]]; try congruence. now rewrite H.
      + destruct r as [|x r].
        * cbn [found_dir]. rewrite eff_root_nil in E2 by assumption. unfold g_resolve. simpl rev.
          rewrite g_walk_unfold. simpl rev. simpl app at 2. simpl in G1. rewrite G1, E2. reflexivity.
        * destruct (previous_root_spec st gsrc (x :: r) ltac:(discriminate)) as [r' [ext [E [Hext [Hprev Hlev]]]]].
          rewrite Hprev. rewrite IH.
          -- unfold g_resolve. rewrite E. rewrite g_walk_skip; [reflexivity|].
             intros e1 e2 He He1. destruct e2 as [|b e2].
             ++ rewrite app_nil_r in He. subst e1. rewrite <- E. exact G1.
             ++ apply hasgo_false. destruct (st (gsrc ++ (r' ++ e1) ++ vendor :: ip)) eqn:E3; [|reflexivity].
                replace (gsrc ++ (r' ++ e1) ++ vendor :: ip) with ((gsrc ++ (r' ++ e1) ++ [vendor]) ++ ip) in E3
                  by (now rewrite <- !app_assoc).
                apply Hclosed in E3. rewrite (Hlev e1 (b :: e2) He He1 ltac:(discriminate)) in E3. discriminate.
          -- apply (f_equal (@length str)) in E. rewrite app_length in E. simpl in E, Hlen.
             destruct ext; [congruence|simpl in E; lia].
          -- intros a Ha. apply Hnogo. rewrite E. now apply prefixes_app.
          -- intros a Ha. apply Hshadow. rewrite E. now apply prefixes_app.
  Qed.
End Resolve.

Lemma implb_true a b : implb a b = true <-> (a = true -> b = true).
Proof. destruct a, b; simpl; intuition congruence. Qed.

Lemma opt_path_eqb_eq a b : opt_path_eqb a b = true <-> a = b.
Proof.
  destruct a, b; simpl; try (split; congruence). rewrite path_eqb_eq. split; congruence.
Qed.

(** C16, resolution part, under the decidable side condition [resolve_side] *)
Theorem resolve_agree st hasgo gsrc d ip :
  fs_closed st -> fs_hasgo_dir st hasgo -> resolve_side st hasgo gsrc d ip = true ->
  y_resolve st gsrc d ip = g_resolve st hasgo gsrc d ip.
Proof.
  intros Hc Hg Hs. unfold resolve_side in Hs.
  apply andb_true_iff in Hs as [Hs Hsh]. apply andb_true_iff in Hs as [Hp Hn].
  unfold y_resolve. apply resolve_agree_fuel; try assumption; [lia| |].
  - intros a Ha. unfold nogo_free in Hn. rewrite forallb_forall in Hn.
    specialize (Hn a Ha). cbv zeta in Hn. unfold nogo_at. apply implb_true. exact Hn.
  - intros a Ha Hne. unfold shadow_free in Hsh. rewrite forallb_forall in Hsh.
    specialize (Hsh a Ha). destruct a as [|x a]; [congruence|].
    apply orb_true_iff in Hsh as [Hsh|Hsh]; [apply orb_true_iff in Hsh as [Hsh|Hsh]|].
    + now left.
    + right; left. now apply negb_true_iff in Hsh.
    + right; right. now apply opt_path_eqb_eq.
Qed.

(** the relative branch agrees when [rPath] really is the importing directory relative to
    [Dir(interp.name)] — true along a chain of relative imports from the entry file, false for a
    package found through GOPATH *)
Theorem relative_agree entry rpath dir ip :
  dir = entry ++ y_rel_rpath rpath -> y_rel_dir entry rpath ip = clean (dir ++ ip).
Proof. intros ->. unfold y_rel_dir. now rewrite app_assoc. Qed.

(* ------------------------------------------------------------------ *)
(** * The filesystem is only used through its Stat answers *)

Lemma prev_loop_ext st1 st2 prefix : (forall p, st1 p = st2 p) ->
  forall fuel parent, y_prev_loop st1 prefix fuel parent = y_prev_loop st2 prefix fuel parent.
Proof.
  intros H; induction fuel as [|f IH]; intros parent; [reflexivity|]. cbn [y_prev_loop].
  rewrite H. destruct (st2 _); [reflexivity|]. destruct (path_eqb parent prefix); [reflexivity|].
  destruct (path_eqb _ prefix); [reflexivity|]. destruct (removelast parent); [reflexivity|]. apply IH.
Qed.

Lemma previous_root_ext st1 st2 gsrc root : (forall p, st1 p = st2 p) ->
  y_previous_root st1 gsrc root = y_previous_root st2 gsrc root.
Proof. intros H. unfold y_previous_root. now rewrite (prev_loop_ext st1 st2 gsrc H). Qed.

Theorem pkg_dir_ext st1 st2 gsrc ip : (forall p, st1 p = st2 p) ->
  forall fuel root, y_pkg_dir st1 gsrc fuel root ip = y_pkg_dir st2 gsrc fuel root ip.
Proof.
  intros H; induction fuel as [|f IH]; intros root; [reflexivity|]. cbn [y_pkg_dir].
  rewrite !H. destruct (st2 _); [reflexivity|]. destruct (st2 _); [reflexivity|].
  destruct root; [reflexivity|]. rewrite (previous_root_ext st1 st2 gsrc _ H). apply IH.
Qed.

(** two trees with the same directories resolve every import alike, whatever else differs *)
Theorem fs_agnostic_trees t1 t2 gsrc root ip :
  (forall p, tree_stat t1 p = tree_stat t2 p) ->
  y_resolve (tree_stat t1) gsrc root ip = y_resolve (tree_stat t2) gsrc root ip.
Proof. intros H. unfold y_resolve. now rewrite (pkg_dir_ext _ _ gsrc ip H). Qed.

Lemma tree_stat_closed t : fs_closed (tree_stat t).
Proof.
  intros p q H. unfold tree_stat in *. apply existsb_exists in H as [k [Hk Hp]].
  apply existsb_exists. exists k. split; [assumption|].
  apply is_prefix_spec in Hp as [r Hr]. apply is_prefix_spec. exists (q ++ r). now rewrite Hr, app_assoc.
Qed.

Lemma tree_hasgo_dir t : fs_hasgo_dir (tree_stat t) (tree_hasgo t).
Proof.
  intros p H. unfold tree_hasgo, tree_stat in *. apply existsb_exists in H as [k [Hk Hp]].
  apply existsb_exists. exists k. split; [assumption|]. apply path_eqb_eq in Hp. subst p.
  apply is_prefix_spec. exists []. now rewrite app_nil_r.
Qed.
