(** C16 — proofs about the models of Imports/Model.v. *)
From Verif Require Import Lib.Str Imports.Model.
From Coq Require Import Relations.Relation_Operators Relations.Operators_Properties.

(* ------------------------------------------------------------------ *)
(** * Paths *)

Lemma path_eqb_spec a b : reflect (a = b) (path_eqb a b).
Proof.
  revert b; induction a as [|x a IH]; intros [|y b]; simpl; try (constructor; congruence).
  destruct (str_eqb_spec x y) as [->|Hn]; simpl.
  - destruct (IH b) as [->|Hn]; constructor; congruence.
  - constructor; congruence.
Qed.

Lemma path_eqb_refl a : path_eqb a a = true.
Proof. destruct (path_eqb_spec a a); congruence. Qed.

Lemma path_eqb_eq a b : path_eqb a b = true <-> a = b.
Proof. destruct (path_eqb_spec a b); split; congruence. Qed.

Lemma path_eqb_neq a b : path_eqb a b = false <-> a <> b.
Proof. destruct (path_eqb_spec a b); split; congruence. Qed.

Lemma mem_path_In x l : mem_path x l = true <-> In x l.
Proof.
  induction l as [|y l IH]; simpl; [split; [discriminate|tauto]|].
  rewrite orb_true_iff, IH, path_eqb_eq. tauto.
Qed.

Lemma mem_path_not_In x l : mem_path x l = false <-> ~ In x l.
Proof. rewrite <- mem_path_In. destruct (mem_path x l); split; congruence. Qed.

Lemma is_prefix_app p q : is_prefix p (p ++ q) = true.
Proof. induction p; simpl; [reflexivity|]. now rewrite str_eqb_refl. Qed.

Lemma is_prefix_spec p q : is_prefix p q = true <-> exists r, q = p ++ r.
Proof.
  revert q; induction p as [|x p IH]; intros q; simpl.
  - split; [intros _; now exists q | reflexivity].
  - destruct q as [|y q]; [split; [discriminate | intros [r Hr]; discriminate]|].
    rewrite andb_true_iff, str_eqb_eq, IH. split.
    + intros [-> [r ->]]. now exists r.
    + intros [r Hr]. injection Hr as -> ->. split; [reflexivity | now exists r].
Qed.

Lemma app_eq_self_nil (A : Type) (a b : list A) : a ++ b = a -> b = [].
Proof. intros H. apply (app_inv_head a). now rewrite app_nil_r. Qed.

Lemma path_eqb_app_self g p : path_eqb (g ++ p) g = true -> p = [].
Proof. rewrite path_eqb_eq. apply app_eq_self_nil. Qed.

(* ------------------------------------------------------------------ *)
(** * Clean *)

Lemma clean_go_plain acc p : plain p = true -> clean_go acc p = rev acc ++ p.
Proof.
  revert acc; induction p as [|w r IH]; intros acc H; simpl.
  - now rewrite app_nil_r.
  - simpl in H. apply andb_true_iff in H as [Hw Hr]. unfold plain_comp in Hw.
    apply andb_true_iff in Hw as [Hw H2]. apply andb_true_iff in Hw as [H0 H1].
    rewrite H0. apply negb_true_iff in H1, H2. rewrite H1, H2. simpl.
    rewrite IH by assumption. simpl. now rewrite <- app_assoc.
Qed.

Lemma clean_plain p : plain p = true -> clean p = p.
Proof. intros H. unfold clean. now rewrite clean_go_plain. Qed.

Lemma plain_app a b : plain (a ++ b) = plain a && plain b.
Proof. unfold plain. apply forallb_app. Qed.

Lemma plain_filter_nonempty p : plain p = true -> filter nonempty p = p.
Proof.
  induction p as [|w r IH]; simpl; [reflexivity|]. intros H.
  apply andb_true_iff in H as [Hw Hr]. unfold plain_comp in Hw.
  apply andb_true_iff in Hw as [Hw _]. apply andb_true_iff in Hw as [H0 _].
  rewrite H0. now rewrite IH.
Qed.

(* ------------------------------------------------------------------ *)
(** * effectivePkg: what the index arithmetic computes *)

(** once an element of the import path has matched, [prevRootIndex < rootIndex] for ever and
    nothing is appended any more *)
Lemma eff_phaseB sr sp n : forall i ri pri res,
  pri < ri -> y_eff_loop sr sp n i ri pri res = res.
Proof.
  induction n as [|n IH]; intros i ri pri res Hlt; simpl; [reflexivity|].
  destruct (_ && _ && _).
  - apply IH. lia.
  - destruct (Nat.eqb_spec pri ri); [lia|]. now apply IH.
Qed.

(** the test of the first branch while [rootIndex = 0]; [j] is the loop counter *)
Definition eff_match (sr : list str) (x : str) (j : nat) : bool :=
  (0 <? Z.of_nat (length sr) - 1 - Z.of_nat 0)%Z
  && str_eqb x (nth (Z.to_nat (Z.of_nat (length sr) - 1 - Z.of_nat 0)) sr [])
  && negb (j =? 0).

(** walking the reversed import path: keep elements until the first match *)
Fixpoint eff_keep (sr : list str) (j : nat) (rp : list str) : list str :=
  match rp with
  | [] => []
  | x :: t => if eff_match sr x j then [] else x :: eff_keep sr (S j) t
  end.

Lemma nth_middle_path (l : list str) x r : nth (length l) (l ++ x :: r) [] = x.
Proof. induction l; simpl; [reflexivity|assumption]. Qed.

Lemma eff_phaseA sr : forall sp1 sp2 res,
  y_eff_loop sr (sp1 ++ sp2) (length sp1) (length sp2) 0 0 res
  = res ++ eff_keep sr (length sp2) (rev sp1).
Proof.
  induction sp1 as [|x l IH] using rev_ind; intros sp2 res.
  - simpl. now rewrite app_nil_r.
  - rewrite app_length, Nat.add_1_r, rev_unit. cbn [y_eff_loop eff_keep].
    rewrite <- app_assoc. cbn [app].
    replace (length (l ++ x :: sp2) - 1 - length sp2) with (length l)
      by (rewrite app_length; simpl; lia).
    rewrite nth_middle_path. fold (eff_match sr x (length sp2)).
    destruct (eff_match sr x (length sp2)).
    + rewrite eff_phaseB by lia. now rewrite app_nil_r.
    + cbn [Nat.eqb]. specialize (IH (x :: sp2) (res ++ [x])). cbn [length] in IH.
      rewrite IH. now rewrite <- app_assoc.
Qed.

Lemma eff_loop_result sr sp :
  y_eff_loop sr sp (length sp) 0 0 0 [] = eff_keep sr 0 (rev sp).
Proof.
  pose proof (eff_phaseA sr sp [] []) as H. rewrite app_nil_r in H. exact H.
Qed.

(** with a root of at most one element nothing ever matches *)
Lemma eff_keep_short sr : length sr <= 1 -> forall rp j, eff_keep sr j rp = rp.
Proof.
  intros Hl; induction rp as [|x t IH]; intros j; simpl; [reflexivity|].
  unfold eff_match. replace (0 <? _)%Z with false by (symmetry; apply Z.ltb_ge; lia).
  simpl. now rewrite IH.
Qed.

Lemma go_split_plain p : plain p = true -> p <> [] -> go_split p = p.
Proof. destruct p; [congruence|reflexivity]. Qed.

(** at the GOPATH root, [effectivePkg("", ip) = ip] *)
Lemma eff_root_nil ip : plain ip = true -> y_effective_pkg [] ip = ip.
Proof.
  intros Hp. unfold y_effective_pkg. rewrite eff_loop_result.
  rewrite eff_keep_short by (simpl; lia). rewrite rev_involutive. simpl app.
  destruct ip as [|w r]; [reflexivity|]. cbn [go_split].
  rewrite plain_filter_nonempty by assumption. now apply clean_plain.
Qed.

(** ** readable specification: the elements of the import path after the last occurrence,
    not counting the final element, of the last element of a root of at least two elements *)
Fixpoint keep_until (w : str) (rp : list str) : list str :=
  match rp with
  | [] => []
  | x :: t => if str_eqb x w then [] else x :: keep_until w t
  end.

Definition eff_kept (root ip : path) : path :=
  match rev ip with
  | [] => []
  | lst :: t => if 2 <=? length root then rev (keep_until (last root []) t) ++ [lst] else ip
  end.

Lemma nth_last (l : list str) : nth (length l - 1) l [] = last l [].
Proof.
  induction l as [|x l IH]; [reflexivity|]. destruct l as [|y l]; [reflexivity|].
  change (last (x :: y :: l) []) with (last (y :: l) []). rewrite <- IH.
  cbn [length]. replace (S (S (length l)) - 1) with (S (S (length l) - 1)) by lia. reflexivity.
Qed.

Lemma eff_keep_long sr : 2 <= length sr -> forall rp j, 0 < j ->
  eff_keep sr j rp = keep_until (last sr []) rp.
Proof.
  intros Hl; induction rp as [|x t IH]; intros j Hj; simpl; [reflexivity|].
  unfold eff_match. replace (0 <? _)%Z with true by (symmetry; apply Z.ltb_lt; lia).
  replace (Z.to_nat (Z.of_nat (length sr) - 1 - Z.of_nat 0)) with (length sr - 1) by lia.
  rewrite nth_last. destruct (Nat.eqb_spec j 0); [lia|]. simpl. rewrite andb_true_r.
  destruct (str_eqb x (last sr [])); [reflexivity|]. now rewrite IH by lia.
Qed.

Lemma plain_rev p : plain p = true -> plain (rev p) = true.
Proof.
  unfold plain. rewrite !forallb_forall. intros H x Hx. apply H. now apply in_rev.
Qed.

Lemma keep_until_plain w rp : plain rp = true -> plain (keep_until w rp) = true.
Proof.
  induction rp as [|x t IH]; simpl; [reflexivity|]. intros H.
  apply andb_true_iff in H as [Hx Ht]. destruct (str_eqb x w); [reflexivity|].
  simpl. now rewrite Hx, IH.
Qed.

Theorem effective_pkg_spec root ip :
  plain root = true -> plain ip = true -> ip <> [] ->
  y_effective_pkg root ip = root ++ eff_kept root ip.
Proof.
  intros Hr Hi Hne. unfold y_effective_pkg. rewrite eff_loop_result.
  rewrite (go_split_plain ip) by assumption. unfold eff_kept.
  destruct (rev ip) as [|lst t] eqn:Erev.
  { apply (f_equal (@rev str)) in Erev. rewrite rev_involutive in Erev. simpl in Erev. congruence. }
  assert (Hpl : plain (lst :: t) = true) by (rewrite <- Erev; now apply plain_rev).
  simpl in Hpl. apply andb_true_iff in Hpl as [Hlst Ht].
  destruct (Nat.leb_spec 2 (length root)) as [Hlen|Hlen].
  - assert (go_split root = root) as -> by (destruct root; [simpl in Hlen; lia|reflexivity]).
    cbn [eff_keep]. unfold eff_match at 1. cbn [Nat.eqb negb]. rewrite andb_false_r.
    rewrite eff_keep_long by lia. cbn [rev].
    assert (Hk : plain (rev (keep_until (last root []) t) ++ [lst]) = true).
    { rewrite plain_app. rewrite plain_rev by now apply keep_until_plain. simpl. now rewrite Hlst. }
    rewrite plain_filter_nonempty by assumption.
    apply clean_plain. rewrite plain_app. now rewrite Hr, Hk.
  - rewrite eff_keep_short by (destruct root as [|a [|b r]]; simpl in *; lia).
    rewrite <- Erev, rev_involutive.
    rewrite plain_filter_nonempty by assumption.
    apply clean_plain. rewrite plain_app. now rewrite Hr, Hi.
Qed.

(* ------------------------------------------------------------------ *)
(** * previousRoot: where it goes and which levels it skips *)

Lemma removelast_app_unit (A : Type) (l : list A) x : removelast (l ++ [x]) = l.
Proof. now rewrite removelast_app, app_nil_r by discriminate. Qed.

Lemma app_unit_split (A : Type) (p : list A) x e1 e2 :
  p ++ [x] = e1 ++ e2 -> e2 <> [] -> exists e2', e2 = e2' ++ [x] /\ p = e1 ++ e2'.
Proof.
  intros H Hne. destruct (exists_last Hne) as [e2' [y ->]].
  rewrite app_assoc in H. apply app_inj_tail in H as [-> ->]. now exists e2'.
Qed.

(** the first loop, started at [gsrc ++ p]: it finds the longest [p1] below [p] (of at least one
    element unless [p] itself is empty) with a [vendor] directory; every level it passed has none *)
Lemma prev_loop_spec st gsrc : forall fuel p, length p < fuel ->
  match y_prev_loop st gsrc fuel (gsrc ++ p) with
  | Some q => exists p1 p2, p = p1 ++ p2 /\ q = gsrc ++ p1
                            /\ (forall e1 e2, p2 = e1 ++ e2 -> e1 <> [] ->
                                              st (gsrc ++ (p1 ++ e1) ++ [vendor]) = false)
  | None => forall e1 e2, p = e1 ++ e2 -> e1 <> [] -> st (gsrc ++ e1 ++ [vendor]) = false
  end.
Proof.
  induction fuel as [|f IH]; intros p Hlen; [lia|].
  cbn [y_prev_loop]. rewrite <- app_assoc.
  destruct (st (gsrc ++ p ++ [vendor])) eqn:Est.
  - exists p, []. rewrite app_nil_r. split; [reflexivity|]. split; [reflexivity|].
    intros e1 e2 H Hne. destruct e1; [congruence|discriminate].
  - destruct (path_eqb (gsrc ++ p) gsrc) eqn:Eeq.
    + apply path_eqb_app_self in Eeq. subst p. intros e1 e2 H Hne.
      destruct e1; [congruence|discriminate].
    + destruct (exists_last (l := p)) as [p' [x ->]].
      { intros ->. rewrite app_nil_r, path_eqb_refl in Eeq. discriminate. }
      rewrite app_assoc, removelast_app_unit.
      destruct (path_eqb (gsrc ++ p') gsrc) eqn:Eeq'.
      * apply path_eqb_app_self in Eeq'. subst p'. simpl. intros e1 e2 H Hne.
        destruct e1 as [|a e1]; [congruence|]. injection H as <- H.
        destruct e1; [|discriminate]. simpl in Est. exact Est.
      * destruct (gsrc ++ p') as [|g0 gr] eqn:Egp.
        { apply app_eq_nil in Egp as [-> ->]. simpl in Eeq'. discriminate. }
        rewrite <- Egp. rewrite app_length in Hlen. simpl in Hlen.
        specialize (IH p' ltac:(lia)).
        destruct (y_prev_loop st gsrc f (gsrc ++ p')) as [q|].
        -- destruct IH as [p1 [p2 [-> [-> Hno]]]]. exists p1, (p2 ++ [x]).
           rewrite app_assoc. split; [reflexivity|]. split; [reflexivity|].
           intros e1 e2 H Hne. destruct e2 as [|b e2].
           ++ rewrite app_nil_r in H. subst e1. rewrite app_assoc. rewrite <- app_assoc in Est.
              rewrite <- !app_assoc. rewrite <- !app_assoc in Est. exact Est.
           ++ destruct (app_unit_split _ _ _ _ _ H ltac:(discriminate)) as [e2' [_ Hp2]].
              now apply (Hno e1 e2').
        -- intros e1 e2 H Hne. destruct e2 as [|b e2].
           ++ rewrite app_nil_r in H. subst e1. exact Est.
           ++ destruct (app_unit_split _ _ _ _ _ H ltac:(discriminate)) as [e2' [_ Hp2]].
              now apply (IH e1 e2').
Qed.

Lemma last_vendor_lt sr : forall n, 0 < n -> y_last_vendor sr n < n.
Proof.
  induction n as [|i IH]; intros H; [lia|]. simpl.
  destruct (str_eqb (nth i sr []) vendor); [lia|].
  destruct i; [simpl; lia|]. specialize (IH ltac:(lia)). lia.
Qed.

Lemma prev_fallback_spec root : root <> [] ->
  exists k, k < length root /\ y_prev_fallback root = firstn k root.
Proof.
  intros Hne. unfold y_prev_fallback.
  assert (go_split root = root) as -> by (destruct root; [congruence|reflexivity]).
  pose proof (last_vendor_lt root (length root)) as Hlt.
  assert (0 < length root) by (destruct root; [congruence|simpl; lia]).
  specialize (Hlt H). destruct (Nat.eqb_spec (y_last_vendor root (length root)) 0).
  - exists 0. split; [lia|reflexivity].
  - eexists. split; [exact Hlt|reflexivity].
Qed.

Lemma prev_fallback_last_vendor p : y_prev_fallback (p ++ [vendor]) = p.
Proof.
  unfold y_prev_fallback.
  assert (go_split (p ++ [vendor]) = p ++ [vendor]) as -> by (destruct p; reflexivity).
  rewrite app_length, Nat.add_1_r. cbn [y_last_vendor].
  rewrite nth_middle_path, str_eqb_refl.
  destruct (Nat.eqb_spec (length p) 0) as [E|E].
  - destruct p; [reflexivity|discriminate].
  - rewrite firstn_app, Nat.sub_diag, firstn_all. simpl. now rewrite app_nil_r.
Qed.

Lemma last_app_unit (l : list str) x : last (l ++ [x]) [] = x.
Proof. induction l as [|a l IH]; [reflexivity|]. simpl. destruct (l ++ [x]) eqn:E; [destruct l; discriminate|exact IH]. Qed.

Lemma firstn_skipn_split (A : Type) k (l : list A) : l = firstn k l ++ skipn k l.
Proof. symmetry; apply firstn_skipn. Qed.

(** [previousRoot] returns a strictly shorter prefix [r'] of [root]; none of the levels strictly
    between [r'] and [root] has a [vendor] directory *)
Theorem previous_root_spec st gsrc root : root <> [] ->
  exists r' ext, root = r' ++ ext /\ ext <> [] /\ y_previous_root st gsrc root = r'
    /\ (forall e1 e2, ext = e1 ++ e2 -> e1 <> [] -> e2 <> [] ->
                      st (gsrc ++ (r' ++ e1) ++ [vendor]) = false).
Proof.
  intros Hne. destruct (exists_last Hne) as [p [x ->]].
  unfold y_previous_root.
  rewrite app_assoc, removelast_app_unit, last_app_unit.
  (* the fallback, given that every level of p (if the loop ran) has no vendor directory *)
  assert (Hfb : (forall e1 e2, p = e1 ++ e2 -> e1 <> [] -> st (gsrc ++ e1 ++ [vendor]) = false) ->
          exists r' ext, p ++ [x] = r' ++ ext /\ ext <> [] /\ y_prev_fallback (p ++ [x]) = r'
            /\ (forall e1 e2, ext = e1 ++ e2 -> e1 <> [] -> e2 <> [] ->
                              st (gsrc ++ (r' ++ e1) ++ [vendor]) = false)).
  { intros Hno. destruct (prev_fallback_spec (p ++ [x]) Hne) as [k [Hk Hf]].
    exists (firstn k (p ++ [x])), (skipn k (p ++ [x])).
    split; [apply firstn_skipn_split|]. split.
    { intros E. apply (f_equal (@length str)) in E. rewrite skipn_length in E. simpl in E. lia. }
    split; [exact Hf|]. intros e1 e2 H He1 He2.
    pose proof (firstn_skipn_split _ k (p ++ [x])) as Hs. rewrite H in Hs.
    rewrite app_assoc in Hs.
    destruct (app_unit_split _ _ _ _ _ Hs He2) as [e2' [_ Hp]].
    apply (Hno _ e2' Hp). destruct (firstn k (p ++ [x])); [simpl; exact He1|discriminate]. }
  destruct (negb (path_eqb (p ++ [x]) [mainid]) && negb (str_eqb x vendor)) eqn:Eguard.
  - pose proof (prev_loop_spec st gsrc (S (length ((gsrc ++ p) ++ [x]))) p) as Hl.
    rewrite !app_length in Hl. specialize (Hl ltac:(simpl; lia)). rewrite <- !app_length in Hl.
    rewrite <- app_assoc in Hl.
    rewrite <- app_assoc.
    destruct (y_prev_loop st gsrc (S (length (gsrc ++ p ++ [x]))) (gsrc ++ p)) as [q|].
    + destruct Hl as [p1 [p2 [-> [-> Hno]]]].
      rewrite skipn_app, skipn_all, Nat.sub_diag. simpl skipn. simpl app at 1.
      destruct p1 as [|a p1].
      * apply Hfb. intros e1 e2 H He1. apply (Hno e1 e2 H He1).
      * exists (a :: p1), (p2 ++ [x]). rewrite <- app_assoc.
        split; [reflexivity|]. split; [destruct p2; discriminate|]. split; [reflexivity|].
        intros e1 e2 H He1 He2.
        destruct (app_unit_split _ _ _ _ _ H He2) as [e2' [_ Hp2]].
        now apply (Hno e1 e2').
    + apply Hfb. exact Hl.
  - apply andb_false_iff in Eguard as [E|E]; apply negb_false_iff in E.
    + apply path_eqb_eq in E. destruct p as [|a [|b p]]; try discriminate.
      injection E as ->. exists [], [mainid]. split; [reflexivity|]. split; [discriminate|].
      split; [reflexivity|]. intros e1 e2 H He1 He2.
      destruct e1 as [|u e1]; [congruence|]. destruct e1; [|destruct e1; discriminate].
      injection H as _ H. subst e2. congruence.
    + apply str_eqb_eq in E. subst x. exists p, [vendor]. split; [reflexivity|].
      split; [discriminate|]. split; [apply prev_fallback_last_vendor|].
      intros e1 e2 H He1 He2.
      destruct e1 as [|u e1]; [congruence|]. destruct e1; [|destruct e1; discriminate].
      injection H as _ H. subst e2. congruence.
Qed.

Corollary previous_root_shorter st gsrc root : root <> [] ->
  length (y_previous_root st gsrc root) < length root.
Proof.
  intros H. destruct (previous_root_spec st gsrc root H) as [r' [ext [E [Hne [-> _]]]]].
  rewrite E, app_length. destruct ext; [congruence|simpl; lia].
Qed.

(** [pkgDir] terminates: fuel [length root + 1] is enough *)
Theorem pkg_dir_fuel st gsrc ip : forall fuel root, length root < fuel ->
  y_pkg_dir st gsrc fuel root ip <> OutOfFuel.
Proof.
  induction fuel as [|f IH]; intros root Hl; [lia|]. cbn [y_pkg_dir].
  destruct (st _); [discriminate|]. destruct (st _); [discriminate|].
  destruct root as [|a r]; [discriminate|]. apply IH.
  pose proof (previous_root_shorter st gsrc (a :: r) ltac:(discriminate)). lia.
Qed.

(* ------------------------------------------------------------------ *)
(** * Resolution: Y = G under the side conditions *)

Lemma g_walk_unfold hasgo gsrc rd ip :
  g_vendor_walk hasgo gsrc rd ip =
  if hasgo (gsrc ++ rev rd ++ vendor :: ip) then Some (gsrc ++ rev rd ++ vendor :: ip)
  else match rd with [] => None | _ :: up => g_vendor_walk hasgo gsrc up ip end.
Proof. destruct rd; reflexivity. Qed.

(** levels without a candidate can be skipped *)
Lemma g_walk_skip hasgo gsrc ip r' : forall ext,
  (forall e1 e2, ext = e1 ++ e2 -> e1 <> [] -> hasgo (gsrc ++ (r' ++ e1) ++ vendor :: ip) = false) ->
  g_vendor_walk hasgo gsrc (rev (r' ++ ext)) ip = g_vendor_walk hasgo gsrc (rev r') ip.
Proof.
  induction ext as [|x e IH] using rev_ind; intros H.
  - now rewrite app_nil_r.
  - rewrite app_assoc, rev_unit, g_walk_unfold.
    replace (rev (x :: rev (r' ++ e))) with (r' ++ e ++ [x])
      by (simpl; now rewrite rev_involutive, <- app_assoc).
    rewrite (H (e ++ [x]) []) by (rewrite ?app_nil_r; try reflexivity; destruct e; discriminate).
    apply IH. intros e1 e2 -> Hne. apply (H e1 (e2 ++ [x])); [now rewrite app_assoc|assumption].
Qed.

Lemma prefixes_self d : In d (prefixes d).
Proof. induction d as [|x d IH]; simpl; [now left|]. right. now apply in_map. Qed.

Lemma prefixes_app a b : forall p, In p (prefixes a) -> In p (prefixes (a ++ b)).
Proof.
  induction a as [|x a IH]; intros p H; simpl in *.
  - destruct H as [<-|[]]. destruct b; simpl; now left.
  - destruct H as [<-|H]; [now left|]. right.
    apply in_map_iff in H as [q [<- Hq]]. apply in_map. now apply IH.
Qed.

Section Resolve.
  Variables (st hasgo : statfn) (gsrc ip : path).
  Hypothesis Hclosed : fs_closed st.
  Hypothesis Hgo : fs_hasgo_dir st hasgo.
  Hypothesis Hplain : plain ip = true.

  Definition nogo_at (a : path) : Prop :=
    st (gsrc ++ a ++ vendor :: ip) = true -> hasgo (gsrc ++ a ++ vendor :: ip) = true.
  Definition shadow_at (r : path) : Prop :=
    r <> [] ->
    st (gsrc ++ r ++ vendor :: ip) = true
    \/ st (gsrc ++ y_effective_pkg r ip) = false
    \/ g_resolve st hasgo gsrc r ip = Some (gsrc ++ y_effective_pkg r ip).

  Lemma hasgo_false c : st c = false -> hasgo c = false.
  Proof. intros H. destruct (hasgo c) eqn:E; [|reflexivity]. apply Hgo in E. congruence. Qed.

  Lemma resolve_agree_fuel : forall fuel r, length r < fuel ->
    (forall a, In a (prefixes r) -> nogo_at a) ->
    (forall a, In a (prefixes r) -> shadow_at a) ->
    found_dir (y_pkg_dir st gsrc fuel r ip) = g_resolve st hasgo gsrc r ip.
  Proof.
    induction fuel as [|f IH]; intros r Hlen Hnogo Hshadow; [lia|].
    cbn [y_pkg_dir]. rewrite <- (app_assoc r [vendor] ip). cbn [app].
    destruct (st (gsrc ++ r ++ vendor :: ip)) eqn:E1.
    - (* found in r/vendor *)
      cbn [found_dir]. unfold g_resolve. rewrite g_walk_unfold, rev_involutive.
      rewrite (Hnogo r (prefixes_self r) E1). reflexivity.
    - pose proof (hasgo_false _ E1) as G1.
      destruct (st (gsrc ++ y_effective_pkg r ip)) eqn:E2.
      + cbn [found_dir]. destruct r as [|x r].
        * rewrite eff_root_nil in * by assumption. unfold g_resolve. simpl rev.
          rewrite g_walk_unfold. simpl rev. simpl app at 2. simpl in G1. rewrite G1, E2. reflexivity.
        * destruct (Hshadow (x :: r) (prefixes_self _) ltac:(discriminate)) as [H|[H|H]]; try congruence. now rewrite H.
      + destruct r as [|x r].
        * cbn [found_dir]. rewrite eff_root_nil in E2 by assumption. unfold g_resolve. simpl rev.
          rewrite g_walk_unfold. simpl rev. simpl app at 2. simpl in G1. rewrite G1, E2. reflexivity.
        * destruct (previous_root_spec st gsrc (x :: r) ltac:(discriminate)) as [r' [ext [E [Hext [Hprev Hlev]]]]].
          rewrite Hprev. rewrite IH.
          -- unfold g_resolve. rewrite E. rewrite g_walk_skip; [reflexivity|].
             intros e1 e2 He He1. destruct e2 as [|b e2].
             ++ rewrite app_nil_r in He. subst e1. rewrite <- E. exact G1.
             ++ apply hasgo_false. destruct (st (gsrc ++ (r' ++ e1) ++ vendor :: ip)) eqn:E3; [|reflexivity].
                replace (gsrc ++ (r' ++ e1) ++ vendor :: ip) with ((gsrc ++ (r' ++ e1) ++ [vendor]) ++ ip) in E3
                  by (now rewrite <- !app_assoc).
                apply Hclosed in E3. rewrite (Hlev e1 (b :: e2) He He1 ltac:(discriminate)) in E3. discriminate.
          -- apply (f_equal (@length str)) in E. rewrite app_length in E. simpl in E, Hlen.
             destruct ext; [congruence|simpl in E; lia].
          -- intros a Ha. apply Hnogo. rewrite E. now apply prefixes_app.
          -- intros a Ha. apply Hshadow. rewrite E. now apply prefixes_app.
  Qed.
End Resolve.

Lemma implb_true a b : implb a b = true <-> (a = true -> b = true).
Proof. destruct a, b; simpl; intuition congruence. Qed.

Lemma opt_path_eqb_eq a b : opt_path_eqb a b = true <-> a = b.
Proof.
  destruct a, b; simpl; try (split; congruence). rewrite path_eqb_eq. split; congruence.
Qed.

(** C16, resolution part, under the decidable side condition [resolve_side] *)
Theorem resolve_agree st hasgo gsrc d ip :
  fs_closed st -> fs_hasgo_dir st hasgo -> resolve_side st hasgo gsrc d ip = true ->
  y_resolve st gsrc d ip = g_resolve st hasgo gsrc d ip.
Proof.
  intros Hc Hg Hs. unfold resolve_side in Hs.
  apply andb_true_iff in Hs as [Hs Hsh]. apply andb_true_iff in Hs as [Hp Hn].
  unfold y_resolve. apply resolve_agree_fuel; try assumption; [lia| |].
  - intros a Ha. unfold nogo_free in Hn. rewrite forallb_forall in Hn.
    specialize (Hn a Ha). cbv zeta in Hn. unfold nogo_at. apply implb_true. exact Hn.
  - intros a Ha Hne. unfold shadow_free in Hsh. rewrite forallb_forall in Hsh.
    specialize (Hsh a Ha). destruct a as [|x a]; [congruence|].
    apply orb_true_iff in Hsh as [Hsh|Hsh]; [apply orb_true_iff in Hsh as [Hsh|Hsh]|].
    + now left.
    + right; left. now apply negb_true_iff in Hsh.
    + right; right. now apply opt_path_eqb_eq.
Qed.

(** the relative branch agrees when [rPath] really is the importing directory relative to
    [Dir(interp.name)] — true along a chain of relative imports from the entry file, false for a
    package found through GOPATH *)
Theorem relative_agree entry rpath dir ip :
  dir = entry ++ y_rel_rpath rpath -> y_rel_dir entry rpath ip = clean (dir ++ ip).
Proof. intros ->. unfold y_rel_dir. now rewrite app_assoc. Qed.

(** the [rPath] handed to the imports of a package is that package's directory relative to
    GOPATH/src (so that [y_resolve] from the importing *directory* is what importSrc computes),
    provided the import path has no "vendor" element before its last one *)
Lemma keep_until_notin w t : ~ In w t -> keep_until w t = t.
Proof.
  induction t as [|x t IH]; simpl; [reflexivity|]. intros H.
  destruct (str_eqb_spec x w) as [->|Hn]; [exfalso; apply H; now left|].
  rewrite IH; [reflexivity|]. intros Hin. apply H. now right.
Qed.

Lemma eff_kept_novendor (root ip : path) :
  ip <> [] -> ~ In (last root []) (removelast ip) -> eff_kept root ip = ip.
Proof.
  intros Hne Hnv. unfold eff_kept. destruct (rev ip) as [|lst t] eqn:E.
  { apply (f_equal (@length str)) in E. rewrite rev_length in E. destruct ip; [congruence|discriminate]. }
  apply (f_equal (@rev str)) in E. rewrite rev_involutive in E. simpl in E.
  destruct (2 <=? length root); [|reflexivity].
  rewrite E, removelast_app_unit in Hnv. rewrite keep_until_notin; [now rewrite E|].
  intros H. apply Hnv. now apply in_rev in H.
Qed.

Theorem sub_rpath_is_dir st gsrc ip :
  plain ip = true -> ip <> [] -> ~ In vendor (removelast ip) ->
  forall fuel root dir rp, plain root = true ->
    y_pkg_dir st gsrc fuel root ip = Found dir rp -> dir = gsrc ++ y_effective_pkg rp ip.
Proof.
  intros Hp Hne Hnv. induction fuel as [|f IH]; intros root dir rp Hr H; [discriminate|].
  cbn [y_pkg_dir] in H. destruct (st (gsrc ++ (root ++ [vendor]) ++ ip)).
  - injection H as <- <-. f_equal.
    rewrite effective_pkg_spec; try assumption.
    + rewrite eff_kept_novendor; [reflexivity|assumption|]. now rewrite last_app_unit.
    + rewrite plain_app, Hr. reflexivity.
  - destruct (st (gsrc ++ y_effective_pkg root ip)).
    + now injection H as <- <-.
    + destruct root as [|a r]; [discriminate|].
      destruct (previous_root_spec st gsrc (a :: r) ltac:(discriminate)) as [r' [ext [E [_ [Hprev _]]]]].
      rewrite Hprev in H. eapply IH; [|exact H].
      rewrite E, plain_app in Hr. now apply andb_true_iff in Hr as [Hr _].
Qed.

(* ------------------------------------------------------------------ *)
(** * The filesystem is only used through its Stat answers *)

Lemma prev_loop_ext st1 st2 prefix : (forall p, st1 p = st2 p) ->
  forall fuel parent, y_prev_loop st1 prefix fuel parent = y_prev_loop st2 prefix fuel parent.
Proof.
  intros H; induction fuel as [|f IH]; intros parent; [reflexivity|]. cbn [y_prev_loop].
  rewrite H. destruct (st2 _); [reflexivity|]. destruct (path_eqb parent prefix); [reflexivity|].
  destruct (path_eqb _ prefix); [reflexivity|]. destruct (removelast parent); [reflexivity|]. apply IH.
Qed.

Lemma previous_root_ext st1 st2 gsrc root : (forall p, st1 p = st2 p) ->
  y_previous_root st1 gsrc root = y_previous_root st2 gsrc root.
Proof. intros H. unfold y_previous_root. now rewrite (prev_loop_ext st1 st2 gsrc H). Qed.

Theorem pkg_dir_ext st1 st2 gsrc ip : (forall p, st1 p = st2 p) ->
  forall fuel root, y_pkg_dir st1 gsrc fuel root ip = y_pkg_dir st2 gsrc fuel root ip.
Proof.
  intros H; induction fuel as [|f IH]; intros root; [reflexivity|]. cbn [y_pkg_dir].
  rewrite !H. destruct (st2 _); [reflexivity|]. destruct (st2 _); [reflexivity|].
  destruct root; [reflexivity|]. rewrite (previous_root_ext st1 st2 gsrc _ H). apply IH.
Qed.

(** two trees with the same directories resolve every import alike, whatever else differs *)
Theorem fs_agnostic_trees t1 t2 gsrc root ip :
  (forall p, tree_stat t1 p = tree_stat t2 p) ->
  y_resolve (tree_stat t1) gsrc root ip = y_resolve (tree_stat t2) gsrc root ip.
Proof. intros H. unfold y_resolve. now rewrite (pkg_dir_ext _ _ gsrc ip H). Qed.

Lemma tree_stat_closed t : fs_closed (tree_stat t).
Proof.
  intros p q H. unfold tree_stat in *. apply existsb_exists in H as [k [Hk Hp]].
  apply existsb_exists. exists k. split; [assumption|].
  apply is_prefix_spec in Hp as [r Hr]. apply is_prefix_spec. exists (q ++ r). now rewrite Hr, app_assoc.
Qed.

Lemma tree_hasgo_dir t : fs_hasgo_dir (tree_stat t) (tree_hasgo t).
Proof.
  intros p H. unfold tree_hasgo, tree_stat in *. apply existsb_exists in H as [k [Hk Hp]].
  apply existsb_exists. exists k. split; [assumption|]. apply path_eqb_eq in Hp. subst p.
  apply is_prefix_spec. exists []. now rewrite app_nil_r.
Qed.

(* ------------------------------------------------------------------ *)
(** * The loader (importSrc): each import path once, termination, no cycle among loaded packages *)

Definition keys (m : list (path * path)) : list path := map fst m.

Definition inits (l : list event) : list path :=
  flat_map (fun ev => match ev with EvInit d => [d] | _ => [] end) l.

Lemma inits_app a b : inits (a ++ b) = inits a ++ inits b.
Proof. unfold inits. now rewrite flat_map_app. Qed.

Lemma inits_edges memo dir imps : inits (y_edges memo dir imps) = [].
Proof. unfold y_edges. induction imps; simpl; [reflexivity|assumption]. Qed.

Lemma assoc_none k m : assoc k m = None <-> ~ In k (keys m).
Proof.
  induction m as [|[k' v] m IH]; simpl; [tauto|].
  destruct (path_eqb_spec k' k) as [->|Hn].
  - split; [discriminate|]. intros H. exfalso. apply H. now left.
  - rewrite IH. split; [intros H [E|E]; [congruence|tauto] | tauto].
Qed.

Lemma assoc_some k m v : assoc k m = Some v -> In (k, v) m.
Proof.
  induction m as [|[k' v'] m IH]; simpl; [discriminate|].
  destruct (path_eqb_spec k' k) as [->|Hn]; [intros [= ->]; now left | intros H; right; auto].
Qed.

Lemma keys_app a b : keys (a ++ b) = keys a ++ keys b.
Proof. unfold keys. apply map_app. Qed.

Lemma NoDup_app_intro (A : Type) (a b : list A) :
  NoDup a -> NoDup b -> (forall x, In x a -> In x b -> False) -> NoDup (a ++ b).
Proof.
  induction a as [|x a IH]; intros Ha Hb Hd; simpl; [assumption|].
  inversion Ha; subst. constructor.
  - intros Hin. apply in_app_or in Hin as [Hin|Hin]; [contradiction|]. apply (Hd x); [now left|assumption].
  - apply IH; try assumption. intros y Hy. apply Hd. now right.
Qed.

(** [ystep s s']: what one call of importSrc may do to the interpreter state *)
Definition ystep (s s' : ystate) : Prop :=
  incl (y_rdir s) (y_rdir s') /\
  exists m l, y_memo s' = y_memo s ++ m /\ y_log s' = y_log s ++ l /\ inits l = map snd m
              /\ (forall k, In k (keys m) -> ~ In k (y_rdir s) /\ In k (y_rdir s'))
              /\ NoDup (keys m).

Lemma ystep_refl s : ystep s s.
Proof.
  split; [apply incl_refl|]. exists [], []. rewrite !app_nil_r.
  split; [reflexivity|]. split; [reflexivity|]. split; [reflexivity|].
  split; [intros k []|constructor].
Qed.

Lemma ystep_trans s1 s2 s3 : ystep s1 s2 -> ystep s2 s3 -> ystep s1 s3.
Proof.
  intros [I1 [m1 [l1 [M1 [L1 [N1 [K1 D1]]]]]]] [I2 [m2 [l2 [M2 [L2 [N2 [K2 D2]]]]]]].
  split; [eapply incl_tran; eassumption|]. exists (m1 ++ m2), (l1 ++ l2).
  rewrite M2, M1, L2, L1, !app_assoc, inits_app, map_app, N1, N2.
  split; [reflexivity|]. split; [reflexivity|]. split; [reflexivity|].
  split; [intros k H; split|].
  - rewrite keys_app in H. apply in_app_or in H as [H|H].
    + now apply K1.
    + intros Hin. apply (proj1 (K2 k H)). now apply I1.
  - rewrite keys_app in H. apply in_app_or in H as [H|H].
    + apply I2. now apply K1.
    + now apply K2.
  - rewrite keys_app. apply NoDup_app_intro; try assumption.
    intros k Hk1 Hk2. apply (proj1 (K2 k Hk2)). now apply K1.
Qed.

Definition y_find (c : ctx) (rpath ip : path) : found :=
  if is_rel ip then Found (y_rel_dir (c_entry c) rpath ip) (y_rel_rpath rpath)
  else match y_pkg_dir (tree_stat (c_tree c)) (c_gsrc c) (S (length rpath)) rpath ip with
       | NotFound => y_pkg_dir (tree_stat (c_tree c)) (c_gsrc c) (S (length (c_retry c))) (c_retry c) ip
       | r => r
       end.

Definition y_mark (s : ystate) (ip : path) : ystate :=
  {| y_memo := y_memo s; y_rdir := ip :: y_rdir s; y_log := y_log s |}.

Definition y_done (s : ystate) (ip dir : path) (imps : list path) : ystate :=
  let memo := y_memo s ++ [(ip, dir)] in
  {| y_memo := memo; y_rdir := y_rdir s; y_log := y_log s ++ EvInit dir :: y_edges memo dir imps |}.

Lemma y_load_S c f s rpath ip0 :
  y_load c (S f) s rpath ip0 =
  match assoc (y_key ip0) (y_memo s) with
  | Some _ => (s, None)
  | None =>
      match y_find c rpath (y_key ip0) with
      | OutOfFuel => (s, Some EFuel)
      | NotFound => (s, Some ENotFound)
      | Found dir rp =>
          if mem_path (y_key ip0) (y_rdir s) then (s, Some ECycle)
          else match imports_of (c_tree c) dir with
               | None => (y_mark s (y_key ip0), Some (if tree_stat (c_tree c) dir then ENoGo else ENotFound))
               | Some imps =>
                   match fold_load (fun s i => y_load c f s (y_effective_pkg rp (y_key ip0)) i)
                                   (y_mark s (y_key ip0)) imps with
                   | (st2, None) => (y_done st2 (y_key ip0) dir imps, None)
                   | e => e
                   end
               end
      end
  end.
Proof. reflexivity. Qed.

Lemma fold_load_pres (S : Type) (ld : S -> path -> S * option err) (R : S -> S -> Prop) :
  (forall s, R s s) -> (forall a b c, R a b -> R b c -> R a c) ->
  forall imps, (forall s i s' e, In i imps -> ld s i = (s', e) -> R s s') ->
  forall s s' e, fold_load ld s imps = (s', e) -> R s s'.
Proof.
  intros Hr Ht; induction imps as [|i r IH]; intros Hld s s' e H; simpl in H.
  - injection H as <- _. apply Hr.
  - destruct (ld s i) as [s1 [e1|]] eqn:E.
    + injection H as <- _. eapply Hld; [now left|exact E].
    + eapply Ht; [eapply Hld; [now left|exact E]|].
      eapply IH; [|exact H]. intros; eapply Hld; [right|]; eassumption.
Qed.

Lemma ystep_mark s ip : ystep s (y_mark s ip).
Proof.
  split; [apply incl_tl, incl_refl|]. exists [], []. simpl. rewrite !app_nil_r.
  split; [reflexivity|]. split; [reflexivity|]. split; [reflexivity|].
  split; [intros k []|constructor].
Qed.

Lemma ystep_done s st2 ip dir imps :
  ~ In ip (y_rdir s) -> ystep (y_mark s ip) st2 -> ystep s (y_done st2 ip dir imps).
Proof.
  intros Hnot [I [m [l [M [L [N [K D]]]]]]]. simpl in *.
  split; [intros k Hk; apply I; now right|].
  exists (m ++ [(ip, dir)]), (l ++ EvInit dir :: y_edges (y_memo st2 ++ [(ip, dir)]) dir imps).
  simpl. rewrite M, L, !app_assoc.
  split; [reflexivity|]. split; [now rewrite <- !app_assoc|].
  split; [rewrite inits_app, map_app, N; simpl; now rewrite inits_edges|].
  split.
  - intros k Hk. rewrite keys_app in Hk. apply in_app_or in Hk as [Hk|Hk].
    + destruct (K k Hk) as [K1 K2]. split; [|assumption]. intros Hin. apply K1. now right.
    + simpl in Hk. destruct Hk as [<-|[]]. split; [assumption|]. apply I. now left.
  - rewrite keys_app. apply NoDup_app_intro; [assumption|repeat constructor; intros []|].
    intros k Hk1 Hk2. simpl in Hk2. destruct Hk2 as [<-|[]]. apply (proj1 (K ip Hk1)). now left.
Qed.

Theorem y_load_step c : forall fuel s rpath ip s' e,
  y_load c fuel s rpath ip = (s', e) -> ystep s s'.
Proof.
  induction fuel as [|f IH]; intros s rpath ip s' e H.
  - simpl in H. injection H as <- _. apply ystep_refl.
  - rewrite y_load_S in H.
    destruct (assoc _ _); [injection H as <- _; apply ystep_refl|].
    destruct (y_find _ _ _) as [dir rp| |]; try (injection H as <- _; apply ystep_refl).
    destruct (mem_path _ _) eqn:Em; [injection H as <- _; apply ystep_refl|].
    apply mem_path_not_In in Em.
    destruct (imports_of _ _) as [imps|]; [|injection H as <- _; apply ystep_mark].
    destruct (fold_load _ _ _) as [st2 [e2|]] eqn:Ef.
    + injection H as <- _. eapply ystep_trans; [apply ystep_mark|].
      eapply (fold_load_pres _ _ ystep ystep_refl ystep_trans); [|exact Ef].
      intros ? ? ? ? _ Hx; cbv beta in Hx; eapply IH; exact Hx.
    + injection H as <- _. apply ystep_done; [assumption|].
      eapply (fold_load_pres _ _ ystep ystep_refl ystep_trans); [|exact Ef].
      intros ? ? ? ? _ Hx; cbv beta in Hx; eapply IH; exact Hx.
Qed.

(** each import path is evaluated at most once, and the init functions that ran are exactly those
    of the memoised packages, in order *)
Theorem load_once c fuel rpath ip s' e :
  y_load c fuel y_init rpath ip = (s', e) ->
  NoDup (keys (y_memo s')) /\ inits (y_log s') = map snd (y_memo s').
Proof.
  intros H. apply y_load_step in H as [_ [m [l [M [L [N [_ D]]]]]]].
  simpl in M, L. now rewrite M, L.
Qed.

Theorem load_once_file c fuel rpath imps s' e :
  fold_load (fun s i => y_load c fuel s rpath i) y_init imps = (s', e) ->
  NoDup (keys (y_memo s')) /\ inits (y_log s') = map snd (y_memo s').
Proof.
  intros H.
  apply (fold_load_pres _ _ ystep ystep_refl ystep_trans) in H as [_ [m [l [M [L [N [_ D]]]]]]].
  - simpl in M, L. now rewrite M, L.
  - intros ? ? ? ? _ Hx; cbv beta in Hx; eapply y_load_step; exact Hx.
Qed.

(** ** Termination: the set [rdir] grows at each level and is bounded by the import paths of the program *)

Definition mu (U rdir : list path) : nat := length (filter (fun k => negb (mem_path k rdir)) U).

Lemma filter_length_le (A : Type) (p q : A -> bool) l :
  (forall x, p x = true -> q x = true) -> length (filter p l) <= length (filter q l).
Proof.
  intros H; induction l as [|a l IH]; simpl; [lia|].
  destruct (p a) eqn:Ep; [rewrite (H a Ep); simpl; lia|]. destruct (q a); simpl; lia.
Qed.

Lemma filter_length_lt (A : Type) (p q : A -> bool) l a :
  (forall x, p x = true -> q x = true) -> In a l -> q a = true -> p a = false ->
  length (filter p l) < length (filter q l).
Proof.
  intros H; induction l as [|b l IH]; simpl; intros Hin Hq Hp; [contradiction|].
  destruct Hin as [->|Hin].
  - rewrite Hp, Hq. simpl. pose proof (filter_length_le A p q l H). lia.
  - specialize (IH Hin Hq Hp). destruct (p b) eqn:Ep; [rewrite (H b Ep); simpl; lia|].
    destruct (q b); simpl; lia.
Qed.

Lemma mu_mono U r r' : incl r r' -> mu U r' <= mu U r.
Proof.
  intros H. apply filter_length_le. intros x Hx. apply negb_true_iff in Hx. apply negb_true_iff.
  apply mem_path_not_In in Hx. apply mem_path_not_In. auto.
Qed.

Lemma mu_mark U r k : In k U -> ~ In k r -> mu U (k :: r) < mu U r.
Proof.
  intros HU Hr. apply (filter_length_lt _ _ _ U k).
  - intros x Hx. apply negb_true_iff in Hx. apply negb_true_iff.
    apply mem_path_not_In in Hx. apply mem_path_not_In. intros H. apply Hx. now right.
  - assumption.
  - apply negb_true_iff. now apply mem_path_not_In.
  - apply negb_false_iff. apply mem_path_In. now left.
Qed.

Lemma imports_of_In t d imps i : imports_of t d = Some imps -> In i imps -> In i (all_imports t).
Proof.
  unfold all_imports. induction t as [|k t IH]; simpl; [discriminate|].
  destruct (path_eqb (pdir k) d).
  - intros [= <-] Hi. apply in_or_app. now left.
  - intros H Hi. apply in_or_app. right. now apply IH.
Qed.

Lemma y_find_fuel c rpath ip : y_find c rpath ip <> OutOfFuel.
Proof.
  unfold y_find. destruct (is_rel ip); [discriminate|].
  pose proof (pkg_dir_fuel (tree_stat (c_tree c)) (c_gsrc c) ip (S (length rpath)) rpath ltac:(lia)) as H1.
  destruct (y_pkg_dir _ _ (S (length rpath)) rpath ip); [discriminate| |congruence].
  apply pkg_dir_fuel. lia.
Qed.

Section Termination.
  Variable c : ctx.
  Variable U : list path.
  Hypothesis HU : forall i, In i (all_imports (c_tree c)) -> In (y_key i) U.

  Lemma y_load_no_fuel : forall fuel s rpath ip,
    In (y_key ip) U -> mu U (y_rdir s) < fuel -> snd (y_load c fuel s rpath ip) <> Some EFuel.
  Proof.
    induction fuel as [|f IH]; intros s rpath ip Hin Hmu; [lia|].
    rewrite y_load_S.
    destruct (assoc _ _); [discriminate|].
    pose proof (y_find_fuel c rpath (y_key ip)) as Hff.
    destruct (y_find _ _ _) as [dir rp| |]; [|discriminate|congruence].
    destruct (mem_path _ _) eqn:Em; [discriminate|]. apply mem_path_not_In in Em.
    destruct (imports_of _ _) as [imps|] eqn:Ei; [|simpl; destruct (tree_stat _ _); discriminate].
    assert (Hm : mu U (y_rdir (y_mark s (y_key ip))) < f).
    { simpl. pose proof (mu_mark U (y_rdir s) (y_key ip) Hin Em). lia. }
    assert (Hfold : forall l s0, incl l imps -> mu U (y_rdir s0) < f ->
              snd (fold_load (fun s i => y_load c f s (y_effective_pkg rp (y_key ip)) i) s0 l) <> Some EFuel).
    { induction l as [|i l IHl]; intros s0 Hl Hs0; simpl; [discriminate|].
      destruct (y_load c f s0 (y_effective_pkg rp (y_key ip)) i) as [s1 [e1|]] eqn:El.
      - pose proof (IH s0 (y_effective_pkg rp (y_key ip)) i) as Hi. rewrite El in Hi. apply Hi; [|assumption].
        apply HU. eapply imports_of_In; [exact Ei|]. apply Hl. now left.
      - apply IHl; [intros x Hx; apply Hl; now right|].
        apply y_load_step in El as [Hinc _]. pose proof (mu_mono U _ _ Hinc). lia. }
    specialize (Hfold imps (y_mark s (y_key ip)) (incl_refl _) Hm).
    destruct (fold_load _ _ _) as [st2 [e2|]]; [exact Hfold|discriminate].
  Qed.
End Termination.

Lemma mu_le_length U r : mu U r <= length U.
Proof. unfold mu. induction U as [|a U IH]; simpl; [lia|]. destruct (negb _); simpl; lia. Qed.

(** [EvalPath] on an import path never runs out of fuel: importSrc terminates on every program,
    cyclic or not *)
Theorem load_terminates_path c e : snd (y_run_path c e) <> Some EFuel.
Proof.
  unfold y_run_path.
  pose proof (y_load_no_fuel c (y_key e :: map y_key (all_imports (c_tree c)))
                (fun i Hi => or_intror (in_map y_key _ _ Hi))
                (load_fuel (c_tree c)) y_init [mainid] e (or_introl eq_refl)) as H.
  destruct (y_load _ _ _ _ _) as [st [x|]]; [|discriminate]. simpl in *. apply H.
  pose proof (mu_le_length (y_key e :: map y_key (all_imports (c_tree c))) []).
  simpl in H0. rewrite map_length in H0. unfold load_fuel. lia.
Qed.

Theorem load_terminates_file c : snd (y_run_file c) <> Some EFuel.
Proof.
  unfold y_run_file. destruct (imports_of _ _) as [imps|] eqn:Ei; [|discriminate].
  set (U := map y_key (all_imports (c_tree c))).
  assert (HU : forall i, In i (all_imports (c_tree c)) -> In (y_key i) U) by (intros; now apply in_map).
  assert (Hfold : forall l s0, incl l imps ->
            snd (fold_load (fun s i => y_load c (load_fuel (c_tree c)) s [mainid] i) s0 l) <> Some EFuel).
  { induction l as [|i l IHl]; intros s0 Hl; cbn [fold_load snd]; [discriminate|].
    destruct (y_load c (load_fuel (c_tree c)) s0 [mainid] i) as [s1 [e1|]] eqn:El.
    - pose proof (y_load_no_fuel c U HU (load_fuel (c_tree c)) s0 [mainid] i) as Hi. rewrite El in Hi.
      apply Hi.
      + apply HU. eapply imports_of_In; [exact Ei|]. apply Hl. now left.
      + pose proof (mu_le_length U (y_rdir s0)). unfold U in H. rewrite map_length in H.
        unfold load_fuel. subst U. lia.
    - apply IHl. intros x Hx. apply Hl. now right. }
  specialize (Hfold imps y_init (incl_refl _)).
  destruct (fold_load _ _ _) as [st [x|]]; [exact Hfold|discriminate].
Qed.

(** ** A successful load is a topological order: no cycle among the loaded packages *)

Section Acyclic.
  Variable c : ctx.

  (** every package in the memo has all its imports earlier in the memo *)
  Definition topo (memo : list (path * path)) : Prop :=
    forall m1 k d m2 imps i, memo = m1 ++ (k, d) :: m2 ->
      imports_of (c_tree c) d = Some imps -> In i imps -> In (y_key i) (keys m1).

  Lemma y_load_ok_key : forall fuel s rpath ip s',
    y_load c fuel s rpath ip = (s', None) -> In (y_key ip) (keys (y_memo s')).
  Proof.
    destruct fuel as [|f]; intros s rpath ip s' H; [discriminate|].
    rewrite y_load_S in H.
    destruct (assoc _ _) eqn:Ea.
    - injection H as <-. destruct (assoc_none (y_key ip) (y_memo s)) as [_ Hn].
      destruct (in_dec (list_eq_dec (list_eq_dec ascii_dec)) (y_key ip) (keys (y_memo s))); [assumption|].
      rewrite (Hn n) in Ea. discriminate.
    - destruct (y_find _ _ _) as [dir rp| |]; try discriminate.
      destruct (mem_path _ _); [discriminate|].
      destruct (imports_of _ _) as [imps|]; [|discriminate].
      destruct (fold_load _ _ _) as [st2 [e2|]]; [discriminate|].
      injection H as <-. simpl. rewrite keys_app. apply in_or_app. right. now left.
  Qed.

  Lemma ystep_keys s s' : ystep s s' -> incl (keys (y_memo s)) (keys (y_memo s')).
  Proof. intros [_ [m [l [M _]]]]. rewrite M, keys_app. now apply incl_appl, incl_refl. Qed.

  Lemma fold_ok_keys fuel rp : forall imps s s',
    fold_load (fun s i => y_load c fuel s rp i) s imps = (s', None) ->
    forall i, In i imps -> In (y_key i) (keys (y_memo s')).
  Proof.
    induction imps as [|j r IH]; intros s s' H i Hi; [contradiction|]. simpl in H.
    destruct (y_load c fuel s rp j) as [s1 [e1|]] eqn:El; [discriminate|].
    destruct Hi as [<-|Hi].
    - apply y_load_ok_key in El.
      assert (ystep s1 s') as Hs.
      { eapply (fold_load_pres _ _ ystep ystep_refl ystep_trans); [|exact H].
        intros ? ? ? ? _ Hx; cbv beta in Hx; eapply y_load_step; exact Hx. }
      now apply (ystep_keys _ _ Hs).
    - eapply IH; eassumption.
  Qed.

  Lemma app_unit_cases (A : Type) (l : list A) a m1 b m2 :
    l ++ [a] = m1 ++ b :: m2 ->
    (m2 = [] /\ l = m1 /\ a = b) \/ exists m2', m2 = m2' ++ [a] /\ l = m1 ++ b :: m2'.
  Proof.
    intros H. destruct (app_unit_split _ _ _ _ _ H ltac:(discriminate)) as [e2' [He Hl]].
    destruct e2' as [|b' e'].
    - simpl in He. injection He as -> ->. rewrite app_nil_r in Hl. now left.
    - simpl in He. injection He as -> ->. right. now exists e'.
  Qed.

  Lemma y_load_topo : forall fuel s rpath ip s' e,
    topo (y_memo s) -> y_load c fuel s rpath ip = (s', e) -> topo (y_memo s').
  Proof.
    induction fuel as [|f IH]; intros s rpath ip s' e Ht H.
    - simpl in H. now injection H as <- _.
    - rewrite y_load_S in H.
      destruct (assoc _ _); [now injection H as <- _|].
      destruct (y_find _ _ _) as [dir rp| |]; try (now injection H as <- _).
      destruct (mem_path _ _); [now injection H as <- _|].
      destruct (imports_of _ _) as [imps|] eqn:Ei; [|now injection H as <- _].
      destruct (fold_load _ _ _) as [st2 [e2|]] eqn:Ef.
      + injection H as <- _.
        apply (fold_load_pres _ _ (fun a b => topo (y_memo a) -> topo (y_memo b))) in Ef; auto.
        intros ? ? ? ? _ Hx Hy; cbv beta in Hx; eapply IH; eassumption.
      + injection H as <- _. simpl.
        assert (Ht2 : topo (y_memo st2)).
        { apply (fold_load_pres _ _ (fun a b => topo (y_memo a) -> topo (y_memo b))) in Ef; auto.
          intros ? ? ? ? _ Hx Hy; cbv beta in Hx; eapply IH; eassumption. }
        intros m1 k d m2 imps' i Hsplit Himp Hi.
        apply app_unit_cases in Hsplit as [[-> [<- [= <- <-]]]|[m2' [-> Hm]]].
        * rewrite Ei in Himp. injection Himp as <-. eapply fold_ok_keys; eassumption.
        * eapply Ht2; eassumption.
  Qed.

  (** the import relation among the loaded packages, on import-path keys *)
  Definition key_edge (memo : list (path * path)) (k k' : path) : Prop :=
    exists d imps i, In (k, d) memo /\ imports_of (c_tree c) d = Some imps /\ In i imps /\ k' = y_key i.

  Lemma nodup_keys_unique m1 k d m2 d0 :
    NoDup (keys (m1 ++ (k, d) :: m2)) -> In (k, d0) (m1 ++ (k, d) :: m2) -> d0 = d.
  Proof.
    rewrite keys_app. simpl. intros Hnd Hin.
    apply NoDup_remove_2 in Hnd.
    apply in_app_or in Hin as [Hin|[Hin|Hin]].
    - exfalso. apply Hnd. apply in_or_app. left. now apply (in_map fst) in Hin.
    - congruence.
    - exfalso. apply Hnd. apply in_or_app. right. now apply (in_map fst) in Hin.
  Qed.

  Lemma reach_back memo : topo memo -> NoDup (keys memo) ->
    forall n m1 k d m2, length m1 <= n -> memo = m1 ++ (k, d) :: m2 ->
    forall k', clos_trans_1n _ (key_edge memo) k k' -> In k' (keys m1).
  Proof.
    intros Ht Hnd. induction n as [|n IH]; intros m1 k d m2 Hlen Hm k' Hreach.
    - destruct m1; [|simpl in Hlen; lia].
      exfalso. destruct Hreach as [y [d0 [imps [i [Hin [Himp [Hi ->]]]]]]|y z [d0 [imps [i [Hin [Himp [Hi ->]]]]]] _].
      + rewrite Hm in Hin, Hnd. pose proof (nodup_keys_unique [] k d m2 d0 Hnd Hin) as ->.
        apply (Ht [] k d m2 imps i Hm Himp Hi).
      + rewrite Hm in Hin, Hnd. pose proof (nodup_keys_unique [] k d m2 d0 Hnd Hin) as ->.
        apply (Ht [] k d m2 imps i Hm Himp Hi).
    - assert (Hedge : forall y, key_edge memo k y -> In y (keys m1)).
      { intros y [d0 [imps [i [Hin [Himp [Hi ->]]]]]].
        assert (d0 = d) as -> by (rewrite Hm in Hin, Hnd; eapply nodup_keys_unique; eassumption).
        eapply Ht; eassumption. }
      destruct Hreach as [y He|y z He Hrest]; [now apply Hedge|].
      apply Hedge in He. unfold keys in He. apply in_map_iff in He as [[y' dy] [Hy Hin]]. simpl in Hy. subst y'.
      apply in_split in Hin as [a [b ->]].
      assert (In z (keys a)).
      { eapply (IH a y dy (b ++ (k, d) :: m2)); [| |exact Hrest].
        - rewrite app_length in Hlen. simpl in Hlen. lia.
        - rewrite Hm. now rewrite <- app_assoc. }
      rewrite keys_app. apply in_or_app. now left.
  Qed.

  Theorem topo_acyclic memo : topo memo -> NoDup (keys memo) ->
    forall k, ~ clos_trans _ (key_edge memo) k k.
  Proof.
    intros Ht Hnd k Hc. apply clos_trans_t1n in Hc.
    assert (exists d, In (k, d) memo) as [d Hin].
    { inversion Hc as [y He|y z He _]; destruct He as [d [? [? [Hin _]]]]; now exists d. }
    apply in_split in Hin as [m1 [m2 Hm]].
    pose proof (reach_back memo Ht Hnd (length m1) m1 k d m2 (le_n _) Hm k Hc) as Hk.
    rewrite Hm, keys_app in Hnd. simpl in Hnd. apply NoDup_remove_2 in Hnd.
    apply Hnd. apply in_or_app. now left.
  Qed.

  (** every import of a loaded package is loaded *)
  Definition closed_memo (memo : list (path * path)) : Prop :=
    forall k d imps i, In (k, d) memo -> imports_of (c_tree c) d = Some imps -> In i imps ->
                       In (y_key i) (keys memo).

  Lemma topo_closed memo : topo memo -> closed_memo memo.
  Proof.
    intros Ht k d imps i Hin Himp Hi. apply in_split in Hin as [m1 [m2 Hm]].
    rewrite Hm at 1. rewrite keys_app. apply in_or_app. left. eapply Ht; eassumption.
  Qed.

  (** if importSrc succeeds, the packages it loaded are closed under import and contain no import
      cycle; equivalently: whenever following imports from the entry leads back to a package
      being loaded, an error is returned *)
  Theorem load_ok_acyclic fuel rpath ip s' :
    y_load c fuel y_init rpath ip = (s', None) ->
    In (y_key ip) (keys (y_memo s')) /\ closed_memo (y_memo s')
    /\ forall k, ~ clos_trans _ (key_edge (y_memo s')) k k.
  Proof.
    intros H. split; [eapply y_load_ok_key; exact H|].
    assert (Ht : topo (y_memo s')).
    { eapply y_load_topo; [|exact H]. intros m1 k d m2 imps i Hm. destruct m1; discriminate. }
    split; [now apply topo_closed|]. apply topo_acyclic; [assumption|].
    eapply load_once; exact H.
  Qed.
End Acyclic.

(* ------------------------------------------------------------------ *)
(** * Witnesses: where the faithful model leaves the specification (each replayed on the code) *)

Local Open Scope string_scope.

(** import "q/r" from src/p: src/p/q/r shadows src/q/r *)
Definition t_shadow : tree := [mkpkg "gp/src/p" ["q/r"]; mkpkg "gp/src/p/q/r" []; mkpkg "gp/src/q/r" []].
Definition c_shadow : ctx := mkctx "gp/src" "" t_shadow.

Lemma subdir_shadow_refuted :
  y_resolve (tree_stat t_shadow) (pth "gp/src") (pth "p") (pth "q/r") = Some (pth "gp/src/p/q/r")
  /\ g_resolve (tree_stat t_shadow) (tree_hasgo t_shadow) (pth "gp/src") (pth "p") (pth "q/r") = Some (pth "gp/src/q/r")
  /\ y_run_path c_shadow (pth "p") <> g_run_path c_shadow (pth "p").
Proof. split; [|split]; vm_compute; [reflexivity|reflexivity|discriminate]. Qed.

(** the same directory evaluated twice under two import paths *)
Definition t_twice : tree := [mkpkg "gp/src/p" ["q/r"; "p/q/r"]; mkpkg "gp/src/p/q/r" []; mkpkg "gp/src/q/r" []].
Lemma shadow_double_init_refuted :
  inits (fst (y_run_path (mkctx "gp/src" "" t_twice) (pth "p")))
  = [pth "gp/src/p/q/r"; pth "gp/src/p/q/r"; pth "gp/src/p"]
  /\ inits (fst (g_run_path (mkctx "gp/src" "" t_twice) (pth "p")))
  = [pth "gp/src/q/r"; pth "gp/src/p/q/r"; pth "gp/src/p"].
Proof. split; vm_compute; reflexivity. Qed.

(** a relative import in a package found through GOPATH is resolved against the entry file's directory *)
Definition t_relative : tree :=
  [mkpkg "work" ["q"]; mkpkg "gp/src/q" ["./r"]; mkpkg "gp/src/q/r" []; mkpkg "work/q/r" []].
Definition c_relative : ctx := mkctx "gp/src" "work" t_relative.

Lemma relative_refuted :
  y_rel_dir (pth "work") (pth "q") (pth "./r") = pth "work/q/r"
  /\ g_imp c_relative (pth "gp/src/q") (pth "./r") = Some (pth "gp/src/q/r")
  /\ In (EvEdge (pth "gp/src/q") (pth "./r") (pth "work/q/r")) (fst (y_run_file c_relative))
  /\ In (EvEdge (pth "gp/src/q") (pth "./r") (pth "gp/src/q/r")) (fst (g_run_file c_relative)).
Proof. repeat split; vm_compute; tauto. Qed.

(** the memo is keyed by the import path string: the second importer of "x" gets the first one's package *)
Definition t_alias : tree :=
  [mkpkg "gp/src/e" ["x"; "a"]; mkpkg "gp/src/e/vendor/x" []; mkpkg "gp/src/x" []; mkpkg "gp/src/a" ["x"]].
Definition c_alias : ctx := mkctx "gp/src" "" t_alias.

Lemma memo_alias_refuted :
  In (EvEdge (pth "gp/src/a") (pth "x") (pth "gp/src/e/vendor/x")) (fst (y_run_path c_alias (pth "e")))
  /\ In (EvEdge (pth "gp/src/a") (pth "x") (pth "gp/src/x")) (fst (g_run_path c_alias (pth "e")))
  /\ ~ In (EvInit (pth "gp/src/x")) (fst (y_run_path c_alias (pth "e")))
  /\ snd (y_run_path c_alias (pth "e")) = None /\ snd (g_run_path c_alias (pth "e")) = None.
Proof.
  repeat split; try (vm_compute; tauto).
  vm_compute. intros H. repeat (destruct H as [H|H]; [discriminate|]). exact H.
Qed.

(** ... and [rdir] too: a cycle is reported where there is none *)
Definition t_false_cycle : tree :=
  [mkpkg "gp/src/e" ["x"]; mkpkg "gp/src/x" ["p"]; mkpkg "gp/src/p" ["x"]; mkpkg "gp/src/p/vendor/x" []].
Definition c_false_cycle : ctx := mkctx "gp/src" "" t_false_cycle.

Lemma false_cycle_refuted :
  snd (y_run_path c_false_cycle (pth "e")) = Some ECycle
  /\ snd (g_run_path c_false_cycle (pth "e")) = None.
Proof. split; vm_compute; reflexivity. Qed.

(** import "a/a" is looked up as "a" *)
Definition t_xx : tree := [mkpkg "gp/src/e" ["a/a"]; mkpkg "gp/src/a" []; mkpkg "gp/src/a/a" []].
Lemma xx_collapse_refuted :
  In (EvEdge (pth "gp/src/e") (pth "a/a") (pth "gp/src/a")) (fst (y_run_path (mkctx "gp/src" "" t_xx) (pth "e")))
  /\ In (EvEdge (pth "gp/src/e") (pth "a/a") (pth "gp/src/a/a")) (fst (g_run_path (mkctx "gp/src" "" t_xx) (pth "e"))).
Proof. split; vm_compute; tauto. Qed.

(** a vendor directory that only contains sub-packages stops the search *)
Definition t_nogo : tree := [mkpkg "gp/src/e" ["x"]; mkpkg "gp/src/e/vendor/x/y" []; mkpkg "gp/src/x" []].
Lemma vendor_nogofiles_refuted :
  snd (y_run_path (mkctx "gp/src" "" t_nogo) (pth "e")) = Some ENoGo
  /\ snd (g_run_path (mkctx "gp/src" "" t_nogo) (pth "e")) = None
  /\ In (EvEdge (pth "gp/src/e") (pth "x") (pth "gp/src/x")) (fst (g_run_path (mkctx "gp/src" "" t_nogo) (pth "e"))).
Proof. repeat split; vm_compute; tauto. Qed.

(** an entry *file* inside GOPATH: its own vendor directory is not consulted when GOPATH/src has the package *)
Definition t_entry_file : tree := [mkpkg "gp/src/e" ["x"]; mkpkg "gp/src/e/vendor/x" []; mkpkg "gp/src/x" []].
Lemma entry_file_vendor_refuted :
  In (EvEdge (pth "gp/src/e") (pth "x") (pth "gp/src/x")) (fst (y_run_file (mkctx "gp/src" "gp/src/e" t_entry_file)))
  /\ In (EvEdge (pth "gp/src/e") (pth "x") (pth "gp/src/e/vendor/x")) (fst (g_run_file (mkctx "gp/src" "gp/src/e" t_entry_file))).
Proof. split; vm_compute; tauto. Qed.

(** a package imported relatively from the entry file gets a GOPATH-relative root it does not have *)
Definition t_rel_root : tree :=
  [mkpkg "work" ["./x"]; mkpkg "work/x" ["q"]; mkpkg "gp/src/q" []; mkpkg "gp/src/x/vendor/q" []].
Lemma relative_root_refuted :
  In (EvEdge (pth "work/x") (pth "q") (pth "gp/src/x/vendor/q")) (fst (y_run_file (mkctx "gp/src" "work" t_rel_root)))
  /\ In (EvEdge (pth "work/x") (pth "q") (pth "gp/src/q")) (fst (g_run_file (mkctx "gp/src" "work" t_rel_root))).
Proof. split; vm_compute; tauto. Qed.

(** ** Non-vacuity *)

(** nested vendor directories, the same import path in three places, a sub-package imported by its full path *)
Definition t_nested : tree :=
  [mkpkg "gp/src/a/b/c" ["x"; "y"; "z"; "a/b/c/sub"]; mkpkg "gp/src/a/vendor/x" []; mkpkg "gp/src/a/b/vendor/y" ["x"; "z"];
   mkpkg "gp/src/z" []; mkpkg "gp/src/a/b/vendor/x" []; mkpkg "gp/src/x" []; mkpkg "gp/src/a/b/c/sub" []].

Lemma resolve_side_inhabited :
  resolve_side (tree_stat t_nested) (tree_hasgo t_nested) (pth "gp/src") (pth "a/b/c") (pth "x") = true
  /\ g_resolve (tree_stat t_nested) (tree_hasgo t_nested) (pth "gp/src") (pth "a/b/c") (pth "x") = Some (pth "gp/src/a/b/vendor/x")
  /\ resolve_side (tree_stat t_nested) (tree_hasgo t_nested) (pth "gp/src") (pth "a/b/c") (pth "a/b/c/sub") = true
  /\ g_resolve (tree_stat t_nested) (tree_hasgo t_nested) (pth "gp/src") (pth "a/b/c") (pth "a/b/c/sub") = Some (pth "gp/src/a/b/c/sub")
  /\ resolve_side (tree_stat t_nested) (tree_hasgo t_nested) (pth "gp/src") (pth "a/b/vendor/y") (pth "z") = true.
Proof. repeat split; vm_compute; reflexivity. Qed.

Lemma load_nested_agree :
  y_run_path (mkctx "gp/src" "" t_nested) (pth "a/b/c") = g_run_path (mkctx "gp/src" "" t_nested) (pth "a/b/c")
  /\ snd (y_run_path (mkctx "gp/src" "" t_nested) (pth "a/b/c")) = None
  /\ length (inits (fst (y_run_path (mkctx "gp/src" "" t_nested) (pth "a/b/c")))) = 5.
Proof. repeat split; vm_compute; reflexivity. Qed.

(** a diamond is initialised once, a real cycle is an error for both *)
Definition t_diamond : tree :=
  [mkpkg "gp/src/e" ["a"; "b"]; mkpkg "gp/src/a" ["c"]; mkpkg "gp/src/b" ["c"]; mkpkg "gp/src/c" []].
Definition t_cycle : tree :=
  [mkpkg "gp/src/e" ["a"]; mkpkg "gp/src/a" ["b"]; mkpkg "gp/src/b" ["a"]].

Lemma load_examples :
  inits (fst (y_run_path (mkctx "gp/src" "" t_diamond) (pth "e")))
  = [pth "gp/src/c"; pth "gp/src/a"; pth "gp/src/b"; pth "gp/src/e"]
  /\ y_run_path (mkctx "gp/src" "" t_diamond) (pth "e") = g_run_path (mkctx "gp/src" "" t_diamond) (pth "e")
  /\ y_run_path (mkctx "gp/src" "" t_cycle) (pth "e") = ([], Some ECycle)
  /\ g_run_path (mkctx "gp/src" "" t_cycle) (pth "e") = ([], Some ECycle).
Proof. repeat split; vm_compute; reflexivity. Qed.

(** a chain of relative imports from an entry file outside GOPATH agrees *)
Definition t_rel_chain : tree :=
  [mkpkg "work" ["./x"; "q"]; mkpkg "work/x" ["./y"; "../z"; "q"]; mkpkg "work/x/y" []; mkpkg "work/z" ["./w"];
   mkpkg "work/z/w" []; mkpkg "gp/src/q" []].
Lemma relative_chain_agree :
  y_run_file (mkctx "gp/src" "work" t_rel_chain) = g_run_file (mkctx "gp/src" "work" t_rel_chain)
  /\ snd (y_run_file (mkctx "gp/src" "work" t_rel_chain)) = None.
Proof. split; vm_compute; reflexivity. Qed.

(* ------------------------------------------------------------------ *)
(** * The cycle check covers both branches of importSrc *)

(** a package that is being loaded ([rdir], not yet in the memo) and is imported again — through a
    GOPATH/vendor path or through a relative path — is reported as an import cycle at once *)
Lemma cycle_check_any_branch c f s rp i d rp' :
  assoc (y_key i) (y_memo s) = None -> In (y_key i) (y_rdir s) ->
  y_find c rp (y_key i) = Found d rp' ->
  y_load c (S f) s rp i = (s, Some ECycle).
Proof.
  intros Ha Hr Hf. rewrite y_load_S, Ha, Hf.
  apply mem_path_In in Hr. now rewrite Hr.
Qed.

(** for a relative import nothing else can happen: the relative branch always yields a directory *)
Lemma cycle_check_relative c f s rp i :
  is_rel (y_key i) = true -> assoc (y_key i) (y_memo s) = None -> In (y_key i) (y_rdir s) ->
  y_load c (S f) s rp i = (s, Some ECycle).
Proof.
  intros Hrel Ha Hr. eapply cycle_check_any_branch; try eassumption.
  unfold y_find. rewrite Hrel. reflexivity.
Qed.

Local Open Scope string_scope.

(** a cycle made of relative imports only (main.go -> ./a -> ../b -> ../a), entered by a file *)
Definition t_rel_cycle : tree :=
  [mkpkg "work" ["./a"]; mkpkg "work/a" ["../b"]; mkpkg "work/b" ["../a"]].

Lemma relative_cycle_reported :
  snd (y_run_file (mkctx "gp/src" "work" t_rel_cycle)) = Some ECycle
  /\ snd (g_run_file (mkctx "gp/src" "work" t_rel_cycle)) = Some ECycle.
Proof. split; vm_compute; reflexivity. Qed.

(* ------------------------------------------------------------------ *)
(** * The second attempt of importSrc (rootFromSourceLocation) *)

Local Close Scope string_scope.
Local Open Scope list_scope.

(** a failed walk ended at GOPATH/src: neither GOPATH/src/vendor/<path> nor GOPATH/src/<path> exists *)
Lemma pkg_dir_notfound_top st gsrc ip : forall fuel root,
  y_pkg_dir st gsrc fuel root ip = NotFound ->
  st (gsrc ++ ([] ++ [vendor]) ++ ip) = false /\ st (gsrc ++ y_effective_pkg [] ip) = false.
Proof.
  induction fuel as [|f IH]; intros root H; [discriminate|]. cbn [y_pkg_dir] in H.
  destruct (st (gsrc ++ (root ++ [vendor]) ++ ip)) eqn:E1; [discriminate|].
  destruct (st (gsrc ++ y_effective_pkg root ip)) eqn:E2; [discriminate|].
  destruct root as [|x r]; [now split|]. eapply IH; exact H.
Qed.

(** with the retry root "" (input "_.go", or an input file outside GOPATH) the second attempt
    cannot succeed where the first one failed *)
Lemma retry_nil_noop st gsrc ip fuel root :
  y_pkg_dir st gsrc fuel root ip = NotFound -> y_pkg_dir st gsrc 1 [] ip = NotFound.
Proof.
  intros H. apply pkg_dir_notfound_top in H as [H1 H2]. cbn [y_pkg_dir]. now rewrite H1, H2.
Qed.

(** a package in directory [proj ++ rel] whose first attempt failed is served by the second attempt
    started at [proj] (the input file's directory): this is what Go prescribes for the importing
    directory as long as no vendor directory between [proj] and the package holds the path *)
Theorem retry_resolve st hasgo gsrc proj rel ip :
  fs_closed st -> fs_hasgo_dir st hasgo -> resolve_side st hasgo gsrc proj ip = true ->
  (forall e1 e2, rel = e1 ++ e2 -> e1 <> [] -> hasgo (gsrc ++ (proj ++ e1) ++ vendor :: ip) = false) ->
  y_resolve st gsrc proj ip = g_resolve st hasgo gsrc (proj ++ rel) ip.
Proof.
  intros Hc Hg Hs Hrel. rewrite (resolve_agree st hasgo gsrc proj ip Hc Hg Hs).
  unfold g_resolve. now rewrite g_walk_skip.
Qed.
