(** C16 — pkgDir only looks at the filesystem through a few Stat questions about the ancestors of
    the importing directory. *)
From Verif Require Import Lib.Str Imports.Model Imports.Proofs.

(** the Stat questions pkgDir may ask when started at [root] for [ip] *)
Definition probes (gsrc root ip : path) : list path :=
  flat_map (fun a => [gsrc ++ a ++ [vendor]; gsrc ++ (a ++ [vendor]) ++ ip; gsrc ++ y_effective_pkg a ip])
           (prefixes root).

Lemma prefixes_removelast (p a : path) : In a (prefixes (removelast p)) -> In a (prefixes p).
Proof.
  destruct p as [|y p']; [auto|].
  destruct (exists_last (l := y :: p') ltac:(discriminate)) as [q [x E]]. rewrite E.
  rewrite removelast_app_unit. apply prefixes_app.
Qed.

Lemma prev_loop_local st1 st2 gsrc : forall fuel p,
  (forall a, In a (prefixes p) -> st1 (gsrc ++ a ++ [vendor]) = st2 (gsrc ++ a ++ [vendor])) ->
  y_prev_loop st1 gsrc fuel (gsrc ++ p) = y_prev_loop st2 gsrc fuel (gsrc ++ p).
Proof.
  induction fuel as [|f IH]; intros p H; [reflexivity|]. cbn [y_prev_loop].
  rewrite <- app_assoc. rewrite (H p (prefixes_self p)).
  destruct (st2 (gsrc ++ p ++ [vendor])); [reflexivity|].
  destruct (path_eqb (gsrc ++ p) gsrc) eqn:E; [reflexivity|].
  assert (Hp : p <> []) by (intros ->; rewrite app_nil_r, path_eqb_refl in E; discriminate).
  rewrite removelast_app by assumption.
  destruct (path_eqb (gsrc ++ removelast p) gsrc); [reflexivity|].
  destruct (gsrc ++ removelast p) eqn:E2; [reflexivity|]. rewrite <- E2.
  apply IH. intros a Ha. apply H. now apply prefixes_removelast.
Qed.

Lemma previous_root_local st1 st2 gsrc root : root <> [] ->
  (forall a, In a (prefixes root) -> st1 (gsrc ++ a ++ [vendor]) = st2 (gsrc ++ a ++ [vendor])) ->
  y_previous_root st1 gsrc root = y_previous_root st2 gsrc root.
Proof.
  intros Hne H. unfold y_previous_root. rewrite removelast_app by assumption.
  rewrite (prev_loop_local st1 st2 gsrc _ (removelast root)); [reflexivity|].
  intros a Ha. apply H. now apply prefixes_removelast.
Qed.

Lemma probes_app gsrc r' ext ip p : In p (probes gsrc r' ip) -> In p (probes gsrc (r' ++ ext) ip).
Proof.
  unfold probes. rewrite !in_flat_map. intros [a [Ha Hp]]. exists a. split; [now apply prefixes_app|assumption].
Qed.

(** two filesystems that answer these questions alike give pkgDir the same result *)
Theorem pkg_dir_local st1 st2 gsrc ip : forall fuel root,
  (forall p, In p (probes gsrc root ip) -> st1 p = st2 p) ->
  y_pkg_dir st1 gsrc fuel root ip = y_pkg_dir st2 gsrc fuel root ip.
Proof.
  induction fuel as [|f IH]; intros root H; [reflexivity|]. cbn [y_pkg_dir].
  assert (Hin : forall q, In q [gsrc ++ root ++ [vendor]; gsrc ++ (root ++ [vendor]) ++ ip; gsrc ++ y_effective_pkg root ip] ->
                          st1 q = st2 q).
  { intros q Hq. apply H. unfold probes. apply in_flat_map. exists root. split; [apply prefixes_self|exact Hq]. }
  rewrite (Hin (gsrc ++ (root ++ [vendor]) ++ ip)) by (simpl; auto).
  destruct (st2 (gsrc ++ (root ++ [vendor]) ++ ip)); [reflexivity|].
  rewrite (Hin (gsrc ++ y_effective_pkg root ip)) by (simpl; auto).
  destruct (st2 (gsrc ++ y_effective_pkg root ip)); [reflexivity|].
  destruct root as [|x r]; [reflexivity|].
  assert (Hprev : y_previous_root st1 gsrc (x :: r) = y_previous_root st2 gsrc (x :: r)).
  { apply previous_root_local; [discriminate|]. intros a Ha. apply H. unfold probes. apply in_flat_map.
    exists a. split; [assumption|now left]. }
  rewrite Hprev.
  destruct (previous_root_spec st2 gsrc (x :: r) ltac:(discriminate)) as [r' [ext [E [_ [Hr _]]]]].
  apply IH. intros p Hp. apply H. rewrite Hr in Hp. rewrite E. now apply probes_app.
Qed.
