(** C11 — proofs about Session/Model.v. *)
From Verif Require Import Lib.Str Session.Model.
From Coq Require Import NArith.
Open Scope N_scope.

(* ------------------------------------------------------------------ *)
(** * Association lists *)

Lemma alookup_app {A} (l1 l2 : list (N * A)) x :
  alookup (l1 ++ l2) x = match alookup l1 x with Some v => Some v | None => alookup l2 x end.
Proof.
  induction l1 as [|[y v] l1 IH]; simpl; [reflexivity|].
  destruct (N.eqb y x); [reflexivity|apply IH].
Qed.

Lemma existsb_eqb_In f l : existsb (N.eqb f) l = true <-> In f l.
Proof.
  rewrite existsb_exists. split.
  - intros [x [Hin He]]. apply N.eqb_eq in He. now subst.
  - intros H. exists f. split; [assumption|apply N.eqb_refl].
Qed.

(* ------------------------------------------------------------------ *)
(** * Simulation: compiled code (callees by id) against source (callees by name) *)

Section Sim.
  Variable T : N -> option (fdef N).           (* G: table by name *)
  Variable rho : N -> option nat.              (* Y: scope *)
  Variable cd : nat -> option (fdef nat).      (* Y: code *)

  Definition closed_names (l : list N) : Prop := Forall (fun f => T f <> None) l.

  (** every function of the table is closed and was compiled under (an extension of) the scope *)
  Definition consistent : Prop :=
    forall f d, T f = Some d ->
      closed_names (fnames_d d) /\
      exists k rd, rho f = Some k /\ cd k = Some rd /\ res_d rho d = Some rd.

  Section Expr.
    Variable callY : mem -> nat -> Z -> mem * Z.
    Variable callG : mem -> N -> Z -> mem * Z.
    Hypothesis Hcall : forall m f k v, T f <> None -> rho f = Some k -> callY m k v = callG m f v.

    Lemma ev_sim e : forall re m a,
      closed_names (fnames_e e) -> res_e rho e = Some re -> ev callY m a re = ev callG m a e.
    Proof.
      induction e as [z|x| |e1 IH1 e2 IH2|e1 IH1 e2 IH2|e1 IH1 e2 IH2|c e1 IH1|p]; intros re m a Hc Hr; simpl in Hr.
      - inversion Hr; reflexivity.
      - inversion Hr; reflexivity.
      - inversion Hr; reflexivity.
      - destruct (res_e rho e1) as [r1|] eqn:E1; [|discriminate].
        destruct (res_e rho e2) as [r2|] eqn:E2; [|discriminate].
        inversion Hr; subst; clear Hr. simpl in Hc. apply Forall_app in Hc as [Hc1 Hc2].
        simpl. rewrite (IH1 r1 m a Hc1 eq_refl). destruct (ev callG m a e1) as [m1 v1].
        rewrite (IH2 r2 m1 a Hc2 eq_refl). reflexivity.
      - destruct (res_e rho e1) as [r1|] eqn:E1; [|discriminate].
        destruct (res_e rho e2) as [r2|] eqn:E2; [|discriminate].
        inversion Hr; subst; clear Hr. simpl in Hc. apply Forall_app in Hc as [Hc1 Hc2].
        simpl. rewrite (IH1 r1 m a Hc1 eq_refl). destruct (ev callG m a e1) as [m1 v1].
        rewrite (IH2 r2 m1 a Hc2 eq_refl). reflexivity.
      - destruct (res_e rho e1) as [r1|] eqn:E1; [|discriminate].
        destruct (res_e rho e2) as [r2|] eqn:E2; [|discriminate].
        inversion Hr; subst; clear Hr. simpl in Hc. apply Forall_app in Hc as [Hc1 Hc2].
        simpl. rewrite (IH1 r1 m a Hc1 eq_refl). destruct (ev callG m a e1) as [m1 v1].
        rewrite (IH2 r2 m1 a Hc2 eq_refl). reflexivity.
      - destruct (rho c) as [k|] eqn:Ek; [|discriminate].
        destruct (res_e rho e1) as [r1|] eqn:E1; [|discriminate].
        inversion Hr; subst; clear Hr. simpl in Hc. inversion Hc as [|? ? Hc0 Hc1]; subst.
        simpl. rewrite (IH1 r1 m a Hc1 eq_refl). destruct (ev callG m a e1) as [m1 v1].
        apply Hcall; assumption.
      - inversion Hr; reflexivity.
    Qed.

    Lemma ex_sim s : forall rs m a,
      closed_names (fnames_s s) -> res_s rho s = Some rs -> ex callY m a rs = ex callG m a s.
    Proof.
      destruct s as [x e|p x|p e|e|e|k]; intros rs m a Hc Hr; simpl in Hr, Hc.
      - destruct (res_e rho e) as [r|] eqn:E; [|discriminate]. inversion Hr; subst. simpl.
        rewrite (ev_sim e r m a Hc E). reflexivity.
      - inversion Hr; reflexivity.
      - destruct (res_e rho e) as [r|] eqn:E; [|discriminate]. inversion Hr; subst. simpl.
        rewrite (ev_sim e r m a Hc E). reflexivity.
      - destruct (res_e rho e) as [r|] eqn:E; [|discriminate]. inversion Hr; subst. simpl.
        rewrite (ev_sim e r m a Hc E). reflexivity.
      - destruct (res_e rho e) as [r|] eqn:E; [|discriminate]. inversion Hr; subst. simpl.
        rewrite (ev_sim e r m a Hc E). reflexivity.
      - inversion Hr; reflexivity.
    Qed.

    Lemma exl_sim l : forall rl m a r,
      closed_names (flat_map fnames_s l) -> res_l rho l = Some rl ->
      exl callY m a r rl = exl callG m a r l.
    Proof.
      induction l as [|s l IH]; intros rl m a r Hc Hr; simpl in Hr.
      - inversion Hr; reflexivity.
      - destruct (res_s rho s) as [rs|] eqn:Es; [|discriminate].
        destruct (res_l rho l) as [rl'|] eqn:El; [|discriminate].
        inversion Hr; subst; clear Hr. simpl in Hc. apply Forall_app in Hc as [Hc1 Hc2].
        simpl. rewrite (ex_sim s rs m a Hc1 Es). destruct (ex callG m a s) as [m1 r1].
        apply IH; [assumption|reflexivity].
    Qed.
  End Expr.

  Hypothesis Hcons : consistent.

  Lemma call_sim n : forall m f k v, T f <> None -> rho f = Some k -> call_n cd n m k v = call_n T n m f v.
  Proof.
    induction n as [|n IH]; intros m f k v Hf Hk; simpl; [reflexivity|].
    destruct (T f) as [[body ret]|] eqn:ET; [|congruence].
    destruct (Hcons f (body, ret) ET) as [Hcl [k' [rd [Hk' [Hcd Hres]]]]].
    rewrite Hk in Hk'. inversion Hk'; subst k'. rewrite Hcd.
    unfold res_d in Hres. simpl in Hres.
    destruct (res_l rho body) as [rb|] eqn:Eb; [|discriminate].
    destruct (res_e rho ret) as [rr|] eqn:Er; [|discriminate].
    inversion Hres; subst rd; clear Hres.
    unfold fnames_d in Hcl. simpl in Hcl. apply Forall_app in Hcl as [Hcb Hcr].
    rewrite (exl_sim (call_n cd n) (call_n T n) IH body rb m v None Hcb Eb).
    destruct (exl (call_n T n) m v None body) as [m1 r1].
    apply (ev_sim (call_n cd n) (call_n T n) IH ret rr m1 v Hcr Er).
  Qed.
End Sim.

(* ------------------------------------------------------------------ *)
(** * Resolution *)

Section ResLemmas.
  Variables rho rho' : N -> option nat.
  Hypothesis Hext : forall f k, rho f = Some k -> rho' f = Some k.

  Lemma res_e_ext e : forall re, res_e rho e = Some re -> res_e rho' e = Some re.
  Proof.
    induction e as [z|x| |e1 IH1 e2 IH2|e1 IH1 e2 IH2|e1 IH1 e2 IH2|c e1 IH1|p]; intros re Hr; simpl in *; try assumption.
    - destruct (res_e rho e1) as [r1|]; [|discriminate]. destruct (res_e rho e2) as [r2|]; [|discriminate].
      rewrite (IH1 r1 eq_refl), (IH2 r2 eq_refl). assumption.
    - destruct (res_e rho e1) as [r1|]; [|discriminate]. destruct (res_e rho e2) as [r2|]; [|discriminate].
      rewrite (IH1 r1 eq_refl), (IH2 r2 eq_refl). assumption.
    - destruct (res_e rho e1) as [r1|]; [|discriminate]. destruct (res_e rho e2) as [r2|]; [|discriminate].
      rewrite (IH1 r1 eq_refl), (IH2 r2 eq_refl). assumption.
    - destruct (rho c) as [k|] eqn:Ek; [|discriminate]. destruct (res_e rho e1) as [r1|]; [|discriminate].
      rewrite (Hext c k Ek), (IH1 r1 eq_refl). assumption.
  Qed.

  Lemma res_s_ext s : forall rs, res_s rho s = Some rs -> res_s rho' s = Some rs.
  Proof.
    destruct s as [x e|p x|p e|e|e|k]; intros rs Hr; simpl in *; try assumption;
      (destruct (res_e rho e) as [r|] eqn:E; [|discriminate]; rewrite (res_e_ext e r E); assumption).
  Qed.

  Lemma res_l_ext l : forall rl, res_l rho l = Some rl -> res_l rho' l = Some rl.
  Proof.
    induction l as [|s l IH]; intros rl Hr; simpl in *; [assumption|].
    destruct (res_s rho s) as [rs|] eqn:Es; [|discriminate].
    destruct (res_l rho l) as [rl'|] eqn:El; [|discriminate].
    rewrite (res_s_ext s rs Es), (IH rl' eq_refl). assumption.
  Qed.

  Lemma res_d_ext d : forall rd, res_d rho d = Some rd -> res_d rho' d = Some rd.
  Proof.
    intros rd Hr. unfold res_d in *.
    destruct (res_l rho (fst d)) as [rb|] eqn:Eb; [|discriminate].
    destruct (res_e rho (snd d)) as [rr|] eqn:Er; [|discriminate].
    rewrite (res_l_ext _ _ Eb), (res_e_ext _ _ Er). assumption.
  Qed.
End ResLemmas.

Section ResTotal.
  Variable rho : N -> option nat.
  Definition in_scope (l : list N) : Prop := Forall (fun f => rho f <> None) l.

  Lemma res_e_total e : in_scope (fnames_e e) -> exists re, res_e rho e = Some re.
  Proof.
    induction e as [z|x| |e1 IH1 e2 IH2|e1 IH1 e2 IH2|e1 IH1 e2 IH2|c e1 IH1|p]; intros H; simpl in *; try (eexists; reflexivity).
    - apply Forall_app in H as [H1 H2]. destruct (IH1 H1) as [r1 ->], (IH2 H2) as [r2 ->]. eexists; reflexivity.
    - apply Forall_app in H as [H1 H2]. destruct (IH1 H1) as [r1 ->], (IH2 H2) as [r2 ->]. eexists; reflexivity.
    - apply Forall_app in H as [H1 H2]. destruct (IH1 H1) as [r1 ->], (IH2 H2) as [r2 ->]. eexists; reflexivity.
    - inversion H as [|? ? H0 H1]; subst. destruct (IH1 H1) as [r1 ->].
      destruct (rho c) as [k|]; [|congruence]. eexists; reflexivity.
  Qed.

  Lemma res_s_total s : in_scope (fnames_s s) -> exists rs, res_s rho s = Some rs.
  Proof.
    destruct s as [x e|p x|p e|e|e|k]; intros H; simpl in *; try (eexists; reflexivity);
      (destruct (res_e_total e H) as [r ->]; eexists; reflexivity).
  Qed.

  Lemma res_l_total l : in_scope (flat_map fnames_s l) -> exists rl, res_l rho l = Some rl.
  Proof.
    induction l as [|s l IH]; intros H; simpl in *; [eexists; reflexivity|].
    apply Forall_app in H as [H1 H2].
    destruct (res_s_total s H1) as [rs ->], (IH H2) as [rl ->]. eexists; reflexivity.
  Qed.

  Lemma res_d_total d : in_scope (fnames_d d) -> exists rd, res_d rho d = Some rd.
  Proof.
    intros H. unfold fnames_d in H. apply Forall_app in H as [H1 H2]. unfold res_d.
    destruct (res_l_total _ H1) as [rb ->], (res_e_total _ H2) as [rr ->]. eexists; reflexivity.
  Qed.
End ResTotal.

Lemma vnames_res rho e : forall re, res_e rho e = Some re -> vnames_e re = vnames_e e.
Proof.
  induction e as [z|x| |e1 IH1 e2 IH2|e1 IH1 e2 IH2|e1 IH1 e2 IH2|c e1 IH1|p]; intros re Hr; simpl in *;
    try (inversion Hr; reflexivity).
  - destruct (res_e rho e1) as [r1|]; [|discriminate]. destruct (res_e rho e2) as [r2|]; [|discriminate].
    inversion Hr; simpl. now rewrite (IH1 r1 eq_refl), (IH2 r2 eq_refl).
  - destruct (res_e rho e1) as [r1|]; [|discriminate]. destruct (res_e rho e2) as [r2|]; [|discriminate].
    inversion Hr; simpl. now rewrite (IH1 r1 eq_refl), (IH2 r2 eq_refl).
  - destruct (res_e rho e1) as [r1|]; [|discriminate]. destruct (res_e rho e2) as [r2|]; [|discriminate].
    inversion Hr; simpl. now rewrite (IH1 r1 eq_refl), (IH2 r2 eq_refl).
  - destruct (rho c) as [k|]; [|discriminate]. destruct (res_e rho e1) as [r1|]; [|discriminate].
    inversion Hr; simpl. now rewrite (IH1 r1 eq_refl).
Qed.

(* ------------------------------------------------------------------ *)
(** * mapM *)

Lemma mapM_length {A B} (f : A -> option B) l : forall r, mapM f l = Some r -> length r = length l.
Proof.
  induction l as [|x l IH]; intros r H; simpl in H; [inversion H; reflexivity|].
  destruct (f x) as [y|]; [|discriminate]. destruct (mapM f l) as [r'|]; [|discriminate].
  inversion H; simpl. now rewrite (IH r' eq_refl).
Qed.

Lemma mapM_nth {A B} (f : A -> option B) l : forall r i x,
  mapM f l = Some r -> nth_error l i = Some x -> exists y, nth_error r i = Some y /\ f x = Some y.
Proof.
  induction l as [|x0 l IH]; intros r i x H Hn; simpl in H.
  - destruct i; discriminate.
  - destruct (f x0) as [y0|] eqn:E0; [|discriminate]. destruct (mapM f l) as [r'|] eqn:El; [|discriminate].
    inversion H; subst r; clear H. destruct i as [|i]; simpl in *.
    + inversion Hn; subst. exists y0. split; [reflexivity|assumption].
    + apply (IH r' i x eq_refl Hn).
Qed.

Lemma mapM_total {A B} (f : A -> option B) l : Forall (fun x => f x <> None) l -> exists r, mapM f l = Some r.
Proof.
  induction l as [|x l IH]; intros H; simpl; [eexists; reflexivity|].
  inversion H as [|? ? H0 H1]; subst. destruct (f x) as [y|]; [|congruence].
  destruct (IH H1) as [r ->]. eexists; reflexivity.
Qed.

(* ------------------------------------------------------------------ *)
(** * gta *)

Lemma gta_f_notin l : forall n fs f, ~ In f (map fst l) -> alookup (gta_f n fs l) f = alookup fs f.
Proof.
  induction l as [|[g d] l IH]; intros n fs f H; simpl; [reflexivity|].
  simpl in H. rewrite IH by tauto. simpl.
  destruct (N.eqb_spec g f); [subst; tauto|reflexivity].
Qed.

Lemma gta_f_nth l : forall n fs i f d, NoDup (map fst l) -> nth_error l i = Some (f, d) ->
  alookup (gta_f n fs l) f = Some (n + i)%nat.
Proof.
  induction l as [|[g d0] l IH]; intros n fs i f d Hnd Hn.
  - destruct i; discriminate.
  - simpl in Hnd. inversion Hnd as [|? ? Hni Hnd']; subst. destruct i as [|i]; simpl in *.
    + inversion Hn; subst. rewrite gta_f_notin by assumption. simpl. rewrite N.eqb_refl. f_equal. lia.
    + rewrite (IH (S n) _ i f d Hnd' Hn). f_equal. lia.
Qed.

Lemma gta_f_dom l : forall n fs f, alookup (gta_f n fs l) f <> None <-> (In f (map fst l) \/ alookup fs f <> None).
Proof.
  induction l as [|[g d] l IH]; intros n fs f; simpl; [tauto|].
  rewrite IH. simpl. destruct (N.eqb_spec g f) as [->|Hne].
  - split; intros _; [left; left; reflexivity|right; discriminate].
  - split; intros [H|H]; try tauto. all: try (destruct H as [H|H]; [congruence|tauto]).
Qed.

Lemma gta_f_bound l : forall n fs, (forall f k, alookup fs f = Some k -> (k < n)%nat) ->
  forall f k, alookup (gta_f n fs l) f = Some k -> (k < n + length l)%nat.
Proof.
  induction l as [|[g d] l IH]; intros n fs Hb f k H; simpl in *.
  - apply Hb in H. lia.
  - apply (IH (S n)) in H; [lia|]. intros f' k' H'. simpl in H'.
    destruct (N.eqb g f'); [inversion H'; lia|]. apply Hb in H'. lia.
Qed.

(* ------------------------------------------------------------------ *)
(** * The side condition [ordered] *)

Definition known_after (known : list N) (c : chunk) : list N :=
  fold_left (fun k i => match i with IFunc f _ => f :: k | _ => k end) c known.

Lemma forallb_known l known :
  forallb (fun f => existsb (N.eqb f) known) l = true <-> Forall (fun f => In f known) l.
Proof.
  rewrite forallb_forall, Forall_forall. split; intros H x Hx.
  - apply existsb_eqb_In. apply H, Hx.
  - apply existsb_eqb_In. apply H, Hx.
Qed.

Lemma ordered_cons known i r :
  ordered_from known (i :: r) = true <->
  Forall (fun f => In f known) (fnames_i i)
  /\ (forall f d, i = IFunc f d -> ~ In f known)
  /\ ordered_from (known_after known [i]) r = true.
Proof.
  simpl. rewrite andb_true_iff, forallb_known. destruct i as [x e|p|f d|s|k]; simpl.
  - split; [intros [H1 H2]; repeat split; try assumption; intros; discriminate|tauto].
  - split; [intros [H1 H2]; repeat split; try assumption; intros; discriminate|tauto].
  - rewrite andb_true_iff, negb_true_iff. split.
    + intros [H1 [H2 H3]]. repeat split; try assumption.
      intros f' d' Heq Hin. inversion Heq; subst. apply existsb_eqb_In in Hin. congruence.
    + intros [H1 [H2 H3]]. repeat split; try assumption.
      destruct (existsb (N.eqb f) known) eqn:E; [|reflexivity].
      apply existsb_eqb_In in E. exfalso. eapply H2; [reflexivity|assumption].
  - split; [intros [H1 H2]; repeat split; try assumption; intros; discriminate|tauto].
  - split; [intros [H1 H2]; repeat split; try assumption; intros; discriminate|tauto].
Qed.

Lemma known_after_app known c1 c2 : known_after known (c1 ++ c2) = known_after (known_after known c1) c2.
Proof. unfold known_after. apply fold_left_app. Qed.

Lemma ordered_from_app c1 : forall known c2,
  ordered_from known (c1 ++ c2) = ordered_from known c1 && ordered_from (known_after known c1) c2.
Proof.
  induction c1 as [|i c1 IH]; intros known c2; [reflexivity|].
  change ((i :: c1) ++ c2) with (i :: (c1 ++ c2)).
  destruct (ordered_from known (i :: c1 ++ c2)) eqn:E1.
  - apply ordered_cons in E1 as [H1 [H2 H3]]. rewrite IH in H3. apply andb_true_iff in H3 as [H3 H4].
    symmetry. apply andb_true_iff. split.
    + apply ordered_cons. repeat split; assumption.
    + change (i :: c1) with ([i] ++ c1). rewrite known_after_app. assumption.
  - symmetry. apply not_true_iff_false. intros H. apply andb_true_iff in H as [H3 H4].
    apply ordered_cons in H3 as [H1 [H2 H3]].
    assert (ordered_from known (i :: c1 ++ c2) = true); [|congruence].
    apply ordered_cons. repeat split; try assumption. rewrite IH. apply andb_true_iff. split; [assumption|].
    change (i :: c1) with ([i] ++ c1) in H4. rewrite known_after_app in H4. assumption.
Qed.

Lemma In_known_after c : forall known f, In f (known_after known c) <-> In f known \/ In f (map fst (funcs c)).
Proof.
  induction c as [|i c IH]; intros known f; simpl; [tauto|].
  change (known_after known (i :: c)) with (known_after (known_after known [i]) c).
  rewrite IH. unfold funcs. simpl. fold (funcs c).
  destruct i as [x e|p|g d|s|k]; simpl; tauto.
Qed.

Lemma ordered_fresh c : forall known, ordered_from known c = true ->
  NoDup (map fst (funcs c)) /\ (forall f, In f (map fst (funcs c)) -> ~ In f known).
Proof.
  induction c as [|i c IH]; intros known H; [split; [constructor|intros f []]|].
  apply ordered_cons in H as [H1 [H2 H3]]. destruct (IH _ H3) as [Hnd Hfr].
  unfold funcs. simpl. fold (funcs c).
  destruct i as [x e|p|g d|s|k]; simpl in *; try (split; assumption).
  split.
  - constructor; [|assumption]. intros Hin. apply (Hfr g Hin). left; reflexivity.
  - intros f [Hf|Hf].
    + subst. apply (H2 f d eq_refl).
    + intros Hk. apply (Hfr f Hf). right; assumption.
Qed.

Lemma ordered_names c : forall known, ordered_from known c = true ->
  forall i, In i c -> Forall (fun f => In f known \/ In f (map fst (funcs c))) (fnames_i i).
Proof.
  induction c as [|i0 c IH]; intros known H i Hin; [destruct Hin|].
  apply ordered_cons in H as [H1 [H2 H3]]. destruct Hin as [->|Hin].
  - eapply Forall_impl; [|exact H1]. intros f Hf. left; assumption.
  - specialize (IH _ H3 i Hin). eapply Forall_impl; [|exact IH]. intros f Hf.
    unfold funcs. simpl. fold (funcs c). rewrite map_app, in_app_iff.
    destruct Hf as [Hf|Hf]; [|tauto].
    destruct i0 as [x e|p|g d|s|k]; simpl in *; try tauto.
    all: try (destruct Hf as [Hf|Hf]; [right; left; left; congruence|tauto]).
Qed.

(* ------------------------------------------------------------------ *)
(** * One chunk: Y against G *)

Record Inv (s : ystate) (g : gstate) : Prop := {
  inv_mem : ymem s = gmem g;
  inv_cons : consistent (alookup (gfuns g)) (alookup (fscope s)) (nth_error (code s));
  inv_dom : forall f, alookup (gfuns g) f <> None <-> alookup (fscope s) f <> None;
  inv_bound : forall f k, alookup (fscope s) f = Some k -> (k < length (code s))%nat }.

Definition Known (known : list N) (g : gstate) : Prop := forall f, In f known <-> alookup (gfuns g) f <> None.

Lemma funcs_stmts c : forallb (fun i => negb (is_decl i)) c = true -> funcs c = [].
Proof.
  induction c as [|i c IH]; intros H; [reflexivity|]. simpl in H. apply andb_true_iff in H as [H1 H2].
  destruct i; try discriminate. unfold funcs. simpl. apply IH, H2.
Qed.

Lemma stmts_names c : forall known, forallb (fun i => negb (is_decl i)) c = true -> ordered_from known c = true ->
  Forall (fun f => In f known) (flat_map fnames_s (stmts c)).
Proof.
  induction c as [|i c IH]; intros known H Ho; [constructor|]. simpl in H. apply andb_true_iff in H as [H1 H2].
  destruct i as [| | |s|]; try discriminate. apply ordered_cons in Ho as [Ha [_ Hb]].
  unfold stmts. simpl. fold (stmts c). apply Forall_app. split; [exact Ha|]. apply IH; assumption.
Qed.

Lemma g_items_stmts fuel c : forall g r, forallb (fun i => negb (is_decl i)) c = true ->
  g_items fuel g r c =
  (let '(m, r') := exl (call_n (alookup (gfuns g)) fuel) (gmem g) 0%Z r (stmts c) in
   ({| gfuns := gfuns g; gmem := m |}, r')).
Proof.
  induction c as [|i c IH]; intros g r H.
  - simpl. destruct g; reflexivity.
  - simpl in H. apply andb_true_iff in H as [H1 H2]. destruct i as [| | |s|]; try discriminate.
    unfold stmts. simpl. fold (stmts c).
    destruct (ex (call_n (alookup (gfuns g)) fuel) (gmem g) 0%Z s) as [m1 r1] eqn:E.
    rewrite IH by assumption. simpl. reflexivity.
Qed.

Lemma known_after_stmts c known : forallb (fun i => negb (is_decl i)) c = true -> known_after known c = known.
Proof.
  revert known. induction c as [|i c IH]; intros known H; [reflexivity|]. simpl in H. apply andb_true_iff in H as [H1 H2].
  destruct i; try discriminate. simpl. apply IH, H2.
Qed.

Lemma uses_ok_nouses s c : no_uses c = true -> uses_ok s c = true.
Proof. unfold no_uses, uses_ok. destruct (flat_map uses_i c); [reflexivity|discriminate]. Qed.

Lemma no_uses_app c1 c2 : no_uses (c1 ++ c2) = no_uses c1 && no_uses c2.
Proof.
  unfold no_uses. rewrite flat_map_app. destruct (flat_map uses_i c1); [|reflexivity].
  simpl. destruct (flat_map uses_i c2); reflexivity.
Qed.

Lemma step_stmts fuel s g known c :
  Inv s g -> Known known g ->
  forallb is_decl c = false -> forallb (fun i => negb (is_decl i)) c = true ->
  ordered_from known c = true -> alookup (fscope s) main_name = None -> no_uses c = true ->
  exists s' g' r, y_eval fuel s c = (s', r) /\ g_eval fuel g c = (g', r) /\ Inv s' g' /\ Known known g'
                  /\ alookup (fscope s') main_name = None.
Proof.
  intros [Hm Hc Hd Hb] Hk Hnd Hst Ho Hmain Hnu.
  assert (Hin : in_scope (alookup (fscope s)) (flat_map fnames_s (stmts c))).
  { eapply Forall_impl; [|apply (stmts_names c known Hst Ho)]. intros f Hf. apply Hd, Hk, Hf. }
  destruct (res_l_total _ _ Hin) as [ss Hss].
  assert (Hcl : closed_names (alookup (gfuns g)) (flat_map fnames_s (stmts c))).
  { eapply Forall_impl; [|apply (stmts_names c known Hst Ho)]. intros f Hf. apply Hk, Hf. }
  unfold y_eval, y_compile. rewrite (uses_ok_nouses s c Hnu). cbn [negb]. rewrite Hnd, Hst, Hss. unfold y_execute. cbn [p_stmts p_loop p_inits p_main code ymem fscope].
  rewrite Hmain.
  rewrite (exl_sim _ _ _ _ (call_sim _ _ _ Hc fuel) (stmts c) ss (ymem s) 0%Z None Hcl Hss).
  unfold g_eval. rewrite (g_items_stmts fuel c g None Hst). rewrite <- Hm.
  destruct (exl (call_n (alookup (gfuns g)) fuel) (ymem s) 0%Z None (stmts c)) as [m1 r1].
  unfold declares_main. rewrite (funcs_stmts c Hst). simpl.
  eexists _, _, _. split; [reflexivity|]. split; [reflexivity|]. split; [|split; [exact Hk|exact Hmain]].
  constructor; simpl; [reflexivity|assumption|assumption|assumption].
Qed.

Lemma consistent_mono_closed (T T' : N -> option (fdef N)) l :
  (forall f, T f <> None -> T' f <> None) -> closed_names T l -> closed_names T' l.
Proof. intros H Hc. eapply Forall_impl; [|exact Hc]. intros f Hf. apply H, Hf. Qed.

Lemma decl_core fuel rho' cd' : forall c g known ri,
  forallb is_decl c = true ->
  consistent (alookup (gfuns g)) rho' cd' ->
  Known known g ->
  ordered_from known c = true ->
  (forall f d, In (f, d) (funcs c) -> exists k rd, rho' f = Some k /\ cd' k = Some rd /\ res_d rho' d = Some rd) ->
  res_inits rho' (inits c) = Some ri ->
  exists g2, g_items fuel g None c = (g2, None)
     /\ gmem g2 = run_inits (call_n cd' fuel) (gmem g) ri
     /\ gfuns g2 = rev (funcs c) ++ gfuns g
     /\ consistent (alookup (gfuns g2)) rho' cd'.
Proof.
  induction c as [|i c IH]; intros g known ri Hd Hc Hk Ho HA Hri.
  - simpl in Hri. inversion Hri; subst. exists g. split; [reflexivity|]. split; [reflexivity|]. split; [reflexivity|exact Hc].
  - simpl in Hd. apply andb_true_iff in Hd as [Hd1 Hd2].
    apply ordered_cons in Ho as [Ho1 [Ho2 Ho3]].
    destruct i as [x e|p|f d|s|k]; try discriminate.
    + (* var x = e *)
      unfold inits in Hri. simpl in Hri. fold (inits c) in Hri. unfold res_inits in Hri. simpl in Hri.
      destruct (res_e rho' e) as [e'|] eqn:Ee; [|discriminate]. simpl in Hri.
      destruct (mapM (fun xe => option_map (pair (fst xe)) (res_e rho' (snd xe))) (inits c)) as [ri'|] eqn:Er; [|discriminate].
      inversion Hri; subst ri; clear Hri.
      assert (Hcl : closed_names (alookup (gfuns g)) (fnames_e e)).
      { eapply Forall_impl; [|exact Ho1]. intros f Hf. apply Hk, Hf. }
      simpl. rewrite <- (ev_sim _ _ _ _ (call_sim _ _ _ Hc fuel) e e' (gmem g) 0%Z Hcl Ee).
      destruct (ev (call_n cd' fuel) (gmem g) 0%Z e') as [m1 v] eqn:Eev.
      set (g1 := {| gfuns := gfuns g; gmem := wr m1 x v |}).
      destruct (IH g1 known ri' Hd2 Hc Hk Ho3) as [g2 [H1 [H2 [H3 H4]]]].
      * intros f d Hin. apply HA. unfold funcs. simpl. exact Hin.
      * exact Er.
      * exists g2. split; [exact H1|]. split; [exact H2|]. split; [|exact H4].
        rewrite H3. unfold funcs. simpl. reflexivity.
    + (* var p *int *)
      simpl. destruct (IH g known ri Hd2 Hc Hk Ho3) as [g2 [H1 [H2 [H3 H4]]]].
      * intros f d Hin. apply HA. unfold funcs. simpl. exact Hin.
      * exact Hri.
      * exists g2. split; [exact H1|]. split; [exact H2|]. split; [|exact H4].
        rewrite H3. unfold funcs. simpl. reflexivity.
    + (* func f *)
      set (g1 := {| gfuns := (f, d) :: gfuns g; gmem := gmem g |}).
      assert (Hmono : forall f', alookup (gfuns g) f' <> None -> alookup (gfuns g1) f' <> None).
      { intros f' Hf'. simpl. destruct (N.eqb f f'); [discriminate|exact Hf']. }
      assert (Hc1 : consistent (alookup (gfuns g1)) rho' cd').
      { intros f' d' Hf'. simpl in Hf'. destruct (N.eqb_spec f f') as [<-|Hne].
        - inversion Hf'; subst d'. split.
          + apply (consistent_mono_closed _ _ _ Hmono). eapply Forall_impl; [|exact Ho1]. intros f' Hf''. apply Hk, Hf''.
          + apply HA. unfold funcs. simpl. left; reflexivity.
        - destruct (Hc f' d' Hf') as [Hcl Hex]. split; [|exact Hex].
          apply (consistent_mono_closed _ _ _ Hmono Hcl). }
      assert (Hk1 : Known (known_after known [IFunc f d]) g1).
      { intros f'. simpl. destruct (N.eqb_spec f f') as [<-|Hne].
        - split; [discriminate|intros _; left; reflexivity].
        - rewrite <- (Hk f'). split; [intros [H|H]; [congruence|exact H]|intros H; right; exact H]. }
      simpl.
      destruct (IH g1 _ ri Hd2 Hc1 Hk1 Ho3) as [g2 [H1 [H2 [H3 H4]]]].
      * intros f' d' Hin. apply HA. unfold funcs. simpl. right. exact Hin.
      * exact Hri.
      * exists g2. split; [exact H1|]. split; [exact H2|]. split; [|exact H4].
        rewrite H3. unfold funcs. simpl. fold (funcs c). rewrite <- app_assoc. reflexivity.    + (* import *)
      simpl. destruct (IH g known ri Hd2 Hc Hk Ho3) as [g2 [H1 [H2 [H3 H4]]]].
      * intros f d Hin. apply HA. unfold funcs. simpl. exact Hin.
      * exact Hri.
      * exists g2. split; [exact H1|]. split; [exact H2|]. split; [|exact H4].
        rewrite H3. unfold funcs. simpl. reflexivity.
Qed.

Lemma In_funcs c f d : In (f, d) (funcs c) <-> In (IFunc f d) c.
Proof.
  induction c as [|i c IH]; [simpl; tauto|]. unfold funcs. simpl. fold (funcs c). rewrite in_app_iff, IH.
  destruct i; simpl; split; intros H; try tauto; try (destruct H as [H|H]; [discriminate|tauto]).
  - destruct H as [[H|[]]|H]; [left; congruence|tauto].
  - destruct H as [H|H]; [left; left; congruence|tauto].
Qed.

Lemma In_inits c x e : In (x, e) (inits c) <-> In (IVar x e) c.
Proof.
  induction c as [|i c IH]; [simpl; tauto|]. unfold inits. simpl. fold (inits c). rewrite in_app_iff, IH.
  destruct i; simpl; split; intros H; try tauto; try (destruct H as [H|H]; [discriminate|tauto]).
  - destruct H as [[H|[]]|H]; [left; congruence|tauto].
  - destruct H as [H|H]; [left; left; congruence|tauto].
Qed.

Lemma alookup_In_dom {A} (l : list (N * A)) f : alookup l f <> None <-> In f (map fst l).
Proof.
  induction l as [|[g v] l IH]; simpl; [tauto|].
  destruct (N.eqb_spec g f) as [->|Hne]; [split; [tauto|discriminate]|].
  rewrite IH. split; [tauto|intros [H|H]; [congruence|exact H]].
Qed.

Lemma alookup_app_dom {A} (l1 l2 : list (N * A)) f :
  alookup (l1 ++ l2) f <> None <-> In f (map fst l1) \/ alookup l2 f <> None.
Proof.
  rewrite alookup_app. destruct (alookup l1 f) eqn:E.
  - split; [intros _; left; apply alookup_In_dom; congruence|discriminate].
  - split; [tauto|]. intros [H|H]; [|exact H]. apply alookup_In_dom in H. congruence.
Qed.

Lemma loop_flag_indirect rho vs ep c ri :
  inits_indirect c = true -> res_inits rho (inits c) = Some ri -> loop_flag vs ep ri = false.
Proof.
  intros Hi Hr.
  assert (H0 : Forall (fun xe : N * expr N => vnames_e (snd xe) = []) (inits c)).
  { apply Forall_forall. intros [x e] Hin. apply In_inits in Hin. unfold inits_indirect in Hi.
    rewrite forallb_forall in Hi. specialize (Hi _ Hin). simpl in *. destruct (vnames_e e); [reflexivity|discriminate]. }
  clear Hi. revert ri Hr. induction (inits c) as [|[x e] l IH]; intros ri Hr.
  - inversion Hr. reflexivity.
  - unfold res_inits in Hr. simpl in Hr. destruct (res_e rho e) as [e'|] eqn:Ee; [|discriminate]. simpl in Hr.
    destruct (mapM (fun xe => option_map (pair (fst xe)) (res_e rho (snd xe))) l) as [ri'|] eqn:El; [|discriminate].
    inversion Hr; subst ri. inversion H0 as [|? ? Ha Hb]; subst. simpl in Ha.
    unfold loop_flag. simpl. rewrite (vnames_res rho e e' Ee), Ha. simpl. apply IH; [exact Hb|exact El].
Qed.

Lemma step_decls fuel s g known c :
  Inv s g -> Known known g -> forallb is_decl c = true ->
  ordered_from known c = true -> inits_indirect c = true ->
  alookup (fscope s) main_name = None -> no_uses c = true ->
  exists s' g' r, y_eval fuel s c = (s', r) /\ g_eval fuel g c = (g', r) /\ Inv s' g'
      /\ Known (known_after known c) g'
      /\ (declares_main c = false -> alookup (fscope s') main_name = None).
Proof.
  intros [Hm Hc Hd Hb] Hk Hdecl Ho Hind Hmain Hnu.
  set (l := funcs c). set (F := gta_f (length (code s)) (fscope s) l). set (rho' := alookup F).
  destruct (ordered_fresh c known Ho) as [Hnd Hfr]. fold l in Hnd, Hfr.
  assert (Hold : forall f k, alookup (fscope s) f = Some k -> rho' f = Some k).
  { intros f k Hf. unfold rho', F. rewrite gta_f_notin; [exact Hf|].
    intros Hin. apply (Hfr f Hin). apply Hk, Hd. congruence. }
  assert (Hscope : forall f, In f known \/ In f (map fst l) -> rho' f <> None).
  { intros f Hf. unfold rho', F. apply gta_f_dom. destruct Hf as [Hf|Hf]; [right; apply Hd, Hk, Hf|left; exact Hf]. }
  assert (Hnames : forall i, In i c -> in_scope rho' (fnames_i i)).
  { intros i Hi. eapply Forall_impl; [|apply (ordered_names c known Ho i Hi)]. intros f Hf. apply Hscope, Hf. }
  destruct (mapM_total (fun fd : N * fdef N => res_d rho' (snd fd)) l) as [ds Hds].
  { apply Forall_forall. intros [f d] Hin. apply In_funcs in Hin. simpl.
    destruct (res_d_total rho' d (Hnames _ Hin)) as [rd ->]. discriminate. }
  destruct (mapM_total (fun xe : N * expr N => option_map (pair (fst xe)) (res_e rho' (snd xe))) (inits c)) as [ri Hri].
  { apply Forall_forall. intros [x e] Hin. apply In_inits in Hin. simpl.
    destruct (res_e_total rho' e (Hnames _ Hin)) as [re ->]. discriminate. }
  set (cd' := nth_error (code s ++ ds)).
  assert (HA : forall f d, In (f, d) l -> exists k rd, rho' f = Some k /\ cd' k = Some rd /\ res_d rho' d = Some rd).
  { intros f d Hin. destruct (In_nth_error _ _ Hin) as [i Hi].
    destruct (mapM_nth _ _ _ _ _ Hds Hi) as [rd [Hrd Hres]]. simpl in Hres.
    exists (length (code s) + i)%nat, rd. split; [apply (gta_f_nth l _ _ i f d Hnd Hi)|]. split; [|exact Hres].
    unfold cd'. rewrite nth_error_app2 by lia. replace (length (code s) + i - length (code s))%nat with i by lia. exact Hrd. }
  assert (HB : consistent (alookup (gfuns g)) rho' cd').
  { intros f d Hf. destruct (Hc f d Hf) as [Hcl [k [rd [Hk1 [Hk2 Hk3]]]]]. split; [exact Hcl|].
    exists k, rd. split; [apply Hold, Hk1|]. split.
    - unfold cd'. rewrite nth_error_app1 by (apply (Hb f), Hk1). exact Hk2.
    - apply (res_d_ext _ _ Hold d rd Hk3). }
  destruct (decl_core fuel rho' cd' c g known ri Hdecl HB Hk Ho HA Hri) as [g2 [H1 [H2 [H3 H4]]]].
  assert (Hloop : loop_flag (gta_v (epoch s) (vscope s) (vars c)) (epoch s) ri = false)
    by (apply (loop_flag_indirect rho' _ _ c ri Hind Hri)).
  unfold y_eval, y_compile. rewrite (uses_ok_nouses s c Hnu). cbn [negb]. rewrite Hdecl. fold l. fold F. fold rho'. unfold res_funcs, res_inits. rewrite Hds, Hri.
  unfold y_execute. cbn [p_stmts p_loop p_inits p_main code ymem fscope exl]. rewrite Hloop.
  fold cd'. unfold g_eval. rewrite H1. rewrite Hm, <- H2.
  assert (Hdom2 : forall f, alookup (gfuns g2) f <> None <-> rho' f <> None).
  { intros f. rewrite H3, alookup_app_dom. unfold rho', F. rewrite gta_f_dom, map_rev, <- in_rev, Hd. tauto. }
  assert (Hk2 : Known (known_after known c) g2).
  { intros f. rewrite In_known_after, H3, alookup_app_dom, map_rev, <- in_rev. fold l. rewrite (Hk f). tauto. }
  assert (Hb2 : forall f k, rho' f = Some k -> (k < length (code s ++ ds))%nat).
  { intros f k Hf. rewrite app_length, (mapM_length _ _ _ Hds). apply (gta_f_bound l _ _ Hb f k Hf). }
  destruct (declares_main c) eqn:Edm.
  - (* the chunk declares main: it runs once, in both models *)
    assert (HmainIn : In main_name (map fst l)).
    { unfold declares_main in Edm. apply existsb_exists in Edm as [[f d] [Hin He]]. simpl in He.
      apply N.eqb_eq in He. subst f. fold l in Hin. apply in_map_iff. exists (main_name, d). split; [reflexivity|exact Hin]. }
    assert (HT : alookup (gfuns g2) main_name <> None).
    { rewrite H3. apply alookup_app_dom. left. rewrite map_rev, <- in_rev. exact HmainIn. }
    destruct (alookup (gfuns g2) main_name) as [[body ret]|] eqn:ET; [|congruence].
    destruct (H4 main_name (body, ret) ET) as [Hcl [k [rd [Hk1 [Hk2' Hk3]]]]].
    rewrite Hk1. unfold run_body. rewrite Hk2', ET.
    unfold res_d in Hk3. simpl in Hk3.
    destruct (res_l rho' body) as [rb|] eqn:Eb; [|discriminate].
    destruct (res_e rho' ret) as [rr|] eqn:Er; [|discriminate].
    inversion Hk3; subst rd; clear Hk3.
    unfold fnames_d in Hcl. simpl in Hcl. apply Forall_app in Hcl as [Hcb _].
    rewrite (exl_sim _ _ _ _ (call_sim _ _ _ H4 fuel) body rb (gmem g2) 0%Z None Hcb Eb).
    eexists _, _, _. split; [reflexivity|]. split; [reflexivity|]. split; [|split; [exact Hk2|discriminate]].
    constructor; simpl; [reflexivity|exact H4|exact Hdom2|exact Hb2].
  - assert (Hno : ~ In main_name (map fst l)).
    { intros Hin. apply in_map_iff in Hin as [[f d] [Hf Hin]]. simpl in Hf. subst f.
      unfold declares_main in Edm. fold l in Edm.
      assert (existsb (fun fd : N * fdef N => N.eqb (fst fd) main_name) l = true); [|congruence].
      apply existsb_exists. exists (main_name, d). split; [exact Hin|apply N.eqb_refl]. }
    assert (Hm' : rho' main_name = None).
    { unfold rho', F. rewrite gta_f_notin by exact Hno. exact Hmain. }
    rewrite Hm'.
    eexists _, _, _. split; [reflexivity|]. split; [reflexivity|]. split; [|split; [exact Hk2|intros _; exact Hm']].
    destruct g2 as [gf gm]. constructor; simpl in *; [reflexivity|exact H4|exact Hdom2|exact Hb2].
Qed.

(* ------------------------------------------------------------------ *)
(** * Sessions: Y against G *)

Lemma inits_indirect_app c1 c2 : inits_indirect (c1 ++ c2) = inits_indirect c1 && inits_indirect c2.
Proof. unfold inits_indirect. apply forallb_app. Qed.

Lemma run_sim fuel : forall cs s g known,
  Inv s g -> Known known g -> alookup (fscope s) main_name = None ->
  forallb homogeneous cs = true -> ordered_from known (concat cs) = true ->
  inits_indirect (concat cs) = true -> main_last cs = true -> no_uses (concat cs) = true ->
  obs_y (y_run fuel s cs) = obs_g (g_run fuel g cs).
Proof.
  induction cs as [|c r IH]; intros s g known Hinv Hk Hmain Hh Ho Hi Hl Hnu.
  - simpl. unfold obs_y, obs_g. simpl. rewrite (inv_mem _ _ Hinv). reflexivity.
  - simpl in Hh. apply andb_true_iff in Hh as [Hh1 Hh2].
    simpl in Ho. rewrite ordered_from_app in Ho. apply andb_true_iff in Ho as [Ho1 Ho2].
    simpl in Hi. rewrite inits_indirect_app in Hi. apply andb_true_iff in Hi as [Hi1 Hi2].
    simpl in Hnu. rewrite no_uses_app in Hnu. apply andb_true_iff in Hnu as [Hnu1 Hnu2].
    assert (Hstep : exists s' g' r1, y_eval fuel s c = (s', r1) /\ g_eval fuel g c = (g', r1) /\ Inv s' g'
              /\ Known (known_after known c) g' /\ (declares_main c = false -> alookup (fscope s') main_name = None)).
    { unfold homogeneous in Hh1. destruct (forallb is_decl c) eqn:Ed.
      - apply step_decls; assumption.
      - simpl in Hh1. destruct (step_stmts fuel s g known c Hinv Hk Ed Hh1 Ho1 Hmain Hnu1) as [s' [g' [r1 [A [B [C [D E]]]]]]].
        exists s', g', r1. rewrite (known_after_stmts c known Hh1).
        split; [exact A|]. split; [exact B|]. split; [exact C|]. split; [exact D|intros _; exact E]. }
    destruct Hstep as [s' [g' [r1 [A [B [C [D E]]]]]]].
    simpl. rewrite A, B.
    destruct r as [|c2 r2].
    + simpl. unfold obs_y, obs_g. simpl. rewrite (inv_mem _ _ C). reflexivity.
    + assert (Hl' : negb (declares_main c) && main_last (c2 :: r2) = true) by exact Hl.
      apply andb_true_iff in Hl' as [Hl1 Hl2]. apply negb_true_iff in Hl1.
      specialize (IH s' g' (known_after known c) C D (E Hl1) Hh2 Ho2 Hi2 Hl2 Hnu2).
      unfold obs_y, obs_g in *.
      destruct (y_run fuel s' (c2 :: r2)) as [s2 rs2]. destruct (g_run fuel g' (c2 :: r2)) as [g2 rs2'].
      simpl in *. inversion IH; subst. reflexivity.
Qed.

Lemma inv0 : Inv y0 g0.
Proof.
  constructor; simpl; try reflexivity.
  - intros f d H. discriminate.
  - intros f. tauto.
  - intros f k H. discriminate.
Qed.

(** Every session of well-formed chunks in which names are declared before use and once, no
    initialiser mentions a variable directly, and only the last chunk may declare [main], behaves
    under yaegi's mechanics (Y) exactly as the contract (G) says: same memory (variables, pointers,
    output) and the same value returned by every evaluation. *)
Theorem y_session_is_g fuel cs :
  forallb homogeneous cs = true -> ordered (concat cs) = true ->
  inits_indirect (concat cs) = true -> main_last cs = true -> no_uses (concat cs) = true ->
  obs_y (y_run fuel y0 cs) = obs_g (g_run fuel g0 cs).
Proof.
  intros. apply (run_sim fuel cs y0 g0 []); try assumption.
  - exact inv0.
  - intros f. simpl. tauto.
  - reflexivity.
Qed.

(* ------------------------------------------------------------------ *)
(** * Sessions of steps (mixed entry points) *)

Lemma inv_set_name s g n : Inv s g -> Inv (set_name s n) g.
Proof. intros [A B C D]. constructor; assumption. Qed.

Lemma steps_sim fuel : forall l s g known,
  Inv s g -> Known known g -> alookup (fscope s) main_name = None -> nodir l = true ->
  forallb homogeneous (map step_chunk l) = true -> ordered_from known (concat (map step_chunk l)) = true ->
  inits_indirect (concat (map step_chunk l)) = true -> main_last (map step_chunk l) = true ->
  no_uses (concat (map step_chunk l)) = true ->
  obs_y (y_steps fuel s l) = obs_g (g_run fuel g (map step_chunk l)).
Proof.
  induction l as [|st r IH]; intros s g known Hinv Hk Hmain Hnd Hh Ho Hi Hl Hnu.
  - simpl. unfold obs_y, obs_g. simpl. rewrite (inv_mem _ _ Hinv). reflexivity.
  - simpl in Hnd. apply andb_true_iff in Hnd as [Hnd1 Hnd2].
    simpl in Hh. apply andb_true_iff in Hh as [Hh1 Hh2].
    simpl in Ho. rewrite ordered_from_app in Ho. apply andb_true_iff in Ho as [Ho1 Ho2].
    simpl in Hi. rewrite inits_indirect_app in Hi. apply andb_true_iff in Hi as [Hi1 Hi2].
    simpl in Hnu. rewrite no_uses_app in Hnu. apply andb_true_iff in Hnu as [Hnu1 Hnu2].
    set (c := step_chunk st) in *.
    assert (Hstep : exists s' g' r1, y_step fuel s st = (s', r1) /\ g_eval fuel g c = (g', r1) /\ Inv s' g'
              /\ Known (known_after known c) g' /\ (declares_main c = false -> alookup (fscope s') main_name = None)).
    { assert (Hgen : forall s0, Inv s0 g -> alookup (fscope s0) main_name = None ->
                exists s' g' r1, y_eval fuel s0 c = (s', r1) /\ g_eval fuel g c = (g', r1) /\ Inv s' g'
                /\ Known (known_after known c) g' /\ (declares_main c = false -> alookup (fscope s') main_name = None)).
      { intros s0 Hinv0 Hmain0. unfold homogeneous in Hh1. destruct (forallb is_decl c) eqn:Ed.
        - apply step_decls; assumption.
        - simpl in Hh1. destruct (step_stmts fuel s0 g known c Hinv0 Hk Ed Hh1 Ho1 Hmain0 Hnu1) as [s' [g' [r1 [A [B [C [D E]]]]]]].
          exists s', g', r1. rewrite (known_after_stmts c known Hh1).
          split; [exact A|]. split; [exact B|]. split; [exact C|]. split; [exact D|intros _; exact E]. }
      destruct st as [c0|n c0|c0]; [apply Hgen; assumption| |discriminate].
      apply (Hgen (set_name s n)); [apply inv_set_name, Hinv|exact Hmain]. }
    destruct Hstep as [s' [g' [r1 [A [B [C [D E]]]]]]].
    change (map step_chunk (st :: r)) with (c :: map step_chunk r).
    simpl. rewrite A, B.
    destruct r as [|st2 r2].
    + simpl. unfold obs_y, obs_g. simpl. rewrite (inv_mem _ _ C). reflexivity.
    + assert (Hl' : negb (declares_main c) && main_last (map step_chunk (st2 :: r2)) = true) by exact Hl.
      apply andb_true_iff in Hl' as [Hl1 Hl2]. apply negb_true_iff in Hl1.
      specialize (IH s' g' (known_after known c) C D (E Hl1) Hnd2 Hh2 Ho2 Hi2 Hl2 Hnu2).
      unfold obs_y, obs_g in *.
      destruct (y_steps fuel s' (st2 :: r2)) as [s2 rs2]. destruct (g_run fuel g' (map step_chunk (st2 :: r2))) as [g2 rs2'].
      simpl in *. inversion IH; subst. reflexivity.
Qed.

(** Mixing Eval-like steps and named files in any order does not matter (no directories, no use of imports). *)
Theorem y_steps_is_g fuel l :
  nodir l = true -> forallb homogeneous (map step_chunk l) = true -> ordered (concat (map step_chunk l)) = true ->
  inits_indirect (concat (map step_chunk l)) = true -> main_last (map step_chunk l) = true ->
  no_uses (concat (map step_chunk l)) = true ->
  obs_y (y_steps fuel y0 l) = obs_g (g_run fuel g0 (map step_chunk l)).
Proof.
  intros. apply (steps_sim fuel l y0 g0 []); try assumption.
  - exact inv0.
  - intros f. simpl. tauto.
  - reflexivity.
Qed.

(* ------------------------------------------------------------------ *)
(** * Cuts *)

Lemma cut_concat {A} ns : forall l : list A, concat (cut l ns) = l.
Proof.
  induction ns as [|n ns IH]; intros l; destruct l as [|x l]; try reflexivity.
  - simpl. now rewrite app_nil_r.
  - change (cut (x :: l) (n :: ns)) with (firstn (S (pred n)) (x :: l) :: cut (skipn (S (pred n)) (x :: l)) ns).
    change (concat (?a :: ?b)) with (a ++ concat b). rewrite IH. apply firstn_skipn.
Qed.

Lemma cut_In {A} ns (l : list A) c x : In c (cut l ns) -> In x c -> In x l.
Proof.
  intros Hc Hx. rewrite <- (cut_concat ns l). apply in_concat. exists c. split; assumption.
Qed.

Lemma cut_forallb {A} (p : A -> bool) ns : forall l, forallb p l = true -> forallb (forallb p) (cut l ns) = true.
Proof.
  intros l H. apply forallb_forall. intros c Hc. apply forallb_forall. intros x Hx.
  rewrite forallb_forall in H. apply H. eapply cut_In; eassumption.
Qed.

(* ------------------------------------------------------------------ *)
(** * G: cutting does not matter; a program fed item by item equals the program run whole *)

Lemma g_items_app fuel c1 : forall g r c2,
  g_items fuel g r (c1 ++ c2) = (let '(g1, r1) := g_items fuel g r c1 in g_items fuel g1 r1 c2).
Proof.
  induction c1 as [|i c1 IH]; intros g r c2; [reflexivity|]. simpl.
  destruct (g_item fuel g i) as [g1 r1]. apply IH.
Qed.

Lemma g_items_fst fuel c g r r' : fst (g_items fuel g r c) = fst (g_items fuel g r' c).
Proof. destruct c as [|i c]; [reflexivity|]. simpl. reflexivity. Qed.

Lemma g_run_nomain fuel : forall cs g r,
  Forall (fun c => declares_main c = false) cs ->
  fst (g_run fuel g cs) = fst (g_items fuel g r (concat cs)).
Proof.
  induction cs as [|c cs IH]; intros g r H; [reflexivity|].
  inversion H as [|? ? H1 H2]; subst. simpl. unfold g_eval. rewrite H1.
  destruct c as [|i c].
  - simpl. specialize (IH g r H2). destruct (g_run fuel g cs) as [g2 rs]. simpl in *. exact IH.
  - change ((i :: c) ++ concat cs) with (i :: (c ++ concat cs)). simpl.
    destruct (g_item fuel g i) as [g1 r1]. rewrite g_items_app.
    destruct (g_items fuel g1 r1 c) as [g2 r2].
    specialize (IH g2 r2 H2). destruct (g_run fuel g2 cs) as [g3 rs]. simpl in *. exact IH.
Qed.

Definition closedC {C} (T : C -> option (fdef C)) (l : list C) : Prop := Forall (fun f => T f <> None) l.

Section Ext.
  Context {C : Type}.
  Variables T T' : C -> option (fdef C).
  Hypothesis Hsub : forall f, T f <> None -> T' f = T f.
  Hypothesis Hclosed : forall f d, T f = Some d -> closedC T (fnames_d d).

  Section E.
    Variables callT callT' : mem -> C -> Z -> mem * Z.
    Hypothesis Hcall : forall m f v, T f <> None -> callT' m f v = callT m f v.

    Lemma ev_ext e : forall m a, closedC T (fnames_e e) -> ev callT' m a e = ev callT m a e.
    Proof.
      unfold closedC.
      induction e as [z|x| |e1 IH1 e2 IH2|e1 IH1 e2 IH2|e1 IH1 e2 IH2|c e1 IH1|p]; intros m a Hc; simpl in *; try reflexivity.
      - apply Forall_app in Hc as [H1 H2]. rewrite IH1 by assumption. destruct (ev callT m a e1) as [m1 v1]. now rewrite IH2.
      - apply Forall_app in Hc as [H1 H2]. rewrite IH1 by assumption. destruct (ev callT m a e1) as [m1 v1]. now rewrite IH2.
      - apply Forall_app in Hc as [H1 H2]. rewrite IH1 by assumption. destruct (ev callT m a e1) as [m1 v1]. now rewrite IH2.
      - inversion Hc as [|? ? H0 H1]; subst. rewrite IH1 by assumption. destruct (ev callT m a e1) as [m1 v1]. apply Hcall, H0.
    Qed.

    Lemma ex_ext s m a : closedC T (fnames_s s) -> ex callT' m a s = ex callT m a s.
    Proof. destruct s; intros Hc; simpl in *; try reflexivity; now rewrite ev_ext. Qed.

    Lemma exl_ext l : forall m a r, closedC T (flat_map fnames_s l) -> exl callT' m a r l = exl callT m a r l.
    Proof.
      unfold closedC.
      induction l as [|s l IH]; intros m a r Hc; [reflexivity|]. simpl in *. apply Forall_app in Hc as [H1 H2].
      rewrite ex_ext by assumption. destruct (ex callT m a s) as [m1 r1]. now apply IH.
    Qed.
  End E.

  Lemma call_ext n : forall m f v, T f <> None -> call_n T' n m f v = call_n T n m f v.
  Proof.
    induction n as [|n IH]; intros m f v Hf; [reflexivity|]. simpl. rewrite (Hsub f Hf).
    destruct (T f) as [[body ret]|] eqn:ET; [|congruence].
    specialize (Hclosed f _ ET). unfold fnames_d, closedC in Hclosed. simpl in Hclosed. apply Forall_app in Hclosed as [Hb Hr].
    rewrite (exl_ext _ _ IH body m v None Hb). destruct (exl (call_n T n) m v None body) as [m1 r1].
    apply (ev_ext _ _ IH ret m1 v Hr).
  Qed.
End Ext.

Definition gclosed (g : gstate) : Prop :=
  forall f d, alookup (gfuns g) f = Some d -> closed_names (alookup (gfuns g)) (fnames_d d).

Lemma g_items_closed fuel c : forall g known r,
  gclosed g -> Known known g -> ordered_from known c = true ->
  gclosed (fst (g_items fuel g r c)) /\ Known (known_after known c) (fst (g_items fuel g r c)).
Proof.
  induction c as [|i c IH]; intros g known r Hg Hk Ho; [split; assumption|].
  apply ordered_cons in Ho as [Ho1 [Ho2 Ho3]].
  change (known_after known (i :: c)) with (known_after (known_after known [i]) c).
  simpl. destruct i as [x e|p|f d|s|k]; simpl.
  - destruct (ev (call_n (alookup (gfuns g)) fuel) (gmem g) 0%Z e) as [m1 v]. apply IH; assumption.
  - apply IH; assumption.
  - apply IH; [| |exact Ho3].
    + intros f' d' Hf'. simpl in Hf'.
      assert (Hmono : forall f'', alookup (gfuns g) f'' <> None -> alookup ((f, d) :: gfuns g) f'' <> None).
      { intros f'' H. simpl. destruct (N.eqb f f''); [discriminate|exact H]. }
      destruct (N.eqb_spec f f') as [<-|Hne].
      * inversion Hf'; subst d'. apply (consistent_mono_closed _ _ _ Hmono).
        eapply Forall_impl; [|exact Ho1]. intros f'' Hf''. apply Hk, Hf''.
      * apply (consistent_mono_closed _ _ _ Hmono). apply (Hg f' d' Hf').
    + intros f'. simpl. destruct (N.eqb_spec f f') as [<-|Hne].
      * split; [discriminate|intros _; left; reflexivity].
      * rewrite <- (Hk f'). split; [intros [H|H]; [congruence|exact H]|intros H; right; exact H].
  - destruct (ex (call_n (alookup (gfuns g)) fuel) (gmem g) 0%Z s) as [m1 r1]. apply IH; assumption.  - apply IH; assumption.
Qed.

Lemma stmts_map b : stmts (map IStmt b) = b.
Proof. induction b as [|s b IH]; [reflexivity|]. unfold stmts in *. simpl. now rewrite IH. Qed.

Lemma all_stmts_map b : forallb (fun i => negb (is_decl i)) (map IStmt b) = true.
Proof. induction b; [reflexivity|assumption]. Qed.

Lemma declared_funcs c : flat_map declared_f c = map fst (funcs c).
Proof.
  induction c as [|i c IH]; [reflexivity|]. unfold funcs. simpl. fold (funcs c). rewrite map_app, <- IH.
  destruct i; reflexivity.
Qed.

Lemma exl_fst_r {C} (call : mem -> C -> Z -> mem * Z) l m a r r' : fst (exl call m a r l) = fst (exl call m a r' l).
Proof. destruct l; reflexivity. Qed.

Lemma prog_ok_parts p : prog_ok p = true ->
  forallb is_decl (decls p) = true
  /\ ordered_from [] (decls p) = true
  /\ ordered_from (known_after [] (decls p)) (map IStmt (body p)) = true
  /\ ~ In main_name (map fst (funcs (decls p)))
  /\ ~ In main_name (flat_map fnames_s (body p)).
Proof.
  unfold prog_ok, ordered, no_main. intros H. apply andb_true_iff in H as [H _]. apply andb_true_iff in H as [H H3]. apply andb_true_iff in H as [H1 H2].
  rewrite ordered_from_app in H2. apply andb_true_iff in H2 as [H2a H2b].
  apply negb_true_iff in H3.
  assert (Hn : ~ In main_name (flat_map declared_f (decls p ++ map IStmt (body p)) ++ flat_map fnames_i (decls p ++ map IStmt (body p)))).
  { intros Hin. apply existsb_eqb_In in Hin. congruence. }
  repeat split; try assumption.
  - intros Hin. apply Hn. apply in_app_iff. left. rewrite flat_map_app. apply in_app_iff. left.
    rewrite declared_funcs. exact Hin.
  - intros Hin. apply Hn. apply in_app_iff. right. rewrite flat_map_app. apply in_app_iff. right.
    clear -Hin. induction (body p) as [|s b IH]; [exact Hin|]. simpl in *. apply in_app_iff in Hin. apply in_app_iff. tauto.
Qed.

Lemma prog_ok_nouses p : prog_ok p = true -> no_uses (decls p ++ map IStmt (body p)) = true.
Proof. unfold prog_ok. intros H. apply andb_true_iff in H as [_ H]. exact H. Qed.

Lemma uses_map_stmts b : flat_map uses_i (map IStmt b) = flat_map uses_s b.
Proof. induction b as [|s b IH]; [reflexivity|]. simpl. now rewrite IH. Qed.

Lemma whole_nouses p : prog_ok p = true -> no_uses (whole p) = true.
Proof.
  intros H. apply prog_ok_nouses in H. unfold no_uses, whole in *. rewrite flat_map_app in *.
  rewrite uses_map_stmts in H. simpl. rewrite app_nil_r. exact H.
Qed.

Lemma g_whole fuel p : prog_ok p = true ->
  gmem (fst (g_run fuel g0 [whole p])) = gmem (fst (g_items fuel g0 None (decls p ++ map IStmt (body p)))).
Proof.
  intros Hok. destruct (prog_ok_parts p Hok) as [Hd [Ho1 [Ho2 [Hnm Hnb]]]].
  assert (Hg0 : gclosed g0) by (intros f d H; discriminate).
  assert (Hk0 : Known [] g0) by (intros f; simpl; tauto).
  destruct (g_items_closed fuel (decls p) g0 [] None Hg0 Hk0 Ho1) as [Hcl Hk].
  unfold whole. simpl. unfold g_eval. rewrite !g_items_app.
  destruct (g_items fuel g0 None (decls p)) as [g1 r1] eqn:E1. simpl in Hcl, Hk. simpl.
  assert (Hdm : declares_main (decls p ++ [IFunc main_name (body p, EConst 0%Z)]) = true).
  { unfold declares_main, funcs. rewrite flat_map_app, existsb_app. simpl. apply orb_true_r. }
  rewrite Hdm. simpl. unfold run_body. simpl.
  rewrite (g_items_stmts fuel (map IStmt (body p)) g1 r1 (all_stmts_map _)). rewrite stmts_map.
  set (T1 := alookup (gfuns g1)).
  set (T' := alookup ((main_name, (body p, EConst 0%Z)) :: gfuns g1)).
  assert (Hsub : forall f, T1 f <> None -> T' f = T1 f).
  { intros f Hf. unfold T'. cbn [alookup]. destruct (N.eqb_spec main_name f) as [<-|Hne]; [|reflexivity].
    exfalso. apply Hnm. apply Hk in Hf. apply In_known_after in Hf as [[]|Hf]. exact Hf. }
  assert (Hb : closed_names T1 (flat_map fnames_s (body p))).
  { pose proof (stmts_names (map IStmt (body p)) _ (all_stmts_map _) Ho2) as Hs. rewrite stmts_map in Hs.
    eapply Forall_impl; [|exact Hs]. intros f Hf. apply Hk, Hf. }
  match goal with |- _ = ?R => change (fst (exl (call_n T' fuel) (gmem g1) 0%Z None (body p)) = R) end.
  rewrite (exl_ext T1 _ _ (call_ext T1 T' Hsub Hcl fuel) (body p) (gmem g1) 0%Z None Hb).
  rewrite (exl_fst_r (call_n T1 fuel) (body p) (gmem g1) 0%Z None r1).
  fold T1. destruct (exl (call_n T1 fuel) (gmem g1) 0%Z r1 (body p)) as [m2 r2]. reflexivity.
Qed.

Lemma pieces_concat p c1 c2 : concat (pieces p c1 c2) = decls p ++ map IStmt (body p).
Proof. unfold pieces. rewrite concat_app, !cut_concat. reflexivity. Qed.

Lemma pieces_nomain p c1 c2 : prog_ok p = true -> Forall (fun c => declares_main c = false) (pieces p c1 c2).
Proof.
  intros Hok. destruct (prog_ok_parts p Hok) as [_ [_ [_ [Hnm _]]]].
  apply Forall_forall. intros c Hc. destruct (declares_main c) eqn:E; [|reflexivity]. exfalso.
  unfold declares_main in E. apply existsb_exists in E as [[f d] [Hin He]]. simpl in He. apply N.eqb_eq in He. subst f.
  apply In_funcs in Hin. unfold pieces in Hc. apply in_app_iff in Hc as [Hc|Hc].
  - apply Hnm. apply in_map_iff. exists (main_name, d). split; [reflexivity|]. apply In_funcs. eapply cut_In; eassumption.
  - pose proof (cut_In _ _ _ _ Hc Hin) as H. apply in_map_iff in H as [s [Hs _]]. discriminate.
Qed.

Lemma main_last_nomain cs : Forall (fun c => declares_main c = false) cs -> main_last cs = true.
Proof.
  induction cs as [|c cs IH]; intros H; [reflexivity|]. inversion H as [|? ? H1 H2]; subst.
  destruct cs as [|c2 cs]; [reflexivity|]. change (negb (declares_main c) && main_last (c2 :: cs) = true).
  rewrite H1. simpl. apply IH, H2.
Qed.

Lemma pieces_homogeneous p c1 c2 : prog_ok p = true -> forallb homogeneous (pieces p c1 c2) = true.
Proof.
  intros Hok. destruct (prog_ok_parts p Hok) as [Hd _]. unfold pieces. rewrite forallb_app. apply andb_true_iff. split.
  - pose proof (cut_forallb is_decl c1 _ Hd) as H. rewrite forallb_forall in *. intros c Hc. unfold homogeneous.
    rewrite (H c Hc). reflexivity.
  - pose proof (cut_forallb (fun i => negb (is_decl i)) c2 _ (all_stmts_map (body p))) as H.
    rewrite forallb_forall in *. intros c Hc. unfold homogeneous. rewrite (H c Hc). apply orb_true_r.
Qed.

Lemma inits_indirect_stmts b : inits_indirect (map IStmt b) = true.
Proof. induction b; [reflexivity|assumption]. Qed.

Lemma whole_ok p : prog_ok p = true -> ordered (whole p) = true /\ forallb is_decl (whole p) = true.
Proof.
  intros Hok. destruct (prog_ok_parts p Hok) as [Hd [Ho1 [Ho2 [Hnm Hnb]]]]. unfold whole, ordered. split.
  - rewrite ordered_from_app, Ho1. cbn [andb]. apply ordered_cons. split; [|split].
    + simpl. unfold fnames_d. simpl. rewrite app_nil_r.
      pose proof (stmts_names (map IStmt (body p)) _ (all_stmts_map _) Ho2) as Hs. rewrite stmts_map in Hs. exact Hs.
    + intros f d Heq Hin. inversion Heq; subst. apply In_known_after in Hin as [[]|Hin]. exact (Hnm Hin).
    + reflexivity.
  - rewrite forallb_app, Hd. reflexivity.
Qed.

(** The property for programs fed in interactive style: any cut of the declarations and of the
    statements of main gives the memory (variables, pointer targets, output) of the evaluation in
    one piece. *)
Theorem any_cut fuel p c1 c2 :
  prog_ok p = true -> inits_indirect (decls p) = true ->
  ymem (fst (y_run fuel y0 (pieces p c1 c2))) = ymem (fst (y_run fuel y0 [whole p])).
Proof.
  intros Hok Hi.
  assert (Hpieces : obs_y (y_run fuel y0 (pieces p c1 c2)) = obs_g (g_run fuel g0 (pieces p c1 c2))).
  { apply y_session_is_g.
    - apply pieces_homogeneous, Hok.
    - rewrite pieces_concat. pose proof Hok as Hok'. unfold prog_ok in Hok'. apply andb_true_iff in Hok' as [Hok' _].
      apply andb_true_iff in Hok' as [Hok' _]. apply andb_true_iff in Hok' as [_ Hok']. exact Hok'.
    - rewrite pieces_concat, inits_indirect_app, Hi. apply inits_indirect_stmts.
    - apply main_last_nomain, pieces_nomain, Hok.
    - rewrite pieces_concat. apply prog_ok_nouses, Hok. }
  destruct (whole_ok p Hok) as [Hwo Hwd].
  assert (Hwhole : obs_y (y_run fuel y0 [whole p]) = obs_g (g_run fuel g0 [whole p])).
  { apply y_session_is_g.
    - simpl. unfold homogeneous. rewrite Hwd. reflexivity.
    - simpl. rewrite app_nil_r. exact Hwo.
    - simpl. rewrite app_nil_r. unfold whole. rewrite inits_indirect_app, Hi. reflexivity.
    - reflexivity.
    - simpl. rewrite app_nil_r. apply whole_nouses, Hok. }
  pose proof (f_equal fst Hpieces) as Hp1. pose proof (f_equal fst Hwhole) as Hw1.
  unfold obs_y, obs_g in Hp1, Hw1. cbn [fst] in Hp1, Hw1.
  rewrite Hp1, Hw1. rewrite (g_run_nomain fuel _ g0 None (pieces_nomain p c1 c2 Hok)).
  rewrite pieces_concat. symmetry. apply g_whole, Hok.
Qed.

(* ------------------------------------------------------------------ *)
(** * Complete programs fed declaration by declaration *)

Lemma declares_main_app c1 c2 : declares_main (c1 ++ c2) = declares_main c1 || declares_main c2.
Proof. unfold declares_main, funcs. rewrite flat_map_app. apply existsb_app. Qed.

Lemma g_run_mainlast fuel : forall cs g,
  main_last cs = true -> gmem (fst (g_run fuel g cs)) = gmem (fst (g_eval fuel g (concat cs))).
Proof.
  induction cs as [|c r IH]; intros g Hl.
  - simpl. unfold g_eval. simpl. reflexivity.
  - destruct r as [|c2 r2].
    + simpl. rewrite app_nil_r. destruct (g_eval fuel g c) as [g1 r1]. reflexivity.
    + assert (Hl' : negb (declares_main c) && main_last (c2 :: r2) = true) by exact Hl.
      apply andb_true_iff in Hl' as [Hl1 Hl2]. apply negb_true_iff in Hl1.
      change (concat (c :: c2 :: r2)) with (c ++ concat (c2 :: r2)).
      change (g_run fuel g (c :: c2 :: r2)) with
        (let '(g1, r1) := g_eval fuel g c in let '(g2, rs) := g_run fuel g1 (c2 :: r2) in (g2, r1 :: rs)).
      unfold g_eval. rewrite declares_main_app, Hl1, g_items_app. cbn [orb].
      destruct (g_items fuel g None c) as [g1 r1].
      specialize (IH g1 Hl2). destruct (g_run fuel g1 (c2 :: r2)) as [g2 rs]. cbn [fst] in *. rewrite IH.
      unfold g_eval.
      pose proof (g_items_fst fuel (concat (c2 :: r2)) g1 None r1) as Hf.
      destruct (g_items fuel g1 None (concat (c2 :: r2))) as [ga ra].
      destruct (g_items fuel g1 r1 (concat (c2 :: r2))) as [gb rb]. cbn [fst] in Hf. subst gb.
      destruct (declares_main (concat (c2 :: r2))); reflexivity.
Qed.

Lemma concat_all_decl cs : forallb (forallb is_decl) cs = true -> forallb is_decl (concat cs) = true.
Proof.
  induction cs as [|c r IH]; intros H; [reflexivity|]. simpl in *. apply andb_true_iff in H as [H1 H2].
  rewrite forallb_app, H1. apply IH, H2.
Qed.

(** A complete program (declarations only, [main] among them) cut into chunks: same memory as in
    one piece, provided [main] sits in the last chunk. *)
Theorem complete_program_cut fuel cs :
  forallb (forallb is_decl) cs = true -> ordered (concat cs) = true ->
  inits_indirect (concat cs) = true -> main_last cs = true -> no_uses (concat cs) = true ->
  ymem (fst (y_run fuel y0 cs)) = ymem (fst (y_run fuel y0 [concat cs])).
Proof.
  intros Hd Ho Hi Hl Hnu.
  assert (Hh : forallb homogeneous cs = true).
  { rewrite forallb_forall in *. intros c Hc. unfold homogeneous. rewrite (Hd c Hc). reflexivity. }
  pose proof (f_equal fst (y_session_is_g fuel cs Hh Ho Hi Hl Hnu)) as H1.
  assert (H2 : fst (obs_y (y_run fuel y0 [concat cs])) = fst (obs_g (g_run fuel g0 [concat cs]))).
  { f_equal. apply y_session_is_g.
    - simpl. unfold homogeneous. rewrite (concat_all_decl cs Hd). reflexivity.
    - simpl. rewrite app_nil_r. exact Ho.
    - simpl. rewrite app_nil_r. exact Hi.
    - reflexivity.
    - simpl. rewrite app_nil_r. exact Hnu. }
  unfold obs_y, obs_g in H1, H2. cbn [fst] in H1, H2. rewrite H1, H2.
  rewrite (g_run_mainlast fuel cs g0 Hl). simpl. destruct (g_eval fuel g0 (concat cs)) as [g1 r1]. reflexivity.
Qed.

(* ------------------------------------------------------------------ *)
(** * Entry points *)

Lemma compile_execute_is_eval fuel s c : y_compile_execute fuel s c = y_eval fuel s c.
Proof. unfold y_compile_execute, y_eval. destruct (y_compile s c) as [[s1 [p|]] r]; reflexivity. Qed.

(** Eval, Compile+Execute, CompileAST+Execute and EvalPath file by file are the same function of the
    chunk list: they share [compileSrc]/[CompileAST]/[Execute]. *)
Theorem entrypoints_agree fuel : forall cs s,
  y_run_ce fuel s cs = y_run fuel s cs /\ y_run_ast fuel s cs = y_run fuel s cs /\ y_run_path fuel s cs = y_run fuel s cs.
Proof.
  assert (H : forall cs s, y_run_ce fuel s cs = y_run fuel s cs).
  { induction cs as [|c r IH]; intros s; [reflexivity|]. simpl. rewrite compile_execute_is_eval.
    destruct (y_eval fuel s c) as [s1 r1]. rewrite IH. reflexivity. }
  intros cs s. repeat split; try apply H. 
Qed.

(* ------------------------------------------------------------------ *)
(** * Compile every chunk first, execute afterwards *)

Definition cclosed (cd : list (fdef nat)) : Prop :=
  forall k d, nth_error cd k = Some d -> closedC (nth_error cd) (fnames_d d).

Definition wf (s : ystate) : Prop :=
  cclosed (code s) /\ (forall f k, alookup (fscope s) f = Some k -> (k < length (code s))%nat).

Definition wfp (cd : list (fdef nat)) (p : program) : Prop :=
  closedC (nth_error cd) (flat_map fnames_s (p_stmts p))
  /\ Forall (fun xe : N * expr nat => closedC (nth_error cd) (fnames_e (snd xe))) (p_inits p)
  /\ (forall k, p_main p = Some k -> nth_error cd k <> None).

Section Range.
  Variable rho : N -> option nat.
  Definition in_range (l : list nat) : Prop := Forall (fun k => exists f, rho f = Some k) l.

  Lemma res_e_range e : forall re, res_e rho e = Some re -> in_range (fnames_e re).
  Proof.
    unfold in_range.
    induction e as [z|x| |e1 IH1 e2 IH2|e1 IH1 e2 IH2|e1 IH1 e2 IH2|c e1 IH1|p]; intros re Hr; simpl in Hr;
      try (inversion Hr; subst; constructor).
    - destruct (res_e rho e1) as [r1|]; [|discriminate]. destruct (res_e rho e2) as [r2|]; [|discriminate].
      inversion Hr; subst. simpl. apply Forall_app. split; [apply IH1|apply IH2]; reflexivity.
    - destruct (res_e rho e1) as [r1|]; [|discriminate]. destruct (res_e rho e2) as [r2|]; [|discriminate].
      inversion Hr; subst. simpl. apply Forall_app. split; [apply IH1|apply IH2]; reflexivity.
    - destruct (res_e rho e1) as [r1|]; [|discriminate]. destruct (res_e rho e2) as [r2|]; [|discriminate].
      inversion Hr; subst. simpl. apply Forall_app. split; [apply IH1|apply IH2]; reflexivity.
    - destruct (rho c) as [k|] eqn:Ek; [|discriminate]. destruct (res_e rho e1) as [r1|]; [|discriminate].
      inversion Hr; subst. simpl. constructor; [exists c; exact Ek|apply IH1; reflexivity].
  Qed.

  Lemma res_s_range s : forall rs, res_s rho s = Some rs -> in_range (fnames_s rs).
  Proof.
    destruct s as [x e|p x|p e|e|e|k]; intros rs Hr; simpl in Hr;
      try (destruct (res_e rho e) as [r|] eqn:E; [|discriminate]; inversion Hr; subst; simpl; apply (res_e_range e r E)).
    all: inversion Hr; subst; constructor.
  Qed.

  Lemma res_l_range l : forall rl, res_l rho l = Some rl -> in_range (flat_map fnames_s rl).
  Proof.
    induction l as [|s l IH]; intros rl Hr; simpl in Hr; [inversion Hr; constructor|].
    destruct (res_s rho s) as [rs|] eqn:Es; [|discriminate]. destruct (res_l rho l) as [rl'|] eqn:El; [|discriminate].
    inversion Hr; subst. simpl. apply Forall_app. split; [apply (res_s_range s rs Es)|apply IH; reflexivity].
  Qed.

  Lemma res_d_range d : forall rd, res_d rho d = Some rd -> in_range (fnames_d rd).
  Proof.
    intros rd Hr. unfold res_d in Hr.
    destruct (res_l rho (fst d)) as [rb|] eqn:Eb; [|discriminate]. destruct (res_e rho (snd d)) as [rr|] eqn:Er; [|discriminate].
    inversion Hr; subst. unfold fnames_d. simpl. apply Forall_app. split; [apply (res_l_range _ _ Eb)|apply (res_e_range _ _ Er)].
  Qed.
End Range.

Lemma in_range_closed (rho : N -> option nat) (cd : list (fdef nat)) l :
  (forall f k, rho f = Some k -> (k < length cd)%nat) -> in_range rho l -> closedC (nth_error cd) l.
Proof.
  intros Hb Hr. eapply Forall_impl; [|exact Hr]. intros k [f Hf]. apply nth_error_Some. apply (Hb f k Hf).
Qed.

Lemma closedC_app_code (cd extra : list (fdef nat)) l : closedC (nth_error cd) l -> closedC (nth_error (cd ++ extra)) l.
Proof.
  intros H. eapply Forall_impl; [|exact H]. intros k Hk. apply nth_error_Some. rewrite app_length.
  apply nth_error_Some in Hk. lia.
Qed.

Lemma mapM_Forall {A B} (f : A -> option B) (P : B -> Prop) l :
  (forall x y, In x l -> f x = Some y -> P y) -> forall r, mapM f l = Some r -> Forall P r.
Proof.
  induction l as [|x l IH]; intros HP r Hr; simpl in Hr; [inversion Hr; constructor|].
  destruct (f x) as [y|] eqn:Ey; [|discriminate]. destruct (mapM f l) as [r'|] eqn:Er; [|discriminate].
  inversion Hr; subst. constructor; [apply (HP x y); [left; reflexivity|exact Ey]|].
  apply IH; [|reflexivity]. intros x' y' Hin. apply HP. right; exact Hin.
Qed.

(** what a compilation does to the state: it appends code, never touches the memory, keeps the state well-formed *)
Lemma compile_facts s c s1 op r :
  wf s -> y_compile s c = (s1, op, r) ->
  (exists extra, code s1 = code s ++ extra) /\ ymem s1 = ymem s /\ wf s1
  /\ (forall p, op = Some p -> wfp (code s1) p).
Proof.
  intros [Hcc Hsb] H. unfold y_compile in H.
  destruct (uses_ok s c); cbn [negb] in H;
    [|inversion H; subst; (split; [exists []; now rewrite app_nil_r|]); (split; [reflexivity|]); (split; [split; assumption|discriminate])].
  destruct (forallb is_decl c) eqn:Ed.
  - set (F := gta_f (length (code s)) (fscope s) (funcs c)) in *.
    destruct (res_funcs (alookup F) (funcs c)) as [ds|] eqn:Eds; [|inversion H; subst; (split; [exists []; now rewrite app_nil_r|]); (split; [reflexivity|]); (split; [split; assumption|discriminate])].
    destruct (res_inits (alookup F) (inits c)) as [ri|] eqn:Eri; [|inversion H; subst; (split; [exists []; now rewrite app_nil_r|]); (split; [reflexivity|]); (split; [split; assumption|discriminate])].
    inversion H; subst; clear H. unfold wf, cclosed. cbn [code ymem fscope].
    assert (HbF : forall f k, alookup F f = Some k -> (k < length (code s ++ ds))%nat).
    { intros f k Hf. rewrite app_length. unfold res_funcs in Eds. rewrite (mapM_length _ _ _ Eds).
      apply (gta_f_bound (funcs c) _ _ Hsb f k Hf). }
    assert (Hds : Forall (fun d => closedC (nth_error (code s ++ ds)) (fnames_d d)) ds).
    { unfold res_funcs in Eds. eapply mapM_Forall; [|exact Eds]. intros [f d] rd _ Hr. simpl in Hr.
      apply (in_range_closed (alookup F)); [exact HbF|apply (res_d_range _ _ _ Hr)]. }
    split; [exists ds; reflexivity|]. split; [reflexivity|]. split; [split|].
    + intros k d Hk. destruct (Nat.lt_ge_cases k (length (code s))) as [Hlt|Hge].
      * rewrite nth_error_app1 in Hk by exact Hlt. apply closedC_app_code. apply (Hcc k d Hk).
      * rewrite nth_error_app2 in Hk by exact Hge. rewrite Forall_forall in Hds. apply Hds. eapply nth_error_In; exact Hk.
    + exact HbF.
    + intros p Hp. inversion Hp; subst; clear Hp. unfold wfp. cbn [p_stmts p_inits p_main]. split; [constructor|]. split.
      * unfold res_inits in Eri. eapply mapM_Forall; [|exact Eri]. intros [x e] [x' e'] _ Hr. simpl in Hr.
        destruct (res_e (alookup F) e) as [re|] eqn:Ee; [|discriminate]. inversion Hr; subst. simpl.
        apply (in_range_closed (alookup F)); [exact HbF|apply (res_e_range _ _ _ Ee)].
      * intros k Hk. apply nth_error_Some. apply (HbF _ _ Hk).
  - destruct (forallb (fun i => negb (is_decl i)) c) eqn:Es.
    + destruct (res_l (alookup (fscope s)) (stmts c)) as [ss|] eqn:Ess; [|inversion H; subst; (split; [exists []; now rewrite app_nil_r|]); (split; [reflexivity|]); (split; [split; assumption|discriminate])].
      inversion H; subst; clear H. unfold wf. cbn [code ymem fscope].
      split; [exists []; now rewrite app_nil_r|]. split; [reflexivity|]. split; [split; assumption|].
      intros p Hp. inversion Hp; subst; clear Hp. unfold wfp. cbn [p_stmts p_inits p_main]. split; [|split; [constructor|]].
      * apply (in_range_closed (alookup (fscope s))); [exact Hsb|apply (res_l_range _ _ _ Ess)].
      * intros k Hk. apply nth_error_Some. apply (Hsb _ _ Hk).
    + inversion H; subst. split; [exists []; now rewrite app_nil_r|]. split; [reflexivity|]. split; [split; assumption|discriminate].
Qed.

Lemma compile_with_mem s c m :
  y_compile (with_mem s m) c = (let '(s1, p, r) := y_compile s c in (with_mem s1 m, p, r)).
Proof.
  unfold y_compile, with_mem, uses_ok, new_imports. cbn [fscope vscope code epoch ymem srcname imports].
  match goal with |- context [negb ?b] => destruct b end; cbn [negb]; [|reflexivity].
  destruct (forallb is_decl c).
  - destruct (res_funcs _ (funcs c)); [|reflexivity]. destruct (res_inits _ (inits c)); reflexivity.
  - destruct (forallb (fun i => negb (is_decl i)) c); [|reflexivity]. destruct (res_l _ (stmts c)); reflexivity.
Qed.

Lemma compile_all_with_mem cs : forall s m,
  y_compile_all (with_mem s m) cs = (let '(s1, ps) := y_compile_all s cs in (with_mem s1 m, ps)).
Proof.
  induction cs as [|c r IH]; intros s m; [reflexivity|]. simpl. rewrite compile_with_mem.
  destruct (y_compile s c) as [[s1 p] r1]. rewrite IH. destruct (y_compile_all s1 r) as [s2 ps]. reflexivity.
Qed.

Lemma compile_all_facts cs : forall s s2 ps, wf s -> y_compile_all s cs = (s2, ps) ->
  (exists extra, code s2 = code s ++ extra) /\ ymem s2 = ymem s.
Proof.
  induction cs as [|c r IH]; intros s s2 ps Hwf H; simpl in H.
  - inversion H; subst. split; [exists []; now rewrite app_nil_r|reflexivity].
  - destruct (y_compile s c) as [[s1 p] r1] eqn:Ec. destruct (y_compile_all s1 r) as [s3 ps'] eqn:Ea. inversion H; subst.
    destruct (compile_facts s c s1 p r1 Hwf Ec) as [[e1 He1] [Hm1 [Hwf1 _]]].
    destruct (IH s1 s2 ps' Hwf1 Ea) as [[e2 He2] Hm2]. split; [exists (e1 ++ e2); rewrite He2, He1, app_assoc; reflexivity|congruence].
Qed.

Lemma run_inits_ext {C} (callT callT' : mem -> C -> Z -> mem * Z) (T : C -> option (fdef C)) :
  (forall m f v, T f <> None -> callT' m f v = callT m f v) ->
  forall l m, Forall (fun xe : N * expr C => closedC T (fnames_e (snd xe))) l -> run_inits callT' m l = run_inits callT m l.
Proof.
  intros Hcall. induction l as [|[x e] l IH]; intros m H; [reflexivity|]. inversion H as [|? ? H1 H2]; subst. simpl in *.
  rewrite (ev_ext T callT callT' Hcall e m 0%Z H1). destruct (ev callT m 0%Z e) as [m1 v]. apply IH, H2.
Qed.

(** executing a program does not depend on code compiled later *)
Lemma execute_ext fuel s s' p extra :
  code s' = code s ++ extra -> ymem s' = ymem s -> cclosed (code s) -> wfp (code s) p ->
  exists m res, y_execute fuel s p = (with_mem s m, res) /\ y_execute fuel s' p = (with_mem s' m, res).
Proof.
  intros Hc Hm Hcc [Hw1 [Hw2 Hw3]]. unfold y_execute. rewrite Hc, Hm.
  set (T := nth_error (code s)). set (T' := nth_error (code s ++ extra)).
  assert (Hsub : forall k, T k <> None -> T' k = T k).
  { intros k Hk. unfold T, T'. apply nth_error_app1. apply nth_error_Some. exact Hk. }
  pose proof (call_ext T T' Hsub Hcc fuel) as Hcall.
  rewrite (exl_ext T _ _ Hcall (p_stmts p) (ymem s) 0%Z None Hw1).
  destruct (exl (call_n T fuel) (ymem s) 0%Z None (p_stmts p)) as [m1 r].
  destruct (p_loop p); [eexists _, _; split; reflexivity|].
  rewrite (run_inits_ext _ _ T Hcall (p_inits p) m1 Hw2).
  destruct (p_main p) as [k|] eqn:Ek; [|eexists _, _; split; reflexivity].
  unfold run_body. rewrite (Hsub k (Hw3 k eq_refl)).
  destruct (T k) as [[body ret]|] eqn:ETk; [|eexists _, _; split; reflexivity].
  pose proof (Hcc k _ ETk) as Hb. unfold fnames_d, closedC in Hb. simpl in Hb. apply Forall_app in Hb as [Hb _].
  rewrite (exl_ext T _ _ Hcall body _ 0%Z None Hb). eexists _, _; split; reflexivity.
Qed.

Lemma wf_with_mem s m : wf s -> wf (with_mem s m).
Proof. intros H. exact H. Qed.

(** Compile-all-then-Execute-all gives the same final state and the same results as evaluating chunk by chunk *)
Theorem compile_all_first fuel : forall cs s, wf s -> y_run_call fuel s cs = y_run fuel s cs.
Proof.
  induction cs as [|c r IH]; intros s Hwf; [reflexivity|].
  unfold y_run_call. simpl. unfold y_eval.
  destruct (y_compile s c) as [[s1 op] r0] eqn:Ec.
  destruct (compile_facts s c s1 op r0 Hwf Ec) as [_ [_ [Hwf1 Hwfp]]].
  destruct (y_compile_all s1 r) as [s2 ps] eqn:Ea.
  destruct (compile_all_facts r s1 s2 ps Hwf1 Ea) as [[extra He] Hm2].
  destruct op as [p|].
  - destruct (execute_ext fuel s1 s2 p extra He Hm2 (proj1 Hwf1) (Hwfp p eq_refl)) as [m [res [E1 E2]]].
    cbn [y_execute_all]. rewrite E1, E2. rewrite <- (IH (with_mem s1 m) (wf_with_mem s1 m Hwf1)).
    unfold y_run_call. rewrite compile_all_with_mem, Ea. reflexivity.
  - cbn [y_execute_all]. rewrite <- (IH s1 Hwf1). unfold y_run_call. rewrite Ea. reflexivity.
Qed.

Lemma wf0 : wf y0.
Proof. split; [intros k d H; destruct k; discriminate|intros f k H; discriminate]. Qed.

Theorem compile_all_first0 fuel cs : y_run_call fuel y0 cs = y_run fuel y0 cs.
Proof. apply compile_all_first, wf0. Qed.

(* ------------------------------------------------------------------ *)
(** * Redefinition *)

(** (Re)defining [f] leaves every other function symbol, all code compiled so far, the variable
    scope and, unless a [main] is around, the whole memory as they were. *)
Theorem redefine_local fuel s f d s' r :
  y_eval fuel s [IFunc f d] = (s', r) ->
  (forall g, g <> f -> alookup (fscope s') g = alookup (fscope s) g)
  /\ (forall k rd, nth_error (code s) k = Some rd -> nth_error (code s') k = Some rd)
  /\ vscope s' = vscope s
  /\ (f <> main_name -> alookup (fscope s) main_name = None -> ymem s' = ymem s).
Proof.
  unfold y_eval, y_compile.
  destruct (uses_ok s [IFunc f d]); cbn [negb];
    [|intros H; inversion H; subst; repeat split; try reflexivity; intros k rd Hk; exact Hk].
  cbn [forallb is_decl andb funcs inits vars flat_map app gta_f gta_v map rev res_funcs res_inits mapM snd].
  destruct (res_d (alookup ((f, length (code s)) :: fscope s)) d) as [rd|] eqn:Er.
  - unfold y_execute. cbn [p_stmts p_inits p_loop p_main exl loop_flag existsb run_inits code ymem fscope].
    intros H.
    assert (Hs : fscope s' = (f, length (code s)) :: fscope s /\ code s' = code s ++ [rd] /\ vscope s' = vscope s
                 /\ (alookup ((f, length (code s)) :: fscope s) main_name = None -> ymem s' = ymem s)).
    { destruct (alookup ((f, length (code s)) :: fscope s) main_name) eqn:Em; inversion H; subst; simpl; repeat split; try reflexivity; discriminate. }
    destruct Hs as [H1 [H2 [H3 H4]]]. split; [|split; [|split]].
    + intros g Hg. rewrite H1. simpl. destruct (N.eqb_spec f g); [congruence|reflexivity].
    + intros k rd' Hk. rewrite H2. rewrite nth_error_app1; [exact Hk|]. apply nth_error_Some. congruence.
    + exact H3.
    + intros Hf Hm. apply H4. simpl. destruct (N.eqb_spec f main_name); [congruence|exact Hm].
  - intros H. inversion H; subst. repeat split; try reflexivity. intros k rd Hk. exact Hk.
Qed.

(* ------------------------------------------------------------------ *)
(** * Non-vacuity and refutations (by computation) *)

Lemma example_ok :
  prog_ok p_example = true /\ inits_indirect (decls p_example) = true
  /\ length (pieces p_example [1; 2]%nat [1; 1]%nat) = 6%nat
  /\ out (ymem (fst (y_run 8 y0 (pieces p_example [1; 2]%nat [1; 1]%nat)))) = [19; 9; 3]%Z
  /\ snd (y_run 8 y0 (pieces p_example [1; 2]%nat [1; 1]%nat)) = [ROk None; ROk None; ROk None; ROk None; ROk None; ROk (Some 25%Z)].
Proof. vm_compute. repeat split. Qed.

Lemma example_complete :
  let cs := [[IVar 1 (EConst 1%Z)]; [IFunc 1 ([upd 2 1], EVar 1); IVar 2 (ECall 1 (EConst 0%Z))];
             [IFunc main_name ([SPrint (EVar 2)], EConst 0%Z)]] in
  forallb (forallb is_decl) cs = true /\ ordered (concat cs) = true /\ inits_indirect (concat cs) = true
  /\ main_last cs = true /\ out (ymem (fst (y_run 8 y0 cs))) = [3%Z].
Proof. vm_compute. repeat split. Qed.

Lemma example_session :
  forallb homogeneous redef_cs = true /\ uses_defined (concat redef_cs) = true
  /\ obs_y (y_run 8 y0 redef_cs) = obs_g (g_run 8 g0 redef_cs)
  /\ out (ymem (fst (y_run 8 y0 redef_cs))) = [10; 2]%Z.
Proof. vm_compute. repeat split. Qed.

(** after a chunk that declares [main], every later chunk runs [main] again *)
Lemma main_rerun_refuted :
  forallb (forallb is_decl) rerun_cs = true /\ ordered (concat rerun_cs) = true /\ inits_indirect (concat rerun_cs) = true
  /\ rev (out (ymem (fst (y_run 8 y0 rerun_cs)))) = [3; 7]%Z
  /\ rev (out (ymem (fst (y_run 8 y0 [concat rerun_cs])))) = [3%Z]
  /\ rev (out (gmem (fst (g_run 8 g0 rerun_cs)))) = [3%Z]
  /\ ymem (fst (y_run 8 y0 rerun_cs)) <> ymem (fst (y_run 8 y0 [concat rerun_cs])).
Proof. vm_compute. repeat split. intros H. discriminate. Qed.

(** a package-level variable whose initialiser mentions a variable of an earlier chunk is rejected *)
Lemma var_xdep_refuted :
  prog_ok p_xdep = true
  /\ snd (y_run 8 y0 (pieces p_xdep [1]%nat [])) = [ROk None; RLoop; ROk None]
  /\ rev (out (ymem (fst (y_run 8 y0 (pieces p_xdep [1]%nat []))))) = [0%Z]
  /\ rev (out (ymem (fst (y_run 8 y0 [whole p_xdep])))) = [11%Z]
  /\ ymem (fst (y_run 8 y0 (pieces p_xdep [1]%nat []))) <> ymem (fst (y_run 8 y0 [whole p_xdep])).
Proof. vm_compute. repeat split. intros H. discriminate. Qed.

(** a function compiled before a redefinition keeps calling the old body *)
Lemma stale_callee_refuted :
  forallb homogeneous stale_cs = true /\ uses_defined (concat stale_cs) = true /\ inits_indirect (concat stale_cs) = true
  /\ out (ymem (fst (y_run 8 y0 stale_cs))) = [3%Z] /\ out (gmem (fst (g_run 8 g0 stale_cs))) = [4%Z]
  /\ obs_y (y_run 8 y0 stale_cs) <> obs_g (g_run 8 g0 stale_cs).
Proof. vm_compute. repeat split. intros H. discriminate. Qed.

(** the side condition [ordered] is what "interactive style" means: a forward reference across chunks does not compile *)
Lemma ordered_needed :
  ordered (concat forward_cs) = false /\ snd (y_run 8 y0 forward_cs) = [RUndef; ROk None]
  /\ snd (y_run 8 y0 [concat forward_cs]) = [ROk None].
Proof. vm_compute. repeat split. Qed.

(** an import made under one source name is not visible under another *)
Lemma import_scope_refuted :
  nodir impscope_steps = true /\ forallb homogeneous (map step_chunk impscope_steps) = true
  /\ imp_ordered [] (concat (map step_chunk impscope_steps)) = true
  /\ snd (y_steps 8 y0 impscope_steps) = [ROk None; ROk None; RUndef]
  /\ out (gmem (fst (g_run 8 g0 (map step_chunk impscope_steps)))) = [2%Z]
  /\ obs_y (y_steps 8 y0 impscope_steps) <> obs_g (g_run 8 g0 (map step_chunk impscope_steps)).
Proof. vm_compute. repeat split. intros H. discriminate. Qed.

Lemma import_scope_example :
  imp_ordered [] (concat (map step_chunk impscope_ok_steps)) = true
  /\ obs_y (y_steps 8 y0 impscope_ok_steps) = obs_g (g_run 8 g0 (map step_chunk impscope_ok_steps))
  /\ out (ymem (fst (y_steps 8 y0 impscope_ok_steps))) = [5; 2]%Z.
Proof. vm_compute. repeat split. Qed.

(** the symbols of a package evaluated as a directory are not visible to later chunks *)
Lemma dir_scope_refuted :
  forallb homogeneous (map step_chunk dirscope_steps) = true /\ ordered (concat (map step_chunk dirscope_steps)) = true
  /\ snd (y_steps 8 y0 dirscope_steps) = [ROk None; RUndef]
  /\ out (gmem (fst (g_run 8 g0 (map step_chunk dirscope_steps)))) = [7%Z]
  /\ obs_y (y_steps 8 y0 dirscope_steps) <> obs_g (g_run 8 g0 (map step_chunk dirscope_steps)).
Proof. vm_compute. repeat split. intros H. discriminate. Qed.
