(** Evaluation of the C11 models on the cases written by the harness (correspondence check).
    [sess_mis_y]: ids of the cases where the observed session of the implementation (status, value
    and output of every Eval/Execute, final globals, pointer targets) differs from Y;
    [sess_mis_g]: ids of the cases where the reference (compiled Go: whole program, or the history
    rendered with function variables) differs from G. *)
From Verif Require Import Lib.Str Session.Model.
From Coq Require Import NArith.
Open Scope N_scope.

Definition fuel0 : nat := 64.

(** observed outcome of one chunk: status (0 ok, 1 does not parse, 2 undefined, 3 definition loop),
    value returned (recorded only when the chunk ends with an expression statement), lines printed *)
Definition chunk_obs := (N * option Z * list Z)%type.

Definition final_obs := (list Z * list (option N))%type.   (* variables in declaration order, pointer targets *)

Definition status (r : result) : N * option Z :=
  match r with ROk v => (0, v) | RParse => (1, None) | RUndef => (2, None) | RLoop => (3, None) end.

Definition delta (before after : mem) : list Z :=
  rev (firstn (length (out after) - length (out before)) (out after)).

Definition obs_of (before : mem) (s : ystate) (r : result) : chunk_obs :=
  let '(c, v) := status r in (c, v, delta before (ymem s)).

Fixpoint y_trace (s : ystate) (l : list step) : ystate * list chunk_obs :=
  match l with
  | [] => (s, [])
  | st :: r => let '(s1, r1) := y_step fuel0 s st in
               let '(s2, os) := y_trace s1 r in (s2, obs_of (ymem s) s1 r1 :: os)
  end.

Fixpoint y_trace_exec (s : ystate) (ps : list (option program * result)) : ystate * list chunk_obs :=
  match ps with
  | [] => (s, [])
  | (Some p, _) :: r => let '(s1, r1) := y_execute fuel0 s p in
                        let '(s2, os) := y_trace_exec s1 r in (s2, obs_of (ymem s) s1 r1 :: os)
  | (None, e) :: r => let '(s2, os) := y_trace_exec s r in (s2, obs_of (ymem s) s e :: os)
  end.

(** a session is a list of steps (unnamed source: Eval, Compile+Execute or CompileAST; named file:
    EvalPath on disk or on a MapFS; directory); mode 4: the unnamed chunks are all compiled first
    and executed afterwards *)
Definition y_session (mode : N) (l : list step) : ystate * list chunk_obs :=
  match mode with
  | 4 => let '(s1, ps) := y_compile_all y0 (map step_chunk l) in y_trace_exec s1 ps
  | _ => y_trace y0 l
  end.

Definition final_of (m : mem) (vars ptrs : list N) : final_obs :=
  (map (rd m) vars, map (alookup (Model.ptrs m)) ptrs).

Definition optZ_eqb (a b : option Z) : bool :=
  match a, b with Some x, Some y => Z.eqb x y | None, None => true | _, _ => false end.
Definition optN_eqb (a b : option N) : bool :=
  match a, b with Some x, Some y => N.eqb x y | None, None => true | _, _ => false end.

Fixpoint list_eqb {A} (e : A -> A -> bool) (a b : list A) : bool :=
  match a, b with
  | [], [] => true
  | x :: a', y :: b' => e x y && list_eqb e a' b'
  | _, _ => false
  end.

Definition chunk_obs_eqb (a b : chunk_obs) : bool :=
  let '(c1, v1, o1) := a in let '(c2, v2, o2) := b in
  N.eqb c1 c2 && optZ_eqb v1 v2 && list_eqb Z.eqb o1 o2.

Definition final_eqb (a b : final_obs) : bool :=
  list_eqb Z.eqb (fst a) (fst b) && list_eqb optN_eqb (snd a) (snd b).

(** id, entry point, chunks as fed, names observed (variables, pointers),
    observed session, observed final state;
    chunks of the reference run, reference output, reference final state *)
Definition sess_case :=
  (N * N * list step * list N * list N * list chunk_obs * final_obs * list chunk * list Z * final_obs)%type.

Definition sess_mis_y (cs : list sess_case) : list N :=
  flat_map (fun '(id, mode, chunks, vs, ps, obs, fin, _, _, _) =>
    let '(s, tr) := y_session mode chunks in
    if list_eqb chunk_obs_eqb tr obs && final_eqb (final_of (ymem s) vs ps) fin then [] else [id]) cs.

Definition sess_mis_g (cs : list sess_case) : list N :=
  flat_map (fun '(id, _, _, vs, ps, _, _, gchunks, gout, gfin) =>
    let '(g, _) := g_run fuel0 g0 gchunks in
    if list_eqb Z.eqb (rev (out (gmem g))) gout && final_eqb (final_of (gmem g) vs ps) gfin then [] else [id]) cs.
