(** C11 — evaluating a program piecewise equals evaluating it whole.

    A tiny language in which the order of evaluation matters (global integer variables, one pointer
    kind, functions of one parameter that read/write globals and print), one evaluator shared by
    both models, and two session models:

    Y: transcription of the session mechanics of yaegi
       - interp/ast.go [parse] in incremental mode: the first token decides whether the chunk is
         parsed as a file of declarations ("package main;" prefix) or wrapped into a synthetic
         main and evaluated as statements in the global scope; a mixed chunk does not parse;
       - interp/gta.go: the symbols of the whole chunk are entered in the persistent package
         scope first ([sc.sym[ident] = &symbol{kind: funcSym, node: n}]: a redefinition silently
         overwrites); interp/cfg.go then resolves every identifier against that scope: a call is
         bound to the *node* of the callee known at that moment (static binding);
       - interp/program.go [CompileAST]: [if m := gs.sym["main"]; pkgName == "main" && m != nil
         { initNodes = append(initNodes, m.node) }] — whenever the package scope holds a [main],
         whichever chunk declared it;
       - interp/program.go [Execute]: root statements, then [genGlobalVars] (interp/cfg.go
         [genGlobalVarDecl]: a variable whose initialiser mentions a global variable that is not
         among the variables *of this chunk* can never be initialised: "variable definition
         loop"; nothing of the chunk is initialised and the init list is not run), then the init
         list (here: [main]), then the value of the last expression.
    G: the contract: items take effect in order, a call runs the current definition of the callee,
       a chunk that declares [main] runs it once, nothing else re-runs.

    Definitions only; proofs are in Session/Proofs.v. *)
From Verif Require Import Lib.Str.
From Coq Require Import NArith.
Open Scope N_scope.

(* ------------------------------------------------------------------ *)
(** * Syntax (callee references of type [C]: names in source items, code ids once compiled) *)

Inductive expr (C : Type) :=
| EConst (z : Z)
| EVar (x : N)                       (* package-level int variable *)
| EArg                               (* the parameter [a] of the enclosing function *)
| EAdd (a b : expr C)
| ESub (a b : expr C)
| EMul (a b : expr C)
| ECall (c : C) (a : expr C)
| EDeref (p : N).                    (* *p, p a package-level *int *)
Arguments EConst {C}. Arguments EVar {C}. Arguments EArg {C}. Arguments EAdd {C}. Arguments ESub {C}.
Arguments EMul {C}. Arguments ECall {C}. Arguments EDeref {C}.

Inductive stmt (C : Type) :=
| SAssign (x : N) (e : expr C)        (* x = e *)
| SSetPtr (p x : N)                   (* p = &x *)
| SStoreP (p : N) (e : expr C)        (* *p = e *)
| SPrint (e : expr C)                 (* fmt.Println(e) *)
| SExpr (e : expr C)                  (* expression statement; its value is what Eval returns *)
| SUse (k : N).                       (* fmt.Println(<a call into imported package k>): needs the import to be visible *)
Arguments SAssign {C}. Arguments SSetPtr {C}. Arguments SStoreP {C}. Arguments SPrint {C}. Arguments SExpr {C}.
Arguments SUse {C}.

(** func f(a int) int { body; return ret } *)
Definition fdef (C : Type) := (list (stmt C) * expr C)%type.

Inductive item :=
| IVar (x : N) (e : expr N)           (* var x = e *)
| IPtr (p : N)                        (* var p *int *)
| IFunc (f : N) (d : fdef N)          (* func f(a int) int {...};  f = main_name: func main() {...} *)
| IStmt (s : stmt N)
| IImport (k : N).                    (* import "<package k>" *)

(** what the call into package k prints (strings.Count("aXbXc", "X"), len(strconv.Itoa(12345)), ...) *)
Definition impval (k : N) : Z := match k with 1 => 2%Z | 2 => 5%Z | 3 => 4%Z | 4 => 7%Z | _ => 0%Z end.

Definition main_name : N := 0.

Definition chunk := list item.

(* ------------------------------------------------------------------ *)
(** * Memory and the evaluator (shared) *)

Record mem := { store : list (N * Z);      (* newest binding first; unbound = 0 (zero value) *)
                ptrs : list (N * N);       (* pointer variable -> the variable it points to; unbound = nil *)
                out : list Z }.            (* printed values, newest first *)

Definition mem0 : mem := {| store := []; ptrs := []; out := [] |}.

Fixpoint alookup {A} (l : list (N * A)) (x : N) : option A :=
  match l with
  | [] => None
  | (y, v) :: r => if N.eqb y x then Some v else alookup r x
  end.

Definition rd (m : mem) (x : N) : Z := match alookup (store m) x with Some v => v | None => 0%Z end.
Definition wr (m : mem) (x : N) (v : Z) : mem :=
  {| store := (x, v) :: store m; ptrs := ptrs m; out := out m |}.
Definition setp (m : mem) (p x : N) : mem :=
  {| store := store m; ptrs := (p, x) :: ptrs m; out := out m |}.
Definition pr (m : mem) (v : Z) : mem :=
  {| store := store m; ptrs := ptrs m; out := v :: out m |}.

(** 64-bit wrap-around of Go's int. *)
Definition wrap (z : Z) : Z := ((z + 2 ^ 63) mod 2 ^ 64 - 2 ^ 63)%Z.

Section Eval.
  Context {C : Type}.
  (** [call m c v]: result of calling [c] with argument [v]. *)
  Variable call : mem -> C -> Z -> mem * Z.

  Fixpoint ev (m : mem) (a : Z) (e : expr C) : mem * Z :=
    match e with
    | EConst z => (m, z)
    | EVar x => (m, rd m x)
    | EArg => (m, a)
    | EAdd e1 e2 => let '(m1, v1) := ev m a e1 in let '(m2, v2) := ev m1 a e2 in (m2, wrap (v1 + v2))
    | ESub e1 e2 => let '(m1, v1) := ev m a e1 in let '(m2, v2) := ev m1 a e2 in (m2, wrap (v1 - v2))
    | EMul e1 e2 => let '(m1, v1) := ev m a e1 in let '(m2, v2) := ev m1 a e2 in (m2, wrap (v1 * v2))
    | ECall c e1 => let '(m1, v1) := ev m a e1 in call m1 c v1
    | EDeref p => match alookup (ptrs m) p with
                  | Some x => (m, rd m x)
                  | None => (m, 0%Z)           (* nil dereference: never generated *)
                  end
    end.

  (** a statement yields the new memory and the value Eval would return if it were last *)
  Definition ex (m : mem) (a : Z) (s : stmt C) : mem * option Z :=
    match s with
    | SAssign x e => let '(m1, v) := ev m a e in (wr m1 x v, None)
    | SSetPtr p x => (setp m p x, None)
    | SStoreP p e => let tgt := alookup (ptrs m) p in      (* the pointer is read before the right-hand side runs *)
                     let '(m1, v) := ev m a e in
                     (match tgt with Some x => wr m1 x v | None => m1 end, None)
    | SPrint e => let '(m1, v) := ev m a e in (pr m1 v, None)
    | SExpr e => let '(m1, v) := ev m a e in (m1, Some v)
    | SUse k => (pr m (impval k), None)
    end.

  Fixpoint exl (m : mem) (a : Z) (r : option Z) (l : list (stmt C)) : mem * option Z :=
    match l with
    | [] => (m, r)
    | s :: l' => let '(m1, r1) := ex m a s in exl m1 a r1 l'
    end.
End Eval.

Section Call.
  Context {C : Type}.
  Variable fenv : C -> option (fdef C).
  (** calls nest at most [n] deep; beyond that a call returns 0 without effect *)
  Fixpoint call_n (n : nat) (m : mem) (c : C) (v : Z) : mem * Z :=
    match n with
    | O => (m, 0%Z)
    | S n' => match fenv c with
              | None => (m, 0%Z)
              | Some (body, ret) => let '(m1, _) := exl (call_n n') m v None body in ev (call_n n') m1 v ret
              end
    end.
End Call.

(* ------------------------------------------------------------------ *)
(** * Names mentioned *)

Fixpoint fnames_e {C} (e : expr C) : list C :=
  match e with
  | EConst _ | EVar _ | EArg | EDeref _ => []
  | EAdd a b | ESub a b | EMul a b => fnames_e a ++ fnames_e b
  | ECall c a => c :: fnames_e a
  end.

Fixpoint vnames_e {C} (e : expr C) : list N :=
  match e with
  | EConst _ | EArg => []
  | EVar x => [x]
  | EDeref p => [p]
  | EAdd a b | ESub a b | EMul a b => vnames_e a ++ vnames_e b
  | ECall _ a => vnames_e a
  end.

Definition fnames_s {C} (s : stmt C) : list C :=
  match s with
  | SAssign _ e | SStoreP _ e | SPrint e | SExpr e => fnames_e e
  | SSetPtr _ _ | SUse _ => []
  end.

Definition fnames_d {C} (d : fdef C) : list C := flat_map fnames_s (fst d) ++ fnames_e (snd d).

Definition fnames_i (i : item) : list N :=
  match i with
  | IVar _ e => fnames_e e
  | IPtr _ => []
  | IFunc _ d => fnames_d d
  | IStmt s => fnames_s s
  | IImport _ => []
  end.

(** packages used (through [SUse]) and imported by a chunk *)
Definition uses_s {C} (s : stmt C) : list N := match s with SUse k => [k] | _ => [] end.
Definition uses_i (i : item) : list N :=
  match i with
  | IFunc _ d => flat_map uses_s (fst d)
  | IStmt s => uses_s s
  | _ => []
  end.
Definition imports_of (c : list item) : list N :=
  flat_map (fun i => match i with IImport k => [k] | _ => [] end) c.

Definition declared_f (i : item) : list N := match i with IFunc f _ => [f] | _ => [] end.

Definition is_decl (i : item) : bool := match i with IStmt _ => false | _ => true end.

Definition no_uses (c : list item) : bool := match flat_map uses_i c with [] => true | _ => false end.

(* ------------------------------------------------------------------ *)
(** * Y — the session as yaegi runs it *)

(** compile: names -> code ids (interp/cfg.go binds a call to the callee's node) *)
Section Resolve.
  Variable rho : N -> option nat.
  Fixpoint res_e (e : expr N) : option (expr nat) :=
    match e with
    | EConst z => Some (EConst z)
    | EVar x => Some (EVar x)
    | EArg => Some EArg
    | EAdd a b => match res_e a, res_e b with Some a', Some b' => Some (EAdd a' b') | _, _ => None end
    | ESub a b => match res_e a, res_e b with Some a', Some b' => Some (ESub a' b') | _, _ => None end
    | EMul a b => match res_e a, res_e b with Some a', Some b' => Some (EMul a' b') | _, _ => None end
    | ECall c a => match rho c, res_e a with Some k, Some a' => Some (ECall k a') | _, _ => None end
    | EDeref p => Some (EDeref p)
    end.
  Definition res_s (s : stmt N) : option (stmt nat) :=
    match s with
    | SAssign x e => option_map (SAssign x) (res_e e)
    | SSetPtr p x => Some (SSetPtr p x)
    | SStoreP p e => option_map (SStoreP p) (res_e e)
    | SPrint e => option_map SPrint (res_e e)
    | SExpr e => option_map SExpr (res_e e)
    | SUse k => Some (SUse k)
    end.
  Fixpoint res_l (l : list (stmt N)) : option (list (stmt nat)) :=
    match l with
    | [] => Some []
    | s :: r => match res_s s, res_l r with Some s', Some r' => Some (s' :: r') | _, _ => None end
    end.
  Definition res_d (d : fdef N) : option (fdef nat) :=
    match res_l (fst d), res_e (snd d) with Some b, Some r => Some (b, r) | _, _ => None end.
End Resolve.

Record ystate := { fscope : list (N * nat);     (* package scope: function name -> code id (newest first) *)
                   vscope : list (N * nat);     (* package scope: variable name -> number of the chunk that declared it *)
                   code : list (fdef nat);      (* compiled function bodies; the id is the position *)
                   epoch : nat;                 (* number of chunks compiled so far *)
                   ymem : mem;
                   srcname : N;                 (* interp.name: sticky name of the last named source; 0 = "_.go" *)
                   imports : list (N * N) }.    (* package scope keys "<pkg>/<basename of the source>": (source name, package) *)

Definition y0 : ystate := {| fscope := []; vscope := []; code := []; epoch := O; ymem := mem0; srcname := 0; imports := [] |}.

(** a compiled chunk (interp.Program) *)
Record program := { p_stmts : list (stmt nat);          (* root statements (statement chunk) *)
                    p_inits : list (N * expr nat);      (* global variable initialisers (declaration chunk) *)
                    p_loop : bool;                      (* genGlobalVarDecl will report a definition loop *)
                    p_main : option nat }.              (* [main] appended to the init list *)

Inductive result :=
| ROk (v : option Z)      (* value of the last expression statement, if the chunk ends with one *)
| RParse                  (* mixed chunk: does not parse in incremental mode *)
| RUndef                  (* an identifier does not resolve *)
| RLoop.                  (* "variable definition loop" *)

(** the three kinds of content of a chunk *)
Definition funcs (c : chunk) : list (N * fdef N) :=
  flat_map (fun i => match i with IFunc f d => [(f, d)] | _ => [] end) c.
Definition inits (c : chunk) : list (N * expr N) :=
  flat_map (fun i => match i with IVar x e => [(x, e)] | _ => [] end) c.
Definition vars (c : chunk) : list N :=
  flat_map (fun i => match i with IVar x _ => [x] | IPtr p => [p] | _ => [] end) c.
Definition stmts (c : chunk) : list (stmt N) :=
  flat_map (fun i => match i with IStmt s => [s] | _ => [] end) c.

(** gta: enter the symbols of a declaration chunk; code ids are handed out in order; a name that
    is already there is overwritten (shadowed: the newest binding is found first) *)
Fixpoint gta_f (next : nat) (fs : list (N * nat)) (l : list (N * fdef N)) : list (N * nat) :=
  match l with
  | [] => fs
  | (f, _) :: r => gta_f (S next) ((f, next) :: fs) r
  end.

Definition gta_v (ep : nat) (vs : list (N * nat)) (l : list N) : list (N * nat) :=
  rev (map (fun x => (x, ep)) l) ++ vs.

Fixpoint mapM {A B} (f : A -> option B) (l : list A) : option (list B) :=
  match l with
  | [] => Some []
  | x :: r => match f x, mapM f r with Some y, Some r' => Some (y :: r') | _, _ => None end
  end.

Definition res_funcs (rho : N -> option nat) (l : list (N * fdef N)) : option (list (fdef nat)) :=
  mapM (fun fd => res_d rho (snd fd)) l.

Definition res_inits (rho : N -> option nat) (l : list (N * expr N)) : option (list (N * expr nat)) :=
  mapM (fun xe => option_map (pair (fst xe)) (res_e rho (snd xe))) l.

(** getVarDependencies: an initialiser depends on every global variable it mentions; only the
    variables of the chunk being executed can ever become "inited" *)
Definition foreign_dep (vs : list (N * nat)) (ep : nat) (x : N) : bool :=
  match alookup vs x with Some e => negb (Nat.eqb e ep) | None => false end.

Definition loop_flag (vs : list (N * nat)) (ep : nat) (inits : list (N * expr nat)) : bool :=
  existsb (fun '(_, e) => existsb (foreign_dep vs ep) (vnames_e e)) inits.

(** an imported package is entered in the package scope under "<pkg>/<basename of the source being
    compiled>" (interp/gta.go importSpec) and looked up with the base name of the source of the chunk
    that uses it (interp/cfg.go identExpr): a use sees the imports made under the name in force *)
Definition new_imports (s : ystate) (c : chunk) : list (N * N) :=
  map (pair (srcname s)) (imports_of c) ++ imports s.

Definition visible (imps : list (N * N)) (name k : N) : bool :=
  existsb (fun nk => N.eqb (fst nk) name && N.eqb (snd nk) k) imps.

Definition uses_ok (s : ystate) (c : chunk) : bool :=
  forallb (visible (new_imports s c) (srcname s)) (flat_map uses_i c).

Definition y_compile (s : ystate) (c : chunk) : ystate * option program * result :=
  if negb (uses_ok s c) then (s, None, RUndef) else
  if forallb is_decl c then
    let fs := gta_f (length (code s)) (fscope s) (funcs c) in
    let vs := gta_v (epoch s) (vscope s) (vars c) in
    match res_funcs (alookup fs) (funcs c), res_inits (alookup fs) (inits c) with
    | Some ds, Some inits =>
        ({| fscope := fs; vscope := vs; code := code s ++ ds; epoch := S (epoch s); ymem := ymem s;
            srcname := srcname s; imports := new_imports s c |},
         Some {| p_stmts := []; p_inits := inits; p_loop := loop_flag vs (epoch s) inits; p_main := alookup fs main_name |},
         ROk None)
    | _, _ => (s, None, RUndef)
    end
  else if forallb (fun i => negb (is_decl i)) c then
    match res_l (alookup (fscope s)) (stmts c) with
    | Some ss =>
        ({| fscope := fscope s; vscope := vscope s; code := code s; epoch := S (epoch s); ymem := ymem s;
            srcname := srcname s; imports := imports s |},
         Some {| p_stmts := ss; p_inits := []; p_loop := false; p_main := alookup (fscope s) main_name |},
         ROk None)
    | None => (s, None, RUndef)
    end
  else (s, None, RParse).

Definition with_mem (s : ystate) (m : mem) : ystate :=
  {| fscope := fscope s; vscope := vscope s; code := code s; epoch := epoch s; ymem := m;
     srcname := srcname s; imports := imports s |}.

Fixpoint run_inits {C} (call : mem -> C -> Z -> mem * Z) (m : mem) (l : list (N * expr C)) : mem :=
  match l with
  | [] => m
  | (x, e) :: r => let '(m1, v) := ev call m 0%Z e in run_inits call (wr m1 x v) r
  end.

(** [main] is run as a node of the init list, not through a call of interpreted code *)
Definition run_body {C} (fenv : C -> option (fdef C)) (fuel : nat) (m : mem) (c : C) : mem :=
  match fenv c with
  | Some (body, _) => fst (exl (call_n fenv fuel) m 0%Z None body)
  | None => m
  end.

(** the chunk ends with a bare variable: Execute reads the value of the root node from the variable's
    own frame slot, after the init list has run (a computed expression has its own slot) *)
Definition last_var (l : list (stmt nat)) : option N :=
  match rev l with SExpr (EVar x) :: _ => Some x | _ => None end.

Definition y_execute (fuel : nat) (s : ystate) (p : program) : ystate * result :=
  let fenv := nth_error (code s) in
  let '(m1, r) := exl (call_n fenv fuel) (ymem s) 0%Z None (p_stmts p) in
  if p_loop p then (with_mem s m1, RLoop)
  else
    let m2 := run_inits (call_n fenv fuel) m1 (p_inits p) in
    let m3 := match p_main p with Some k => run_body fenv fuel m2 k | None => m2 end in
    (with_mem s m3,
     ROk (match p_main p with
          | Some _ => match last_var (p_stmts p) with Some x => Some (rd m3 x) | None => r end
          | None => r
          end)).

(** Eval = compileSrc; Execute *)
Definition y_eval (fuel : nat) (s : ystate) (c : chunk) : ystate * result :=
  match y_compile s c with
  | (s1, Some p, _) => y_execute fuel s1 p
  | (s1, None, r) => (s1, r)
  end.

Fixpoint y_run (fuel : nat) (s : ystate) (cs : list chunk) : ystate * list result :=
  match cs with
  | [] => (s, [])
  | c :: r => let '(s1, r1) := y_eval fuel s c in let '(s2, rs) := y_run fuel s1 r in (s2, r1 :: rs)
  end.

(** A session step: an unnamed source (Eval, Compile+Execute, CompileAST with the name in force), a
    named file (EvalPath / CompilePath on a file: [compileSrc] makes its name the name in force before
    anything else), or a directory (EvalPath on a directory goes through [importSrc]: the package gets
    a scope of its own, keyed by the path, with its own variables; only the output is shared). *)
Inductive step :=
| SEval (c : chunk)
| SFile (n : N) (c : chunk)
| SDir (c : chunk).

Definition set_name (s : ystate) (n : N) : ystate :=
  {| fscope := fscope s; vscope := vscope s; code := code s; epoch := epoch s; ymem := ymem s;
     srcname := n; imports := imports s |}.

Definition y_step (fuel : nat) (s : ystate) (st : step) : ystate * result :=
  match st with
  | SEval c => y_eval fuel s c
  | SFile n c => y_eval fuel (set_name s n) c
  | SDir c =>
      let '(s', r) := y_eval fuel (with_mem y0 {| store := []; ptrs := []; out := out (ymem s) |}) c in
      (with_mem s {| store := store (ymem s); ptrs := ptrs (ymem s); out := out (ymem s') |}, r)
  end.

Fixpoint y_steps (fuel : nat) (s : ystate) (l : list step) : ystate * list result :=
  match l with
  | [] => (s, [])
  | st :: r => let '(s1, r1) := y_step fuel s st in let '(s2, rs) := y_steps fuel s1 r in (s2, r1 :: rs)
  end.

Definition step_chunk (st : step) : chunk := match st with SEval c | SFile _ c | SDir c => c end.

Definition nodir (l : list step) : bool := forallb (fun st => match st with SDir _ => false | _ => true end) l.

(** every use of a package comes after an import of it (interactive style, for imports) *)
Fixpoint imp_ordered (known : list N) (c : chunk) : bool :=
  match c with
  | [] => true
  | i :: r => forallb (fun k => existsb (N.eqb k) known) (uses_i i) && imp_ordered (imports_of [i] ++ known) r
  end.

(** the other entry points: the same two functions, composed differently *)
Definition y_compile_execute (fuel : nat) (s : ystate) (c : chunk) : ystate * result :=
  let '(s1, p, r) := y_compile s c in
  match p with Some p' => y_execute fuel s1 p' | None => (s1, r) end.

Fixpoint y_run_ce (fuel : nat) (s : ystate) (cs : list chunk) : ystate * list result :=
  match cs with
  | [] => (s, [])
  | c :: r => let '(s1, r1) := y_compile_execute fuel s c in let '(s2, rs) := y_run_ce fuel s1 r in (s2, r1 :: rs)
  end.

(** CompileAST: the caller parses; [interp.ast] and everything after it is shared *)
Definition y_run_ast := y_run_ce.
(** EvalPath on successive files of package main: [eval(src, path, inc=false)] *)
Definition y_run_path := y_run.

(** Compile every chunk first, Execute them afterwards *)
Fixpoint y_compile_all (s : ystate) (cs : list chunk) : ystate * list (option program * result) :=
  match cs with
  | [] => (s, [])
  | c :: r => let '(s1, p, r1) := y_compile s c in
              let '(s2, ps) := y_compile_all s1 r in (s2, (p, r1) :: ps)
  end.

Fixpoint y_execute_all (fuel : nat) (s : ystate) (ps : list (option program * result)) : ystate * list result :=
  match ps with
  | [] => (s, [])
  | (Some p, _) :: r => let '(s1, r1) := y_execute fuel s p in
                        let '(s2, rs) := y_execute_all fuel s1 r in (s2, r1 :: rs)
  | (None, e) :: r => let '(s2, rs) := y_execute_all fuel s r in (s2, e :: rs)
  end.

Definition y_run_call (fuel : nat) (s : ystate) (cs : list chunk) : ystate * list result :=
  let '(s1, ps) := y_compile_all s cs in y_execute_all fuel s1 ps.

(* ------------------------------------------------------------------ *)
(** * G — the contract *)

Record gstate := { gfuns : list (N * fdef N); gmem : mem }.
Definition g0 : gstate := {| gfuns := []; gmem := mem0 |}.

Definition g_item (fuel : nat) (g : gstate) (i : item) : gstate * option Z :=
  match i with
  | IVar x e => let '(m1, v) := ev (call_n (alookup (gfuns g)) fuel) (gmem g) 0%Z e in
                ({| gfuns := gfuns g; gmem := wr m1 x v |}, None)
  | IPtr _ | IImport _ => (g, None)      (* an import stays visible for good *)
  | IFunc f d => ({| gfuns := (f, d) :: gfuns g; gmem := gmem g |}, None)
  | IStmt s => let '(m1, r1) := ex (call_n (alookup (gfuns g)) fuel) (gmem g) 0%Z s in
               ({| gfuns := gfuns g; gmem := m1 |}, r1)
  end.

Fixpoint g_items (fuel : nat) (g : gstate) (r : option Z) (c : chunk) : gstate * option Z :=
  match c with
  | [] => (g, r)
  | i :: c' => let '(g1, r1) := g_item fuel g i in g_items fuel g1 r1 c'
  end.

Definition declares_main (c : chunk) : bool :=
  existsb (fun fd => N.eqb (fst fd) main_name) (funcs c).

(** a chunk that is a complete program runs its [main], once *)
Definition g_eval (fuel : nat) (g : gstate) (c : chunk) : gstate * result :=
  let '(g1, r) := g_items fuel g None c in
  if declares_main c
  then ({| gfuns := gfuns g1; gmem := run_body (alookup (gfuns g1)) fuel (gmem g1) main_name |}, ROk r)
  else (g1, ROk r).

Fixpoint g_run (fuel : nat) (g : gstate) (cs : list chunk) : gstate * list result :=
  match cs with
  | [] => (g, [])
  | c :: r => let '(g1, r1) := g_eval fuel g c in let '(g2, rs) := g_run fuel g1 r in (g2, r1 :: rs)
  end.

(* ------------------------------------------------------------------ *)
(** * Programs, cuts, the two ways of feeding a program *)

Record prog := { decls : chunk; body : list (stmt N) }.

(** evaluating in one piece: package main; decls; func main() { body } *)
Definition whole (p : prog) : chunk := decls p ++ [IFunc main_name (body p, EConst 0%Z)].

(** [cut l ns]: successive pieces of the given sizes (a size 0 counts as 1), the rest as last piece *)
Fixpoint cut {A} (l : list A) (ns : list nat) : list (list A) :=
  match l with
  | [] => []
  | _ => match ns with
         | [] => [l]
         | n :: ns' => firstn (S (pred n)) l :: cut (skipn (S (pred n)) l) ns'
         end
  end.

(** interactive style: declarations chunk by chunk, then the statements of main chunk by chunk *)
Definition pieces (p : prog) (c1 c2 : list nat) : list chunk :=
  cut (decls p) c1 ++ cut (map IStmt (body p)) c2.

(* ------------------------------------------------------------------ *)
(** * Side conditions *)

(** every function name an item mentions was declared by an earlier item; names are declared once *)
Fixpoint ordered_from (known : list N) (c : chunk) : bool :=
  match c with
  | [] => true
  | i :: r =>
      forallb (fun f => existsb (N.eqb f) known) (fnames_i i)
      && match i with
         | IFunc f _ => negb (existsb (N.eqb f) known) && ordered_from (f :: known) r
         | _ => ordered_from known r
         end
  end.

Definition ordered (c : chunk) : bool := ordered_from [] c.

(** no initialiser mentions a variable directly (it may call functions that do) *)
Definition inits_indirect (c : chunk) : bool :=
  forallb (fun i => match i with IVar _ e => match vnames_e e with [] => true | _ => false end | _ => true end) c.

(** [main] is declared, if at all, in the last chunk *)
Fixpoint main_last (cs : list chunk) : bool :=
  match cs with
  | [] => true
  | [c] => true
  | c :: r => negb (declares_main c) && main_last r
  end.

Definition homogeneous (c : chunk) : bool := forallb is_decl c || forallb (fun i => negb (is_decl i)) c.

Definition no_main (c : chunk) : bool := negb (existsb (N.eqb main_name) (flat_map declared_f c ++ flat_map fnames_i c)).

Definition prog_ok (p : prog) : bool :=
  forallb is_decl (decls p) && ordered (decls p ++ map IStmt (body p)) && no_main (decls p ++ map IStmt (body p))
  && no_uses (decls p ++ map IStmt (body p)).    (* the import dimension is treated separately: sessions of steps *)

(* ------------------------------------------------------------------ *)
(** * Observation *)

Definition obs_y (r : ystate * list result) : mem * list result := (ymem (fst r), snd r).
Definition obs_g (r : gstate * list result) : mem * list result := (gmem (fst r), snd r).

(* ------------------------------------------------------------------ *)
(** * Statement without side conditions (used by the [_refuted] theorems) and witnesses *)

(** like [ordered], but a function may be declared again *)
Fixpoint uses_defined_from (known : list N) (c : chunk) : bool :=
  match c with
  | [] => true
  | i :: r =>
      forallb (fun f => existsb (N.eqb f) known) (fnames_i i)
      && match i with
         | IFunc f _ => uses_defined_from (f :: known) r
         | _ => uses_defined_from known r
         end
  end.
Definition uses_defined (c : chunk) : bool := uses_defined_from [] c.

(** x = x*k + c on variable 1 *)
Definition upd (k c : Z) : stmt N := SAssign 1 (EAdd (EMul (EVar 1) (EConst k)) (EConst c)).

(** an ordinary program: var v1 = 1; func f1(a) { v1 = v1*2 + 1; print v1; return v1 + a };
    var v2 = f1(3); var p *int;  main: p = &v1; *p = *p + v2; print v1; f1(v2) *)
Definition p_example : prog :=
  {| decls := [IVar 1 (EConst 1%Z);
               IFunc 1 ([upd 2 1; SPrint (EVar 1)], EAdd (EVar 1) EArg);
               IVar 2 (ECall 1 (EConst 3%Z));
               IPtr 101];
     body := [SSetPtr 101 1; SStoreP 101 (EAdd (EDeref 101) (EVar 2)); SPrint (EVar 1); SExpr (ECall 1 (EVar 2))] |}.

(** main-rerun: var v1 = 1; func main() { v1 = v1*2+1; print v1 } | var v2 = 5 *)
Definition rerun_cs : list chunk :=
  [[IVar 1 (EConst 1%Z); IFunc main_name ([upd 2 1; SPrint (EVar 1)], EConst 0%Z)];
   [IVar 2 (EConst 5%Z)]].

(** var-xdep: var v1 = 1 | var v2 = v1 + 10 | print v2 *)
Definition p_xdep : prog :=
  {| decls := [IVar 1 (EConst 1%Z); IVar 2 (EAdd (EVar 1) (EConst 10%Z))];
     body := [SPrint (EVar 2)] |}.

(** stale callee: var v1 = 1 | f1(a) = v1*2 | f2(a) = f1(a)+1 | f1(a) = v1*3 | print f2(0) *)
Definition stale_cs : list chunk :=
  [[IVar 1 (EConst 1%Z)];
   [IFunc 1 ([], EMul (EVar 1) (EConst 2%Z))];
   [IFunc 2 ([], EAdd (ECall 1 EArg) (EConst 1%Z))];
   [IFunc 1 ([], EMul (EVar 1) (EConst 3%Z))];
   [IStmt (SPrint (ECall 2 (EConst 0%Z)))]].

(** redefinition seen by fresh code only: f1(a) = a+1 | print f1(1) | f1(a) = a*10 | print f1(1) *)
Definition redef_cs : list chunk :=
  [[IFunc 1 ([], EAdd EArg (EConst 1%Z))];
   [IStmt (SPrint (ECall 1 (EConst 1%Z)))];
   [IFunc 1 ([], EMul EArg (EConst 10%Z))];
   [IStmt (SPrint (ECall 1 (EConst 1%Z)))]].

(** interactive style needs declaration before use: f2 calls f1 | f1 *)
Definition forward_cs : list chunk :=
  [[IFunc 2 ([], ECall 1 EArg)]; [IFunc 1 ([], EArg)]].

(** import scope: import "strings" | EvalPath(file 1: var v1 = 1) | a use of strings *)
Definition impscope_steps : list step :=
  [SEval [IImport 1]; SFile 1 [IVar 1 (EConst 1%Z)]; SEval [IStmt (SUse 1)]].

(** the same through one source name: visible *)
Definition impscope_ok_steps : list step :=
  [SFile 1 [IImport 1; IVar 1 (EConst 1%Z)]; SEval [IStmt (SUse 1)]; SEval [IImport 2]; SEval [IStmt (SUse 2)]].

(** directory, then a chunk that calls one of its functions *)
Definition dirscope_steps : list step :=
  [SDir [IFunc 1 ([], EConst 7%Z)]; SEval [IStmt (SPrint (ECall 1 (EConst 0%Z)))]].
