(** Evaluation of the C19 models on the cases written by the harness (correspondence check).

    A case is one debug session of one generated program:
    - the control-flow graph of the program as dumped from the implementation after the session
      (pre-order list of nodes: successors, code address of the closure, position, parent, subtree
      size, whether the action is nop, function name id, start node),
    - the requested line and function breakpoints,
    - the true sequence of operations of a plain run (from the instrumented closures), as the acts
      of the replay machine,
    - the resume requests,
    - what the implementation did: events (reason, line, column), where the flags were put, which
      requests were valid,
    - the reference: the lines of the marker statements that the program's own output shows to have
      executed, restricted to the requested breakpoints.

    [c19_mis_y]: ids of the sessions whose observed events / flags differ from model Y;
    [c19_mis_g]: ids of the sessions where G (flagged nodes of the true sequence) differs from the
    reference derived from the output. *)
From Coq Require Import List Bool Arith NArith Lia.
Import ListNotations.
From Verif Require Import Debug.Model.

(* ------------------------------------------------------------------ *)
(** * The dumped graph *)

Record nd := {
  d_t : option nat; d_f : option nat; d_pc : N; d_pos : bool; d_line : N; d_col : N;
  d_anc : option nat; d_size : nat; d_nop : bool; d_fn : N; d_start : option nat
}.

(** The harness packs the fields of a node into one number, 12 bits per field, first field lowest:
    tnext+1, fnext+1, code address, has position, line, column, parent+1, subtree size,
    action is nop, function name id, start+1 (0 = none for the +1 fields). *)
Definition fld (x : N) (i : N) : N := N.land (N.shiftr x (12 * i)) 4095.

Definition opt_of (x : N) : option nat := if N.eqb x 0 then None else Some (N.to_nat x - 1).
Definition bool_of (x : N) : bool := negb (N.eqb x 0).

Definition mk_node (x : N) : nd :=
  {| d_t := opt_of (fld x 0); d_f := opt_of (fld x 1); d_pc := fld x 2; d_pos := bool_of (fld x 3);
     d_line := fld x 4; d_col := fld x 5; d_anc := opt_of (fld x 6); d_size := N.to_nat (fld x 7);
     d_nop := bool_of (fld x 8); d_fn := fld x 9; d_start := opt_of (fld x 10) |}.

Definition mk_nodes (l : list N) : list nd := map mk_node l.

Definition get {A} (nodes : list nd) (n : nat) (f : nd -> A) (dflt : A) : A :=
  match nth_error nodes n with Some r => f r | None => dflt end.

(** originalExecNode(n, exec): for the nearest enclosing subtree that has one, the last node in Walk
    order, other than n, whose closure has the code address of exec; the Walk does not descend into
    a node that matched. [l] is the part of the pre-order list that starts at position [pos]. *)
Fixpoint scan (l : list nd) (pos self : nat) (p : N) (skip : nat) (acc : option nat) : option nat :=
  match l with
  | [] => acc
  | r :: l' =>
      match skip with
      | S k => scan l' (S pos) self p k acc
      | 0 =>
          if negb (Nat.eqb pos self) && negb (N.eqb (d_pc r) 0) && N.eqb (d_pc r) p
          then scan l' (S pos) self p (d_size r - 1) (Some pos)
          else scan l' (S pos) self p 0 acc
      end
  end.

Fixpoint climb (fuel : nat) (nodes : list nd) (a : option nat) (self : nat) (p : N) : option nat :=
  match fuel with
  | 0 => None
  | S k =>
      match a with
      | None => None
      | Some an =>
          match nth_error nodes an with
          | None => None
          | Some ra =>
              match scan (firstn (d_size ra) (skipn an nodes)) an self p 0 None with
              | Some r => Some r
              | None => climb k nodes (d_anc ra) self p
              end
          end
      end
  end.

Definition y_orig (nodes : list nd) (n : nat) (p : N) : option nat :=
  climb (length nodes) nodes (get nodes n d_anc None) n p.

Definition cfg_of (nodes : list nd) (flags : list nat) : cfg := {|
  tnext := fun n => get nodes n d_t None;
  fnext := fun n => get nodes n d_f None;
  ident := fun n => get nodes n (fun r => if N.eqb (d_pc r) 0 then None else Some (d_pc r)) None;
  haspos := fun n => get nodes n d_pos false;
  flagged := fun n => existsb (Nat.eqb n) flags;
  orig := y_orig nodes
|}.

(* ------------------------------------------------------------------ *)
(** * SetBreakpoints *)

Definition memN (x : N) (l : list N) : bool := existsb (N.eqb x) l.

(** One Walk over the tree. Function breakpoints flag the start node of the first funcDecl with the
    requested name; line breakpoints flag the first node on the line that has a position, an action
    other than nop and a closure. *)
Fixpoint place (l : list nd) (pos : nat) (lines funcs : list N) (flags : list nat) (vl vf : list N)
  : list nat * list N * list N :=
  match l with
  | [] => (flags, vl, vf)
  | r :: l' =>
      if negb (match funcs with [] => true | _ => false end) && negb (N.eqb (d_fn r) 0)
         && memN (d_fn r) funcs && negb (memN (d_fn r) vf)
      then place l' (S pos) lines funcs (match d_start r with Some s => s :: flags | None => flags end) vl (d_fn r :: vf)
      else if negb (match lines with [] => true | _ => false end) && d_pos r && negb (d_nop r) && negb (N.eqb (d_pc r) 0)
              && memN (d_line r) lines && negb (memN (d_line r) vl)
      then place l' (S pos) lines funcs (pos :: flags) (d_line r :: vl) vf
      else place l' (S pos) lines funcs flags vl vf
  end.

Definition y_place (nodes : list nd) (lines funcs : list N) := place nodes 0 lines funcs [] [] [].

(* ------------------------------------------------------------------ *)
(** * Decoding of requests, acts, events *)

Definition mk_req (x : N) : request :=
  match x with
  | 0 => QContinue
  | 1 => QStep RPause
  | 3 => QStep REntry
  | 4 => QStep RStepInto
  | 5 => QStep RStepOver
  | 6 => QStep RStepOut
  | 7 => QTerminate
  | _ => QStep RPause
  end%N.

(** packed: kind (0 enter, 1 return a closure, 2 return nil), code address, node. *)
Definition mk_act (x : N) : act :=
  match fld x 0 with
  | 0%N => AEnter (N.to_nat (fld x 2))
  | 1%N => ARet (Some (fld x 1, N.to_nat (fld x 2)))
  | _ => ARet None
  end.

Definition mk_acts (l : list N) : list act := map mk_act l.

(** packed observed event: reason, line, column. *)
Definition mk_event (x : N) : N * N * N := (fld x 0, fld x 1, fld x 2).

Definition reason_code (r : reason) : N :=
  match r with
  | RRun => 0 | RPause => 1 | RBreak => 2 | REntry => 3 | RStepInto => 4 | RStepOver => 5
  | RStepOut => 6 | RTerminate => 7 | REnterG => 8 | RExitG => 9
  end%N.

Definition show_event (nodes : list nd) (e : event) : N * N * N :=
  match e with
  | (r, Some n) => (reason_code r, get nodes n d_line 0%N, get nodes n d_col 0%N)
  | (r, None) => (reason_code r, 0%N, 0%N)
  end.

Definition ev_eqb (a b : N * N * N) : bool :=
  let '(a1, a2, a3) := a in let '(b1, b2, b3) := b in N.eqb a1 b1 && N.eqb a2 b2 && N.eqb a3 b3.

Fixpoint list_eqb {A} (e : A -> A -> bool) (a b : list A) : bool :=
  match a, b with
  | [], [] => true
  | x :: a', y :: b' => e x y && list_eqb e a' b'
  | _, _ => false
  end.

Definition subsetN (a b : list N) : bool := forallb (fun x => memN x b) a.
Definition same_setN (a b : list N) : bool := subsetN a b && subsetN b a.

(* ------------------------------------------------------------------ *)
(** * Y and G on a session *)

Definition fuel_for (acts : list act) : nat := length acts + 2.

(** Y: the events of the session as the debug loop produces them on the dumped graph. *)
Definition y_events (nodes : list nd) (flags : list nat) (acts : list act) (rq : list request) : list (N * N * N) :=
  let '(_, _, evs, _) := d_session replay_step (cfg_of nodes flags) (fuel_for acts) acts rq in
  map (show_event nodes) evs.

(** The side condition of C19_events_complete_partial on this session. *)
Definition y_exact (nodes : list nd) (flags : list nat) (acts : list act) (rq : list request) : bool :=
  let '(_, _, _, hs) := d_session replay_step (cfg_of nodes flags) (fuel_for acts) acts rq in
  exact_at_flagsb (cfg_of nodes flags) hs.

(** G: the lines of the flagged nodes among the nodes that really ran, in order, restricted to the
    marker lines (the only lines for which the program's output is an oracle). *)
Definition g_lines (nodes : list nd) (flags : list nat) (acts : list act) (markers : list N) : list N :=
  let '(_, _, visited) := p_session replay_step (fuel_for acts) acts in
  filter (fun l => memN l markers)
         (map (fun m => match m with Some n => get nodes n d_line 0%N | None => 0%N end)
              (g_breaks (cfg_of nodes flags) visited)).

(** The marker lines that a run over [acts] prints: the marker statement of a line is the node that
    a line breakpoint on that line flags. *)
Definition out_lines (nodes : list nd) (acts : list act) (markers : list N) : list N :=
  let '(mflags, _, _) := y_place nodes markers [] in
  let '(_, _, visited) := p_session replay_step (fuel_for acts) acts in
  map (fun m => match m with Some n => get nodes n d_line 0%N | None => 0%N end)
      (g_breaks (cfg_of nodes mflags) visited).

Record session := {
  s_id : N;
  s_nodes : list nd;
  s_lines : list N; s_funcs : list N;
  s_acts : list act;            (* operations of a plain run whose closures were generated as in this session *)
  s_plain_acts : list act;      (* operations of the plain run *)
  s_reqs : list N;
  s_markers : list N;
  (* observed on the implementation *)
  o_events : list N;           (* packed: reason, line, column *)
  o_flags : list N;            (* positions of the nodes with breakOnLine || breakOnCall *)
  o_valid_lines : list N; o_valid_funcs : list N;
  o_out : list N;              (* marker lines printed by the debugged program, in order *)
  o_same_output : N;           (* 1: output and outcome of the debugged program are those of the plain run over
                                  the same closures ([s_acts]), compared as strings by the harness; 2: not compared *)
  (* reference derived from the program's output *)
  r_lines : list N;            (* marker lines with a breakpoint that the plain run printed, in order *)
  r_out : list N;              (* marker lines printed by the plain run, in order *)
  (* the harness's label: 1 = the tracker is exact wherever a breakpoint is involved (main stream),
     0 = it is not (region "mistrack"), 2 = not labelled (terminated session) *)
  s_exact : N
}.

Definition session_ok_y (c : session) : bool :=
  let '(flags, vl, vf) := y_place (s_nodes c) (s_lines c) (s_funcs c) in
  same_setN (map N.of_nat flags) (o_flags c)
  && same_setN vl (o_valid_lines c) && same_setN vf (o_valid_funcs c)
  && list_eqb ev_eqb (y_events (s_nodes c) flags (s_acts c) (map mk_req (s_reqs c))) (map mk_event (o_events c))
  && (N.eqb (s_exact c) 2 || list_eqb N.eqb (out_lines (s_nodes c) (s_acts c) (s_markers c)) (o_out c))
  && negb (N.eqb (o_same_output c) 0)
  && (N.eqb (s_exact c) 2
      || Bool.eqb (y_exact (s_nodes c) flags (s_acts c) (map mk_req (s_reqs c))) (N.eqb (s_exact c) 1)).

Definition session_ok_g (c : session) : bool :=
  let '(flags, _, _) := y_place (s_nodes c) (s_lines c) (s_funcs c) in
  list_eqb N.eqb (out_lines (s_nodes c) (s_plain_acts c) (s_markers c)) (r_out c)
  && (N.eqb (s_exact c) 2
      || list_eqb N.eqb (g_lines (s_nodes c) flags (s_plain_acts c) (s_markers c)) (r_lines c)).

Definition c19_mis_y (cs : list session) : list N :=
  flat_map (fun c => if session_ok_y c then [] else [s_id c]) cs.

Definition c19_mis_g (cs : list session) : list N :=
  flat_map (fun c => if session_ok_g c then [] else [s_id c]) cs.

(** Ids of the sessions on which the tracker is exact wherever a breakpoint is involved (the
    region of the partial theorem); the harness computes the same label and the two are compared. *)
Definition c19_exact (cs : list session) : list N :=
  flat_map (fun c =>
    let '(flags, _, _) := y_place (s_nodes c) (s_lines c) (s_funcs c) in
    if y_exact (s_nodes c) flags (s_acts c) (map mk_req (s_reqs c)) then [s_id c] else []) cs.
