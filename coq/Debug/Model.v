(** C19 — running under the debugger does not change program behaviour.

    Y: transcription of the debugger branch of [runCfg] (interp/run.go) and of [Debugger.exec],
       [setMode], [enterCall/exitCall], [Continue/Step/Terminate], [Debug] (interp/debugger.go):
       the loop that consults the debugger before every operation and re-derives the current
       node from the *code address* of the closure that the operation returned
       ([isExecNode] / [originalExecNode]), including what that loses.
    G: the plain loop of [runCfg] ("for exec != nil { exec = exec(f) }") and the contract
       "every flagged node that executes is reported, in order".

    The program is an arbitrary deterministic machine: the loops only see which kind of thing
    the running operation did (entered a nested [runCfg], returned a closure, returned nil,
    panicked). Definitions only; proofs are in Debug/Proofs.v. *)
From Coq Require Import List Bool Arith NArith Lia.
Import ListNotations.

Definition node := nat.

(** Code address of a generated closure ([reflect.ValueOf(fn).Pointer()]): shared by all closures
    made from the same function literal of the same generator. *)
Definition pc := N.

(* ------------------------------------------------------------------ *)
(** * The control-flow graph as the debugger sees it *)

Record cfg := {
  tnext   : node -> option node;
  fnext   : node -> option node;
  ident   : node -> option pc;          (* code address of n.exec; None: n.exec == nil *)
  haspos  : node -> bool;               (* n.pos != token.NoPos *)
  flagged : node -> bool;               (* n.shouldBreak(): breakOnLine || breakOnCall *)
  orig    : node -> pc -> option node   (* originalExecNode(n, exec) *)
}.

(** isExecNode(n, exec) *)
Definition is_exec_node (g : cfg) (o : option node) (p : pc) : bool :=
  match o with
  | None => false
  | Some n => match ident g n with Some q => N.eqb q p | None => false end
  end.

(** The tracking step at the end of an iteration of the debug loop:
    [if m == nil { m = originalExecNode(n, exec) } else switch { case isExecNode(m.tnext, exec): ...}].
    [n0] is the node [runCfg] was called with. *)
Definition track (g : cfg) (n0 : node) (m : option node) (p : pc) : option node :=
  match m with
  | None => orig g n0 p
  | Some mm =>
      if is_exec_node g (tnext g mm) p then tnext g mm
      else if is_exec_node g (fnext g mm) p then fnext g mm
      else orig g mm p
  end.

(* ------------------------------------------------------------------ *)
(** * The debugger's per-goroutine state, requests and events *)

(** DebugEventReason, in the order of the iota in debugger.go. *)
Inductive reason :=
  | RRun | RPause | RBreak | REntry | RStepInto | RStepOver | RStepOut | RTerminate | REnterG | RExitG.

Definition reason_eqb (a b : reason) : bool :=
  match a, b with
  | RRun, RRun | RPause, RPause | RBreak, RBreak | REntry, REntry | RStepInto, RStepInto
  | RStepOver, RStepOver | RStepOut, RStepOut | RTerminate, RTerminate | REnterG, REnterG | RExitG, RExitG => true
  | _, _ => false
  end.

(** What the client does while the routine is stopped: Continue(id), Step(id, reason), Terminate(). *)
Inductive request := QContinue | QStep (r : reason) | QTerminate.

(** An event as delivered to the callback: the reason and the node the frame is reported at
    ([f.debug.node], the *tracked* node; None = nil, reported as the empty position). *)
Definition event := (reason * option node)%type.

Record dstate := {
  mode   : reason;
  fdepth : nat;
  fstep  : nat;
  reqs   : list request;                     (* requests still to come *)
  events : list event;                       (* emitted so far, most recent first *)
  heads  : list (option node * option node); (* ghost: (tracked, true) node at every consultation, most recent first *)
  offcfg : bool                              (* ghost: some operation returned a closure that is not the one of its node's tnext or fnext *)
}.

Definition with_mode (d : dstate) (r : reason) (s : nat) (q : list request) : dstate :=
  {| mode := r; fdepth := fdepth d; fstep := s; reqs := q; events := events d; heads := heads d; offcfg := offcfg d |}.

(** debugRoutine.setMode *)
Definition set_mode (d : dstate) (r : reason) (q : list request) : dstate :=
  match mode d with
  | RTerminate => with_mode d RTerminate (fstep d) q
  | m =>
      if reason_eqb m REntry && reason_eqb r REntry then with_mode d m (fstep d) q
      else match r with
           | RStepInto | RStepOver | RStepOut => with_mode d r (fdepth d) q
           | _ => with_mode d RPause (fstep d) q
           end
  end.

(** The routine blocks on [g.resume]; the next request of the client releases it.
    A client that has nothing more to say continues. *)
Definition resume (d : dstate) : dstate :=
  match reqs d with
  | [] => with_mode d RRun (fstep d) []
  | QContinue :: q => with_mode d RRun (fstep d) q
  | QStep r :: q => set_mode d r q
  | QTerminate :: q => with_mode d RTerminate (fstep d) q
  end.

Definition emit (d : dstate) (e : event) : dstate :=
  {| mode := mode d; fdepth := fdepth d; fstep := fstep d; reqs := reqs d; events := e :: events d; heads := heads d; offcfg := offcfg d |}.

Definition note (d : dstate) (h : option node * option node) : dstate :=
  {| mode := mode d; fdepth := fdepth d; fstep := fstep d; reqs := reqs d; events := events d; heads := h :: heads d; offcfg := offcfg d |}.

Definition enter_call (d : dstate) : dstate :=
  {| mode := mode d; fdepth := S (fdepth d); fstep := fstep d; reqs := reqs d; events := events d; heads := heads d; offcfg := offcfg d |}.

Definition exit_call (d : dstate) : dstate :=
  {| mode := mode d; fdepth := pred (fdepth d); fstep := fstep d; reqs := reqs d; events := events d; heads := heads d; offcfg := offcfg d |}.

(** Ghost: remember that the running operation (node [t]) returned a closure with code address [p]
    that runs node [s] although [s] is not the tnext or fnext of [t] with that code address. *)
Definition opt_pc_eqb (a : option pc) (p : pc) : bool :=
  match a with Some q => N.eqb q p | None => false end.

Definition opt_is (a : option node) (s : node) : bool :=
  match a with Some x => Nat.eqb x s | None => false end.

Definition tf_step (g : cfg) (t : option node) (p : pc) (s : node) : bool :=
  match t with
  | Some tn => opt_pc_eqb (ident g s) p && (opt_is (tnext g tn) s || opt_is (fnext g tn) s)
  | None => false
  end.

Definition mark (d : dstate) (ok : bool) : dstate :=
  {| mode := mode d; fdepth := fdepth d; fstep := fstep d; reqs := reqs d; events := events d; heads := heads d;
     offcfg := offcfg d || negb ok |}.

(** [if n != nil && n.pos == token.NoPos { return false }] *)
Definition transparent (g : cfg) (m : option node) : bool :=
  match m with Some n => negb (haspos g n) | None => false end.

Definition flagged_opt (g : cfg) (m : option node) : bool :=
  match m with Some n => flagged g n | None => false end.

(** The consultation stops at [m] because of a breakpoint. *)
Definition stops (g : cfg) (m : option node) : bool := negb (transparent g m) && flagged_opt g m.

(** Debugger.exec(n, f): returns (stop, state). [t] is the node that really is about to run (ghost). *)
Definition dbg_exec (g : cfg) (m t : option node) (d0 : dstate) : bool * dstate :=
  let d := note d0 (m, t) in
  if transparent g m then (false, d)
  else match mode d with
       | RTerminate => (true, d)
       | md =>
           if flagged_opt g m then (false, resume (emit d (RBreak, m)))
           else match md with
                | RRun => (false, d)
                | RStepOut => if fstep d <=? fdepth d then (false, d) else (false, resume (emit d (md, m)))
                | RStepOver => if fstep d <? fdepth d then (false, d) else (false, resume (emit d (md, m)))
                | _ => (false, resume (emit d (md, m)))
                end
       end.

(* ------------------------------------------------------------------ *)
(** * The program: any deterministic machine *)

(** What the running operation does next, as far as the loops of [runCfg] can tell. *)
Inductive act :=
  | AEnter (n : node)               (* it calls runCfg(n, ...) (a call, a deferred call, a top-level run) *)
  | ARet (r : option (pc * node))   (* it returns: nil, or a closure with code address pc that will run node n *)
  | APanic.                         (* it panics *)

Inductive status := Returned | Stopped | Panicked | OutOfFuel | Stuck.

Section Loops.
  Variable St : Type.
  Variable mstep : St -> option (St * act).
  Variable g : cfg.

  (** G: the plain loop. [t]: the node about to run (ghost), [head]: at the top of the loop.
      The log collects the nodes at the top of the loop, most recent first. *)
  Fixpoint p_run (fuel : nat) (t : option node) (head : bool) (ps : St) (log : list (option node))
    : St * list (option node) * status :=
    match fuel with
    | 0 => (ps, log, OutOfFuel)
    | S k =>
        let log1 := if head then t :: log else log in
        match mstep ps with
        | None => (ps, log1, Stuck)
        | Some (ps1, AEnter n) =>
            let '(ps2, log2, s) := p_run k (Some n) true ps1 log1 in
            match s with
            | Returned => p_run k t false ps2 log2
            | _ => (ps2, log2, s)
            end
        | Some (ps1, ARet None) => (ps1, log1, Returned)
        | Some (ps1, ARet (Some (_, n))) => p_run k (Some n) true ps1 log1
        | Some (ps1, APanic) => (ps1, log1, Panicked)
        end
    end.

  (** Y: the loop with a debugger attached.
      [n0]: the node runCfg was called with; [m]: the tracked node. *)
  Fixpoint d_run (fuel : nat) (n0 : node) (m t : option node) (head : bool) (ps : St) (d : dstate)
    : St * dstate * status :=
    match fuel with
    | 0 => (ps, d, OutOfFuel)
    | S k =>
        let '(stop, d1) := if head then dbg_exec g m t d else (false, d) in
        if stop then (ps, d1, Stopped)
        else match mstep ps with
             | None => (ps, d1, Stuck)
             | Some (ps1, AEnter n) =>
                 let '(ps2, d2, s) := d_run k n (Some n) (Some n) true ps1 (enter_call d1) in
                 let d3 := exit_call d2 in
                 match s with
                 | Returned => d_run k n0 m t false ps2 d3
                 | _ => (ps2, d3, s)
                 end
             | Some (ps1, ARet None) => (ps1, d1, Returned)
             | Some (ps1, ARet (Some (p, n))) => d_run k n0 (track g n0 m p) (Some n) true ps1 (mark d1 (tf_step g t p n))
             | Some (ps1, APanic) => (ps1, d1, Panicked)
             end
    end.

  (** A whole session: [Debug] creates the main routine in mode Entry; the first request of the
      client starts it; the events are framed by EnterGoRoutine ... ExitGoRoutine, Terminate.
      Execute itself is the outermost "operation": its nested runs are the calls of interp.run. *)
  Definition d_init (rq : list request) : dstate :=
    resume {| mode := REntry; fdepth := 0; fstep := 0; reqs := rq; events := []; heads := []; offcfg := false |}.

  Definition session_events (d : dstate) : list event :=
    (REnterG, None) :: rev (events d) ++ [(RExitG, None); (RTerminate, None)].

  Definition d_session (fuel : nat) (ps : St) (rq : list request) : St * status * list event * list (option node * option node) :=
    let '(ps', d, s) := d_run fuel 0 None None false ps (d_init rq) in
    (ps', s, session_events d, rev (heads d)).

  Definition p_session (fuel : nat) (ps : St) : St * status * list (option node) :=
    let '(ps', log, s) := p_run fuel None false ps [] in (ps', s, rev log).
End Loops.

Arguments p_run {St}.
Arguments d_run {St}.
Arguments d_session {St}.
Arguments p_session {St}.

(* ------------------------------------------------------------------ *)
(** * Observables and the contract *)

Fixpoint no_terminate (q : list request) : Prop :=
  match q with
  | [] => True
  | QTerminate :: _ => False
  | _ :: q' => no_terminate q'
  end.

Fixpoint no_terminateb (q : list request) : bool :=
  match q with
  | [] => true
  | QTerminate :: _ => false
  | _ :: q' => no_terminateb q'
  end.

(** The nodes of the break events, in order. *)
Fixpoint breaks (es : list event) : list (option node) :=
  match es with
  | [] => []
  | (RBreak, m) :: r => m :: breaks r
  | _ :: r => breaks r
  end.

(** G for the events: every flagged, positioned node that executes is reported, in order. *)
Definition g_breaks (g : cfg) (visited : list (option node)) : list (option node) :=
  filter (stops g) visited.

(** Side condition of the partial theorem: wherever a breakpoint is involved the tracked node is the
    node that really runs. *)
Definition exact_at_flags (g : cfg) (hs : list (option node * option node)) : Prop :=
  forall m t, In (m, t) hs -> (stops g m || stops g t) = true -> m = t.

(** Static side condition: the two successors of a node are never closures of the same generator. *)
Definition distinct_succ (g : cfg) : Prop :=
  forall n a b, tnext g n = Some a -> fnext g n = Some b -> a <> b -> ident g a <> ident g b.

(** The run stayed on the graph: every closure returned was the one of the tnext or fnext. *)
Definition d_session_oncfg {St} (mstep : St -> option (St * act)) (g : cfg) (fuel : nat) (ps : St) (rq : list request) : bool :=
  let '(_, d, _) := d_run mstep g fuel 0 None None false ps (d_init rq) in negb (offcfg d).

Definition opt_node_eqb (a b : option node) : bool :=
  match a, b with
  | None, None => true
  | Some x, Some y => Nat.eqb x y
  | _, _ => false
  end.

Definition exact_at_flagsb (g : cfg) (hs : list (option node * option node)) : bool :=
  forallb (fun '(m, t) => negb (stops g m || stops g t) || opt_node_eqb m t) hs.

(* ------------------------------------------------------------------ *)
(** * The replay machine: a program given by the sequence of things its operations did *)

Definition replay_step (l : list act) : option (list act * act) :=
  match l with
  | [] => Some ([], ARet None)     (* Execute returns *)
  | a :: r => Some (r, a)
  end.

(* ------------------------------------------------------------------ *)
(** * Witnesses *)

(** if c { println(..) } else { println(..) }: both successors of the condition are closures of the
    same generator. 0 = condition, 1 = first statement of the then-branch, 2 = first statement of
    the else-branch, 3 = the statement after. *)
Definition w_if : cfg := {|
  tnext := fun n => match n with 0 => Some 1 | 1 => Some 3 | 2 => Some 3 | _ => None end;
  fnext := fun n => match n with 0 => Some 2 | _ => None end;
  ident := fun n => match n with 0 => Some 5%N | 1 => Some 7%N | 2 => Some 7%N | 3 => Some 9%N | _ => None end;
  haspos := fun _ => true;
  flagged := fun n => Nat.eqb n 2;
  orig := fun _ _ => None
|}.

(** The run in which the condition is false: 0, 2, 3. *)
Definition w_if_run : list act :=
  [AEnter 0; ARet (Some (7%N, 2)); ARet (Some (9%N, 3)); ARet None].

(** The same graph with the breakpoint on the branch that does not run. *)
Definition w_if' : cfg := {|
  tnext := tnext w_if; fnext := fnext w_if; ident := ident w_if; haspos := haspos w_if;
  flagged := fun n => Nat.eqb n 1; orig := orig w_if |}.

(** for c { body }: the closure of the back edge is the forwarding closure that setExec installs
    while the closure of the condition is still being generated; no node carries its code address
    (0), so the tracker loses the condition on every iteration but the first.
    0 = condition (breakpoint), 1 = body, 2 = exit. *)
Definition w_loop : cfg := {|
  tnext := fun n => match n with 0 => Some 1 | 1 => Some 0 | _ => None end;
  fnext := fun n => match n with 0 => Some 2 | _ => None end;
  ident := fun n => match n with 0 => Some 5%N | 1 => Some 7%N | 2 => Some 9%N | _ => None end;
  haspos := fun _ => true;
  flagged := fun n => Nat.eqb n 0;
  orig := fun _ p => if N.eqb p 7%N then Some 1 else if N.eqb p 9%N then Some 2 else None
|}.

Definition w_loop_run : list act :=
  [AEnter 0; ARet (Some (7%N, 1)); ARet (Some (0%N, 0)); ARet (Some (7%N, 1)); ARet (Some (0%N, 0)); ARet (Some (9%N, 2)); ARet None].

(** A graph on which tracking is exact, with a call: 0 = call f (breakpoint), 1 = next statement,
    2 = body of f (breakpoint), stepping through it. *)
Definition w_ok : cfg := {|
  tnext := fun n => match n with 0 => Some 1 | _ => None end;
  fnext := fun _ => None;
  ident := fun n => match n with 0 => Some 5%N | 1 => Some 7%N | 2 => Some 9%N | _ => None end;
  haspos := fun _ => true;
  flagged := fun n => Nat.eqb n 0 || Nat.eqb n 2;
  orig := fun _ _ => None
|}.

Definition w_ok_run : list act :=
  [AEnter 0; AEnter 2; ARet None; ARet (Some (7%N, 1)); ARet None].

Definition w_ok_reqs : list request := [QStep REntry; QStep RStepOver; QStep RStepInto; QStep RStepOut].

(* ------------------------------------------------------------------ *)
(** * SetBreakpoints generates closures early

    A closure captures the closure of its node's successor at the moment it is generated
    ("next := getExec(n.tnext)" in every generator). Execute links the package-level variable
    declarations (genGlobalVars -> genGlobalVarDecl -> wireChild) and then generates the closures
    that do not exist yet (setExec returns at once on a node that has one). A line request makes
    SetBreakpoints call getExec on every positioned node before Execute runs. *)
Definition wiring := node -> option node.

(** The successor that the closure of [n] captured: the wiring at the time it was generated. *)
Definition captured (early : node -> bool) (before after : wiring) : wiring :=
  fun n => if early n then before n else after n.

(** The operations of a straight-line run that follows the captured successors. *)
Fixpoint follow (w : wiring) (fuel : nat) (n : node) : list node :=
  match fuel with
  | 0 => []
  | S k => n :: match w n with Some s => follow w k s | None => [] end
  end.

Definition acts_of (pcs : node -> pc) (l : list node) : list act :=
  match l with
  | [] => []
  | n :: r => AEnter n :: map (fun s => ARet (Some (pcs s, s))) r ++ [ARet None]
  end.

(** var g1 = f(2); var g2 = f(0): node 0 and node 1; linked 0 -> 1 only by Execute. *)
Definition w_glob_before : wiring := fun _ => None.
Definition w_glob_after : wiring := fun n => match n with 0 => Some 1 | _ => None end.
Definition w_glob : cfg := {|
  tnext := w_glob_after; fnext := fun _ => None;
  ident := fun n => Some (N.of_nat n + 5)%N; haspos := fun _ => true; flagged := fun _ => false;
  orig := fun _ _ => None |}.
Definition w_glob_pcs (n : node) : pc := (N.of_nat n + 5)%N.
Definition w_glob_plain : list act :=
  acts_of w_glob_pcs (follow (captured (fun _ => false) w_glob_before w_glob_after) 5 0).
Definition w_glob_linereq : list act :=
  acts_of w_glob_pcs (follow (captured (fun _ => true) w_glob_before w_glob_after) 5 0).

(* ------------------------------------------------------------------ *)
(** * Two sets of closures: the variants of the channel operations

    The theorems above compare the two loops of [runCfg] on one and the same machine [mstep]. The
    implementation does not quite do that: the Debugger always executes through
    [ExecuteWithContext], which sets [interp.cancelChan] before the closures are generated, so the
    debugged program runs the *cancellable* implementations of send, receive, two-value receive
    (and range over a channel and select always poll the done channel), whereas plain [Eval] /
    [Execute] run the blocking ones. (Function literals, generated at compile time, and everything
    that a line request makes SetBreakpoints generate early, get the blocking ones in both cases.)
    So there are two step functions; the behaviour clause of C19 holds for the pair under the side
    condition that they agree as long as the context is not cancelled, which is what the
    correspondence checks on every generated session (the operations of an instrumented
    ExecuteWithContext run against those of an instrumented Execute run, and the outputs). *)
Definition variants_agree {St} (plain debugged : St -> option (St * act)) : Prop :=
  forall ps, debugged ps = plain ps.

(** SetBreakpoints calls getExec, hence [n.gen(n)], on every positioned node whose action is not
    nop. The selector of an imported type in a parameter list ("wg *sync.WaitGroup") is such a node
    and has no generator: calling the nil function panics in the host. *)
Definition pregen (hasgen : node -> bool) (candidates : list node) : option unit :=
  if forallb hasgen candidates then Some tt else None.
