(** C19 — proofs about the debug loop (Debug/Model.v). *)
From Coq Require Import List Bool Arith NArith Lia.
Import ListNotations.
From Verif Require Import Debug.Model.

(* ------------------------------------------------------------------ *)
(** * Invariants of the debugger state *)

(** No terminate request was made and none is pending; the mode is one that the API can set. *)
Definition good (d : dstate) : Prop :=
  mode d <> RTerminate /\ mode d <> RBreak /\ no_terminate (reqs d).

(** Without the assumption on the requests: the mode is never "Break". *)
Definition okmode (d : dstate) : Prop := mode d <> RBreak.

Lemma set_mode_good d r q :
  mode d <> RTerminate -> mode d <> RBreak -> no_terminate q -> good (set_mode d r q).
Proof.
  intros H1 H2 H3. unfold set_mode.
  destruct (mode d) eqn:E; try congruence;
    destruct r; simpl; unfold good; simpl; repeat split; try congruence; auto.
Qed.

Lemma resume_good d : good d -> good (resume d).
Proof.
  intros (H1 & H2 & H3). unfold resume.
  destruct (reqs d) as [|[| r |] q] eqn:E; simpl in H3.
  - unfold good; simpl; repeat split; congruence.
  - unfold good; simpl; repeat split; try congruence; auto.
  - apply set_mode_good; auto.
  - contradiction.
Qed.

Lemma set_mode_okmode d r q : okmode d -> okmode (set_mode d r q).
Proof.
  unfold okmode, set_mode. intros H.
  destruct (mode d) eqn:E; try congruence; destruct r; simpl; congruence.
Qed.

Lemma resume_okmode d : okmode d -> okmode (resume d).
Proof.
  intros H. unfold resume.
  destruct (reqs d) as [|[| r |] q]; try (unfold okmode; simpl; congruence).
  apply set_mode_okmode; auto.
Qed.

Lemma set_mode_events d r q : events (set_mode d r q) = events d /\ heads (set_mode d r q) = heads d /\ fdepth (set_mode d r q) = fdepth d.
Proof. unfold set_mode. destruct (mode d); destruct r; simpl; auto. Qed.

Lemma resume_events d : events (resume d) = events d /\ heads (resume d) = heads d /\ fdepth (resume d) = fdepth d.
Proof.
  unfold resume. destruct (reqs d) as [|[| r |] q]; simpl; auto. apply set_mode_events.
Qed.

Lemma filter_rev' {A} (f : A -> bool) (l : list A) : filter f (rev l) = rev (filter f l).
Proof.
  induction l as [|a l IH]; simpl; auto.
  rewrite filter_app, IH. simpl. destruct (f a); simpl; auto. rewrite app_nil_r. auto.
Qed.

Lemma breaks_cons_other r m l : r <> RBreak -> breaks ((r, m) :: l) = breaks l.
Proof. destruct r; simpl; congruence. Qed.

Lemma breaks_app a b : breaks (a ++ b) = breaks a ++ breaks b.
Proof.
  induction a as [|[r m] a IH]; simpl; auto. destruct r; simpl; rewrite IH; auto.
Qed.

Lemma breaks_rev l : breaks (rev l) = rev (breaks l).
Proof.
  induction l as [|[r m] l IH]; simpl; auto.
  rewrite breaks_app, IH. destruct r; simpl; try rewrite app_nil_r; auto.
Qed.

(* ------------------------------------------------------------------ *)
(** * One consultation of the debugger *)

Lemma dbg_exec_heads g m t d : heads (snd (dbg_exec g m t d)) = (m, t) :: heads d.
Proof.
  unfold dbg_exec.
  destruct (transparent g m); simpl; auto.
  destruct (mode d) eqn:E; simpl;
    repeat match goal with
           | |- context [if ?c then _ else _] => destruct c; simpl
           end;
    try (destruct (resume_events (emit (note d (m, t)) (RBreak, m))) as (_ & -> & _); simpl; reflexivity);
    try match goal with
        | |- heads (resume (emit ?x ?e)) = _ => destruct (resume_events (emit x e)) as (_ & -> & _); simpl; reflexivity
        end;
    reflexivity.
Qed.

Lemma dbg_exec_good g m t d :
  good d -> fst (dbg_exec g m t d) = false /\ good (snd (dbg_exec g m t d)).
Proof.
  intros Hg. pose proof Hg as (H1 & H2 & H3).
  assert (Hn : good (note d (m, t))) by (unfold good; simpl; auto).
  assert (He : forall e, good (resume (emit (note d (m, t)) e))).
  { intros e. apply resume_good. unfold good; simpl; auto. }
  unfold dbg_exec.
  destruct (transparent g m); simpl; auto.
  destruct (mode d) eqn:E; simpl; try congruence;
    repeat match goal with
           | |- context [if ?c then _ else _] => destruct c; simpl
           end; auto.
Qed.

Lemma dbg_exec_okmode g m t d : okmode d -> okmode (snd (dbg_exec g m t d)).
Proof.
  intros H.
  assert (Hn : okmode (note d (m, t))) by (unfold okmode; simpl; auto).
  assert (He : forall e, okmode (resume (emit (note d (m, t)) e))).
  { intros e. apply resume_okmode. unfold okmode; simpl; auto. }
  unfold dbg_exec.
  destruct (transparent g m); simpl; auto.
  destruct (mode d) eqn:E; simpl;
    repeat match goal with
           | |- context [if ?c then _ else _] => destruct c; simpl
           end; auto.
Qed.

(** The events that one consultation adds. *)
Lemma dbg_exec_events g m t d :
  okmode d ->
  exists es, events (snd (dbg_exec g m t d)) = es ++ events d
             /\ (fst (dbg_exec g m t d) = false -> mode d <> RTerminate ->
                 breaks es = if stops g m then [m] else [])
             /\ (forall x, In (RBreak, x) es -> x = m /\ stops g m = true).
Proof.
  intros Hok. unfold okmode in Hok.
  unfold dbg_exec, stops.
  destruct (transparent g m) eqn:Et; simpl.
  { exists []. simpl. repeat split; auto. contradiction. }
  assert (Hres : forall e, events (resume (emit (note d (m, t)) e)) = [e] ++ events d).
  { intros e. destruct (resume_events (emit (note d (m, t)) e)) as (-> & _). reflexivity. }
  assert (Hbrk : exists es, events (resume (emit (note d (m, t)) (RBreak, m))) = es ++ events d
             /\ (false = false -> mode d <> RTerminate -> breaks es = [m])
             /\ (forall x, In (RBreak, x) es -> x = m /\ true = true)).
  { exists [(RBreak, m)]. rewrite Hres. split; [reflexivity|]. split; [reflexivity|].
    intros x [Hx|[]]. inversion Hx; subst; auto. }
  assert (Hoth : forall r, r <> RBreak ->
             exists es, events (resume (emit (note d (m, t)) (r, m))) = es ++ events d
             /\ (false = false -> mode d <> RTerminate -> breaks es = [])
             /\ (forall x, In (RBreak, x) es -> x = m /\ false = true)).
  { intros r Hr. exists [(r, m)]. rewrite Hres. split; [reflexivity|].
    split; [intros _ _; apply breaks_cons_other; auto|].
    intros x [Hx|[]]. inversion Hx; subst; congruence. }
  assert (Hnil : forall b, exists es : list event, events (note d (m, t)) = es ++ events d
             /\ (false = false -> mode d <> RTerminate -> breaks es = [])
             /\ (forall x, In (RBreak, x) es -> x = m /\ b = true)).
  { intros b. exists []. split; [reflexivity|]. split; [reflexivity|]. intros x []. }
  destruct (mode d) eqn:E; simpl; try congruence;
    destruct (flagged_opt g m) eqn:Ef; simpl;
    repeat match goal with
           | |- context [if ?c then _ else _] => destruct c; simpl
           end;
    try apply Hbrk; try (apply Hoth; congruence); try apply Hnil.
  - exists []. split; [reflexivity|]. split; [congruence|]. intros x [].
  - exists []. split; [reflexivity|]. split; [congruence|]. intros x [].
Qed.

(* ------------------------------------------------------------------ *)
(** * One tracking step *)

(** A static sufficient condition for one tracking step: the operation returned the closure of its
    tnext, or of its fnext while the tnext is a closure of another generator. *)
Lemma track_exact g n0 t s p :
  ident g s = Some p ->
  (tnext g t = Some s \/ (fnext g t = Some s /\ forall a, tnext g t = Some a -> ident g a <> Some p)) ->
  track g n0 (Some t) p = Some s.
Proof.
  intros Hid [Ht|(Hf & Hd)]; unfold track, is_exec_node.
  - rewrite Ht, Hid, N.eqb_refl. reflexivity.
  - destruct (tnext g t) as [a|] eqn:Ea.
    + specialize (Hd a eq_refl). destruct (ident g a) as [q|] eqn:Eq.
      * destruct (N.eqb_spec q p) as [->|]; [congruence|]. rewrite Hf, Hid, N.eqb_refl. reflexivity.
      * rewrite Hf, Hid, N.eqb_refl. reflexivity.
    + rewrite Hf, Hid, N.eqb_refl. reflexivity.
Qed.

(** ... and what happens otherwise: the tnext wins although the fnext runs. *)
Lemma track_prefers_tnext g n0 t a s p :
  tnext g t = Some a -> fnext g t = Some s -> ident g a = Some p -> ident g s = Some p ->
  track g n0 (Some t) p = Some a.
Proof. intros Ha Hs Hia His. unfold track, is_exec_node. rewrite Ha, Hia, N.eqb_refl. reflexivity. Qed.

(* ------------------------------------------------------------------ *)
(** * The debug loop against the plain loop *)

Section Sim.
  Variable St : Type.
  Variable mstep : St -> option (St * act).
  Variable g : cfg.

  Definition tracked_breaks (hs : list (option node * option node)) : list (option node) :=
    map fst (filter (fun h => stops g (fst h)) hs).

  Lemma tracked_breaks_app a b : tracked_breaks (a ++ b) = tracked_breaks a ++ tracked_breaks b.
  Proof. unfold tracked_breaks. rewrite filter_app, map_app. reflexivity. Qed.

  (** Main simulation: without a terminate request the debug loop computes the state and status of
      the plain loop, visits the same nodes, and its break events are exactly the flagged nodes
      the tracker went through. *)
  Lemma d_run_sim :
    forall fuel n0 m t head ps d log ps' d' s,
      good d ->
      d_run mstep g fuel n0 m t head ps d = (ps', d', s) ->
      good d'
      /\ fdepth d' = fdepth d
      /\ exists hs,
          heads d' = hs ++ heads d
          /\ p_run mstep fuel t head ps log = (ps', map snd hs ++ log, s)
          /\ breaks (events d') = tracked_breaks hs ++ breaks (events d).
  Proof.
    induction fuel as [|k IH]; intros n0 m t head ps d log ps' d' s Hg Hrun.
    - simpl in Hrun. inversion Hrun; subst. split; [auto|split; [auto|]]. exists []. simpl. auto.
    - cbn [d_run] in Hrun. cbn [p_run].
      (* the consultation *)
      assert (Hhead : exists d1 hs1,
                 (if head then dbg_exec g m t d else (false, d)) = (false, d1)
                 /\ good d1 /\ fdepth d1 = fdepth d
                 /\ heads d1 = hs1 ++ heads d
                 /\ (if head then t :: log else log) = map snd hs1 ++ log
                 /\ breaks (events d1) = tracked_breaks hs1 ++ breaks (events d)).
      { destruct head.
        - destruct (dbg_exec_good g m t d Hg) as (Hs & Hg1).
          destruct Hg as (Hm & Hb & Hq).
          destruct (dbg_exec_events g m t d Hb) as (es & He & Hbr & _).
          exists (snd (dbg_exec g m t d)), [(m, t)].
          split; [rewrite <- Hs; apply surjective_pairing|].
          split; [auto|].
          split.
          { unfold dbg_exec.
            destruct (transparent g m); simpl; auto.
            destruct (mode d); simpl;
              repeat match goal with
                     | |- context [if ?c then _ else _] => destruct c; simpl
                     end; auto;
              match goal with
              | |- fdepth (resume ?x) = _ => destruct (resume_events x) as (_ & _ & ->); reflexivity
              end. }
          split; [apply dbg_exec_heads|].
          split; [reflexivity|].
          rewrite He, breaks_app, (Hbr Hs Hm).
          unfold tracked_breaks. simpl. destruct (stops g m); reflexivity.
        - exists d, []. simpl. split; [reflexivity|]. split; [exact Hg|]. auto. }
      destruct Hhead as (d1 & hs1 & Hd1 & Hg1 & Hf1 & Hh1 & Hl1 & Hb1).
      rewrite Hd1 in Hrun. cbn iota in Hrun.
      rewrite Hl1.
      destruct (mstep ps) as [[ps1 a]|] eqn:Es.
      2:{ inversion Hrun; subst. split; [auto|split; [auto|]]. exists hs1. auto. }
      destruct a as [n | [[p n]|] | ].
      + (* nested runCfg *)
        destruct (d_run mstep g k n (Some n) (Some n) true ps1 (enter_call d1)) as [[ps2 d2] s2] eqn:En.
        assert (Hge : good (enter_call d1)) by (destruct Hg1 as (A & B & C); unfold good; simpl; auto).
        destruct (IH _ _ _ _ _ _ (map snd hs1 ++ log) _ _ _ Hge En) as (Hg2 & Hf2 & hs2 & Hh2 & Hp2 & Hb2).
        rewrite Hp2.
        assert (Hgx : good (exit_call d2)) by (destruct Hg2 as (A & B & C); unfold good; simpl; auto).
        assert (Hfx : fdepth (exit_call d2) = fdepth d) by (simpl; rewrite Hf2; simpl; auto).
        destruct s2.
        * (* returned: the interrupted operation goes on *)
          destruct (IH _ _ _ _ _ _ (map snd hs2 ++ map snd hs1 ++ log) _ _ _ Hgx Hrun) as (Hg3 & Hf3 & hs3 & Hh3 & Hp3 & Hb3).
          split; [auto|]. split; [congruence|].
          exists (hs3 ++ hs2 ++ hs1).
          split; [rewrite Hh3; simpl; rewrite Hh2; simpl; rewrite Hh1; rewrite !app_assoc; reflexivity|].
          split; [rewrite Hp3, !map_app, !app_assoc; reflexivity|].
          rewrite Hb3. simpl. rewrite Hb2. simpl. rewrite Hb1.
          rewrite !tracked_breaks_app, !app_assoc. reflexivity.
        * inversion Hrun; subst. split; [auto|]. split; [auto|].
          exists (hs2 ++ hs1). simpl. rewrite Hh2. simpl. rewrite Hh1, Hb2. simpl. rewrite Hb1.
          rewrite map_app, tracked_breaks_app, !app_assoc. auto.
        * inversion Hrun; subst. split; [auto|]. split; [auto|].
          exists (hs2 ++ hs1). simpl. rewrite Hh2. simpl. rewrite Hh1, Hb2. simpl. rewrite Hb1.
          rewrite map_app, tracked_breaks_app, !app_assoc. auto.
        * inversion Hrun; subst. split; [auto|]. split; [auto|].
          exists (hs2 ++ hs1). simpl. rewrite Hh2. simpl. rewrite Hh1, Hb2. simpl. rewrite Hb1.
          rewrite map_app, tracked_breaks_app, !app_assoc. auto.
        * inversion Hrun; subst. split; [auto|]. split; [auto|].
          exists (hs2 ++ hs1). simpl. rewrite Hh2. simpl. rewrite Hh1, Hb2. simpl. rewrite Hb1.
          rewrite map_app, tracked_breaks_app, !app_assoc. auto.
      + (* a closure is returned: next iteration *)
        assert (Hgm : good (mark d1 (tf_step g t p n))) by (destruct Hg1 as (A & B & C); unfold good; simpl; auto).
        destruct (IH _ _ _ _ _ _ (map snd hs1 ++ log) _ _ _ Hgm Hrun) as (Hg3 & Hf3 & hs3 & Hh3 & Hp3 & Hb3).
        simpl in Hf3, Hh3, Hb3.
        split; [auto|]. split; [congruence|].
        exists (hs3 ++ hs1).
        split; [rewrite Hh3, Hh1, app_assoc; reflexivity|].
        split; [rewrite Hp3, map_app, app_assoc; reflexivity|].
        rewrite Hb3, Hb1, tracked_breaks_app, app_assoc. reflexivity.
      + inversion Hrun; subst. split; [auto|]. split; [auto|]. exists hs1. auto.
      + inversion Hrun; subst. split; [auto|]. split; [auto|]. exists hs1. auto.
  Qed.

  (** Soundness of the break events for every request list, terminate included. *)
  Definition sound (d : dstate) : Prop :=
    forall x, In (RBreak, x) (events d) -> stops g x = true /\ exists t, In (x, t) (heads d).

  Lemma dbg_exec_sound m t d : okmode d -> sound d -> sound (snd (dbg_exec g m t d)).
  Proof.
    intros Hok Hs x Hin.
    destruct (dbg_exec_events g m t d Hok) as (es & He & _ & Hbr).
    rewrite He in Hin. rewrite dbg_exec_heads.
    apply in_app_or in Hin. destruct Hin as [Hin|Hin].
    - destruct (Hbr x Hin) as (-> & Hst). split; auto. exists t. left; reflexivity.
    - destruct (Hs x Hin) as (A & t' & B). split; auto. exists t'. right; auto.
  Qed.

  Lemma d_run_sound :
    forall fuel n0 m t head ps d ps' d' s,
      okmode d -> sound d ->
      d_run mstep g fuel n0 m t head ps d = (ps', d', s) ->
      okmode d' /\ sound d'.
  Proof.
    induction fuel as [|k IH]; intros n0 m t head ps d ps' d' s Hok Hs Hrun.
    - simpl in Hrun. inversion Hrun; subst; auto.
    - cbn [d_run] in Hrun.
      assert (Hhead : exists stop d1, (if head then dbg_exec g m t d else (false, d)) = (stop, d1) /\ okmode d1 /\ sound d1).
      { destruct head.
        - exists (fst (dbg_exec g m t d)), (snd (dbg_exec g m t d)).
          split; [apply surjective_pairing|]. split; [apply dbg_exec_okmode; auto|apply dbg_exec_sound; auto].
        - exists false, d. auto. }
      destruct Hhead as (stop & d1 & Hd1 & Hok1 & Hs1). rewrite Hd1 in Hrun.
      destruct stop; [inversion Hrun; subst; auto|].
      destruct (mstep ps) as [[ps1 a]|]; [|inversion Hrun; subst; auto].
      destruct a as [n | [[p n]|] | ].
      + destruct (d_run mstep g k n (Some n) (Some n) true ps1 (enter_call d1)) as [[ps2 d2] s2] eqn:En.
        assert (A : okmode (enter_call d1)) by (unfold okmode in *; simpl; auto).
        assert (B : sound (enter_call d1)) by (unfold sound in *; simpl; auto).
        destruct (IH _ _ _ _ _ _ _ _ _ A B En) as (Hok2 & Hs2).
        assert (A' : okmode (exit_call d2)) by (unfold okmode in *; simpl; auto).
        assert (B' : sound (exit_call d2)) by (unfold sound in *; simpl; auto).
        destruct s2; try (inversion Hrun; subst; auto).
        eapply IH; eauto.
      + eapply IH; [| |exact Hrun]; [unfold okmode in *; simpl; auto|unfold sound in *; simpl; auto].
      + inversion Hrun; subst; auto.
      + inversion Hrun; subst; auto.
  Qed.

  (** Exactness of the tracker from a static condition on the graph: if the two successors of a node
      never come from the same generator, then as long as every closure returned is the one of the
      running node's tnext or fnext, the tracked node is the running node. *)
  Definition all_exact (hs : list (option node * option node)) : Prop :=
    forall m t, In (m, t) hs -> m = t.

  Lemma tf_step_track n0 t p s :
    distinct_succ g -> tf_step g (Some t) p s = true -> track g n0 (Some t) p = Some s.
  Proof.
    intros Hd H. unfold tf_step in H. apply andb_prop in H. destruct H as (Hid & Hs).
    assert (Hi : ident g s = Some p).
    { unfold opt_pc_eqb in Hid. destruct (ident g s) as [q|]; [|discriminate]. apply N.eqb_eq in Hid. subst; auto. }
    apply track_exact; auto.
    apply orb_prop in Hs. destruct Hs as [Hs|Hs].
    - left. unfold opt_is in Hs. destruct (tnext g t) as [x|]; [|discriminate]. apply Nat.eqb_eq in Hs. subst; auto.
    - unfold opt_is in Hs. destruct (fnext g t) as [x|] eqn:Ef; [|discriminate]. apply Nat.eqb_eq in Hs. subst x.
      destruct (tnext g t) as [a|] eqn:Ea.
      + destruct (Nat.eq_dec a s) as [->|Hne]; [left; auto|].
        right. split; auto. intros a' Ha'. inversion Ha'; subst a'.
        rewrite <- Hi. apply (Hd t a s); auto.
      + right. split; auto. intros a' Ha'. discriminate.
  Qed.

  Lemma dbg_exec_offcfg m t d : offcfg (snd (dbg_exec g m t d)) = offcfg d.
  Proof.
    assert (R : forall x, offcfg (resume x) = offcfg x).
    { intros x. unfold resume. destruct (reqs x) as [|[| r |] q]; simpl; auto.
      unfold set_mode. destruct (mode x); destruct r; simpl; auto. }
    unfold dbg_exec.
    destruct (transparent g m); simpl; auto.
    destruct (mode d); simpl;
      repeat match goal with
             | |- context [if ?c then _ else _] => destruct c; simpl
             end; auto; rewrite R; simpl; auto.
  Qed.

  Lemma d_run_offcfg_mono :
    forall fuel n0 m t head ps d ps' d' s,
      d_run mstep g fuel n0 m t head ps d = (ps', d', s) -> offcfg d = true -> offcfg d' = true.
  Proof.
    induction fuel as [|k IH]; intros n0 m t head ps d ps' d' s Hrun Ho.
    - simpl in Hrun. inversion Hrun; subst; auto.
    - cbn [d_run] in Hrun.
      assert (Hhead : exists stop d1, (if head then dbg_exec g m t d else (false, d)) = (stop, d1) /\ offcfg d1 = true).
      { destruct head.
        - exists (fst (dbg_exec g m t d)), (snd (dbg_exec g m t d)).
          split; [apply surjective_pairing|rewrite dbg_exec_offcfg; auto].
        - exists false, d. auto. }
      destruct Hhead as (stop & d1 & Hd1 & Ho1). rewrite Hd1 in Hrun.
      destruct stop; [inversion Hrun; subst; auto|].
      destruct (mstep ps) as [[ps1 a]|]; [|inversion Hrun; subst; auto].
      destruct a as [n | [[p n]|] | ].
      + destruct (d_run mstep g k n (Some n) (Some n) true ps1 (enter_call d1)) as [[ps2 d2] s2] eqn:En.
        assert (Ho2 : offcfg d2 = true) by (eapply IH; [exact En|simpl; auto]).
        destruct s2; try (inversion Hrun; subst; simpl; auto).
        eapply IH; [exact Hrun|simpl; auto].
      + eapply IH; [exact Hrun|simpl; rewrite Ho1; auto].
      + inversion Hrun; subst; auto.
      + inversion Hrun; subst; auto.
  Qed.

  Lemma not_true_false b : (b = true -> False) -> b = false.
  Proof. destruct b; auto. intros H; exfalso; auto. Qed.

  Lemma d_run_exact :
    distinct_succ g ->
    forall fuel n0 t head ps d ps' d' s,
      d_run mstep g fuel n0 t t head ps d = (ps', d', s) ->
      offcfg d' = false ->
      all_exact (heads d) ->
      all_exact (heads d').
  Proof.
    intros Hd.
    induction fuel as [|k IH]; intros n0 t head ps d ps' d' s Hrun Hoff Hex.
    - simpl in Hrun. inversion Hrun; subst; auto.
    - cbn [d_run] in Hrun.
      assert (Hhead : exists stop d1, (if head then dbg_exec g t t d else (false, d)) = (stop, d1)
                                      /\ all_exact (heads d1)).
      { destruct head.
        - exists (fst (dbg_exec g t t d)), (snd (dbg_exec g t t d)).
          split; [apply surjective_pairing|].
          rewrite dbg_exec_heads. intros a b [H|H]; [inversion H; subst; auto|apply Hex; auto].
        - exists false, d. auto. }
      destruct Hhead as (stop & d1 & Hd1 & Hx1). rewrite Hd1 in Hrun.
      destruct stop; [inversion Hrun; subst; auto|].
      destruct (mstep ps) as [[ps1 a]|]; [|inversion Hrun; subst; auto].
      destruct a as [n | [[p n]|] | ].
      + destruct (d_run mstep g k n (Some n) (Some n) true ps1 (enter_call d1)) as [[ps2 d2] s2] eqn:En.
        assert (Ho2 : offcfg d2 = false).
        { apply not_true_false. intros Ht.
          destruct s2.
          - assert (offcfg d' = true) by (eapply d_run_offcfg_mono; [exact Hrun|simpl; auto]). congruence.
          - inversion Hrun; subst. simpl in Hoff. congruence.
          - inversion Hrun; subst. simpl in Hoff. congruence.
          - inversion Hrun; subst. simpl in Hoff. congruence.
          - inversion Hrun; subst. simpl in Hoff. congruence. }
        assert (Hx2 : all_exact (heads d2)) by (eapply IH; [exact En|exact Ho2|simpl; auto]).
        destruct s2; try (inversion Hrun; subst; simpl; auto).
        eapply IH; [exact Hrun|exact Hoff|simpl; auto].
      + (* a closure is returned *)
        assert (Hom : offcfg (mark d1 (tf_step g t p n)) = false).
        { apply not_true_false. intros Ht.
          assert (offcfg d' = true) by (eapply d_run_offcfg_mono; [exact Hrun|exact Ht]). congruence. }
        simpl in Hom. apply orb_false_elim in Hom. destruct Hom as (_ & Htf).
        apply negb_false_iff in Htf.
        destruct t as [tn|]; [|simpl in Htf; discriminate].
        rewrite (tf_step_track n0 tn p n Hd Htf) in Hrun.
        eapply IH; [exact Hrun|exact Hoff|simpl; auto].
      + inversion Hrun; subst; auto.
      + inversion Hrun; subst; auto.
  Qed.
End Sim.

(* ------------------------------------------------------------------ *)
(** * Sessions *)

Lemma d_init_good rq : no_terminate rq -> good (d_init rq).
Proof.
  intros H. unfold d_init. apply resume_good. unfold good; simpl. repeat split; try congruence; auto.
Qed.

Lemma d_init_okmode rq : okmode (d_init rq).
Proof. unfold d_init. apply resume_okmode. unfold okmode; simpl; congruence. Qed.

Lemma d_init_events rq : events (d_init rq) = [] /\ heads (d_init rq) = [].
Proof. unfold d_init. destruct (resume_events {| mode := REntry; fdepth := 0; fstep := 0; reqs := rq; events := []; heads := []; offcfg := false |}) as (-> & -> & _). auto. Qed.

Lemma breaks_session d : breaks (session_events d) = rev (breaks (events d)).
Proof.
  unfold session_events. simpl. rewrite breaks_app, breaks_rev. simpl. apply app_nil_r.
Qed.

Definition ses_state {St} (r : St * status * list event * list (option node * option node)) : St := fst (fst (fst r)).
Definition ses_status {St} (r : St * status * list event * list (option node * option node)) : status := snd (fst (fst r)).
Definition ses_events {St} (r : St * status * list event * list (option node * option node)) : list event := snd (fst r).
Definition ses_heads {St} (r : St * status * list event * list (option node * option node)) : list (option node * option node) := snd r.
Definition pl_state {St} (r : St * status * list (option node)) : St := fst (fst r).
Definition pl_status {St} (r : St * status * list (option node)) : status := snd (fst r).
Definition pl_visited {St} (r : St * status * list (option node)) : list (option node) := snd r.

(** Everything the simulation says about a whole session. *)
Lemma session_sim St (mstep : St -> option (St * act)) g fuel ps rq :
  no_terminate rq ->
  let D := d_session mstep g fuel ps rq in
  let P := p_session mstep fuel ps in
  ses_state D = pl_state P
  /\ ses_status D = pl_status P
  /\ map snd (ses_heads D) = pl_visited P
  /\ breaks (ses_events D) = map fst (filter (fun h => stops g (fst h)) (ses_heads D)).
Proof.
  intros Hq. unfold d_session, p_session.
  destruct (d_run mstep g fuel 0 None None false ps (d_init rq)) as [[ps' d'] s] eqn:E.
  destruct (d_run_sim St mstep g fuel 0 None None false ps (d_init rq) [] ps' d' s (d_init_good rq Hq) E)
    as (_ & _ & hs & Hh & Hp & Hb).
  rewrite Hp. destruct (d_init_events rq) as (He0 & Hh0). rewrite Hh0, app_nil_r in Hh. rewrite He0 in Hb. simpl in Hb.
  rewrite app_nil_r in Hb.
  unfold ses_state, ses_status, ses_events, ses_heads, pl_state, pl_status, pl_visited. cbn [fst snd].
  repeat split; auto.
  - rewrite app_nil_r, Hh, map_rev. reflexivity.
  - rewrite breaks_session, Hb, Hh. unfold tracked_breaks.
    rewrite <- map_rev, <- filter_rev'. reflexivity.
Qed.

(** C19, behaviour part: full. *)
Lemma same_behaviour St (mstep : St -> option (St * act)) g fuel ps rq :
  no_terminate rq ->
  ses_state (d_session mstep g fuel ps rq) = pl_state (p_session mstep fuel ps)
  /\ ses_status (d_session mstep g fuel ps rq) = pl_status (p_session mstep fuel ps)
  /\ map snd (ses_heads (d_session mstep g fuel ps rq)) = pl_visited (p_session mstep fuel ps).
Proof. intros H. destruct (session_sim St mstep g fuel ps rq H) as (A & B & C & _). auto. Qed.

(** The break events are exactly the flagged positioned nodes the *tracker* went through. *)
Lemma breaks_are_tracked_flags St (mstep : St -> option (St * act)) g fuel ps rq :
  no_terminate rq ->
  breaks (ses_events (d_session mstep g fuel ps rq))
  = map fst (filter (fun h => stops g (fst h)) (ses_heads (d_session mstep g fuel ps rq))).
Proof. intros H. destruct (session_sim St mstep g fuel ps rq H) as (_ & _ & _ & D). auto. Qed.

(** Soundness for every client, terminate included. *)
Lemma events_sound St (mstep : St -> option (St * act)) g fuel ps rq x :
  In (RBreak, x) (ses_events (d_session mstep g fuel ps rq)) ->
  stops g x = true /\ exists t, In (x, t) (ses_heads (d_session mstep g fuel ps rq)).
Proof.
  unfold d_session.
  destruct (d_run mstep g fuel 0 None None false ps (d_init rq)) as [[ps' d'] s] eqn:E.
  unfold ses_events, ses_heads. simpl.
  assert (S0 : sound g (d_init rq)).
  { intros y Hy. destruct (d_init_events rq) as (He & _). rewrite He in Hy. contradiction. }
  destruct (d_run_sound St mstep g fuel 0 None None false ps (d_init rq) ps' d' s (d_init_okmode rq) S0 E) as (_ & Hs).
  intros Hin. unfold session_events in Hin.
  destruct Hin as [Hin|Hin]; [inversion Hin|].
  apply in_app_or in Hin. destruct Hin as [Hin|Hin].
  - apply in_rev in Hin. destruct (Hs x Hin) as (A & t & B). split; auto. exists t. apply in_rev in B. auto.
  - simpl in Hin. destruct Hin as [Hin|[Hin|[]]]; inversion Hin.
Qed.

(** Every session is framed: EnterGoRoutine first, ExitGoRoutine and Terminate last. *)
Lemma terminate_event St (mstep : St -> option (St * act)) g fuel ps rq :
  exists es, ses_events (d_session mstep g fuel ps rq) = (REnterG, None) :: es ++ [(RExitG, None); (RTerminate, None)]
             /\ last (ses_events (d_session mstep g fuel ps rq)) (RRun, None) = (RTerminate, None).
Proof.
  unfold d_session.
  destruct (d_run mstep g fuel 0 None None false ps (d_init rq)) as [[ps' d'] s].
  unfold ses_events. cbn [fst snd]. exists (rev (events d')). split; [reflexivity|].
  unfold session_events.
  assert (E : forall (l : list event) a x y, a :: l ++ [x; y] = (a :: l ++ [x]) ++ [y])
    by (intros; simpl; rewrite <- app_assoc; reflexivity).
  rewrite E.
  apply last_last.
Qed.

(* ------------------------------------------------------------------ *)
(** * Completeness: where the tracker is right about flagged nodes *)

Lemma exact_filter g hs :
  exact_at_flags g hs ->
  map fst (filter (fun h => stops g (fst h)) hs) = filter (stops g) (map snd hs).
Proof.
  induction hs as [|[m t] hs IH]; intros H; simpl; auto.
  assert (H' : exact_at_flags g hs) by (intros a b Hin; apply H; right; auto).
  specialize (IH H').
  pose proof (H m t (or_introl eq_refl)) as Hmt.
  destruct (stops g m) eqn:Em; destruct (stops g t) eqn:Et; simpl in *.
  - rewrite IH. f_equal. apply Hmt; auto.
  - assert (m = t) by (apply Hmt; auto). subst. congruence.
  - assert (m = t) by (apply Hmt; auto). subst. congruence.
  - auto.
Qed.

Lemma exact_at_flagsb_spec g hs : exact_at_flagsb g hs = true -> exact_at_flags g hs.
Proof.
  unfold exact_at_flagsb, exact_at_flags. rewrite forallb_forall. intros H m t Hin Hst.
  specialize (H (m, t) Hin). simpl in H. rewrite Hst in H. simpl in H.
  destruct m as [a|], t as [b|]; simpl in H; try discriminate; auto.
  apply Nat.eqb_eq in H. subst; auto.
Qed.

Lemma events_complete_partial St (mstep : St -> option (St * act)) g fuel ps rq :
  no_terminate rq ->
  exact_at_flags g (ses_heads (d_session mstep g fuel ps rq)) ->
  breaks (ses_events (d_session mstep g fuel ps rq)) = g_breaks g (pl_visited (p_session mstep fuel ps)).
Proof.
  intros Hq Hex. destruct (session_sim St mstep g fuel ps rq Hq) as (_ & _ & C & D).
  rewrite D, <- C. unfold g_breaks. apply exact_filter; auto.
Qed.

(** Completeness from a static condition on the graph and a condition on the program alone: when the
    two successors of a node never come from the same generator and the run stays on the graph (every
    closure returned is the one of the running node's tnext or fnext), the tracker is exact at every
    consultation and every flagged node that executes is reported, in order. *)
Lemma events_complete_static St (mstep : St -> option (St * act)) g fuel ps rq :
  distinct_succ g ->
  no_terminate rq ->
  d_session_oncfg mstep g fuel ps rq = true ->
  (forall m t, In (m, t) (ses_heads (d_session mstep g fuel ps rq)) -> m = t)
  /\ breaks (ses_events (d_session mstep g fuel ps rq)) = g_breaks g (pl_visited (p_session mstep fuel ps)).
Proof.
  intros Hd Hq Hon.
  assert (Hall : forall m t, In (m, t) (ses_heads (d_session mstep g fuel ps rq)) -> m = t).
  { unfold d_session_oncfg in Hon. unfold d_session.
    destruct (d_run mstep g fuel 0 None None false ps (d_init rq)) as [[ps' d'] s] eqn:E.
    unfold ses_heads. cbn [snd].
    apply negb_true_iff in Hon.
    assert (X : all_exact (heads d')).
    { eapply (d_run_exact St mstep g Hd); [exact E|exact Hon|].
      destruct (d_init_events rq) as (_ & ->). intros a b []. }
    intros m t Hin. apply in_rev in Hin. apply X; auto. }
  split; auto.
  apply events_complete_partial; auto.
  intros m t Hin _. apply Hall; auto.
Qed.

Lemma static_inhabited :
  distinct_succ w_ok
  /\ d_session_oncfg replay_step w_ok 10 w_ok_run w_ok_reqs = true
  /\ breaks (ses_events (d_session replay_step w_ok 10 w_ok_run w_ok_reqs)) = [Some 0; Some 2].
Proof.
  split; [|vm_compute; auto].
  intros n a b Ha Hb. simpl in Hb. discriminate.
Qed.

(** The witnesses of the refutations violate one of the two conditions each. *)
Lemma witnesses_outside :
  ~ distinct_succ w_if
  /\ d_session_oncfg replay_step w_loop 20 w_loop_run [] = false.
Proof.
  split; [|vm_compute; auto].
  intros H. apply (H 0 1 2); simpl; auto.
Qed.

(* ------------------------------------------------------------------ *)
(** * The full statement and its refutation on the faithful model *)

Definition statement : Prop :=
  forall (St : Type) (mstep : St -> option (St * act)) (g : cfg) (fuel : nat) (ps : St) (rq : list request),
    no_terminate rq ->
    ses_state (d_session mstep g fuel ps rq) = pl_state (p_session mstep fuel ps)
    /\ ses_status (d_session mstep g fuel ps rq) = pl_status (p_session mstep fuel ps)
    /\ breaks (ses_events (d_session mstep g fuel ps rq)) = g_breaks g (pl_visited (p_session mstep fuel ps))
    /\ last (ses_events (d_session mstep g fuel ps rq)) (RRun, None) = (RTerminate, None).

(** A breakpoint on the else-branch that runs is not reported ... *)
Lemma missed_break :
  breaks (ses_events (d_session replay_step w_if 10 w_if_run [])) = []
  /\ g_breaks w_if (pl_visited (p_session replay_step 10 w_if_run)) = [Some 2]
  /\ pl_status (p_session replay_step 10 w_if_run) = Returned.
Proof. vm_compute. auto. Qed.

(** ... a breakpoint on the then-branch that does not run is ... *)
Lemma spurious_break :
  breaks (ses_events (d_session replay_step w_if' 10 w_if_run [])) = [Some 1]
  /\ g_breaks w_if' (pl_visited (p_session replay_step 10 w_if_run)) = [].
Proof. vm_compute. auto. Qed.

(** ... and a breakpoint on a loop condition is reported for the first iteration only. *)
Lemma loop_break_once :
  breaks (ses_events (d_session replay_step w_loop 20 w_loop_run [])) = [Some 0]
  /\ g_breaks w_loop (pl_visited (p_session replay_step 20 w_loop_run)) = [Some 0; Some 0; Some 0].
Proof. vm_compute. auto. Qed.

Lemma statement_refuted : ~ statement.
Proof.
  intros H. specialize (H (list act) replay_step w_if 10 w_if_run [] I).
  destruct H as (_ & _ & H & _).
  destruct missed_break as (A & B & _). rewrite A, B in H. discriminate.
Qed.

(** Non-vacuity: a session with breakpoints, a call and all three kinds of step, without terminate,
    on which the tracker is exact; it stops five times. *)
Lemma partial_inhabited :
  no_terminate w_ok_reqs
  /\ exact_at_flags w_ok (ses_heads (d_session replay_step w_ok 10 w_ok_run w_ok_reqs))
  /\ ses_events (d_session replay_step w_ok 10 w_ok_run w_ok_reqs)
     = [(REnterG, None); (RBreak, Some 0); (RBreak, Some 2); (RStepInto, Some 1); (RExitG, None); (RTerminate, None)]
  /\ pl_status (p_session replay_step 10 w_ok_run) = Returned.
Proof.
  split; [simpl; auto|]. split; [apply exact_at_flagsb_spec; vm_compute; reflexivity|].
  vm_compute. auto.
Qed.

(** A terminate request ends the session early, and it still ends with the terminate event. *)
Lemma terminate_inhabited :
  ses_status (d_session replay_step w_ok 10 w_ok_run [QStep REntry; QTerminate]) = Stopped
  /\ ses_events (d_session replay_step w_ok 10 w_ok_run [QStep REntry; QTerminate])
     = [(REnterG, None); (RBreak, Some 0); (RExitG, None); (RTerminate, None)].
Proof. vm_compute. auto. Qed.

(** A line request makes SetBreakpoints generate the closures before Execute has linked the
    package-level variable declarations: the debugged program is another program. The plain run
    initialises both variables, the debugged one (no breakpoint hit, no step) only the first. *)
Lemma linebp_globals :
  pl_visited (p_session replay_step 10 w_glob_plain) = [Some 0; Some 1]
  /\ map snd (ses_heads (d_session replay_step w_glob 10 w_glob_linereq [])) = [Some 0]
  /\ ses_status (d_session replay_step w_glob 10 w_glob_linereq []) = Returned.
Proof. vm_compute. auto. Qed.

(* ------------------------------------------------------------------ *)
(** * Two step functions that agree *)

Lemma p_run_ext St (m1 m2 : St -> option (St * act)) :
  (forall ps, m1 ps = m2 ps) ->
  forall fuel t head ps log, p_run m1 fuel t head ps log = p_run m2 fuel t head ps log.
Proof.
  intros H. induction fuel as [|k IH]; intros t head ps log; [reflexivity|].
  cbn [p_run]. rewrite H. destruct (m2 ps) as [[ps1 a]|]; [|reflexivity].
  destruct a as [n | [[p n]|] | ]; try reflexivity.
  - rewrite IH. destruct (p_run m2 k (Some n) true ps1 (if head then t :: log else log)) as [[ps2 log2] s].
    destruct s; auto.
  - apply IH.
Qed.

(** The behaviour clause for the pair (plain closures, debugged closures). *)
Lemma same_behaviour_variants St (plain debugged : St -> option (St * act)) g fuel ps rq :
  variants_agree plain debugged ->
  no_terminate rq ->
  ses_state (d_session debugged g fuel ps rq) = pl_state (p_session plain fuel ps)
  /\ ses_status (d_session debugged g fuel ps rq) = pl_status (p_session plain fuel ps)
  /\ map snd (ses_heads (d_session debugged g fuel ps rq)) = pl_visited (p_session plain fuel ps).
Proof.
  intros Hv Hq. destruct (same_behaviour St debugged g fuel ps rq Hq) as (A & B & C).
  unfold p_session in *. rewrite (p_run_ext St debugged plain Hv) in A, B, C. auto.
Qed.

Lemma variants_inhabited : variants_agree replay_step replay_step.
Proof. intros ps. reflexivity. Qed.

Lemma linebp_hostpanic :
  pregen (fun n => negb (Nat.eqb n 1)) [0; 1; 2] = None /\ pregen (fun _ => true) [0; 1; 2] = Some tt.
Proof. vm_compute. auto. Qed.
