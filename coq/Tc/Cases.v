(** C12 — evaluation of the models on the cases written by the harness.
    MiniGo stream: [mini_mis_y] = ids where yaegi's observed verdict differs from Y (cases Y answers
    [Unk] on are skipped and listed by [mini_unmodelled]); [mini_mis_g] = ids where go/types differs
    from G; both also fail when [mutate] does not produce the program the harness ran (hash).
    Rich stream and multi-package stream: see below. *)
From Coq Require Import String.
From Verif Require Import Tc.Syntax Tc.Checker Tc.GoTyping Tc.YaegiCheck Tc.Mutations Tc.Pipeline Tc.Escapes.

(** observed classes: 0 = the program ran (Eval got past the static checks), 1 = rejected (error,
    nothing written), 2 = Eval panicked in the host *)
Definition obs_matches (r : res unit) (o : N) : bool :=
  match r with
  | Ok _ => N.eqb o 0
  | Err => N.eqb o 1
  | Panic => N.eqb o 2
  | Unk => true
  end.

Definition ref_matches (r : res unit) (accepted : bool) : bool :=
  match r with
  | Ok _ => accepted
  | Err => negb accepted
  | Panic => false
  | Unk => true
  end.

(** (id, original, operator, site, hash of the mutant the harness ran, observed class, go/types accepts) *)
Definition mini_case := (N * prog * option (mut * site) * N * N * bool)%type.

Definition the_mutant (p : prog) (ms : option (mut * site)) : option prog :=
  match ms with None => Some p | Some (m, st) => mutate m p st end.

(** yaegi and go/types agree on the case: rejected by both or accepted by both *)
Definition agree (o : N) (accepted : bool) : bool :=
  if accepted then N.eqb o 0 else N.eqb o 1.

(** a case Y does not model ([Unk]) is skipped only if yaegi agrees with go/types on it: a
    disagreement has to be predicted by the model to be attributed to a known finding *)
Definition mini_mis_y (cs : list mini_case) : list N :=
  flat_map (fun '(id, p, ms, h, o, r) =>
    match the_mutant p ms with
    | Some p' =>
        let y := y_check p' in
        if N.eqb (prog_hash p') h && obs_matches y o && (match y with Unk => agree o r | _ => true end)
        then [] else [id]
    | None => [id]
    end) cs.

Definition mini_mis_g (cs : list mini_case) : list N :=
  flat_map (fun '(id, p, ms, h, _, r) =>
    match the_mutant p ms with
    | Some p' => if ref_matches (g_check p') r then [] else [id]
    | None => [id]
    end) cs.

Definition mini_unmodelled (cs : list mini_case) : list N :=
  flat_map (fun '(id, p, ms, _, _, _) =>
    match the_mutant p ms with
    | Some p' => match y_check p' with Unk => [id] | _ => [] end
    | None => []
    end) cs.

(** rich stream: (id, region key, observed class).  Y = the table of escapes Tc/Escapes.v: a key
    listed there is predicted with its class, every other key is predicted rejected. *)
Definition rich_case := (N * string * N)%type.

Fixpoint esc_lookup (k : string) (l : list (string * N)) : N :=
  match l with
  | [] => 1%N
  | (k', c) :: r => if String.eqb k k' then c else esc_lookup k r
  end.

(** The cases of a file and the table are both sorted by key (byte order): one merge pass.
    Cases out of order are reported (they are compared against the wrong part of the table). *)
Fixpoint rich_merge (fuel : nat) (cs : list rich_case) (tb : list (string * N)) : list N :=
  match fuel with
  | O => map (fun '(id, _, _) => id) cs
  | S f =>
      match cs with
      | [] => []
      | (id, k, o) :: cs' =>
          match tb with
          | [] => (if N.eqb 1 o then [] else [id]) ++ rich_merge f cs' []
          | (k', c) :: tb' =>
              match String.compare k k' with
              | Eq => (if N.eqb c o then [] else [id]) ++ rich_merge f cs' tb
              | Lt => (if N.eqb 1 o then [] else [id]) ++ rich_merge f cs' tb
              | Gt => rich_merge f cs tb'
              end
          end
      end
  end.

Fixpoint keys_sorted (cs : list rich_case) : bool :=
  match cs with
  | (_, k, _) :: (((_, k', _) :: _) as r) =>
      match String.compare k k' with Gt => false | _ => keys_sorted r end
  | _ => true
  end.

Definition rich_mis_y (cs : list rich_case) : list N :=
  if keys_sorted cs then rich_merge (length cs + length escapes) cs escapes
  else flat_map (fun '(id, k, o) => if N.eqb (esc_lookup k escapes) o then [] else [id]) cs.
Definition rich_mis_g (cs : list rich_case) : list N := [].

(** multi-package stream: (id, world, observed trace of package markers, observed class) *)
Definition multi_case := (N * world * list nat * N * bool)%type.

Fixpoint nat_list_eqb (a b : list nat) : bool :=
  match a, b with
  | [], [] => true
  | x :: a', y :: b' => Nat.eqb x y && nat_list_eqb a' b'
  | _, _ => false
  end.

Definition multi_mis_y (cs : list multi_case) : list N :=
  flat_map (fun '(id, w, tr, o, _) =>
    let '(t, v) := y_eval w in
    if nat_list_eqb t tr && N.eqb v o then [] else [id]) cs.

(** G: go/types rejects the build as a whole when any package is ill-typed: nothing runs *)
Definition multi_mis_g (cs : list multi_case) : list N :=
  flat_map (fun '(id, w, _, _, accepted) => if Bool.eqb (g_world_ok w) accepted then [] else [id]) cs.
