(** C12 — Y: the checks of interp/typecheck.go and the places of interp/cfg.go that call them (or do
    not), transcribed for MiniGo as a rule set for the checker skeleton, defects included:

    - [unaryExpr], [binaryExpr]: operands converted from untyped, [equals], then the operator
      predicate tables (regenerated from the source: gen/OpPred_gen.v) applied to the reflect kind;
    - cfg.go [landExpr]/[lorExpr] never call [binaryExpr]: && and || are not checked at all, the
      node takes the type of its left operand;
    - [binaryExpr] evaluates [zeroConst] on the right operand of / and % before anything else:
      [constant.Sign] of an untyped string or bool constant panics in the host;
    - [assignableTo] falls back on reflect.Type.AssignableTo, and a named type over a basic kind
      has the reflect type of that kind: a named and an unnamed type of the same kind are
      assignable to each other (only two *named* types are told apart);
    - cfg.go [ifStmt*]/[forStmt*]: a non-bool condition sets the error and then still evaluates
      [cond.rval.Bool()] when the condition is a constant: a panic in the host;
    - cfg.go [indexExpr] on a value that is neither array, slice, map, string nor pointer leaves
      the node without a type: the next use panics ("nil type").

    Wherever the transcription is not certain the rule answers [Unk] (unmodelled): those cases are
    skipped by the correspondence and excluded from the theorems. *)
From Verif Require Import Tc.Syntax Tc.Checker Tc.GoTyping Tc.Pred.
From Verif Require Import gen.OpPred_gen.

Definition y_unary_ok := table_ok y_pred_defs y_unary_preds.
Definition y_binary_ok := table_ok y_pred_defs y_binary_preds.

Definition action_of_unop (o : unop) : action :=
  match o with UNeg => ANeg | UPos => APos | UNot => ANot | UBitNot => ABitNot end.

Definition action_of_binop (o : binop) : option action :=
  match o with
  | BAdd => Some AAdd | BSub => Some ASub | BMul => Some AMul | BQuo => Some AQuo | BRem => Some ARem
  | BAnd => Some AAnd | BOr => Some AOr | BXor => Some AXor | BAndNot => Some AAndNot
  | BLand => Some ALand | BLor => Some ALor
  | _ => None
  end.

(** the reflect kind the predicates see for a typed operand *)
Definition y_kind (t : ty) : option rkind := rkind_of t.

Definition y_un (o : unop) (a : ety) : res ety :=
  let '(t, c) := a in
  if c then Unk  (* constant operands are folded at compile time by another path *)
  else match y_kind t with
       | Some k => if y_unary_ok (action_of_unop o) k then Ok (t, false) else Err
       | None => Unk
       end.

(** the three value classes reflect tells apart whatever the names *)
Definition same_class (a b : ty) : bool :=
  match class_of a, class_of b with
  | (VInteger | VFloat), (VInteger | VFloat) => true
  | VString, VString => true
  | VBool, VBool => true
  | _, _ => false
  end.

(** [a] is a named type defined over the basic type [b] *)
Definition named_over (a b : ty) : bool :=
  match a, b with TN _ k, TB k' => bkind_eqb k k' | _, _ => false end.

Definition y_bin (o : binop) (a b : ety) : res ety :=
  let '(ta, ca) := a in
  let '(tb, cb) := b in
  match o with
  | BLand | BLor => Ok (ta, false)                       (* cfg.go landExpr / lorExpr: no check *)
  | BShl | BShr =>
      if ca && negb cb then Unk else
      match class_of ta, class_of tb with
      | VInteger, VInteger => Ok (ta, ca && cb)
      | (VFloat | VString | VBool | VOther), VInteger => if is_untyped ta then Unk else Err
      | _, _ => Unk
      end
  | BEq | BNe | BLt | BLe | BGt | BGe =>
      let ordered := match o with BEq | BNe => false | _ => true end in
      if ca && cb then
        (* two constants: folded *)
        match unify ta tb with
        | Some u => if (if ordered then g_ordered u else g_comparable u) then Ok (TU CBool, true) else Unk
        | None => Unk
        end
      else if is_untyped ta || is_untyped tb then
        match unify ta tb with
        | Some u => if (if ordered then g_ordered u else g_comparable u) then Ok (TB KBool, false) else Err
        | None => Unk
        end
      else if ty_eqb ta tb then
        match ta with
        | TL _ => Err
        | _ => if ordered then (if g_ordered ta then Ok (TB KBool, false) else Err) else Ok (TB KBool, false)
        end
      else if named_over ta tb || named_over tb ta then
        (* comparison: assignable through reflect, and typeDefined holds *)
        if ordered then (if g_ordered ta then Ok (TB KBool, false) else Err) else Ok (TB KBool, false)
      else if same_class ta tb then Unk else
        match ta, tb with
        | (TB _ | TN _ _), (TB _ | TN _ _) => Err            (* not assignable either way *)
        | _, _ => Unk
        end
  | _ =>
      (* zeroConst(c1) first for / and % *)
      match o, tb, cb with
      | (BQuo | BRem), TU (CString | CBool), true => Panic
      | _, _, _ =>
      if ca && cb then
        match unify ta tb, o with
        | Some u, (BAdd | BSub | BMul) => if g_arith_ok o (class_of u) then Ok (u, true) else Unk
        | _, _ => Unk
        end
      else if is_untyped ta || is_untyped tb then
        (* the untyped side is converted to the type of the other one when representable *)
        match unify ta tb with
        | Some u =>
            match y_kind u, action_of_binop o with
            | Some k, Some ac => if y_binary_ok ac k then Ok (u, false) else Err
            | _, _ => Unk
            end
        | None =>
            match o with
            | BAdd => Unk
            | _ => Err   (* mismatched types *)
            end
        end
      else if ty_eqb ta tb then
        match y_kind ta, action_of_binop o with
        | Some k, Some ac => if y_binary_ok ac k then Ok (ta, false) else Err
        | _, _ => Unk
        end
      else if same_class ta tb then Unk
      else match ta, tb with
           | (TB _ | TN _ _), (TB _ | TN _ _) => Err         (* mismatched types *)
           | _, _ => Unk
           end
      end
  end.

Definition is_named (t : ty) : bool := match t with TN _ _ | TS _ => true | _ => false end.

(** [itype.assignableTo] on typed values *)
Definition y_assignable_typed (t d : ty) : bool :=
  if ty_eqb t d then true
  else if is_named t && is_named d then false
  else match t, d with
       | (TB k | TN _ k), (TB k' | TN _ k') => bkind_eqb k k'
       | _, _ => false
       end.

Definition y_assign (cx : actx) (a : ety) (d : ty) : res unit :=
  let '(t, c) := a in
  match t with
  | TU cu =>
      match kind_of d with
      | Some k =>
          if conv_ok cu k then Ok tt
          else match cx with
               | AVar | AAssign | AElem | AField | AArg => Err
               | AReturn => Unk
               end
      | None => Unk
      end
  | _ => if ty_eqb t d then Ok tt else if c then Unk else guard (y_assignable_typed t d)
  end.

Definition y_define (a : ety) : res ty :=
  match fst a with TU c => Ok (TB (c_default c)) | t => Ok t end.

Definition y_conv (t : ty) (a : ety) : res ety :=
  match g_conv t a with
  | Ok r => Ok r
  | _ => match fst a with
         | TU _ => Unk
         | _ => if snd a then Unk else
                match kind_of t, kind_of (fst a) with
                | Some _, Some _ => Err          (* reflect ConvertibleTo is false *)
                | _, _ => Unk
                end
         end
  end.

Definition y_cond (a : ety) : res unit :=
  let '(t, c) := a in
  match class_of t with
  | VBool => Ok tt
  | _ => if c then Panic else Err
  end.

Definition y_index (a i : ety) : res ety :=
  match fst a with
  | TL k =>
      match class_of (fst i) with
      | VInteger => Ok (TB k, false)
      | VFloat => Unk
      | _ => Err
      end
  | TB KString | TN _ KString | TU _ => Unk
  | TB _ | TN _ _ => Panic
  | TS _ => Unk
  end.

Definition y_len (a : ety) : res ety :=
  match fst a with
  | TL _ => Ok (TB KInt, false)
  | t => match class_of t with
         | VString => Ok (TB KInt, snd a)
         | _ => if is_untyped t then Unk else Err
         end
  end.

Definition y_lit (h : head) : res ety :=
  match h with
  | HInt _ => Ok (TU CInt, true)
  | HFloat _ => Ok (TU CFloat, true)
  | HStr _ => Ok (TU CString, true)
  | HBool _ => Ok (TU CBool, true)
  | _ => Err
  end.

Definition y_rules : rules := {|
  r_lit := y_lit; r_un := y_un; r_bin := y_bin; r_assign := y_assign; r_define := y_define;
  r_conv := y_conv; r_cond := y_cond; r_index := y_index; r_len := y_len;
  r_undef := fun _ => Unk |}.

Definition y_check (p : prog) : res unit := check y_rules p.
