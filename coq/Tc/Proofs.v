(** C12 — lemmas behind coq/Props/C12.v.
    1. the catalogue: for each mutation operator a readable, typed precondition under which the
       rewritten node is rejected by Go's rules (G) — and, where yaegi's checks do reject, by Y;
    2. mutants are ill-typed / rejected: the catalogue composed with Lifting.failure_propagates;
    3. the refutations: operators Go rejects and yaegi accepts or panics on;
    4. the pipeline: nothing runs in a single package, imported packages have run;
    5. the operator predicate tables agree with the Go specification. *)
From Verif Require Import Tc.Syntax Tc.Checker Tc.GoTyping Tc.Pred Tc.YaegiCheck Tc.Mutations Tc.Sites
     Tc.Lifting Tc.Pipeline.
From Verif Require Import gen.OpPred_gen.

(* ------------------------------------------------------------------ *)
(** * Unfolding typeof on the shapes the operators produce *)

Section Shapes.
  Variable R : rules.
  Variable P : prog.
  Variable G : env.

  Lemma typeof_un o a : typeof R P G (EUn o a) = do t <- typeof R P G a; r_un R o t.
  Proof. unfold EUn. rewrite typeof_eq. simpl. destruct (typeof R P G a); reflexivity. Qed.

  Lemma typeof_bin o a b :
    typeof R P G (E (HBin o) [a; b]) = do ta <- typeof R P G a; do tb <- typeof R P G b; r_bin R o ta tb.
  Proof.
    rewrite typeof_eq. simpl. destruct (typeof R P G a); try reflexivity.
    simpl. destruct (typeof R P G b); reflexivity.
  Qed.

  Lemma typeof_conv t a : typeof R P G (EConv t a) = do x <- typeof R P G a; r_conv R t x.
  Proof. unfold EConv. rewrite typeof_eq. simpl. destruct (typeof R P G a); reflexivity. Qed.

  Lemma typeof_len a : typeof R P G (E HLen [a]) = do x <- typeof R P G a; r_len R x.
  Proof. rewrite typeof_eq. simpl. destruct (typeof R P G a); reflexivity. Qed.

  Lemma typeof_index a i :
    typeof R P G (E HIndex [a; i]) = do ta <- typeof R P G a; do ti <- typeof R P G i; r_index R ta ti.
  Proof.
    rewrite typeof_eq. simpl. destruct (typeof R P G a); try reflexivity.
    simpl. destruct (typeof R P G i); reflexivity.
  Qed.

  Lemma typeof_call0 f fd t :
    nth_error (pfuncs P) f = Some fd -> fparams fd = [] -> fresults fd = [t] ->
    typeof R P G (ECall f []) = Ok (t, false).
  Proof.
    intros Hf Hp Hr. unfold ECall. rewrite typeof_eq. cbn [mapM bind node_ty]. rewrite Hf, Hp, Hr. reflexivity.
  Qed.

  Lemma check_var rets x t e :
    check_stmt R P rets G (SVar x t e) =
      do te <- typeof R P G e;
      match lookup G x with
      | Some _ => Err
      | None => do _ <- r_assign R AVar te t; Ok ((x, t) :: G)
      end.
  Proof.
    unfold SVar. rewrite check_stmt_eq. cbn [mapM]. destruct (typeof R P G e) as [te| | |]; try reflexivity.
    cbn [bind stmt_ty check_block]. destruct (lookup G x); try reflexivity.
    destruct (r_assign R AVar te t) as [[]| | |]; reflexivity.
  Qed.

  Lemma check_assign rets l e :
    check_stmt R P rets G (SAssign l e) =
      do tl <- typeof R P G l; do te <- typeof R P G e;
      if is_lvalue l then do _ <- r_assign R AAssign te (fst tl); Ok G else Err.
  Proof.
    unfold SAssign. rewrite check_stmt_eq. cbn [mapM].
    destruct (typeof R P G l) as [[tl cl]| | |]; try reflexivity. cbn [bind].
    destruct (typeof R P G e) as [te| | |]; try reflexivity.
    cbn [bind stmt_ty check_block fst]. destruct (is_lvalue l); try reflexivity.
    destruct (r_assign R AAssign te tl) as [[]| | |]; reflexivity.
  Qed.

  Lemma mapM_app_ok {A B} (f : A -> res B) l ts x t :
    mapM f l = Ok ts -> f x = Ok t -> mapM f (l ++ [x]) = Ok (ts ++ [t]).
  Proof.
    revert ts. induction l as [|a r IH]; intros ts H Hx; simpl in *.
    - inversion H; subst. now rewrite Hx.
    - apply bind_ok in H as (b & Hb & H). apply bind_ok in H as (bs & Hbs & H). inversion H; subst.
      rewrite Hb. simpl. now rewrite (IH _ Hbs Hx).
  Qed.

  Lemma mapM_cons {A B} (f : A -> res B) a l :
    mapM f (a :: l) = do b <- f a; do bs <- mapM f l; Ok (b :: bs).
  Proof. reflexivity. Qed.

  Lemma mapM_length {A B} (f : A -> res B) : forall l ts, mapM f l = Ok ts -> length ts = length l.
  Proof.
    induction l as [|a r IH]; intros ts H; simpl in *; [inversion H; reflexivity|].
    apply bind_ok in H as (b & Hb & H). apply bind_ok in H as (bs & Hbs & H). inversion H; subst.
    simpl. now rewrite (IH _ Hbs).
  Qed.

  Lemma mapM_removelast_ok {A B} (f : A -> res B) : forall l ts,
    mapM f l = Ok ts -> mapM f (removelast l) = Ok (removelast ts).
  Proof.
    induction l as [|a r IH]; intros ts H; simpl in *; [inversion H; reflexivity|].
    apply bind_ok in H as (b & Hb & H). apply bind_ok in H as (bs & Hbs & H). inversion H; subst.
    destruct r as [|a' r'].
    - simpl in Hbs. inversion Hbs; subst. reflexivity.
    - destruct bs as [|b' bs']; [apply mapM_length in Hbs; discriminate|].
      specialize (IH _ Hbs). change (removelast (a :: a' :: r')) with (a :: removelast (a' :: r')).
      change (removelast (b :: b' :: bs')) with (b :: removelast (b' :: bs')).
      rewrite mapM_cons, Hb. cbn [bind]. rewrite IH. reflexivity.
  Qed.

  (** arity: one argument more or one fewer than declared is rejected whatever the rules *)
  Lemma arity_then_extra c ts ds t : length ts = length ds -> arity_then R c (ts ++ [t]) ds = Err.
  Proof.
    intros H. unfold arity_then. rewrite app_length, H. simpl.
    replace (length ds + 1 =? length ds) with false; [reflexivity|].
    symmetry. apply Nat.eqb_neq. lia.
  Qed.

  Lemma arity_then_fewer c ts ds : ts <> [] -> length ts = length ds -> arity_then R c (removelast ts) ds = Err.
  Proof.
    intros Hne H. unfold arity_then.
    assert (length (removelast ts) <> length ds).
    { destruct ts as [|t r]; [congruence|]. rewrite <- H.
      rewrite (app_removelast_last t (l:=t :: r)) at 2 by congruence. rewrite app_length. simpl. lia. }
    apply Nat.eqb_neq in H0. now rewrite H0.
  Qed.

  Lemma arity_then_ok_length c ts ds : arity_then R c ts ds = Ok tt -> length ts = length ds.
  Proof. unfold arity_then. destruct (length ts =? length ds) eqn:E; [now apply Nat.eqb_eq in E|discriminate]. Qed.
End Shapes.

(* ------------------------------------------------------------------ *)
(** * 1a. Catalogue entries that hold for every rule set (arity, undefined field) *)

Section Generic.
  Variable R : rules.
  Variable P : prog.
  Variable G : env.

  (** [13] one argument too many in a call *)
  Lemma cat13_call_extra f args t :
    typeof R P G (E (HCall f) args) = Ok t -> r_lit R (HInt 0) <> Err -> r_lit R (HInt 0) <> Panic ->
    r_lit R (HInt 0) <> Unk ->
    fails_expr R P MArgExtra G (E (HCall f) args) = true.
  Proof.
    intros H Hl1 Hl2 Hl3. unfold fails_expr. cbn [rw_expr repl_expr replace_nth option_map].
    rewrite typeof_eq in H. apply bind_ok in H as (ts & Hts & H). simpl in H.
    destruct (nth_error (pfuncs P) f) as [fd|] eqn:Hf; [|discriminate].
    apply bind_ok in H as ([] & Har & _). apply arity_then_ok_length in Har.
    destruct (r_lit R (HInt 0)) as [t0| | |] eqn:Hl; try congruence.
    rewrite typeof_eq.
    assert (H0 : typeof R P G (EInt 0) = Ok t0) by (unfold EInt; rewrite typeof_eq; simpl; exact Hl).
    rewrite (mapM_app_ok (typeof R P G) args ts (EInt 0) t0 Hts H0). simpl. rewrite Hf.
    rewrite arity_then_extra by (rewrite (mapM_length _ _ _ Hts) in *; congruence). reflexivity.
  Qed.

  (** [13] one argument too few *)
  Lemma cat13_call_fewer f a r t :
    typeof R P G (E (HCall f) (a :: r)) = Ok t ->
    fails_expr R P MArgFewer G (E (HCall f) (a :: r)) = true.
  Proof.
    intros H. unfold fails_expr. cbn [rw_expr repl_expr replace_nth option_map].
    rewrite typeof_eq in H. apply bind_ok in H as (ts & Hts & H). simpl in H.
    destruct (nth_error (pfuncs P) f) as [fd|] eqn:Hf; [|discriminate].
    apply bind_ok in H as ([] & Har & _). apply arity_then_ok_length in Har.
    rewrite typeof_eq. rewrite (mapM_removelast_ok (typeof R P G) _ _ Hts). simpl. rewrite Hf.
    rewrite arity_then_fewer; [reflexivity| |exact Har].
    intros ->. apply mapM_length in Hts. discriminate.
  Qed.

  (** [22] struct literal with one value too many / too few *)
  Lemma cat22_lit_extra s args t :
    typeof R P G (E (HSLit s) args) = Ok t -> r_lit R (HInt 0) <> Err -> r_lit R (HInt 0) <> Panic ->
    r_lit R (HInt 0) <> Unk ->
    fails_expr R P MArgExtra G (E (HSLit s) args) = true.
  Proof.
    intros H Hl1 Hl2 Hl3. unfold fails_expr. cbn [rw_expr repl_expr replace_nth option_map].
    rewrite typeof_eq in H. apply bind_ok in H as (ts & Hts & H). simpl in H.
    destruct (nth_error (pstructs P) s) as [fs|] eqn:Hf; [|discriminate].
    apply bind_ok in H as ([] & Har & _). apply arity_then_ok_length in Har.
    destruct (r_lit R (HInt 0)) as [t0| | |] eqn:Hl; try congruence.
    rewrite typeof_eq.
    assert (H0 : typeof R P G (EInt 0) = Ok t0) by (unfold EInt; rewrite typeof_eq; simpl; exact Hl).
    rewrite (mapM_app_ok (typeof R P G) args ts (EInt 0) t0 Hts H0). simpl. rewrite Hf.
    rewrite arity_then_extra by (rewrite (mapM_length _ _ _ Hts) in *; congruence). reflexivity.
  Qed.

  Lemma cat22_lit_fewer s a r t :
    typeof R P G (E (HSLit s) (a :: r)) = Ok t ->
    fails_expr R P MArgFewer G (E (HSLit s) (a :: r)) = true.
  Proof.
    intros H. unfold fails_expr. cbn [rw_expr repl_expr replace_nth option_map].
    rewrite typeof_eq in H. apply bind_ok in H as (ts & Hts & H). simpl in H.
    destruct (nth_error (pstructs P) s) as [fs|] eqn:Hf; [|discriminate].
    apply bind_ok in H as ([] & Har & _). apply arity_then_ok_length in Har.
    rewrite typeof_eq. rewrite (mapM_removelast_ok (typeof R P G) _ _ Hts). simpl. rewrite Hf.
    rewrite arity_then_fewer; [reflexivity| |exact Har].
    intros ->. apply mapM_length in Hts. discriminate.
  Qed.

  (** [15] too many / too few return values *)
  Lemma cat15_return_extra rets es G' :
    check_stmt R P rets G (SReturn es) = Ok G' -> r_lit R (HInt 0) <> Err -> r_lit R (HInt 0) <> Panic ->
    r_lit R (HInt 0) <> Unk ->
    fails_stmt R P MSExtra rets G (SReturn es) = true.
  Proof.
    intros H Hl1 Hl2 Hl3. unfold fails_stmt, SReturn. cbn [rw_stmt repl_expr replace_nth option_map].
    unfold SReturn in H. rewrite check_stmt_eq in H. apply bind_ok in H as (ts & Hts & H).
    apply bind_ok in H as (G1 & Hst & _). simpl in Hst. apply bind_ok in Hst as ([] & Har & _).
    apply arity_then_ok_length in Har.
    destruct (r_lit R (HInt 0)) as [t0| | |] eqn:Hl; try congruence.
    assert (H0 : typeof R P G (EInt 0) = Ok t0) by (unfold EInt; rewrite typeof_eq; simpl; exact Hl).
    rewrite check_stmt_eq. rewrite (mapM_app_ok (typeof R P G) es ts (EInt 0) t0 Hts H0). simpl.
    rewrite arity_then_extra by (rewrite (mapM_length _ _ _ Hts) in *; congruence). reflexivity.
  Qed.

  Lemma cat15_return_fewer rets a r G' :
    check_stmt R P rets G (SReturn (a :: r)) = Ok G' ->
    fails_stmt R P MSFewer rets G (SReturn (a :: r)) = true.
  Proof.
    intros H. unfold fails_stmt, SReturn. cbn [rw_stmt repl_expr replace_nth option_map].
    unfold SReturn in H. rewrite check_stmt_eq in H. apply bind_ok in H as (ts & Hts & H).
    apply bind_ok in H as (G1 & Hst & _). simpl in Hst. apply bind_ok in Hst as ([] & Har & _).
    apply arity_then_ok_length in Har.
    rewrite check_stmt_eq. rewrite (mapM_removelast_ok (typeof R P G) _ _ Hts). simpl.
    rewrite arity_then_fewer; [reflexivity| |exact Har].
    intros ->. apply mapM_length in Hts. discriminate.
  Qed.

  (** [18] undefined field *)
  Lemma cat18_undef_field f a s c fs :
    typeof R P G a = Ok (TS s, c) -> nth_error (pstructs P) s = Some fs -> length fs <= undef_field ->
    fails_expr R P MUndefField G (E (HField f) [a]) = true.
  Proof.
    intros Ha Hs Hl. unfold fails_expr. cbn [rw_expr].
    assert (Hn : nth_error fs undef_field = None) by (apply nth_error_None; exact Hl).
    generalize dependent undef_field. intros n _ Hn.
    rewrite typeof_eq. simpl. rewrite Ha. simpl. rewrite Hs, Hn. reflexivity.
  Qed.
End Generic.

(* ------------------------------------------------------------------ *)
(** * 1b. Catalogue entries for Go's rules (G) *)

Section CatG.
  Variable P : prog.
  Variable G : env.
  Notation tyG := (typeof g_rules P G).

  Definition g_un_defined (o : unop) (c : vclass) : bool :=
    match o, c with
    | (UNeg | UPos), (VInteger | VFloat) => true
    | UBitNot, VInteger => true
    | UNot, VBool => true
    | _, _ => false
    end.

  (** [5] a unary operator wrapped around an operand it is not defined on:
      !int, !float, !string, ^float, ^string, ^bool, -string, -bool, any operator on a struct or slice *)
  Lemma g_cat05_wrap_unop o e t c :
    tyG e = Ok (t, c) -> g_un_defined o (class_of t) = false ->
    fails_expr g_rules P (MWrapUn o) G e = true.
  Proof.
    intros He Hd. unfold fails_expr. cbn [rw_expr repl_expr replace_nth option_map]. rewrite typeof_un, He. simpl.
    destruct o, (class_of t); simpl in *; congruence.
  Qed.

  (** [1] an operand replaced by a string literal, the other operand not being a string *)
  Lemma g_cat01_operand_string o a b tb cb :
    tyG b = Ok (tb, cb) -> class_of tb <> VString ->
    fails_expr g_rules P (MOperand 0 RStr) G (E (HBin o) [a; b]) = true.
  Proof.
    intros Hb Hc. unfold fails_expr. cbn [rw_expr repl_expr replace_nth option_map]. rewrite typeof_bin.
    unfold EStr. rewrite typeof_eq. simpl. rewrite Hb. simpl.
    destruct tb as [k|n k|n|k|cu]; try destruct k; try destruct cu; simpl in Hc; try congruence;
      destruct o; reflexivity.
  Qed.

  (** [2] an integer operand converted to another integer kind, the other operand keeping its type *)
  Lemma g_cat02_operand_other_int o a b k k' ca cb :
    tyG a = Ok (TB k, ca) -> tyG b = Ok (TB k, cb) -> k_integer k = true -> k_integer k' = true -> k <> k' ->
    o <> BShl -> o <> BShr ->
    fails_expr g_rules P (MOperand 0 (RConv (TB k'))) G (E (HBin o) [a; b]) = true.
  Proof.
    intros Ha Hb Hk Hk' Hne Ho1 Ho2. unfold fails_expr. cbn [rw_expr repl_expr replace_nth option_map]. rewrite typeof_bin, typeof_conv, Ha, Hb.
    destruct k, k'; simpl in *; try congruence; destruct o; simpl; congruence.
  Qed.

  (** [3] % & | ^ &^ on floats; [4] arithmetic on bools; [7] ordering of bools, structs:
      the operator of a binary expression replaced by one that is not defined on the operands *)
  Definition g_op_defined (o : binop) (u : ty) : bool :=
    match o with
    | BShl | BShr => match class_of u with VInteger => true | _ => false end
    | BEq | BNe => g_comparable u
    | BLt | BLe | BGt | BGe => g_ordered u
    | _ => g_arith_ok o (class_of u)
    end.

  Lemma g_cat_binop o o' a b ta ca tb cb u :
    tyG a = Ok (ta, ca) -> tyG b = Ok (tb, cb) -> unify ta tb = Some u ->
    class_of ta = class_of u -> class_of tb = class_of u ->
    g_op_defined o' u = false ->
    fails_expr g_rules P (MBinop o') G (E (HBin o) [a; b]) = true.
  Proof.
    intros Ha Hb Hu Hca Hcb Hd. unfold fails_expr. cbn [rw_expr repl_expr replace_nth option_map]. rewrite typeof_bin, Ha, Hb. simpl.
    unfold g_bin. unfold g_op_defined in Hd.
    destruct o'; rewrite ?Hu; try rewrite Hd; try reflexivity;
      rewrite Hca, Hcb; destruct (class_of u); simpl in *; congruence.
  Qed.

  (** [3] instance: % on float operands *)
  Lemma g_cat03_rem_on_float o a b ca cb :
    tyG a = Ok (TB KFloat, ca) -> tyG b = Ok (TB KFloat, cb) ->
    fails_expr g_rules P (MBinop BRem) G (E (HBin o) [a; b]) = true.
  Proof. intros Ha Hb. eapply g_cat_binop; eauto; reflexivity. Qed.

  (** [4] instance: + on bool operands *)
  Lemma g_cat04_add_on_bool o a b ca cb :
    tyG a = Ok (TB KBool, ca) -> tyG b = Ok (TB KBool, cb) ->
    fails_expr g_rules P (MBinop BAdd) G (E (HBin o) [a; b]) = true.
  Proof. intros Ha Hb. eapply g_cat_binop; eauto; reflexivity. Qed.

  (** [4] instance: && on integer operands *)
  Lemma g_cat04_land_on_int o a b k ca cb :
    tyG a = Ok (TB k, ca) -> tyG b = Ok (TB k, cb) -> k_integer k = true ->
    fails_expr g_rules P (MBinop BLand) G (E (HBin o) [a; b]) = true.
  Proof.
    intros Ha Hb Hk. eapply g_cat_binop; eauto; try reflexivity.
    - destruct k; reflexivity.
    - destruct k; simpl in *; congruence.
  Qed.

  (** [7] instance: < on bool operands *)
  Lemma g_cat07_less_on_bool o a b ca cb :
    tyG a = Ok (TB KBool, ca) -> tyG b = Ok (TB KBool, cb) ->
    fails_expr g_rules P (MBinop BLt) G (E (HBin o) [a; b]) = true.
  Proof. intros Ha Hb. eapply g_cat_binop; eauto; reflexivity. Qed.

  (** [9] a string literal where a non-string basic type is declared (var declaration) *)
  Lemma g_cat09_var_string rets x t e k G' :
    check_stmt g_rules P rets G (SVar x t e) = Ok G' -> kind_of t = Some k -> k <> KString ->
    fails_stmt g_rules P (MSArg 0 RStr) rets G (SVar x t e) = true.
  Proof.
    intros H Hk Hne. unfold fails_stmt. change (rw_stmt (MSArg 0 RStr) (SVar x t e)) with (Some (SVar x t (EStr 7))). cbv beta iota.
    rewrite check_var in H. rewrite check_var. apply bind_ok in H as (te & Hte & H).
    destruct (lookup G x) eqn:Hl; [discriminate|].
    change (typeof g_rules P G (EStr 7)) with (Ok (A:=ety) (TU CString, true)). cbn [bind].
    unfold g_rules at 1. cbn [r_assign]. unfold g_assign, g_assignable. cbn [fst]. rewrite Hk.
    destruct k; simpl; congruence.
  Qed.

  (** [9] the same in an assignment *)
  Lemma g_cat09_assign_string rets l e tl cl k G' :
    check_stmt g_rules P rets G (SAssign l e) = Ok G' -> tyG l = Ok (tl, cl) -> kind_of tl = Some k -> k <> KString ->
    fails_stmt g_rules P (MSArg 1 RStr) rets G (SAssign l e) = true.
  Proof.
    intros H Hl Hk Hne. unfold fails_stmt. change (rw_stmt (MSArg 1 RStr) (SAssign l e)) with (Some (SAssign l (EStr 7))). cbv beta iota.
    rewrite check_assign in H. rewrite check_assign. rewrite Hl in *. cbn [bind] in *.
    apply bind_ok in H as (te & Hte & H).
    change (typeof g_rules P G (EStr 7)) with (Ok (A:=ety) (TU CString, true)). cbn [bind].
    destruct (is_lvalue l); [|discriminate].
    unfold g_rules at 1. cbn [r_assign]. unfold g_assign, g_assignable. cbn [fst]. rewrite Hk.
    destruct k; simpl; congruence.
  Qed.

  (** [8] a value of another named type (same underlying kind) where a named type is declared *)
  Lemma g_cat08_other_named rets x n n' k e G' :
    check_stmt g_rules P rets G (SVar x (TN n k) e) = Ok G' -> n <> n' ->
    fails_stmt g_rules P (MSArg 0 (RConv (TN n' k))) rets G (SVar x (TN n k) e) = true.
  Proof.
    intros H Hne. unfold fails_stmt.
    change (rw_stmt (MSArg 0 (RConv (TN n' k))) (SVar x (TN n k) e)) with (Some (SVar x (TN n k) (EConv (TN n' k) e))). cbv beta iota.
    rewrite check_var in H. rewrite check_var. apply bind_ok in H as (te & Hte & H).
    destruct (lookup G x) eqn:Hl; [discriminate|].
    rewrite typeof_conv, Hte. cbn [bind]. destruct te as [te ce].
    unfold g_rules at 1. cbn [r_conv]. unfold g_conv. cbn [kind_of].
    assert (Hn : ty_eqb (TN n' k) (TN n k) = false).
    { simpl. apply Nat.eqb_neq in Hne. now rewrite Nat.eqb_sym, Hne. }
    destruct te as [k0|n0 k0|n0|k0|cu]; cbn [kind_of];
      repeat match goal with |- context [if ?b then _ else _] => destruct b end; cbn [bind is_err]; try reflexivity;
      unfold g_rules at 1; cbn [r_assign]; unfold g_assign, g_assignable; cbn [fst]; rewrite Hn; reflexivity.
  Qed.

  (** [14] a string literal as argument where the parameter is not a string *)
  Lemma g_cat14_arg_string f a r t fd p0 ps k :
    tyG (E (HCall f) (a :: r)) = Ok t -> nth_error (pfuncs P) f = Some fd -> fparams fd = p0 :: ps ->
    kind_of p0 = Some k -> k <> KString ->
    fails_expr g_rules P (MArg 0 RStr) G (E (HCall f) (a :: r)) = true.
  Proof.
    intros H Hf Hp Hk Hne. unfold fails_expr. cbn [rw_expr repl_expr replace_nth option_map].
    rewrite typeof_eq in H. apply bind_ok in H as (ts & Hts & H). simpl in H. rewrite Hf in H.
    apply bind_ok in H as ([] & Har & _).
    simpl in Hts. apply bind_ok in Hts as (ta & Hta & Hts). apply bind_ok in Hts as (tr & Htr & Hts).
    inversion Hts; subst ts.
    rewrite typeof_eq, mapM_cons.
    change (typeof g_rules P G (EStr 7)) with (Ok (A:=ety) (TU CString, true)). cbn [bind]. rewrite Htr. cbn [bind node_ty].
    rewrite Hf. unfold arity_then. rewrite Hp. cbn [length].
    destruct (S (length tr) =? S (length ps)); [|reflexivity]. cbn [assign_all].
    unfold g_rules at 1. cbn [r_assign]. unfold g_assign, g_assignable. cbn [fst]. rewrite Hk.
    destruct k; simpl; congruence.
  Qed.

  (** [13] [15] one value too many *)
  Lemma g_cat13_call_extra f args t :
    tyG (E (HCall f) args) = Ok t -> fails_expr g_rules P MArgExtra G (E (HCall f) args) = true.
  Proof. intros. eapply cat13_call_extra; eauto; discriminate. Qed.

  Lemma g_cat15_return_extra rets es G' :
    check_stmt g_rules P rets G (SReturn es) = Ok G' -> fails_stmt g_rules P MSExtra rets G (SReturn es) = true.
  Proof. intros. eapply cat15_return_extra; eauto; discriminate. Qed.

  (** [17] undefined variable *)
  Lemma g_cat17_undef_var x : lookup G undef_var = None -> fails_expr g_rules P MUndefVar G (E (HVar x) []) = true.
  Proof. intros H. unfold fails_expr. cbn [rw_expr repl_expr replace_nth option_map]. unfold EVar. rewrite typeof_eq. simpl. now rewrite H. Qed.

  (** [21] an integer (or string) constant as the condition of if / for *)
  Lemma g_cat21_cond_int c b1 b2 rets :
    fails_stmt g_rules P (MSArg 0 RInt) rets G (SIf c b1 b2) = true.
  Proof. reflexivity. Qed.

  Lemma g_cat21_for_cond_string c b rets :
    fails_stmt g_rules P (MSArg 0 RStr) rets G (SFor c b) = true.
  Proof. reflexivity. Qed.

  (** [25] len of an integer *)
  Lemma g_cat25_len_of_int a : fails_expr g_rules P (MArg 0 RInt) G (E HLen [a]) = true.
  Proof. reflexivity. Qed.

  (** [27] conversion of a string-kinded value to int / of anything not bool to bool *)
  Lemma g_cat27_conv_string_to_int e t c :
    tyG e = Ok (t, c) -> kind_of t = Some KString ->
    fails_expr g_rules P (MWrapConv (TB KInt)) G e = true.
  Proof.
    intros He Hk. unfold fails_expr. cbn [rw_expr repl_expr replace_nth option_map]. rewrite typeof_conv, He. simpl.
    destruct t as [k|n k|n|k|cu]; simpl in Hk; try congruence; inversion Hk; subst; reflexivity.
  Qed.

  (** [29] a string as index of a slice *)
  Lemma g_cat29_index_string a i k c :
    tyG a = Ok (TL k, c) -> fails_expr g_rules P (MArg 1 RStr) G (E HIndex [a; i]) = true.
  Proof.
    intros Ha. unfold fails_expr. cbn [rw_expr repl_expr replace_nth option_map]. rewrite typeof_index, Ha. reflexivity.
  Qed.
End CatG.

(* ------------------------------------------------------------------ *)
(** * 2. Mutants are ill-typed *)

Theorem mutants_ill_typed (p p' : prog) (st : site) (m : mut) :
  g_check p = Ok tt -> mutate m p st = Some p' -> applicable g_rules m p st = true -> g_check p' = Err.
Proof. apply failure_propagates. Qed.

Theorem y_rejects_where_its_rule_rejects (p p' : prog) (st : site) (m : mut) :
  y_check p = Ok tt -> mutate m p st = Some p' -> applicable y_rules m p st = true -> y_check p' = Err.
Proof. apply failure_propagates. Qed.

(* ------------------------------------------------------------------ *)
(** * 1c. Catalogue entries yaegi's checks do enforce (Y), by its own tables *)

Section CatY.
  Variable P : prog.
  Variable G : env.
  Notation tyY := (typeof y_rules P G).

  (** [5] [unaryExpr] with [unaryOpPredicates]: !x on a non-constant integer, float or string *)
  Lemma y_cat05_not_on_number e k :
    tyY e = Ok (TB k, false) -> k <> KBool -> fails_expr y_rules P (MWrapUn UNot) G e = true.
  Proof.
    intros He Hk. unfold fails_expr. cbn [rw_expr repl_expr replace_nth option_map]. rewrite typeof_un, He.
    destruct k; try congruence; vm_compute; reflexivity.
  Qed.

  Lemma y_cat05_bitnot_on_float e :
    tyY e = Ok (TB KFloat, false) -> fails_expr y_rules P (MWrapUn UBitNot) G e = true.
  Proof. intros He. unfold fails_expr. cbn [rw_expr repl_expr replace_nth option_map]. rewrite typeof_un, He. vm_compute. reflexivity. Qed.

  (** [3] [4] [binaryExpr] with [binaryOpPredicates] on typed, non-constant operands of one type *)
  Lemma y_cat03_rem_on_float o a b :
    tyY a = Ok (TB KFloat, false) -> tyY b = Ok (TB KFloat, false) ->
    fails_expr y_rules P (MBinop BRem) G (E (HBin o) [a; b]) = true.
  Proof. intros Ha Hb. unfold fails_expr. cbn [rw_expr repl_expr replace_nth option_map]. rewrite typeof_bin, Ha, Hb. vm_compute. reflexivity. Qed.

  Lemma y_cat04_add_on_bool o a b :
    tyY a = Ok (TB KBool, false) -> tyY b = Ok (TB KBool, false) ->
    fails_expr y_rules P (MBinop BAdd) G (E (HBin o) [a; b]) = true.
  Proof. intros Ha Hb. unfold fails_expr. cbn [rw_expr repl_expr replace_nth option_map]. rewrite typeof_bin, Ha, Hb. vm_compute. reflexivity. Qed.

  (** [21] a non-constant, non-bool condition *)
  Lemma y_cat21_cond_nonconst c b1 b2 rets fd :
    nth_error (pfuncs P) 1 = Some fd -> fparams fd = [] -> fresults fd = [TB KInt] ->
    fails_stmt y_rules P (MSArg 0 (RCall 1)) rets G (SIf c b1 b2) = true.
  Proof.
    intros Hf Hp Hr. unfold fails_stmt.
    change (rw_stmt (MSArg 0 (RCall 1)) (SIf c b1 b2)) with (Some (SIf (ECall 1 []) b1 b2)). cbv beta iota.
    assert (Hc : typeof y_rules P G (ECall 1 []) = Ok (TB KInt, false)).
    { eapply typeof_call0; eauto. }
    unfold SIf. rewrite check_stmt_eq. cbn [mapM]. rewrite Hc. reflexivity.
  Qed.

  (** [9] a typed value of another kind where a basic type is declared *)
  Lemma y_cat09_var_other_kind rets x k e G' fd :
    check_stmt y_rules P rets G (SVar x (TB k) e) = Ok G' ->
    nth_error (pfuncs P) 0 = Some fd -> fparams fd = [] -> fresults fd = [TB KString] -> k <> KString ->
    fails_stmt y_rules P (MSArg 0 (RCall 0)) rets G (SVar x (TB k) e) = true.
  Proof.
    intros H Hf Hp Hr Hk. unfold fails_stmt.
    change (rw_stmt (MSArg 0 (RCall 0)) (SVar x (TB k) e)) with (Some (SVar x (TB k) (ECall 0 []))). cbv beta iota.
    rewrite check_var in H. rewrite check_var. apply bind_ok in H as (te & Hte & H).
    destruct (lookup G x) eqn:Hl; [discriminate|].
    assert (Hc : typeof y_rules P G (ECall 0 []) = Ok (TB KString, false)).
    { eapply typeof_call0; eauto. }
    rewrite Hc. cbn [bind]. destruct k; try congruence; reflexivity.
  Qed.

  (** [25] len of a typed integer *)
  Lemma y_cat25_len_of_int a fd :
    nth_error (pfuncs P) 1 = Some fd -> fparams fd = [] -> fresults fd = [TB KInt] ->
    fails_expr y_rules P (MArg 0 (RCall 1)) G (E HLen [a]) = true.
  Proof.
    intros Hf Hp Hr. unfold fails_expr.
    change (rw_expr (MArg 0 (RCall 1)) (E HLen [a])) with (Some (E HLen [ECall 1 []])). cbv beta iota.
    assert (Hc : typeof y_rules P G (ECall 1 []) = Ok (TB KInt, false)).
    { eapply typeof_call0; eauto. }
    rewrite typeof_len, Hc. reflexivity.
  Qed.
End CatY.

(* ------------------------------------------------------------------ *)
(** * 3. Refutations: Go rejects the node, yaegi does not return an error *)

(** f0() string, f1() int, f2() bool, then main *)
Definition helpers : list fundecl :=
  [mkfun [] [TB KString] [SReturn [EStr 1]]; mkfun [] [TB KInt] [SReturn [EInt 1]];
   mkfun [] [TB KBool] [SReturn [EBool true]]].

Definition prog_of (main : list stmt) : prog := mkprog [KInt] [] (helpers ++ [mkfun [] [] main]).

(** x := f1(); y := f1(); println(x + y)   with + replaced by && *)
Definition p_land : prog :=
  prog_of [SDefine 1 (ECall 1 []); SDefine 2 (ECall 1 []); SPrint [EBin BAdd (EVar 1) (EVar 2)]].
Definition s_land : site := mksite 3 [2] (Some (0, [])).

Lemma land_refuted :
  g_check p_land = Ok tt /\ applicable g_rules (MBinop BLand) p_land s_land = true
  /\ exists p', mutate (MBinop BLand) p_land s_land = Some p' /\ g_check p' = Err /\ y_check p' = Ok tt.
Proof. split; [reflexivity|]. split; [reflexivity|]. eexists. split; [reflexivity|]. split; vm_compute; reflexivity. Qed.

(** if f2() { }   with the condition replaced by the constant 1: a panic in the host *)
Definition p_cond : prog := prog_of [SIf (ECall 2 []) [] []].
Definition s_cond : site := mksite 3 [0] None.

Lemma const_cond_refuted :
  g_check p_cond = Ok tt /\ applicable g_rules (MSArg 0 RInt) p_cond s_cond = true
  /\ exists p', mutate (MSArg 0 RInt) p_cond s_cond = Some p' /\ g_check p' = Err /\ y_check p' = Panic.
Proof. split; [reflexivity|]. split; [reflexivity|]. eexists. split; [reflexivity|]. split; vm_compute; reflexivity. Qed.

(** var x N0 = 1   with the initialiser replaced by f1(): int where N0 is declared *)
Definition p_named : prog := prog_of [SVar 1 (TN 0 KInt) (EInt 1)].
Definition s_named : site := mksite 3 [0] None.

Lemma named_erasure_refuted :
  g_check p_named = Ok tt /\ applicable g_rules (MSArg 0 (RCall 1)) p_named s_named = true
  /\ exists p', mutate (MSArg 0 (RCall 1)) p_named s_named = Some p' /\ g_check p' = Err /\ y_check p' = Ok tt.
Proof. split; [reflexivity|]. split; [reflexivity|]. eexists. split; [reflexivity|]. split; vm_compute; reflexivity. Qed.

(** s := []int{1, 2}; println(s[0])   with s replaced by f1(): index of an int, a panic in the host *)
Definition p_index : prog :=
  prog_of [SDefine 1 (ELLit KInt [EInt 1; EInt 2]); SPrint [EIndex (EVar 1) (EInt 0)]].
Definition s_index : site := mksite 3 [1] (Some (0, [])).

Lemma index_refuted :
  g_check p_index = Ok tt /\ applicable g_rules (MArg 0 (RCall 1)) p_index s_index = true
  /\ exists p', mutate (MArg 0 (RCall 1)) p_index s_index = Some p' /\ g_check p' = Err /\ y_check p' = Panic.
Proof. split; [reflexivity|]. split; [reflexivity|]. eexists. split; [reflexivity|]. split; vm_compute; reflexivity. Qed.

(** non-vacuity of [y_rejects_where_its_rule_rejects]: x := f1(); println(-x) with - replaced by ! *)
Definition p_not : prog := prog_of [SDefine 1 (ECall 1 []); SPrint [EUn UNeg (EVar 1)]].
Definition s_not : site := mksite 3 [1] (Some (0, [])).

Lemma y_rejects_inhabited :
  y_check p_not = Ok tt /\ applicable y_rules (MUnop UNot) p_not s_not = true
  /\ applicable g_rules (MUnop UNot) p_not s_not = true
  /\ exists p', mutate (MUnop UNot) p_not s_not = Some p' /\ y_check p' = Err.
Proof. repeat split; try reflexivity. eexists. split; [reflexivity|]. vm_compute. reflexivity. Qed.

Lemma mutants_ill_typed_inhabited :
  g_check p_land = Ok tt /\ applicable g_rules (MBinop BLand) p_land s_land = true.
Proof. split; reflexivity. Qed.

(* ------------------------------------------------------------------ *)
(** * 4. The pipeline *)

(** a package that imports nothing: when its static checks fail, nothing has run *)
Lemma load_no_imports chk w fuel st i pk :
  nth_error w i = Some pk -> pk_imports pk = [] -> mem_nat i (fst st) = false ->
  chk (pk_body pk) <> Ok tt ->
  fst (load chk w (S fuel) st i) = st.
Proof.
  intros Hn Hi Hm Hc. simpl. rewrite Hm, Hn, Hi.
  destruct (chk (pk_body pk)) as [[]| | |]; try reflexivity. congruence.
Qed.

(** a main package without imports, whatever else the world contains *)
Theorem no_effect_without_imports (w : world) (pk : pkg) :
  nth_error w (length w - 1) = Some pk -> pk_imports pk = [] -> y_check (pk_body pk) <> Ok tt ->
  fst (y_eval w) = [].
Proof.
  intros Hn Hi Hc. unfold y_eval, eval_with. destruct w as [|x r]; [reflexivity|].
  cbn [length] in *. replace (S (length r) - 1) with (length r) in Hn by lia.
  pose proof (load_no_imports y_check (x :: r) (S (length r)) ([], []) (length r) pk Hn Hi eq_refl Hc) as Hl.
  destruct (load y_check (x :: r) (S (S (length r))) ([], []) (length r)) as [[ld tr] res] eqn:E.
  cbn [fst] in *. inversion Hl; subst. reflexivity.
Qed.

Theorem no_effect_single_pkg (p : prog) : y_check p <> Ok tt -> fst (y_eval_single p) = [].
Proof.
  intros H. unfold y_eval_single. eapply (no_effect_without_imports [mkpkg [] p] (mkpkg [] p)); try reflexivity. exact H.
Qed.

(** the observable class of a rejected single package is "rejected, nothing written" *)
Theorem single_pkg_class (p : prog) : y_check p = Err -> y_eval_single p = ([], 1%N).
Proof.
  intros H. unfold y_eval_single, y_eval, eval_with. simpl. rewrite H. reflexivity.
Qed.

(** an imported package has been initialised when the importer's type error is reported *)
Definition dep_ok : prog := prog_of [SPrint [EInt 1]].
Definition main_bad : prog := prog_of [SVar 1 (TB KInt) (EStr 0)].
Definition w_refuted : world := [mkpkg [] dep_ok; mkpkg [0] main_bad].

Lemma multi_pkg_refuted :
  y_check main_bad = Err /\ g_check main_bad = Err /\ y_eval w_refuted = ([0], 3%N) /\ g_eval w_refuted = ([], 1%N).
Proof. repeat split; vm_compute; reflexivity. Qed.

(* ------------------------------------------------------------------ *)
(** * 5. The operator predicate tables of typecheck.go against the Go specification *)

Lemma op_predicates_agree_unary :
  forallb (fun a => forallb (fun k => Bool.eqb (y_unary_ok a k) (go_op_ok a k)) all_rkinds) all_unary_actions = true.
Proof. vm_compute. reflexivity. Qed.

Lemma op_predicates_agree_binary :
  forallb (fun a => forallb (fun k => Bool.eqb (y_binary_ok a k) (go_op_ok a k)) all_rkinds) all_binary_actions = true.
Proof. vm_compute. reflexivity. Qed.

Lemma all_rkinds_complete k : In k all_rkinds.
Proof. destruct k; simpl; tauto. Qed.

Lemma all_actions_complete a : In a (all_unary_actions ++ all_binary_actions).
Proof. destruct a; simpl; tauto. Qed.

Theorem op_predicates_agree (a : action) (k : rkind) :
  (if existsb (action_eqb a) all_unary_actions then y_unary_ok a k else y_binary_ok a k) = go_op_ok a k.
Proof.
  pose proof op_predicates_agree_unary as Hu. pose proof op_predicates_agree_binary as Hb.
  rewrite forallb_forall in Hu, Hb.
  destruct (existsb (action_eqb a) all_unary_actions) eqn:E.
  - assert (Ha : In a all_unary_actions) by (destruct a; simpl in *; try discriminate; tauto).
    specialize (Hu a Ha). rewrite forallb_forall in Hu. specialize (Hu k (all_rkinds_complete k)).
    now apply Bool.eqb_prop in Hu.
  - assert (Ha : In a all_binary_actions) by (destruct a; simpl in *; try discriminate; tauto).
    specialize (Hb a Ha). rewrite forallb_forall in Hb. specialize (Hb k (all_rkinds_complete k)).
    now apply Bool.eqb_prop in Hb.
Qed.
