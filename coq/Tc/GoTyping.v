(** C12 — G: the typing rules of Go for MiniGo (Go specification: Constants, Operators,
    Assignability, Conversions, Comparison operators, Statements), as a rule set for the checker
    skeleton.  [Unk] = outside the fragment (index of a string: byte is not a MiniGo type; integer
    literals above 127 so that representability never has to be computed).  G never panics. *)
From Verif Require Import Tc.Syntax Tc.Checker.

Definition kind_of (t : ty) : option bkind :=
  match t with TB k | TN _ k => Some k | _ => None end.

Definition k_integer (k : bkind) : bool := match k with KInt | KInt8 | KUint => true | _ => false end.
Definition k_numeric (k : bkind) : bool := match k with KInt | KInt8 | KUint | KFloat => true | _ => false end.

(** an untyped constant of kind [c] can be converted implicitly to a type of basic kind [k]
    (float literals of the fragment are n.5: never integers) *)
Definition conv_ok (c : ckind) (k : bkind) : bool :=
  match c, k with
  | CInt, (KInt | KInt8 | KUint | KFloat) => true
  | CFloat, KFloat => true
  | CString, KString => true
  | CBool, KBool => true
  | _, _ => false
  end.

Definition c_default (c : ckind) : bkind :=
  match c with CInt => KInt | CFloat => KFloat | CString => KString | CBool => KBool end.

(** the class of values an operator is defined on *)
Inductive vclass := VInteger | VFloat | VString | VBool | VOther.

Definition class_of (t : ty) : vclass :=
  match t with
  | TB k | TN _ k =>
      match k with KInt | KInt8 | KUint => VInteger | KFloat => VFloat | KString => VString | KBool => VBool end
  | TU CInt => VInteger
  | TU CFloat => VFloat
  | TU CString => VString
  | TU CBool => VBool
  | _ => VOther
  end.

Definition is_untyped (t : ty) : bool := match t with TU _ => true | _ => false end.

(** the common type of the operands of a binary operator other than a shift *)
Definition unify (a b : ty) : option ty :=
  match a, b with
  | TU CInt, TU CFloat | TU CFloat, TU CInt => Some (TU CFloat)
  | TU c, TU c' => if ckind_eqb c c' then Some a else None
  | TU c, _ => match kind_of b with Some k => if conv_ok c k then Some b else None | None => None end
  | _, TU c => match kind_of a with Some k => if conv_ok c k then Some a else None | None => None end
  | _, _ => if ty_eqb a b then Some a else None
  end.

Definition g_arith_ok (o : binop) (c : vclass) : bool :=
  match o, c with
  | BAdd, (VInteger | VFloat | VString) => true
  | (BSub | BMul | BQuo), (VInteger | VFloat) => true
  | (BRem | BAnd | BOr | BXor | BAndNot), VInteger => true
  | (BLand | BLor), VBool => true
  | _, _ => false
  end.

(** slices are not comparable; structs of the fragment have basic fields only *)
Definition g_comparable (t : ty) : bool := match t with TL _ => false | _ => true end.
Definition g_ordered (t : ty) : bool :=
  match class_of t with VInteger | VFloat | VString => true | _ => false end.

Definition g_bin (o : binop) (a b : ety) : res ety :=
  let '(ta, ca) := a in
  let '(tb, cb) := b in
  match o with
  | BShl | BShr =>
      match class_of ta, class_of tb with
      | VInteger, VInteger => Ok ((if is_untyped ta && negb (is_untyped tb) then TU CInt else ta), ca && cb)
      | _, _ => Err
      end
  | BEq | BNe =>
      match unify ta tb with
      | Some u => if g_comparable u then Ok (TU CBool, ca && cb) else Err
      | None => Err
      end
  | BLt | BLe | BGt | BGe =>
      match unify ta tb with
      | Some u => if g_ordered u then Ok (TU CBool, ca && cb) else Err
      | None => Err
      end
  | _ =>
      match unify ta tb with
      | Some u => if g_arith_ok o (class_of u) then Ok (u, ca && cb) else Err
      | None => Err
      end
  end.

Definition g_un (o : unop) (a : ety) : res ety :=
  let '(t, c) := a in
  match o, class_of t with
  | (UNeg | UPos), (VInteger | VFloat) => Ok a
  | UBitNot, VInteger => Ok a
  | UNot, VBool => Ok a
  | _, _ => Err
  end.

Definition g_assignable (t d : ty) : bool :=
  match t with
  | TU c => match kind_of d with Some k => conv_ok c k | None => false end
  | _ => ty_eqb t d
  end.

Definition g_assign (_ : actx) (a : ety) (d : ty) : res unit := guard (g_assignable (fst a) d).

Definition g_define (a : ety) : res ty :=
  match fst a with TU c => Ok (TB (c_default c)) | t => Ok t end.

Definition g_conv (t : ty) (a : ety) : res ety :=
  let '(ta, c) := a in
  match kind_of t with
  | None => Err
  | Some k =>
      match ta with
      | TU cu =>
          (* constant conversion: representable, or integer constant to string *)
          if conv_ok cu k || (ckind_eqb cu CInt && bkind_eqb k KString) then Ok (t, c) else Err
      | _ =>
          match kind_of ta with
          | Some ka =>
              if (k_numeric ka && k_numeric k) || bkind_eqb ka k || (k_integer ka && bkind_eqb k KString)
              then Ok (t, c) else Err
          | None => Err
          end
      end
  end.

Definition g_cond (a : ety) : res unit :=
  match class_of (fst a) with VBool => Ok tt | _ => Err end.

Definition g_index (a i : ety) : res ety :=
  match fst a with
  | TL k => match class_of (fst i) with VInteger => Ok (TB k, false) | _ => Err end
  | t => match class_of t with
         | VString => match class_of (fst i) with VInteger => Unk | _ => Err end
         | _ => Err
         end
  end.

Definition g_len (a : ety) : res ety :=
  match fst a with
  | TL _ => Ok (TB KInt, false)
  | t => match class_of t with VString => Ok (TB KInt, snd a) | _ => Err end
  end.

Definition g_lit (h : head) : res ety :=
  match h with
  | HInt n => if n <? 128 then Ok (TU CInt, true) else Unk
  | HFloat _ => Ok (TU CFloat, true)
  | HStr _ => Ok (TU CString, true)
  | HBool _ => Ok (TU CBool, true)
  | _ => Err
  end.

Definition g_rules : rules := {|
  r_lit := g_lit; r_un := g_un; r_bin := g_bin; r_assign := g_assign; r_define := g_define;
  r_conv := g_conv; r_cond := g_cond; r_index := g_index; r_len := g_len;
  r_undef := fun _ => Err |}.

Definition g_check (p : prog) : res unit := check g_rules p.
Definition g_typeof (p : prog) := typeof g_rules p.
