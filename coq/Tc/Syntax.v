(** C12 — MiniGo: the fragment of Go on which the type-checking models are stated.
    Types: int, int8, uint, float64, string, bool, named types over them, declared structs,
    slices of basic types; functions are declarations (called by name).
    Expressions and statements are rose trees (one constructor, a head and the list of children):
    a single induction principle serves every lemma about sites and mutations.
    Names are numbers: variables v<n>, functions f<n>, named types N<n>, structs S<n>, fields F<n>. *)
From Coq Require Export Bool Arith NArith ZArith Lia List.
Export ListNotations.
Open Scope list_scope.

Inductive bkind := KInt | KInt8 | KUint | KFloat | KString | KBool.
(** kinds of untyped constants *)
Inductive ckind := CInt | CFloat | CString | CBool.

Inductive ty :=
| TB (k : bkind)            (* predeclared basic type *)
| TN (n : nat) (k : bkind)  (* type N<n> k *)
| TS (n : nat)              (* declared struct S<n> *)
| TL (k : bkind)            (* []k *)
| TU (c : ckind).           (* the type of an untyped constant; never written in a declaration *)

Inductive unop := UNeg | UPos | UNot | UBitNot.
Inductive binop :=
| BAdd | BSub | BMul | BQuo | BRem | BAnd | BOr | BXor | BAndNot
| BLand | BLor | BEq | BNe | BLt | BLe | BGt | BGe | BShl | BShr.

Inductive head :=
| HInt (n : nat)      (* integer literal n *)
| HFloat (n : nat)    (* float literal n.5 *)
| HStr (n : nat)      (* string literal "s<n>" *)
| HBool (b : bool)    (* true / false *)
| HVar (x : nat)
| HUn (o : unop)
| HBin (o : binop)
| HCall (f : nat)
| HConv (t : ty)
| HField (f : nat)
| HIndex
| HLen
| HSLit (s : nat)     (* S<s>{...} positional *)
| HLLit (k : bkind).  (* []k{...} *)

Inductive expr := E (h : head) (args : list expr).

Definition EInt n := E (HInt n) [].
Definition EFloat n := E (HFloat n) [].
Definition EStr n := E (HStr n) [].
Definition EBool b := E (HBool b) [].
Definition EVar x := E (HVar x) [].
Definition EUn o e := E (HUn o) [e].
Definition EBin o a b := E (HBin o) [a; b].
Definition ECall f args := E (HCall f) args.
Definition EConv t e := E (HConv t) [e].
Definition EField e f := E (HField f) [e].
Definition EIndex e i := E HIndex [e; i].
Definition ELen e := E HLen [e].
Definition ESLit s args := E (HSLit s) args.
Definition ELLit k args := E (HLLit k) args.

Inductive shead :=
| HSVar (x : nat) (t : ty)   (* var x t = e *)
| HSDefine (x : nat)         (* x := e *)
| HSAssign                   (* l = e *)
| HSCall (f : nat)           (* f(args) as a statement *)
| HSPrint                    (* println(es) *)
| HSReturn
| HSIf                       (* if c { b1 } else { b2 } *)
| HSFor.                     (* for c { b1 } *)

Inductive stmt := St (h : shead) (es : list expr) (b1 b2 : list stmt).

Definition SVar x t e := St (HSVar x t) [e] [] [].
Definition SDefine x e := St (HSDefine x) [e] [] [].
Definition SAssign l e := St HSAssign [l; e] [] [].
Definition SCall f args := St (HSCall f) args [] [].
Definition SPrint es := St HSPrint es [] [].
Definition SReturn es := St HSReturn es [] [].
Definition SIf c b1 b2 := St HSIf [c] b1 b2.
Definition SFor c b := St HSFor [c] b [].

Record fundecl := mkfun { fparams : list ty; fresults : list ty; fbody : list stmt }.

(** [pfuncs]: f0 ... f(n-1); the last one is main. The parameters of f<i> are the variables
    100*(i+1)+j. *)
Record prog := mkprog { pnamed : list bkind; pstructs : list (list ty); pfuncs : list fundecl }.

Definition param_var (f j : nat) : nat := 100 * (f + 1) + j.

(* ------------------------------------------------------------------ *)
(** * Decidable equalities *)

Definition bkind_eqb (a b : bkind) : bool :=
  match a, b with
  | KInt, KInt | KInt8, KInt8 | KUint, KUint | KFloat, KFloat | KString, KString | KBool, KBool => true
  | _, _ => false
  end.

Definition ckind_eqb (a b : ckind) : bool :=
  match a, b with
  | CInt, CInt | CFloat, CFloat | CString, CString | CBool, CBool => true
  | _, _ => false
  end.

Definition ty_eqb (a b : ty) : bool :=
  match a, b with
  | TB k, TB k' => bkind_eqb k k'
  | TN n k, TN n' k' => Nat.eqb n n' && bkind_eqb k k'
  | TS n, TS n' => Nat.eqb n n'
  | TL k, TL k' => bkind_eqb k k'
  | TU c, TU c' => ckind_eqb c c'
  | _, _ => false
  end.

Definition unop_code (o : unop) : N :=
  match o with UNeg => 1 | UPos => 2 | UNot => 3 | UBitNot => 4 end%N.

Definition binop_code (o : binop) : N :=
  match o with
  | BAdd => 1 | BSub => 2 | BMul => 3 | BQuo => 4 | BRem => 5 | BAnd => 6 | BOr => 7 | BXor => 8 | BAndNot => 9
  | BLand => 10 | BLor => 11 | BEq => 12 | BNe => 13 | BLt => 14 | BLe => 15 | BGt => 16 | BGe => 17
  | BShl => 18 | BShr => 19
  end%N.

Definition unop_eqb a b := N.eqb (unop_code a) (unop_code b).
Definition binop_eqb a b := N.eqb (binop_code a) (binop_code b).

(* ------------------------------------------------------------------ *)
(** * A structural hash (the harness computes the same function on its own AST: this ties the
      mutation operators of Mutations.v to the rewrites the harness actually ran). *)

Definition hmod : N := 4294967291%N.
Definition hmix (a b : N) : N := ((a * 1000003 + b + 7) mod hmod)%N.

Definition bkind_code (k : bkind) : N :=
  match k with KInt => 1 | KInt8 => 2 | KUint => 3 | KFloat => 4 | KString => 5 | KBool => 6 end%N.

Definition ty_hash (t : ty) : N :=
  match t with
  | TB k => hmix 11 (bkind_code k)
  | TN n k => hmix (hmix 12 (N.of_nat n)) (bkind_code k)
  | TS n => hmix 13 (N.of_nat n)
  | TL k => hmix 14 (bkind_code k)
  | TU _ => 15%N
  end.

Definition head_hash (h : head) : N :=
  match h with
  | HInt n => hmix 21 (N.of_nat n)
  | HFloat n => hmix 22 (N.of_nat n)
  | HStr n => hmix 23 (N.of_nat n)
  | HBool b => hmix 24 (if b then 1 else 0)
  | HVar x => hmix 25 (N.of_nat x)
  | HUn o => hmix 26 (unop_code o)
  | HBin o => hmix 27 (binop_code o)
  | HCall f => hmix 28 (N.of_nat f)
  | HConv t => hmix 29 (ty_hash t)
  | HField f => hmix 30 (N.of_nat f)
  | HIndex => 31
  | HLen => 32
  | HSLit s => hmix 33 (N.of_nat s)
  | HLLit k => hmix 34 (bkind_code k)
  end%N.

Fixpoint expr_hash (e : expr) : N :=
  match e with
  | E h args =>
      (fix go (acc : N) (l : list expr) : N :=
         match l with [] => hmix acc 99 | a :: r => go (hmix acc (expr_hash a)) r end) (head_hash h) args
  end.

Definition exprs_hash (acc : N) (l : list expr) : N :=
  hmix (fold_left (fun a e => hmix a (expr_hash e)) l acc) 98.

Definition shead_hash (h : shead) : N :=
  match h with
  | HSVar x t => hmix (hmix 41 (N.of_nat x)) (ty_hash t)
  | HSDefine x => hmix 42 (N.of_nat x)
  | HSAssign => 43
  | HSCall f => hmix 44 (N.of_nat f)
  | HSPrint => 45
  | HSReturn => 46
  | HSIf => 47
  | HSFor => 48
  end%N.

Fixpoint stmt_hash (s : stmt) : N :=
  match s with
  | St h es b1 b2 =>
      let hb := fix hb (acc : N) (l : list stmt) : N :=
                  match l with [] => hmix acc 97 | a :: r => hb (hmix acc (stmt_hash a)) r end in
      hb (hb (exprs_hash (shead_hash h) es) b1) b2
  end.

Definition block_hash (acc : N) (l : list stmt) : N :=
  hmix (fold_left (fun a s => hmix a (stmt_hash s)) l acc) 97.

Definition fun_hash (f : fundecl) : N :=
  block_hash (fold_left (fun a t => hmix a (ty_hash t)) (fresults f)
               (hmix (fold_left (fun a t => hmix a (ty_hash t)) (fparams f) 51%N) 52)) (fbody f).

Definition prog_hash (p : prog) : N :=
  fold_left (fun a f => hmix a (fun_hash f)) (pfuncs p) 61%N.
