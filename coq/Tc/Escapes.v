From Coq Require Import String List NArith.
Import ListNotations.
Open Scope string_scope.
Definition escapes : list (string * N) := [].
