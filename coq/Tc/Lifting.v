(** C12 — a failure of the checker at a node is never masked by its context:
    for every rule set, every program that checks, every operator and every site, if the rewritten
    node is rejected where it stands then the whole mutated program is rejected
    ([failure_propagates]); and the result is [Err] exactly — not a host panic, not an answer
    outside the model — because everything the checker visits before the node is unchanged. *)
From Verif Require Import Tc.Syntax Tc.Checker Tc.Mutations Tc.Sites.

(* ------------------------------------------------------------------ *)
(** * Decidable equalities, unfolding equations of the nested fixpoints *)

Lemma bkind_eqb_eq a b : bkind_eqb a b = true <-> a = b.
Proof. destruct a, b; simpl; split; congruence. Qed.

Lemma ckind_eqb_eq a b : ckind_eqb a b = true <-> a = b.
Proof. destruct a, b; simpl; split; congruence. Qed.

Lemma ty_eqb_eq a b : ty_eqb a b = true <-> a = b.
Proof.
  destruct a, b; simpl; try (split; congruence);
    rewrite ?andb_true_iff, ?Nat.eqb_eq, ?bkind_eqb_eq, ?ckind_eqb_eq; split; intros; try congruence;
    try (destruct H; congruence); try (inversion H; auto).
Qed.

Lemma ty_eqb_refl a : ty_eqb a a = true.
Proof. apply ty_eqb_eq; reflexivity. Qed.

Section Unfold.
  Variable R : rules.
  Variable P : prog.

  Lemma typeof_eq G h args : typeof R P G (E h args) = do ts <- mapM (typeof R P G) args; node_ty R P G h ts.
  Proof.
    simpl. f_equal.
    induction args as [|a r IH]; simpl; [reflexivity|]. now rewrite IH.
  Qed.

  Lemma check_stmt_eq rets G h es b1 b2 :
    check_stmt R P rets G (St h es b1 b2) =
      do ts <- mapM (typeof R P G) es;
      do G' <- stmt_ty R P rets G h ts (match es with l :: _ => is_lvalue l | [] => false end);
      do _ <- check_block R P rets G b1;
      do _ <- check_block R P rets G b2;
      Ok G'.
  Proof.
    assert (Hb : forall l G0,
      (fix blk (G : env) (l : list stmt) : res unit :=
         match l with [] => Ok tt | a :: r => do G' <- check_stmt R P rets G a; blk G' r end) G0 l
      = check_block R P rets G0 l).
    { induction l as [|a r IH]; intros; simpl; [reflexivity|].
      destruct (check_stmt R P rets G0 a); simpl; auto. }
    simpl. rewrite !Hb. reflexivity.
  Qed.

End Unfold.

(* ------------------------------------------------------------------ *)
(** * Induction principles for the rose trees *)

Section ExprInd.
  Variable Q : expr -> Prop.
  Hypothesis HE : forall h args, Forall Q args -> Q (E h args).
  Fixpoint expr_ind2 (e : expr) : Q e :=
    match e with
    | E h args =>
        HE h args ((fix go (l : list expr) : Forall Q l :=
                      match l with
                      | [] => Forall_nil Q
                      | a :: r => Forall_cons a (expr_ind2 a) (go r)
                      end) args)
    end.
End ExprInd.

Section StmtInd.
  Variable Q : stmt -> Prop.
  Hypothesis HS : forall h es b1 b2, Forall Q b1 -> Forall Q b2 -> Q (St h es b1 b2).
  Fixpoint stmt_ind2 (s : stmt) : Q s :=
    match s with
    | St h es b1 b2 =>
        let go := fix go (l : list stmt) : Forall Q l :=
                    match l with
                    | [] => Forall_nil Q
                    | a :: r => Forall_cons a (stmt_ind2 a) (go r)
                    end in
        HS h es b1 b2 (go b1) (go b2)
    end.
End StmtInd.

(* ------------------------------------------------------------------ *)
(** * bind, mapM, replacement in lists *)

Lemma bind_ok {A B} (r : res A) (f : A -> res B) b :
  bind r f = Ok b -> exists a, r = Ok a /\ f a = Ok b.
Proof. destruct r; simpl; try discriminate. eauto. Qed.

Lemma mapM_ok_nth {A B} (f : A -> res B) : forall l bs i a,
  mapM f l = Ok bs -> nth_error l i = Some a -> exists b, f a = Ok b.
Proof.
  induction l as [|x r IH]; intros bs i a H Hn; [destruct i; discriminate|].
  simpl in H. apply bind_ok in H as (b & Hb & H). apply bind_ok in H as (bs' & Hbs & _).
  destruct i; simpl in Hn.
  - inversion Hn; subst; eauto.
  - eapply IH; eauto.
Qed.

Lemma mapM_replace_err {A B} (f : A -> res B) (g : A -> option A) : forall l i l' bs,
  mapM f l = Ok bs -> replace_nth_opt i l g = Some l' ->
  (forall a a', nth_error l i = Some a -> g a = Some a' -> f a' = Err) ->
  mapM f l' = Err.
Proof.
  induction l as [|x r IH]; intros i l' bs H Hr Hf; [destruct i; discriminate|].
  simpl in H. apply bind_ok in H as (b & Hb & H). apply bind_ok in H as (bs' & Hbs & _).
  destruct i; simpl in Hr.
  - destruct (g x) as [x'|] eqn:Hg; simpl in Hr; [|discriminate]. inversion Hr; subst.
    simpl. rewrite (Hf x x' eq_refl Hg). reflexivity.
  - destruct (replace_nth_opt i r g) as [r'|] eqn:Hr'; simpl in Hr; [|discriminate]. inversion Hr; subst.
    simpl. rewrite Hb. simpl. erewrite IH; eauto.
Qed.

Lemma mapM_ext_Forall {A B} (f g : A -> res B) l :
  Forall (fun a => f a = g a) l -> mapM f l = mapM g l.
Proof. induction 1 as [|a r Ha _ IH]; simpl; [reflexivity|]. now rewrite Ha, IH. Qed.

(* ------------------------------------------------------------------ *)
(** * The checker only looks at signatures and struct declarations of the program *)

Definition fsig (fd : fundecl) := (fparams fd, fresults fd).
Definition sigs (p : prog) := (pstructs p, map fsig (pfuncs p)).

Lemma sigs_nth p p' f : sigs p = sigs p' ->
  option_map fsig (nth_error (pfuncs p) f) = option_map fsig (nth_error (pfuncs p') f).
Proof.
  intros H. unfold sigs in H. inversion H as [[Hs Hf]].
  rewrite <- !nth_error_map, Hf. reflexivity.
Qed.

Section SigEq.
  Variable R : rules.
  Variables p p' : prog.
  Hypothesis Hsig : sigs p = sigs p'.

  Lemma structs_eq : pstructs p = pstructs p'.
  Proof. unfold sigs in Hsig. now inversion Hsig. Qed.

  Lemma arity_then_eq c ts ds : arity_then R c ts ds = arity_then R c ts ds.
  Proof. reflexivity. Qed.

  Lemma node_ty_sig G h ts : node_ty R p G h ts = node_ty R p' G h ts.
  Proof.
    pose proof structs_eq as Hs.
    destruct h; simpl; try reflexivity; try (rewrite Hs; reflexivity).
    (* HCall *)
    - pose proof (sigs_nth p p' f Hsig) as Hn.
      destruct (nth_error (pfuncs p) f) as [fd|], (nth_error (pfuncs p') f) as [fd'|]; simpl in Hn;
        try discriminate; try reflexivity.
      inversion Hn as [[Hp Hr]]. now rewrite Hp, Hr.
  Qed.

  Lemma typeof_sig G e : typeof R p G e = typeof R p' G e.
  Proof.
    induction e as [h args IH] using expr_ind2.
    rewrite !typeof_eq. rewrite (mapM_ext_Forall _ _ _ IH).
    destruct (mapM (typeof R p' G) args); simpl; try reflexivity. apply node_ty_sig.
  Qed.

  Lemma stmt_ty_sig rets G h ts lv : stmt_ty R p rets G h ts lv = stmt_ty R p' rets G h ts lv.
  Proof.
    destruct h; simpl; try reflexivity.
    pose proof (sigs_nth p p' f Hsig) as Hn.
    destruct (nth_error (pfuncs p) f) as [fd|], (nth_error (pfuncs p') f) as [fd'|]; simpl in Hn;
      try discriminate; try reflexivity.
    inversion Hn as [[Hp Hr]]. now rewrite Hp.
  Qed.

  Lemma check_block_ext rets : forall l,
    Forall (fun s => forall G, check_stmt R p rets G s = check_stmt R p' rets G s) l ->
    forall G, check_block R p rets G l = check_block R p' rets G l.
  Proof.
    induction 1 as [|a r Ha _ IH]; intros G; simpl; [reflexivity|].
    rewrite Ha. destruct (check_stmt R p' rets G a); simpl; auto.
  Qed.

  Lemma check_stmt_sig rets s : forall G, check_stmt R p rets G s = check_stmt R p' rets G s.
  Proof.
    induction s as [h es b1 b2 IH1 IH2] using stmt_ind2; intros G.
    rewrite !check_stmt_eq.
    rewrite (mapM_ext_Forall (typeof R p G) (typeof R p' G) es)
      by (apply Forall_forall; intros; apply typeof_sig).
    destruct (mapM (typeof R p' G) es); simpl; try reflexivity.
    rewrite stmt_ty_sig. destruct (stmt_ty R p' rets G h a _); simpl; try reflexivity.
    rewrite (check_block_ext rets b1 IH1), (check_block_ext rets b2 IH2). reflexivity.
  Qed.

  Lemma check_block_sig rets l G : check_block R p rets G l = check_block R p' rets G l.
  Proof. apply check_block_ext, Forall_forall. intros; apply check_stmt_sig. Qed.

  Lemma check_fun_sig i fd : check_fun R p i fd = check_fun R p' i fd.
  Proof. unfold check_fun. now rewrite check_block_sig. Qed.

  Lemma check_funs_sig : forall l i, check_funs R p i l = check_funs R p' i l.
  Proof. induction l as [|fd r IH]; intros i; simpl; [reflexivity|]. now rewrite check_fun_sig, IH. Qed.
End SigEq.

(* ------------------------------------------------------------------ *)
(** * Lifting a local failure *)

Section Lift.
  Variable R : rules.
  Variable P : prog.
  Variable m : mut.

  Lemma typeof_args_ok G h args t :
    typeof R P G (E h args) = Ok t -> exists ts, mapM (typeof R P G) args = Ok ts.
  Proof. rewrite typeof_eq. intros H. apply bind_ok in H as (ts & H & _). eauto. Qed.

  Lemma mut_expr_err G : forall path e e' t,
    typeof R P G e = Ok t -> mut_expr m path e = Some e' ->
    at_expr (fails_expr R P m) G path e = true -> typeof R P G e' = Err.
  Proof.
    induction path as [|i rest IH]; intros e e' t Ht Hm Ha; simpl in *.
    - unfold fails_expr in Ha. rewrite Hm in Ha. destruct (typeof R P G e'); simpl in Ha; congruence.
    - destruct e as [h args].
      destruct (replace_nth_opt i args (mut_expr m rest)) as [args'|] eqn:Hr; simpl in Hm; [|discriminate].
      inversion Hm; subst e'.
      destruct (typeof_args_ok _ _ _ _ Ht) as (ts & Hts).
      rewrite typeof_eq.
      erewrite mapM_replace_err; eauto.
      intros a a' Hn Hma. destruct (nth_error args i) eqn:Hn'; [|discriminate]. inversion Hn; subst.
      destruct (mapM_ok_nth _ _ _ _ _ Hts Hn') as (ta & Hta).
      eapply IH; eauto.
  Qed.

  Lemma mut_at_stmt_err rets G eo s s' G1 :
    check_stmt R P rets G s = Ok G1 -> mut_at_stmt m eo s = Some s' ->
    at_stmt (fails_expr R P m) (fails_stmt R P m) rets G eo s = true ->
    check_stmt R P rets G s' = Err.
  Proof.
    intros Hc Hm Ha. destruct eo as [[ei ep]|]; simpl in *.
    - destruct s as [h es b1 b2].
      destruct (replace_nth_opt ei es (mut_expr m ep)) as [es'|] eqn:Hr; simpl in Hm; [|discriminate].
      inversion Hm; subst s'.
      rewrite check_stmt_eq in Hc. apply bind_ok in Hc as (ts & Hts & _).
      rewrite check_stmt_eq.
      erewrite mapM_replace_err; eauto.
      intros a a' Hn Hma. destruct (nth_error es ei) eqn:Hn'; [|discriminate]. inversion Hn; subst.
      destruct (mapM_ok_nth _ _ _ _ _ Hts Hn') as (ta & Hta).
      eapply mut_expr_err; eauto.
    - unfold fails_stmt in Ha. rewrite Hm in Ha. destruct (check_stmt R P rets G s'); simpl in Ha; congruence.
  Qed.

  Lemma check_block_nth rets : forall l G i Gi s,
    check_block R P rets G l = Ok tt -> env_after R P rets G l i = Some Gi -> nth_error l i = Some s ->
    exists G', check_stmt R P rets Gi s = Ok G'.
  Proof.
    induction l as [|x r IH]; intros G i Gi s Hc He Hn; [destruct i; discriminate|].
    simpl in Hc. apply bind_ok in Hc as (G' & Hx & Hc).
    destruct i; simpl in *.
    - inversion He; inversion Hn; subst. eauto.
    - rewrite Hx in He. eapply IH; eauto.
  Qed.

  Lemma check_block_replace_err rets (g : stmt -> option stmt) : forall l G i l',
    check_block R P rets G l = Ok tt -> replace_nth_opt i l g = Some l' ->
    (forall Gi s s', env_after R P rets G l i = Some Gi -> nth_error l i = Some s -> g s = Some s' ->
                     check_stmt R P rets Gi s' = Err) ->
    check_block R P rets G l' = Err.
  Proof.
    induction l as [|x r IH]; intros G i l' Hc Hr Hf; [destruct i; discriminate|].
    simpl in Hc. apply bind_ok in Hc as (G' & Hx & Hc).
    destruct i; simpl in Hr.
    - destruct (g x) as [x'|] eqn:Hg; simpl in Hr; [|discriminate]. inversion Hr; subst.
      simpl. rewrite (Hf G x x' eq_refl eq_refl Hg). reflexivity.
    - destruct (replace_nth_opt i r g) as [r'|] eqn:Hr'; simpl in Hr; [|discriminate]. inversion Hr; subst.
      simpl. rewrite Hx. simpl. eapply IH; eauto.
      intros Gi s s' He Hn Hg. eapply Hf; eauto. simpl. now rewrite Hx.
  Qed.

  Lemma mut_block_err rets eo : forall fuel path l l' G,
    check_block R P rets G l = Ok tt -> mut_block m eo fuel path l = Some l' ->
    at_block R P (fails_expr R P m) (fails_stmt R P m) rets eo fuel G path l = true ->
    check_block R P rets G l' = Err.
  Proof.
    induction fuel as [|fuel IH]; intros path l l' G Hc Hm Ha; [discriminate|].
    simpl in Hm, Ha. destruct path as [|i [|b rest]]; [discriminate| |].
    - eapply check_block_replace_err; eauto.
      intros Gi s s' He Hn Hg. rewrite He, Hn in Ha.
      destruct (check_block_nth _ _ _ _ _ _ Hc He Hn) as (G' & Hs).
      eapply mut_at_stmt_err; eauto.
    - eapply check_block_replace_err; eauto.
      intros Gi s s' He Hn Hg. rewrite He, Hn in Ha.
      destruct (check_block_nth _ _ _ _ _ _ Hc He Hn) as (G' & Hs).
      destruct s as [h es b1 b2].
      rewrite check_stmt_eq in Hs.
      apply bind_ok in Hs as (ts & Hts & Hs). apply bind_ok in Hs as (G2 & Hst & Hs).
      apply bind_ok in Hs as ([] & Hb1 & Hs). apply bind_ok in Hs as ([] & Hb2 & _).
      destruct b.
      + destruct (mut_block m eo fuel rest b1) as [b1'|] eqn:Hmb; simpl in Hg; [|discriminate].
        inversion Hg; subst s'. rewrite check_stmt_eq, Hts. simpl. rewrite Hst. simpl.
        now rewrite (IH rest b1 b1' Gi Hb1 Hmb Ha).
      + destruct (mut_block m eo fuel rest b2) as [b2'|] eqn:Hmb; simpl in Hg; [|discriminate].
        inversion Hg; subst s'. rewrite check_stmt_eq, Hts. simpl. rewrite Hst. simpl. rewrite Hb1. simpl.
        now rewrite (IH rest b2 b2' Gi Hb2 Hmb Ha).
  Qed.

  Lemma check_funs_replace_err (g : fundecl -> option fundecl) : forall l i f l',
    check_funs R P i l = Ok tt -> replace_nth_opt f l g = Some l' ->
    (forall fd fd', nth_error l f = Some fd -> g fd = Some fd' -> check_fun R P (i + f) fd' = Err) ->
    check_funs R P i l' = Err.
  Proof.
    induction l as [|x r IH]; intros i f l' Hc Hr Hf; [destruct f; discriminate|].
    simpl in Hc. apply bind_ok in Hc as ([] & Hx & Hc).
    destruct f; simpl in Hr.
    - destruct (g x) as [x'|] eqn:Hg; simpl in Hr; [|discriminate]. inversion Hr; subst.
      simpl. specialize (Hf x x' eq_refl Hg). rewrite Nat.add_0_r in Hf. now rewrite Hf.
    - destruct (replace_nth_opt f r g) as [r'|] eqn:Hr'; simpl in Hr; [|discriminate]. inversion Hr; subst.
      simpl. rewrite Hx. simpl. eapply IH; eauto.
      intros fd fd' Hn Hg. specialize (Hf fd fd' Hn Hg). now rewrite <- Nat.add_succ_comm in Hf.
  Qed.

  Lemma check_funs_nth : forall l i f fd,
    check_funs R P i l = Ok tt -> nth_error l f = Some fd -> check_fun R P (i + f) fd = Ok tt.
  Proof.
    induction l as [|x r IH]; intros i f fd Hc Hn; [destruct f; discriminate|].
    simpl in Hc. apply bind_ok in Hc as ([] & Hx & Hc).
    destruct f; simpl in Hn.
    - inversion Hn; subst. now rewrite Nat.add_0_r.
    - rewrite <- Nat.add_succ_comm. eapply IH; eauto.
  Qed.
End Lift.

Lemma replace_nth_opt_map {A B} (k : A -> B) (g : A -> option A) :
  (forall a a', g a = Some a' -> k a' = k a) ->
  forall l i l', replace_nth_opt i l g = Some l' -> map k l' = map k l.
Proof.
  intros Hk. induction l as [|x r IH]; intros i l' H; [destruct i; discriminate|].
  destruct i; simpl in H.
  - destruct (g x) eqn:Hg; simpl in H; [|discriminate]. inversion H; subst. simpl. now rewrite (Hk _ _ Hg).
  - destruct (replace_nth_opt i r g) eqn:Hr; simpl in H; [|discriminate]. inversion H; subst. simpl.
    now rewrite (IH _ _ Hr).
Qed.

Lemma mutate_sigs m p st p' : mutate m p st = Some p' -> sigs p' = sigs p.
Proof.
  unfold mutate. intros H.
  destruct (replace_nth_opt (s_fun st) (pfuncs p) _) as [fs|] eqn:Hr; simpl in H; [|discriminate].
  inversion H; subst p'. unfold sigs; simpl. f_equal.
  eapply replace_nth_opt_map; [|exact Hr].
  intros fd fd' Hg. cbv beta in Hg.
  destruct (mut_block m (s_expr st) (S (length (s_path st))) (s_path st) (fbody fd)) as [b|].
  - simpl in Hg. inversion Hg. reflexivity.
  - simpl in Hg. discriminate Hg.
Qed.

(** The theorem: whatever the rule set. *)
Theorem failure_propagates (R : rules) (m : mut) (p p' : prog) (st : site) :
  check R p = Ok tt -> mutate m p st = Some p' -> applicable R m p st = true -> check R p' = Err.
Proof.
  intros Hc Hm Ha.
  pose proof (mutate_sigs _ _ _ _ Hm) as Hsig.
  unfold check. rewrite (check_funs_sig R p' p Hsig).
  unfold mutate in Hm.
  destruct (replace_nth_opt (s_fun st) (pfuncs p) _) as [fs|] eqn:Hr; simpl in Hm; [|discriminate].
  inversion Hm; subst p'. simpl.
  eapply check_funs_replace_err; [exact Hc | exact Hr |].
  intros fd fd' Hn Hg. simpl. cbv beta in Hg.
  destruct (mut_block m (s_expr st) (S (length (s_path st))) (s_path st) (fbody fd)) as [b'|] eqn:Hb;
    simpl in Hg; [|discriminate].
  inversion Hg; subst fd'.
  pose proof (check_funs_nth R p _ _ _ _ Hc Hn) as Hf. simpl in Hf.
  unfold check_fun in *. simpl.
  apply bind_ok in Hf as ([] & Hblk & _).
  unfold applicable, at_site in Ha. rewrite Hn in Ha.
  erewrite mut_block_err; eauto.
Qed.
