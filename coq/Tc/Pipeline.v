(** C12 — the evaluation pipeline: [Eval] = static passes over the whole package, then execution
    (interp.go [eval]: compileSrc; Execute), with source imports handled as interp/gta.go and
    interp/src.go handle them: an import declaration is processed when the importing file is
    analysed, and [importSrc] analyses, checks AND RUNS the imported package (its variable
    initialisers and init functions) before it returns to the importer — whose own type check
    comes later.
    A world is a list of packages; a package imports earlier ones by index; the last one is main.
    The observable trace is the list of packages whose initialisation (or main) has started: every
    package prints a marker first. *)
From Verif Require Import Tc.Syntax Tc.Checker Tc.GoTyping Tc.YaegiCheck.

Record pkg := mkpkg { pk_imports : list nat; pk_body : prog }.
Definition world := list pkg.

Definition mem_nat (x : nat) (l : list nat) : bool := existsb (Nat.eqb x) l.

(** state of the interpreter while loading: packages already registered (srcPkg), trace so far *)
Definition lstate := (list nat * list nat)%type.

Section Load.
  Variable chk : prog -> res unit.
  Variable w : world.

  (** importSrc. [fuel] bounds the import depth (an import cycle runs out of fuel: [Err]). *)
  Fixpoint load (fuel : nat) (st : lstate) (i : nat) : lstate * res unit :=
    match fuel with
    | O => (st, Err)
    | S fuel' =>
        if mem_nat i (fst st) then (st, Ok tt)
        else match nth_error w i with
             | None => (st, Err)
             | Some pk =>
                 let fix imports (st : lstate) (l : list nat) : lstate * res unit :=
                   match l with
                   | [] => (st, Ok tt)
                   | j :: r =>
                       match load fuel' st j with
                       | (st', Ok _) => imports st' r
                       | (st', e) => (st', e)
                       end
                   end in
                 match imports st (pk_imports pk) with
                 | (st', Ok _) =>
                     match chk (pk_body pk) with
                     | Ok _ => ((i :: fst st', snd st' ++ [i]), Ok tt)   (* registered, initialisation runs *)
                     | e => (st', e)
                     end
                 | (st', e) => (st', e)
                 end
             end
    end.
End Load.

(** observed classes of a whole evaluation: 0 ran, 1 rejected and nothing written, 2 host panic,
    3 an error is returned but markers have been written before *)
Definition class_of_result (trace : list nat) (r : res unit) : N :=
  match r with
  | Ok _ => 0
  | Panic => 2
  | _ => match trace with [] => 1 | _ => 3 end
  end%N.

Definition eval_with (chk : prog -> res unit) (w : world) : list nat * N :=
  match length w with
  | O => ([], 1%N)
  | S n =>
      let '((_, tr), r) := load chk w (S (length w)) ([], []) n in
      (tr, class_of_result tr r)
  end.

(** Y: yaegi.  G: the Go toolchain type-checks every package of the build before anything runs. *)
Definition y_eval (w : world) : list nat * N := eval_with y_check w.

Definition g_world_ok (w : world) : bool :=
  forallb (fun pk => match g_check (pk_body pk) with Ok _ => true | _ => false end) w.

Definition g_eval (w : world) : list nat * N :=
  if g_world_ok w then eval_with g_check w else ([], 1%N).

(** the single-package pipeline of interp.go [eval] *)
Definition y_eval_single (p : prog) : list nat * N := y_eval [mkpkg [] p].
