(** C12 — vocabulary of the operator-predicate tables of interp/typecheck.go
    ([unaryOpPredicates], [binaryOpPredicates]) and of the kind helpers of interp/type.go
    ([isInt], [isUint], [isFloat], [isComplex], [isNumber], [isBoolean], [isString]).
    The tables themselves are regenerated from the source by the translator tr-tcpred
    (coq/gen/OpPred_gen.v). *)
From Verif Require Import Tc.Syntax.

(** reflect.Kind *)
Inductive rkind :=
| RBool | RInt | RInt8 | RInt16 | RInt32 | RInt64
| RUint | RUint8 | RUint16 | RUint32 | RUint64 | RUintptr
| RFloat32 | RFloat64 | RComplex64 | RComplex128
| RArray | RChan | RFunc | RInterface | RMap | RPtr | RSlice | RString | RStruct | RUnsafePointer.

Definition all_rkinds : list rkind :=
  [RBool; RInt; RInt8; RInt16; RInt32; RInt64; RUint; RUint8; RUint16; RUint32; RUint64; RUintptr;
   RFloat32; RFloat64; RComplex64; RComplex128; RArray; RChan; RFunc; RInterface; RMap; RPtr; RSlice;
   RString; RStruct; RUnsafePointer].

Definition rkind_code (k : rkind) : N :=
  match k with
  | RBool => 1 | RInt => 2 | RInt8 => 3 | RInt16 => 4 | RInt32 => 5 | RInt64 => 6
  | RUint => 7 | RUint8 => 8 | RUint16 => 9 | RUint32 => 10 | RUint64 => 11 | RUintptr => 12
  | RFloat32 => 13 | RFloat64 => 14 | RComplex64 => 15 | RComplex128 => 16
  | RArray => 17 | RChan => 18 | RFunc => 19 | RInterface => 20 | RMap => 21 | RPtr => 22 | RSlice => 23
  | RString => 24 | RStruct => 25 | RUnsafePointer => 26
  end%N.

Definition rkind_eqb a b := N.eqb (rkind_code a) (rkind_code b).

Definition rk_mem (k : rkind) (l : list rkind) : bool := existsb (rkind_eqb k) l.

(** the actions that index the predicate tables *)
Inductive action :=
| AInc | ADec | APos | ANeg | ABitNot | ANot
| AAdd | ASub | AMul | AQuo | ARem | AAnd | AOr | AXor | AAndNot | ALand | ALor.

Definition all_unary_actions := [AInc; ADec; APos; ANeg; ABitNot; ANot].
Definition all_binary_actions := [AAdd; ASub; AMul; AQuo; ARem; AAnd; AOr; AXor; AAndNot; ALand; ALor].

Definition action_code (a : action) : N :=
  match a with
  | AInc => 1 | ADec => 2 | APos => 3 | ANeg => 4 | ABitNot => 5 | ANot => 6
  | AAdd => 7 | ASub => 8 | AMul => 9 | AQuo => 10 | ARem => 11 | AAnd => 12 | AOr => 13 | AXor => 14
  | AAndNot => 15 | ALand => 16 | ALor => 17
  end%N.

Definition action_eqb a b := N.eqb (action_code a) (action_code b).

(** names of the kind helpers, and predicate expressions built from them *)
Inductive pname := PIsNumber | PIsInt | PIsUint | PIsFloat | PIsComplex | PIsBoolean | PIsString | PIsConstantValue.

Inductive pexpr := PName (n : pname) | POr (a b : pexpr).

(** what a helper is in the source: a list of kinds ([switch t.Kind() { case ...: return true }] or
    [t.Kind() == reflect.X]), a disjunction of other helpers, or the interface test of
    [isConstantValue] (true of no kind: it looks at the dynamic type, constant.Value) *)
Inductive pdef := DKinds (l : list rkind) | DAny (l : list pname) | DIface.

Definition pname_code (n : pname) : N :=
  match n with
  | PIsNumber => 1 | PIsInt => 2 | PIsUint => 3 | PIsFloat => 4 | PIsComplex => 5 | PIsBoolean => 6
  | PIsString => 7 | PIsConstantValue => 8
  end%N.

Definition pname_eqb a b := N.eqb (pname_code a) (pname_code b).

Fixpoint assoc {A} (eqb : A -> A -> bool) {B} (l : list (A * B)) (a : A) : option B :=
  match l with
  | [] => None
  | (x, b) :: r => if eqb a x then Some b else assoc eqb r a
  end.

Section Eval.
  Variable defs : list (pname * pdef).

  (** helpers call helpers ([isNumber] = isInt || isFloat || isComplex || isConstantValue): fuel 3 *)
  Fixpoint eval_name (fuel : nat) (n : pname) (k : rkind) : bool :=
    match fuel with
    | O => false
    | S f =>
        match assoc pname_eqb defs n with
        | Some (DKinds l) => rk_mem k l
        | Some (DAny l) => existsb (fun m => eval_name f m k) l
        | Some DIface => false
        | None => false
        end
    end.

  Fixpoint eval_pexpr (p : pexpr) (k : rkind) : bool :=
    match p with
    | PName n => eval_name 3 n k
    | POr a b => eval_pexpr a k || eval_pexpr b k
    end.

  (** [check.op]: a missing table entry is an error ("unknown operator") *)
  Definition table_ok (tbl : list (action * pexpr)) (a : action) (k : rkind) : bool :=
    match assoc action_eqb tbl a with
    | Some p => eval_pexpr p k
    | None => false
    end.
End Eval.

(** reflect kind of a MiniGo type as yaegi represents it (named types over basic kinds have the
    reflect type of the basic kind) *)
Definition rkind_of_bkind (k : bkind) : rkind :=
  match k with
  | KInt => RInt | KInt8 => RInt8 | KUint => RUint | KFloat => RFloat64 | KString => RString | KBool => RBool
  end.

Definition rkind_of (t : ty) : option rkind :=
  match t with
  | TB k | TN _ k => Some (rkind_of_bkind k)
  | TS _ => Some RStruct
  | TL _ => Some RSlice
  | TU _ => None
  end.

(** the Go specification's table (Operators: arithmetic, logical) *)
Definition go_is_int (k : rkind) : bool :=
  rk_mem k [RInt; RInt8; RInt16; RInt32; RInt64; RUint; RUint8; RUint16; RUint32; RUint64; RUintptr].
Definition go_is_number (k : rkind) : bool :=
  go_is_int k || rk_mem k [RFloat32; RFloat64; RComplex64; RComplex128].

Definition go_op_ok (a : action) (k : rkind) : bool :=
  match a with
  | AInc | ADec | APos | ANeg | ASub | AMul | AQuo => go_is_number k
  | AAdd => go_is_number k || rkind_eqb k RString
  | ABitNot | ARem | AAnd | AOr | AXor | AAndNot => go_is_int k
  | ANot | ALand | ALor => rkind_eqb k RBool
  end.
