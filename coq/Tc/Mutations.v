(** C12 — the single-point mutation operators on MiniGo (catalogue DESIGN.md Appendix D.1, the
    numbers in brackets), as syntactic rewrites of one node of the AST, and the sites they are
    applied at.  Definitions only; the theorems about them are in Tc/Proofs.v. *)
From Verif Require Import Tc.Syntax Tc.Checker.

(** replacement operands *)
Inductive repl :=
| RStr | RInt | RBool        (* a literal: "s7", 1, true *)
| RCall (f : nat)            (* f() : a typed, non-constant value (f0 string, f1 int, f2 bool) *)
| RConv (t : ty).            (* t(original) *)

Definition repl_expr (r : repl) (orig : expr) : expr :=
  match r with
  | RStr => EStr 7
  | RInt => EInt 1
  | RBool => EBool true
  | RCall f => ECall f []
  | RConv t => EConv t orig
  end.

Inductive mut :=
| MWrapUn (o : unop)               (* e -> o e                      [5]  *)
| MWrapConv (t : ty)               (* e -> t(e)                     [27] *)
| MOperand (side : nat) (r : repl) (* operand of a binary operator  [1 2 7] *)
| MBinop (o : binop)               (* the operator itself           [3 4 6 7] *)
| MUnop (o : unop)                 (*                               [5]  *)
| MArgExtra | MArgFewer            (* call / struct literal         [13 22] *)
| MArg (i : nat) (r : repl)        (* i-th child of the node        [14 22 23 25 29] *)
| MUndefVar | MUndefField          (*                               [17 18] *)
| MConvTo (t : ty)                 (*                               [27] *)
| MSExtra | MSFewer                (* return / call statement       [13 15] *)
| MSArg (i : nat) (r : repl).      (* i-th expression of a statement [8 9 14 15 21] *)

Fixpoint replace_nth {A} (i : nat) (l : list A) (f : A -> A) : option (list A) :=
  match l, i with
  | [], _ => None
  | a :: r, O => Some (f a :: r)
  | a :: r, S j => option_map (cons a) (replace_nth j r f)
  end.

Fixpoint replace_nth_opt {A} (i : nat) (l : list A) (f : A -> option A) : option (list A) :=
  match l, i with
  | [], _ => None
  | a :: r, O => option_map (fun a' => a' :: r) (f a)
  | a :: r, S j => option_map (cons a) (replace_nth_opt j r f)
  end.

Definition undef_var : nat := 999.
Definition undef_field : nat := 99.

(** rewrite of the expression node [e] itself *)
Definition rw_expr (m : mut) (e : expr) : option expr :=
  match m, e with
  | MWrapUn o, _ => Some (EUn o e)
  | MWrapConv t, _ => Some (EConv t e)
  | MOperand side r, E (HBin o) [a; b] =>
      match side with
      | 0 => Some (E (HBin o) [repl_expr r a; b])
      | 1 => Some (E (HBin o) [a; repl_expr r b])
      | _ => None
      end
  | MBinop o', E (HBin _) args => Some (E (HBin o') args)
  | MUnop o', E (HUn _) args => Some (E (HUn o') args)
  | MArgExtra, E ((HCall _ | HSLit _) as h) args => Some (E h (args ++ [EInt 0]))
  | MArgFewer, E ((HCall _ | HSLit _) as h) (a :: r) => Some (E h (removelast (a :: r)))
  | MArg i r, E h args => option_map (E h) (replace_nth i args (repl_expr r))
  | MUndefVar, E (HVar _) [] => Some (EVar undef_var)
  | MUndefField, E (HField _) args => Some (E (HField undef_field) args)
  | MConvTo t, E (HConv _) args => Some (E (HConv t) args)
  | _, _ => None
  end.

(** rewrite of the statement node itself *)
Definition rw_stmt (m : mut) (s : stmt) : option stmt :=
  match m, s with
  | MSExtra, St ((HSReturn | HSCall _) as h) es b1 b2 => Some (St h (es ++ [EInt 0]) b1 b2)
  | MSFewer, St ((HSReturn | HSCall _) as h) (a :: r) b1 b2 => Some (St h (removelast (a :: r)) b1 b2)
  | MSArg i r, St h es b1 b2 => option_map (fun es' => St h es' b1 b2) (replace_nth i es (repl_expr r))
  | _, _ => None
  end.

(** descend along a path of child indices, rewrite the node at its end *)
Fixpoint mut_expr (m : mut) (path : list nat) (e : expr) : option expr :=
  match path with
  | [] => rw_expr m e
  | i :: rest =>
      match e with
      | E h args => option_map (E h) (replace_nth_opt i args (mut_expr m rest))
      end
  end.

(** a site: function, path to the statement ([i] = i-th statement of the body;
    [i; b; ...] = continue in block b (0: first, otherwise second) of the i-th statement),
    and either the statement itself or (expression number, path inside it) *)
Record site := mksite { s_fun : nat; s_path : list nat; s_expr : option (nat * list nat) }.

Definition mut_at_stmt (m : mut) (eo : option (nat * list nat)) (s : stmt) : option stmt :=
  match eo with
  | None => rw_stmt m s
  | Some (ei, ep) =>
      match s with
      | St h es b1 b2 => option_map (fun es' => St h es' b1 b2) (replace_nth_opt ei es (mut_expr m ep))
      end
  end.

Fixpoint mut_block (m : mut) (eo : option (nat * list nat)) (fuel : nat) (path : list nat) (l : list stmt)
  : option (list stmt) :=
  match fuel with
  | O => None
  | S fuel' =>
      match path with
      | [] => None
      | [i] => replace_nth_opt i l (mut_at_stmt m eo)
      | i :: b :: rest =>
          replace_nth_opt i l (fun s =>
            match s with
            | St h es b1 b2 =>
                match b with
                | 0 => option_map (fun b1' => St h es b1' b2) (mut_block m eo fuel' rest b1)
                | _ => option_map (fun b2' => St h es b1 b2') (mut_block m eo fuel' rest b2)
                end
            end)
      end
  end.

Definition mutate (m : mut) (p : prog) (st : site) : option prog :=
  option_map (fun fs => mkprog (pnamed p) (pstructs p) fs)
    (replace_nth_opt (s_fun st) (pfuncs p)
       (fun fd => option_map (fun b => mkfun (fparams fd) (fresults fd) b)
                    (mut_block m (s_expr st) (S (length (s_path st))) (s_path st) (fbody fd)))).
