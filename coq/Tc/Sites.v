(** C12 — sites: resolving a site of a program to the node it designates together with the
    environment in force there, and deciding a property of that node.  Definitions only. *)
From Verif Require Import Tc.Syntax Tc.Checker Tc.Mutations.

Definition is_err {A} (r : res A) : bool := match r with Err => true | _ => false end.
Definition is_ok {A} (r : res A) : bool := match r with Ok _ => true | _ => false end.

Section Resolve.
  Variable R : rules.
  Variable P : prog.
  (** what is asked of the designated node, in its environment *)
  Variable leafE : env -> expr -> bool.
  Variable leafS : list ty -> env -> stmt -> bool.

  Fixpoint at_expr (G : env) (path : list nat) (e : expr) : bool :=
    match path with
    | [] => leafE G e
    | i :: rest =>
        match e with
        | E _ args => match nth_error args i with Some a => at_expr G rest a | None => false end
        end
    end.

  Definition at_stmt (rets : list ty) (G : env) (eo : option (nat * list nat)) (s : stmt) : bool :=
    match eo with
    | None => leafS rets G s
    | Some (ei, ep) =>
        match s with
        | St _ es _ _ => match nth_error es ei with Some e => at_expr G ep e | None => false end
        end
    end.

  (** environment after the first [i] statements of a block *)
  Fixpoint env_after (rets : list ty) (G : env) (l : list stmt) (i : nat) : option env :=
    match i, l with
    | O, _ => Some G
    | S j, s :: r => match check_stmt R P rets G s with Ok G' => env_after rets G' r j | _ => None end
    | S _, [] => None
    end.

  Fixpoint at_block (rets : list ty) (eo : option (nat * list nat)) (fuel : nat) (G : env) (path : list nat)
           (l : list stmt) : bool :=
    match fuel with
    | O => false
    | S fuel' =>
        match path with
        | [] => false
        | [i] =>
            match env_after rets G l i, nth_error l i with
            | Some Gi, Some s => at_stmt rets Gi eo s
            | _, _ => false
            end
        | i :: b :: rest =>
            match env_after rets G l i, nth_error l i with
            | Some Gi, Some (St _ _ b1 b2) =>
                at_block rets eo fuel' Gi rest (match b with 0 => b1 | _ => b2 end)
            | _, _ => false
            end
        end
    end.

  Definition at_site (st : site) : bool :=
    match nth_error (pfuncs P) (s_fun st) with
    | Some fd =>
        at_block (fresults fd) (s_expr st) (S (length (s_path st)))
          (param_env (s_fun st) 0 (fparams fd)) (s_path st) (fbody fd)
    | None => false
    end.
End Resolve.

(** semantic applicability: the rewritten node is rejected by the rules, where it stands *)
Definition fails_expr (R : rules) (P : prog) (m : mut) (G : env) (e : expr) : bool :=
  match rw_expr m e with Some e' => is_err (typeof R P G e') | None => false end.

Definition fails_stmt (R : rules) (P : prog) (m : mut) (rets : list ty) (G : env) (s : stmt) : bool :=
  match rw_stmt m s with Some s' => is_err (check_stmt R P rets G s') | None => false end.

Definition applicable (R : rules) (m : mut) (p : prog) (st : site) : bool :=
  at_site R p (fails_expr R p m) (fails_stmt R p m) st.
