(** C12 — the checker skeleton shared by G (Go's typing of MiniGo) and Y (yaegi's checks as they
    are implemented): one post-order pass, children left to right, then the node; the first
    failure decides.  The per-construct rules are a parameter ([rules]).
    Outcomes: [Ok], [Err] (an error value is returned: the program is rejected), [Panic] (the
    checker itself panics in the host), [Unk] (construct outside of what the rule set models:
    such cases are skipped, never compared). *)
From Verif Require Import Tc.Syntax.

Inductive res (A : Type) := Ok (a : A) | Err | Panic | Unk.
Arguments Ok {A} a.
Arguments Err {A}.
Arguments Panic {A}.
Arguments Unk {A}.

Definition bind {A B} (r : res A) (f : A -> res B) : res B :=
  match r with Ok a => f a | Err => Err | Panic => Panic | Unk => Unk end.

Notation "'do' x <- r ; k" := (bind r (fun x => k)) (at level 200, x pattern, r at level 100, k at level 200).

Definition guard (b : bool) : res unit := if b then Ok tt else Err.

(** what the checker knows about an expression: its type and whether it is a constant *)
Definition ety := (ty * bool)%type.

(** contexts in which a value is converted implicitly to a declared type *)
Inductive actx := AVar | AAssign | AArg | AField | AElem | AReturn.

Record rules := {
  r_lit : head -> res ety;                 (* literals: fragment restrictions live here *)
  r_un : unop -> ety -> res ety;
  r_bin : binop -> ety -> ety -> res ety;
  r_assign : actx -> ety -> ty -> res unit; (* value assignable to a declared type *)
  r_define : ety -> res ty;                (* the type x receives in x := e *)
  r_conv : ty -> ety -> res ety;
  r_cond : ety -> res unit;
  r_index : ety -> ety -> res ety;
  r_len : ety -> res ety;
  r_undef : nat -> res ety;                (* use of an undefined variable *)
}.

Definition env := list (nat * ty).

Fixpoint lookup (G : env) (x : nat) : option ty :=
  match G with
  | [] => None
  | (y, t) :: G' => if Nat.eqb x y then Some t else lookup G' x
  end.

Section Check.
  Variable R : rules.
  Variable P : prog.

  Fixpoint mapM {A B} (f : A -> res B) (l : list A) : res (list B) :=
    match l with
    | [] => Ok []
    | a :: r => do b <- f a; do bs <- mapM f r; Ok (b :: bs)
    end.

  (** pairwise assignability of argument types to declared types; the arities are equal *)
  Fixpoint assign_all (c : actx) (ts : list ety) (ds : list ty) : res unit :=
    match ts, ds with
    | [], [] => Ok tt
    | t :: ts', d :: ds' => do _ <- r_assign R c t d; assign_all c ts' ds'
    | _, _ => Err
    end.

  Definition arity_then (c : actx) (ts : list ety) (ds : list ty) : res unit :=
    if Nat.eqb (length ts) (length ds) then assign_all c ts ds else Err.

  (** typing of a node given the types of its children (already computed, in order) *)
  Definition node_ty (G : env) (h : head) (ts : list ety) : res ety :=
    match h, ts with
    | (HInt _ | HFloat _ | HStr _ | HBool _), [] => r_lit R h
    | HVar x, [] => match lookup G x with Some t => Ok (t, false) | None => r_undef R x end
    | HUn o, [t] => r_un R o t
    | HBin o, [a; b] => r_bin R o a b
    | HCall f, _ =>
        match nth_error (pfuncs P) f with
        | None => Err
        | Some fd =>
            do _ <- arity_then AArg ts (fparams fd);
            match fresults fd with
            | [t] => Ok (t, false)
            | _ => Err
            end
        end
    | HConv t, [a] => r_conv R t a
    | HField f, [(TS s, _)] =>
        match nth_error (pstructs P) s with
        | Some fs => match nth_error fs f with Some t => Ok (t, false) | None => Err end
        | None => Err
        end
    | HField f, [_] => Err
    | HIndex, [a; i] => r_index R a i
    | HLen, [a] => r_len R a
    | HSLit s, _ =>
        match nth_error (pstructs P) s with
        | Some fs => do _ <- arity_then AField ts fs; Ok (TS s, false)
        | None => Err
        end
    | HLLit k, _ => do _ <- assign_all AElem ts (map (fun _ => TB k) ts); Ok (TL k, false)
    | _, _ => Err
    end.

  Fixpoint typeof (G : env) (e : expr) : res ety :=
    match e with
    | E h args =>
        do ts <- (fix go (l : list expr) : res (list ety) :=
                    match l with
                    | [] => Ok []
                    | a :: r => do t <- typeof G a; do ts <- go r; Ok (t :: ts)
                    end) args;
        node_ty G h ts
    end.

  Definition is_lvalue (e : expr) : bool :=
    match e with
    | E (HVar _) [] => true
    | E (HField _) [_] => true
    | E HIndex [_; _] => true
    | _ => false
    end.

  (** a statement: the environment after it (declarations are visible to the rest of the block) *)
  Definition stmt_ty (rets : list ty) (G : env) (h : shead) (ts : list ety) (lv : bool) : res env :=
    match h, ts with
    | HSVar x t, [a] =>
        match lookup G x with
        | Some _ => Err
        | None => do _ <- r_assign R AVar a t; Ok ((x, t) :: G)
        end
    | HSDefine x, [a] =>
        match lookup G x with
        | Some _ => Err
        | None => do t <- r_define R a; Ok ((x, t) :: G)
        end
    | HSAssign, [(tl, _); a] =>
        if lv then do _ <- r_assign R AAssign a tl; Ok G else Err
    | HSCall f, _ =>
        match nth_error (pfuncs P) f with
        | None => Err
        | Some fd => do _ <- arity_then AArg ts (fparams fd); Ok G
        end
    | HSPrint, _ => Ok G
    | HSReturn, _ => do _ <- arity_then AReturn ts rets; Ok G
    | (HSIf | HSFor), [c] => do _ <- r_cond R c; Ok G
    | _, _ => Err
    end.

  Fixpoint check_stmt (rets : list ty) (G : env) (s : stmt) : res env :=
    match s with
    | St h es b1 b2 =>
        let blk := fix blk (G : env) (l : list stmt) : res unit :=
                     match l with
                     | [] => Ok tt
                     | a :: r => do G' <- check_stmt rets G a; blk G' r
                     end in
        do ts <- mapM (typeof G) es;
        do G' <- stmt_ty rets G h ts (match es with l :: _ => is_lvalue l | [] => false end);
        do _ <- blk G b1;
        do _ <- blk G b2;
        Ok G'
    end.

  Fixpoint check_block (rets : list ty) (G : env) (l : list stmt) : res unit :=
    match l with
    | [] => Ok tt
    | a :: r => do G' <- check_stmt rets G a; check_block rets G' r
    end.

  Fixpoint param_env (f j : nat) (ts : list ty) : env :=
    match ts with
    | [] => []
    | t :: r => (param_var f j, t) :: param_env f (S j) r
    end.

  (** a function with results must end in a return statement *)
  Definition ends_in_return (l : list stmt) : bool :=
    match rev l with St HSReturn _ _ _ :: _ => true | _ => false end.

  Definition check_fun (i : nat) (fd : fundecl) : res unit :=
    do _ <- check_block (fresults fd) (param_env i 0 (fparams fd)) (fbody fd);
    match fresults fd with
    | [] => Ok tt
    | _ => guard (ends_in_return (fbody fd))
    end.

  Fixpoint check_funs (i : nat) (l : list fundecl) : res unit :=
    match l with
    | [] => Ok tt
    | fd :: r => do _ <- check_fun i fd; check_funs (S i) r
    end.

  Definition check : res unit := check_funs 0 (pfuncs P).
End Check.
