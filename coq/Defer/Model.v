(** C06 — panics, defers and recover.

    Programs are finite tables of function bodies; a body is a straight-line list of statements over
    print / set / defer (interpreted function, host function, builtin close / delete, defer in a
    loop) / panic (explicit value or run-time fault) / call / recover / re-panic / return.
    Recursion is allowed; both models are fuel-indexed (the fuel bounds the call depth).

    G: Go's rules (spec "Defer statements", "Handling panics", "Run-time panics"):
       deferred calls run last-in-first-out, exactly once, on return and on panic, also after a
       deferred call itself panicked; the newest panic replaces the current one; [recover] returns
       the current panic value and stops the panic only when called directly by a deferred function
       that the panicking sequence runs; a recovered function returns its named results; arguments
       of a deferred call are evaluated at the defer statement.

    Y: transcription of yaegi's mechanism (interp/run.go at the pinned commit):
       - [call] with [n.anc.kind == deferStmt]: [f.deferred = append([][]reflect.Value{val}, f.deferred...)]
         where [val[i+1] = v(f)] is the frame slot itself for a variable argument (a reference, read
         again when the deferred call finally happens), [callBin] and [genBuiltinDeferWrapper] alike;
       - [runCfg]'s Go-level defer: [f.mutex.Lock(); f.recovered = recover(); for val in f.deferred
         { val[0].Call(val[1:]) }; if f.recovered != nil { ...; f.mutex.Unlock(); panic(f.recovered) };
         f.mutex.Unlock()]: a panic leaving one deferred call leaves the loop (the rest of the list
         is abandoned, the mutex stays locked);
       - [_recover]: reads and clears [f.anc.recovered]; when it is nil the destination slot is not
         written (a recover site executed twice keeps the first value);
       - [_panic]: [panic(value(f))] where [value(f)] is a reflect.Value: a recovered value that is
         passed to panic again is wrapped once more (fmt then shows "<int Value>", ...);
       - [genFunctionWrapper] for a deferred interpreted callee allocates [newFrame(f, ...)]: the
         deferring frame is the callee's [anc]; a plain call allocates [newFrame(f, ...)] with the
         calling frame as [anc];
       - [getFunc] (as repaired by abe7a69): the wrapper of a function literal writes nothing back and
         takes no mutex when a call ends, so a closure of an activation may be called while runCfg
         holds that activation's mutex (from its deferred calls);
       - a named function or method declared later in the source and deferred inside a function
         literal is never run;
       - [Execute]: a Go-level recover turns an escaping panic into [Panic{Value: v}].
    Definitions only; proofs are in Defer/Proofs.v. *)
From Coq Require Export List ZArith NArith Bool Arith Lia.
Export ListNotations.
Open Scope list_scope.

(* ------------------------------------------------------------------ *)
(** * Syntax *)

Inductive fault := FNilDeref | FIndex | FSlice | FDiv | FNilMap | FAssert | FClose.

(** panic values *)
Inductive base := BInt (z : Z) | BStr (n : N) | BErr (n : N) | BFault (k : fault).

(** what fmt prints for a recovered value / what the final "panic:" line shows *)
Inductive shown := ShNil | ShBase (b : base) | ShIntValue | ShErrValue | ShIfaceValue | ShJunk.

Inductive event :=
| EPrint (t : N) (v : option Z)
| ERec (s : shown)
| ERet (t : N) (z : Z)
| EHost (t : N) (z : Z)
| EClo (t : N)
| EJunk.

(** how an evaluation ends *)
Inductive fin := FinOk | FinPanic (s : shown) | FinHang | FinFuel | FinOther.

Inductive kind := KNamed | KMethod | KLit.
Inductive vref := Own (i : nat) | Up (i : nat).
Inductive arg := AConst (z : Z) | AOwn (i : nat).
Inductive builtin := BClose | BDelete.

Inductive stmt :=
| SPrint (t : N) (v : option vref)
| SSet (v : vref) (z : Z)
| SDefer (f : nat) (a : arg)
| SDeferLoop (n : nat) (f : nat)          (* for i := 0; i < n; i++ { defer f(i) } *)
| SDeferHost (t : N) (a : arg)            (* defer fmt.Println("host", t, a) *)
| SDeferB (b : builtin)                   (* defer close(c) / defer delete(m, "k") *)
| SPanic (b : base)
| SCall (f : nat) (a : arg) (ret : option N)
| SRecover                                (* rv = recover(); print rv *)
| SRepanic                                (* if rv != nil { panic(rv) } *)
| SRecoverLoop                            (* for j := 0; j < 2; j++ { r := recover(); print r } *)
| SCallClosure (t : N)                    (* call of a closure created by the enclosing activation *)
| SReturn (z : option Z).

Record prog := mkprog {
  fwd : bool;                             (* callees are declared after their callers in the source *)
  fns : list (kind * list stmt)
}.

Definition fn_kind (p : prog) (f : nat) : kind := fst (nth f (fns p) (KNamed, [])).
Definition fn_body (p : prog) (f : nat) : list stmt := snd (nth f (fns p) (KNamed, [])).

(* ------------------------------------------------------------------ *)
(** * Variables of an activation: 0 parameter, 1 named result, 2 local, 3 map length, 4 channel closed *)

Definition getv (vs : list Z) (i : nat) : Z := nth i vs 0%Z.

Fixpoint setv (vs : list Z) (i : nat) (z : Z) : list Z :=
  match vs, i with
  | [], _ => []
  | _ :: t, O => z :: t
  | h :: t, S j => h :: setv t j z
  end.

Definition init_vars (a : Z) : list Z := [a; 0; 0; 1; 0]%Z.
Definition v_res := 1%nat.
Definition v_map := 3%nat.
Definition v_chan := 4%nat.

(** outcome of a call *)
Inductive out (V : Type) := ORet (z : Z) | OPanic (v : V) | OHang | OFuel.
Arguments ORet {V}. Arguments OPanic {V}. Arguments OHang {V}. Arguments OFuel {V}.

(** how a body stops *)
Inductive status (V : Type) := Fall | Returned | Panicked (v : V) | Hung | NoFuel.
Arguments Fall {V}. Arguments Returned {V}. Arguments Panicked {V}. Arguments Hung {V}. Arguments NoFuel {V}.

Definition show_g (v : option base) : shown :=
  match v with None => ShNil | Some b => ShBase b end.

Definition is_lit (k : kind) : bool := match k with KLit => true | _ => false end.

Fixpoint iota_from (k n : nat) : list Z :=
  match n with O => [] | S m => Z.of_nat k :: iota_from (S k) m end.

(* ================================================================== *)
(** * G — Go *)

Inductive gdefer := GDFn (f : nat) (z : Z) | GDHost (t : N) (z : Z) | GDB (b : builtin).

Record gframe := mkg { g_vars : list Z; g_rv : option base; g_def : list gdefer }.

(** result of a call: trace, caller's variables, caller's panic in flight, outcome *)
Definition gcres := (list event * list Z * option base * out base)%type.
(** result of a statement or body: frame, caller's variables, panic offered to recover, trace, status *)
Definition gbres := (gframe * list Z * option base * list event * status base)%type.

Definition g_arg (f : gframe) (a : arg) : Z :=
  match a with AConst z => z | AOwn i => getv (g_vars f) i end.

Definition g_read (f : gframe) (up : list Z) (v : vref) : Z :=
  match v with Own i => getv (g_vars f) i | Up i => getv up i end.

Section G.
  Variable p : prog.
  (** [call f a up pan]: [up] = variables of the caller, [pan] = Some v exactly when this call is a
      deferred call run by the panicking sequence for the (unrecovered) panic v. *)
  Variable call : nat -> Z -> list Z -> option base -> gcres.

  Definition g_push (f : gframe) (d : gdefer) : gframe :=
    mkg (g_vars f) (g_rv f) (d :: g_def f).

  Definition g_stmt (s : stmt) (f : gframe) (up : list Z) (pan : option base) : gbres :=
    match s with
    | SPrint t None => (f, up, pan, [EPrint t None], Fall)
    | SPrint t (Some v) => (f, up, pan, [EPrint t (Some (g_read f up v))], Fall)
    | SSet (Own i) z => (mkg (setv (g_vars f) i z) (g_rv f) (g_def f), up, pan, [], Fall)
    | SSet (Up i) z => (f, setv up i z, pan, [], Fall)
    | SDefer c a => (g_push f (GDFn c (g_arg f a)), up, pan, [], Fall)     (* arguments are evaluated now *)
    | SDeferLoop n c =>
        (mkg (g_vars f) (g_rv f) (rev (map (GDFn c) (iota_from 0 n)) ++ g_def f), up, pan, [], Fall)
    | SDeferHost t a => (g_push f (GDHost t (g_arg f a)), up, pan, [], Fall)
    | SDeferB b => (g_push f (GDB b), up, pan, [], Fall)
    | SPanic b => (f, up, pan, [], Panicked b)
    | SCall c a ret =>
        (* an ordinary call is not a deferred call: recover inside it sees no panic *)
        let '(tr, vs, _, o) := call c (g_arg f a) (g_vars f) None in
        let f' := mkg vs (g_rv f) (g_def f) in
        match o with
        | ORet z => (f', up, pan, tr ++ match ret with Some t => [ERet t z] | None => [] end, Fall)
        | OPanic v => (f', up, pan, tr, Panicked v)
        | OHang => (f', up, pan, tr, Hung)
        | OFuel => (f', up, pan, tr, NoFuel)
        end
    | SRecover => (mkg (g_vars f) pan (g_def f), up, None, [ERec (show_g pan)], Fall)
    | SRepanic =>
        match g_rv f with
        | None => (f, up, pan, [], Fall)
        | Some b => (f, up, pan, [], Panicked b)
        end
    | SRecoverLoop => (f, up, None, [ERec (show_g pan); ERec ShNil], Fall)
    | SCallClosure t => (f, up, pan, [EClo t], Fall)
    | SReturn None => (f, up, pan, [], Returned)
    | SReturn (Some z) => (mkg (setv (g_vars f) v_res z) (g_rv f) (g_def f), up, pan, [], Returned)
    end.

  Fixpoint g_body (ss : list stmt) (f : gframe) (up : list Z) (pan : option base) : gbres :=
    match ss with
    | [] => (f, up, pan, [], Fall)
    | s :: rest =>
        let '(f1, up1, pan1, tr1, st1) := g_stmt s f up pan in
        match st1 with
        | Fall => let '(f2, up2, pan2, tr2, st2) := g_body rest f1 up1 pan1 in (f2, up2, pan2, tr1 ++ tr2, st2)
        | _ => (f1, up1, pan1, tr1, st1)
        end
    end.

  (** one deferred call; [cur] = the panic in flight in the deferring activation *)
  Definition g_run_deferred (d : gdefer) (vs : list Z) (cur : option base) : gcres :=
    match d with
    | GDFn c z => call c z vs cur
    | GDHost t z => ([EHost t z], vs, cur, ORet 0%Z)
    | GDB BDelete => ([], setv vs v_map 0%Z, cur, ORet 0%Z)
    | GDB BClose =>
        if (getv vs v_chan =? 1)%Z then ([], vs, cur, OPanic (BFault FClose))
        else ([], setv vs v_chan 1%Z, cur, ORet 0%Z)
    end.

  (** all deferred calls, last in first out, each exactly once, whatever happens in them *)
  Fixpoint g_defers (ds : list gdefer) (vs : list Z) (cur : option base)
    : (list event * list Z * option base * bool (* aborted: hang / fuel *) * bool (* fuel *)) :=
    match ds with
    | [] => ([], vs, cur, false, false)
    | d :: rest =>
        let '(tr1, vs1, cur1, o) := g_run_deferred d vs cur in
        match o with
        | ORet _ => let '(tr2, vs2, cur2, ab, fu) := g_defers rest vs1 cur1 in (tr1 ++ tr2, vs2, cur2, ab, fu)
        | OPanic v => (* the new panic replaces the current one; the remaining deferred calls still run *)
            let '(tr2, vs2, cur2, ab, fu) := g_defers rest vs1 (Some v) in (tr1 ++ tr2, vs2, cur2, ab, fu)
        | OHang => (tr1, vs1, cur1, true, false)
        | OFuel => (tr1, vs1, cur1, true, true)
        end
    end.

  Definition g_fn (c : nat) (a : Z) (up : list Z) (pan : option base) : gcres :=
    let f0 := mkg (init_vars a) None [] in
    let '(f1, up1, pan1, tr1, st) := g_body (fn_body p c) f0 up pan in
    match st with
    | Hung => (tr1, up1, pan1, OHang)
    | NoFuel => (tr1, up1, pan1, OFuel)
    | _ =>
        let cur0 := match st with Panicked v => Some v | _ => None end in
        let '(tr2, vs2, cur2, ab, fu) := g_defers (g_def f1) (g_vars f1) cur0 in
        if ab then (tr1 ++ tr2, up1, pan1, if fu then OFuel else OHang)
        else match cur2 with
             | Some v => (tr1 ++ tr2, up1, pan1, OPanic v)
             | None => (tr1 ++ tr2, up1, pan1, ORet (getv vs2 v_res))
             end
    end.
End G.

Fixpoint g_call (p : prog) (fuel : nat) : nat -> Z -> list Z -> option base -> gcres :=
  match fuel with
  | O => fun _ _ up pan => ([], up, pan, OFuel)
  | S n => g_fn p (g_call p n)
  end.

Definition g_fin (o : out base) : fin :=
  match o with
  | ORet _ => FinOk
  | OPanic v => FinPanic (ShBase v)
  | OHang => FinHang
  | OFuel => FinFuel
  end.

(** a compiled program: main calls function 0 *)
Definition g_run (fuel : nat) (p : prog) : list event * fin :=
  let '(tr, _, _, o) := g_call p fuel 0%nat 0%Z [] None in (tr, g_fin o).

(* ================================================================== *)
(** * Y — yaegi *)

(** a panic value in flight: the value and how many times it went through [panic(recovered)] *)
Definition pval := (base * nat)%type.

Definition show_y (v : option pval) : shown :=
  match v with
  | None => ShNil
  | Some (b, O) => ShBase b
  | Some (b, S O) => match b with BInt _ => ShIntValue | BErr _ => ShErrValue | _ => ShBase b end
  | Some (_, S (S _)) => ShIfaceValue
  end.

(** argument of a deferred call: a value, or the frame slot of a variable (with, as a ghost, the
    value it had at the defer statement) *)
Inductive yarg := YVal (z : Z) | YRef (i : nat) (snap : Z).
Inductive ydefer := YDFn (f : nat) (a : yarg) | YDHost (t : N) (a : yarg) | YDB (b : builtin).

Record yframe := mky {
  y_vars : list Z;
  y_rv : option pval;
  y_def : list ydefer;        (* frame.deferred *)
  y_rec : option pval;        (* frame.recovered *)
  y_locked : bool             (* frame.mutex is held *)
}.

(** what a callee reaches through its [anc] pointer: data slots, [recovered], the mutex *)
Record yanc := mka { a_vars : list Z; a_rec : option pval; a_locked : bool }.

Definition anc_of (f : yframe) : yanc := mka (y_vars f) (y_rec f) (y_locked f).
Definition with_anc (f : yframe) (a : yanc) : yframe :=
  mky (a_vars a) (y_rv f) (y_def f) (a_rec a) (y_locked f).

(** result of a call: trace, the caller's frame as left by the callee, outcome, side-condition flag *)
Definition ycres := (list event * yanc * out pval * bool)%type.
Definition ybres := (yframe * yanc * list event * bool * status pval)%type.

Definition y_mkarg (f : yframe) (a : arg) : yarg :=
  match a with AConst z => YVal z | AOwn i => YRef i (getv (y_vars f) i) end.
Definition y_arg_now (vs : list Z) (a : yarg) : Z :=
  match a with YVal z => z | YRef i _ => getv vs i end.
Definition y_arg_moved (vs : list Z) (a : yarg) : bool :=
  match a with YVal _ => false | YRef i z0 => negb (getv vs i =? z0)%Z end.
Definition y_arg (f : yframe) (a : arg) : Z :=
  match a with AConst z => z | AOwn i => getv (y_vars f) i end.
Definition y_read (f : yframe) (anc : yanc) (v : vref) : Z :=
  match v with Own i => getv (y_vars f) i | Up i => getv (a_vars anc) i end.

Definition shown_eqb_base (a b : base) : bool :=
  match a, b with
  | BInt x, BInt y => (x =? y)%Z
  | BStr x, BStr y => (x =? y)%N
  | BErr x, BErr y => (x =? y)%N
  | BFault x, BFault y =>
      match x, y with
      | FNilDeref, FNilDeref | FIndex, FIndex | FSlice, FSlice | FDiv, FDiv
      | FNilMap, FNilMap | FAssert, FAssert | FClose, FClose => true
      | _, _ => false
      end
  | _, _ => false
  end.

(** the wrapping is visible *)
Definition wrapped_visible (v : option pval) : bool :=
  match v with
  | None => false
  | Some (_, O) => false
  | Some (b, S O) => match b with BInt _ | BErr _ => true | _ => false end
  | Some (_, S (S _)) => true
  end.

Section Y.
  Variable p : prog.
  Variable call : nat -> Z -> yanc -> ycres.

  Definition y_push (f : yframe) (d : ydefer) : yframe :=
    mky (y_vars f) (y_rv f) (d :: y_def f) (y_rec f) (y_locked f).

  (** the defer statement of an interpreted callee inside a function literal is lost when the
      callee is a named function or method declared later in the source *)
  Definition y_defer_lost (self : kind) (c : nat) : bool :=
    fwd p && is_lit self && negb (is_lit (fn_kind p c)).

  Definition y_stmt (self : kind) (s : stmt) (f : yframe) (anc : yanc) : ybres :=
    match s with
    | SPrint t None => (f, anc, [EPrint t None], false, Fall)
    | SPrint t (Some v) => (f, anc, [EPrint t (Some (y_read f anc v))], false, Fall)
    | SSet (Own i) z => (mky (setv (y_vars f) i z) (y_rv f) (y_def f) (y_rec f) (y_locked f), anc, [], false, Fall)
    | SSet (Up i) z => (f, mka (setv (a_vars anc) i z) (a_rec anc) (a_locked anc), [], false, Fall)
    | SDefer c a =>
        if y_defer_lost self c then (f, anc, [], true, Fall)
        else (y_push f (YDFn c (y_mkarg f a)), anc, [], false, Fall)
    | SDeferLoop n c =>
        if y_defer_lost self c then (f, anc, [], negb (Nat.eqb n 0), Fall)
        else (mky (y_vars f) (y_rv f) (rev (map (fun z => YDFn c (YVal z)) (iota_from 0 n)) ++ y_def f) (y_rec f) (y_locked f),
              anc, [], false, Fall)
    | SDeferHost t a => (y_push f (YDHost t (y_mkarg f a)), anc, [], false, Fall)
    | SDeferB b => (y_push f (YDB b), anc, [], false, Fall)
    | SPanic b => (f, anc, [], false, Panicked (b, O))
    | SCall c a ret =>
        (* newFrame(f, ...): the calling frame is the callee's anc *)
        let '(tr, a', o, fl) := call c (y_arg f a) (anc_of f) in
        let f' := with_anc f a' in
        match o with
        | ORet z => (f', anc, tr ++ match ret with Some t => [ERet t z] | None => [] end, fl, Fall)
        | OPanic v => (f', anc, tr, fl, Panicked v)
        | OHang => (f', anc, tr, fl, Hung)
        | OFuel => (f', anc, tr, fl, NoFuel)
        end
    | SRecover =>
        (* _recover: f.anc.recovered, then cleared *)
        let r := a_rec anc in
        (mky (y_vars f) r (y_def f) (y_rec f) (y_locked f), mka (a_vars anc) None (a_locked anc),
         [ERec (show_y r)], wrapped_visible r, Fall)
    | SRepanic =>
        match y_rv f with
        | None => (f, anc, [], false, Fall)
        | Some (b, d) => (f, anc, [], false, Panicked (b, S d))     (* panic(value(f)): wrapped once more *)
        end
    | SRecoverLoop =>
        (* second iteration: recovered is nil, the destination slot keeps the first value *)
        let r := a_rec anc in
        (f, mka (a_vars anc) None (a_locked anc), [ERec (show_y r); ERec (show_y r)],
         match r with Some _ => true | None => false end, Fall)
    | SCallClosure t =>
        (* getFunc: the call of the closure returns whatever the state of the creating frame's mutex *)
        (f, anc, [EClo t], false, Fall)
    | SReturn None => (f, anc, [], false, Returned)
    | SReturn (Some z) => (mky (setv (y_vars f) v_res z) (y_rv f) (y_def f) (y_rec f) (y_locked f), anc, [], false, Returned)
    end.

  Fixpoint y_body (self : kind) (ss : list stmt) (f : yframe) (anc : yanc) : ybres :=
    match ss with
    | [] => (f, anc, [], false, Fall)
    | s :: rest =>
        let '(f1, anc1, tr1, fl1, st1) := y_stmt self s f anc in
        match st1 with
        | Fall => let '(f2, anc2, tr2, fl2, st2) := y_body self rest f1 anc1 in (f2, anc2, tr1 ++ tr2, fl1 || fl2, st2)
        | _ => (f1, anc1, tr1, fl1, st1)
        end
    end.

  (** val[0].Call(val[1:]) for one entry of f.deferred; the frame is the callee's anc *)
  Definition y_run_deferred (d : ydefer) (f : yanc) : ycres :=
    match d with
    | YDFn c a =>
        let '(tr, f', o, fl) := call c (y_arg_now (a_vars f) a) f in
        (tr, f', o, fl || y_arg_moved (a_vars f) a)
    | YDHost t a => ([EHost t (y_arg_now (a_vars f) a)], f, ORet 0%Z, y_arg_moved (a_vars f) a)
    | YDB BDelete => ([], mka (setv (a_vars f) v_map 0%Z) (a_rec f) (a_locked f), ORet 0%Z, false)
    | YDB BClose =>
        if (getv (a_vars f) v_chan =? 1)%Z then ([], f, OPanic (BFault FClose, O), false)
        else ([], mka (setv (a_vars f) v_chan 1%Z) (a_rec f) (a_locked f), ORet 0%Z, false)
    end.

  (** the loop of runCfg's Go-level defer: a panic leaving a deferred call leaves the loop *)
  Fixpoint y_defers (ds : list ydefer) (f : yanc) : (list event * yanc * out pval * bool) :=
    match ds with
    | [] => ([], f, ORet 0%Z, false)
    | d :: rest =>
        let '(tr1, f1, o, fl1) := y_run_deferred d f in
        match o with
        | ORet _ => let '(tr2, f2, o2, fl2) := y_defers rest f1 in (tr1 ++ tr2, f2, o2, fl1 || fl2)
        | OPanic v => (tr1, f1, OPanic v, fl1 || match rest with [] => false | _ => true end)
        | OHang => (tr1, f1, OHang, fl1)
        | OFuel => (tr1, f1, OFuel, fl1)
        end
    end.

  Definition y_fn (c : nat) (a : Z) (anc : yanc) : ycres :=
    let f0 := mky (init_vars a) None [] None false in
    let '(f1, anc1, tr1, fl1, st) := y_body (fn_kind p c) (fn_body p c) f0 anc in
    match st with
    | Hung => (tr1, anc1, OHang, fl1)
    | NoFuel => (tr1, anc1, OFuel, fl1)
    | _ =>
        (* f.mutex.Lock(); f.recovered = recover() *)
        let rec0 := match st with Panicked v => Some v | _ => None end in
        let '(tr2, f2, o, fl2) := y_defers (y_def f1) (mka (y_vars f1) rec0 true) in
        match o with
        | OPanic v => (tr1 ++ tr2, anc1, OPanic v, fl1 || fl2)
        | OHang => (tr1 ++ tr2, anc1, OHang, fl1 || fl2)
        | OFuel => (tr1 ++ tr2, anc1, OFuel, fl1 || fl2)
        | ORet _ =>
            match a_rec f2 with
            | Some v => (tr1 ++ tr2, anc1, OPanic v, fl1 || fl2)         (* panic(f.recovered) *)
            | None => (tr1 ++ tr2, anc1, ORet (getv (a_vars f2) v_res), fl1 || fl2)
            end
        end
    end.
End Y.

Fixpoint y_call (p : prog) (fuel : nat) : nat -> Z -> yanc -> ycres :=
  match fuel with
  | O => fun _ _ anc => ([], anc, OFuel, false)
  | S n => y_fn p (y_call p n)
  end.

(** interp.Execute / Eval: the value returned to the host *)
Inductive eval_result := EvOk | EvErrPanic (v : pval) | EvHang | EvFuel.

Definition root_frame : yanc := mka [] None false.

Definition y_eval (fuel : nat) (p : prog) : list event * eval_result * bool :=
  let '(tr, _, o, fl) := y_call p fuel 0%nat 0%Z root_frame in
  (tr,
   match o with
   | ORet _ => EvOk
   | OPanic v => EvErrPanic v       (* Execute: r := recover(); err = Panic{Value: r, ...} *)
   | OHang => EvHang
   | OFuel => EvFuel
   end, fl).

Definition y_fin (r : eval_result) : fin :=
  match r with
  | EvOk => FinOk
  | EvErrPanic v => FinPanic (show_y (Some v))        (* Panic.Error() = fmt.Sprint(Value) *)
  | EvHang => FinHang
  | EvFuel => FinFuel
  end.

(** what Panic.Value carries: the number of reflect.Value layers ([_panic] panics with the
    reflect.Value of its argument; every re-panic of a recovered value adds one) and the kind of the
    value inside; a run-time fault is the host's own error value *)
Inductive vkind := VkInt | VkStr | VkErr | VkFault | VkOther.

Definition y_carrier (r : eval_result) : option (nat * vkind) :=
  match r with
  | EvErrPanic (BInt _, d) => Some (S d, VkInt)
  | EvErrPanic (BStr _, d) => Some (S d, VkStr)
  | EvErrPanic (BErr _, d) => Some (S d, VkErr)
  | EvErrPanic (BFault _, d) => Some (d, VkFault)
  | _ => None
  end.

Definition y_run (fuel : nat) (p : prog) : list event * fin * bool :=
  let '(tr, r, fl) := y_eval fuel p in
  (tr, y_fin r, fl || match r with EvErrPanic v => wrapped_visible (Some v) | _ => false end).
