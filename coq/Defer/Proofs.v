(** C06 — proofs about the models of Defer/Model.v.

    Main result [partial_agreement]: for every program (any table size, any nesting of calls and
    defer stacks, recursion included) and every fuel, if the run of Y raises none of the flags that
    mark the regions of the known findings then Y and G produce the same trace and the same end.
    The proof is a simulation by induction on the fuel, through the open recursion of the two
    interpreters. *)
From Verif Require Import Defer.Model.

(* ------------------------------------------------------------------ *)
(** * Projections from Y's data to G's *)

Definition pv (v : pval) : base := fst v.
Definition omap (v : option pval) : option base := option_map pv v.

Definition out_pv (o : out pval) : out base :=
  match o with ORet z => ORet z | OPanic v => OPanic (pv v) | OHang => OHang | OFuel => OFuel end.

Definition st_pv (s : status pval) : status base :=
  match s with
  | Fall => Fall | Returned => Returned | Panicked v => Panicked (pv v) | Hung => Hung | NoFuel => NoFuel
  end.

Definition snap (a : yarg) : Z := match a with YVal z => z | YRef _ z => z end.

Definition dproj (d : ydefer) : gdefer :=
  match d with
  | YDFn c a => GDFn c (snap a)
  | YDHost t a => GDHost t (snap a)
  | YDB b => GDB b
  end.

Definition frel (f : yframe) (g : gframe) : Prop :=
  y_vars f = g_vars g /\ omap (y_rv f) = g_rv g /\ map dproj (y_def f) = g_def g /\ y_rec f = None.

(** the callee interface: what a call does to its caller, seen from both sides *)
Definition call_sim (cy : nat -> Z -> yanc -> ycres) (cg : nat -> Z -> list Z -> option base -> gcres) : Prop :=
  forall c a anc tr anc' o,
    cy c a anc = (tr, anc', o, false) ->
    cg c a (a_vars anc) (omap (a_rec anc)) = (tr, a_vars anc', omap (a_rec anc'), out_pv o)
    /\ (a_rec anc = None -> a_rec anc' = None).

Lemma show_unwrapped r : wrapped_visible r = false -> show_y r = show_g (omap r).
Proof.
  destruct r as [[b [|[|d]]]|]; simpl; try reflexivity; try discriminate.
  destruct b; simpl; try reflexivity; discriminate.
Qed.

Lemma orb_false_l2 a b : a || b = false -> a = false /\ b = false.
Proof. apply orb_false_iff. Qed.

(* ------------------------------------------------------------------ *)
(** * Statements and bodies *)

Lemma stmt_sim p cy cg self s f anc g f' anc' tr st :
  call_sim cy cg -> frel f g ->
  y_stmt p cy self s f anc = (f', anc', tr, false, st) ->
  exists g',
    g_stmt cg s g (a_vars anc) (omap (a_rec anc)) = (g', a_vars anc', omap (a_rec anc'), tr, st_pv st)
    /\ frel f' g' /\ (a_rec anc = None -> a_rec anc' = None).
Proof.
  intros Hc (Hv & Hrv & Hd & Hr) H.
  destruct s; cbn [y_stmt g_stmt] in *.
  - (* SPrint *)
    destruct v as [[i|i]|]; inversion H; subst; eexists; (split; [|split; [repeat split; eassumption|tauto]]);
      cbn [y_read g_read]; rewrite <- ?Hv; reflexivity.
  - (* SSet *)
    destruct v as [i|i]; inversion H; subst; cbn.
    + eexists; split; [rewrite <- Hv; reflexivity|]. split; [repeat split; cbn; auto|tauto].
    + eexists; split; [reflexivity|]. split; [repeat split; auto|tauto].
  - (* SDefer *)
    destruct (y_defer_lost p self f0); inversion H; subst.
    eexists; split; [reflexivity|]. split; [|tauto].
    repeat split; cbn; auto. rewrite <- Hd. f_equal.
    destruct a; cbn; [reflexivity|]. unfold g_arg. rewrite <- Hv. reflexivity.
  - (* SDeferLoop *)
    destruct (y_defer_lost p self f0).
    + inversion H; subst. apply negb_false_iff, Nat.eqb_eq in H4. subst n.
      eexists; split; [reflexivity|]. split; [|tauto]. repeat split; cbn; auto.
    + inversion H; subst. eexists; split; [reflexivity|]. split; [|tauto].
      repeat split; cbn; auto. rewrite map_app, Hd. f_equal.
      rewrite map_rev, map_map. reflexivity.
  - (* SDeferHost *)
    inversion H; subst. eexists; split; [reflexivity|]. split; [|tauto].
    repeat split; cbn; auto. rewrite <- Hd. f_equal.
    destruct a; cbn; [reflexivity|]. unfold g_arg. rewrite <- Hv. reflexivity.
  - (* SDeferB *)
    inversion H; subst. eexists; split; [reflexivity|]. split; [|tauto].
    repeat split; cbn; auto. rewrite <- Hd. reflexivity.
  - (* SPanic *)
    inversion H; subst. eexists; split; [reflexivity|]. split; [repeat split; auto|tauto].
  - (* SCall *)
    destruct (cy f0 (y_arg f a) (anc_of f)) as [[[ctr a'] o] fl] eqn:E.
    assert (fl = false) by (destruct o; inversion H; reflexivity). subst fl.
    apply Hc in E. destruct E as [E Hnone]. cbn [anc_of a_vars a_rec] in E, Hnone.
    rewrite Hr in E. cbn [omap option_map] in E.
    assert (Harg : g_arg g a = y_arg f a) by (destruct a; cbn; [reflexivity|rewrite Hv; reflexivity]).
    rewrite Harg, <- Hv, E.
    specialize (Hnone Hr).
    destruct o; inversion H; subst; cbn [out_pv st_pv];
      (eexists; split; [reflexivity|]; split; [|tauto]);
      (repeat split; cbn; auto).
  - (* SRecover *)
    inversion H; subst. rewrite (show_unwrapped _ H4).
    eexists; split; [reflexivity|]. split; [repeat split; cbn; auto|auto].
  - (* SRepanic *)
    destruct (y_rv f) as [[b d]|] eqn:E; inversion H; subst; cbn in Hrv; rewrite <- Hrv;
      (eexists; split; [reflexivity|]; split; [repeat split; cbn; auto; rewrite E; assumption|tauto]).
  - (* SRecoverLoop *)
    destruct (a_rec anc) as [v|] eqn:E; inversion H; subst.
    eexists; split; [reflexivity|]. split; [repeat split; auto|auto].
  - (* SCallClosure *)
    inversion H; subst.
    eexists; split; [reflexivity|]. split; [repeat split; auto|tauto].
  - (* SReturn *)
    destruct z; inversion H; subst; (eexists; split; [try rewrite <- Hv; reflexivity|]; split; [repeat split; cbn; auto|tauto]).
Qed.

Lemma body_sim p cy cg self ss : forall f anc g f' anc' tr st,
  call_sim cy cg -> frel f g ->
  y_body p cy self ss f anc = (f', anc', tr, false, st) ->
  exists g',
    g_body cg ss g (a_vars anc) (omap (a_rec anc)) = (g', a_vars anc', omap (a_rec anc'), tr, st_pv st)
    /\ frel f' g' /\ (a_rec anc = None -> a_rec anc' = None).
Proof.
  induction ss as [|s rest IH]; intros f anc g f' anc' tr st Hc Hf H; cbn [y_body g_body] in *.
  - inversion H; subst. eexists; split; [reflexivity|]. split; [assumption|tauto].
  - destruct (y_stmt p cy self s f anc) as [[[[f1 anc1] tr1] fl1] st1] eqn:E1.
    assert (fl1 = false /\ (st1 = Fall -> exists f2 anc2 tr2 st2, y_body p cy self rest f1 anc1 = (f2, anc2, tr2, false, st2)
                                          /\ f' = f2 /\ anc' = anc2 /\ tr = tr1 ++ tr2 /\ st = st2)
            /\ (st1 <> Fall -> f' = f1 /\ anc' = anc1 /\ tr = tr1 /\ st = st1)) as (Hfl & Hfall & Hstop).
    { destruct st1.
      - destruct (y_body p cy self rest f1 anc1) as [[[[f2 anc2] tr2] fl2] st2] eqn:E2.
        inversion H; subst. apply orb_false_iff in H4. destruct H4; subst.
        split; [reflexivity|]. split; [|congruence]. intros _. do 4 eexists. split; [reflexivity|]. auto.
      - inversion H; subst. split; [reflexivity|]. split; [discriminate|]. auto.
      - inversion H; subst. split; [reflexivity|]. split; [discriminate|]. auto.
      - inversion H; subst. split; [reflexivity|]. split; [discriminate|]. auto.
      - inversion H; subst. split; [reflexivity|]. split; [discriminate|]. auto. }
    subst fl1.
    destruct (stmt_sim _ _ _ _ _ _ _ _ _ _ _ _ Hc Hf E1) as (g1 & G1 & Hf1 & Hn1).
    rewrite G1.
    destruct st1; cbn [st_pv].
    + destruct (Hfall eq_refl) as (f2 & anc2 & tr2 & st2 & E2 & -> & -> & -> & ->).
      destruct (IH _ _ _ _ _ _ _ Hc Hf1 E2) as (g2 & G2 & Hf2 & Hn2).
      rewrite G2. eexists; split; [reflexivity|]. split; [assumption|auto].
    + destruct Hstop as (-> & -> & -> & ->); [discriminate|]. eexists; split; [reflexivity|]. auto.
    + destruct Hstop as (-> & -> & -> & ->); [discriminate|]. eexists; split; [reflexivity|]. auto.
    + destruct Hstop as (-> & -> & -> & ->); [discriminate|]. eexists; split; [reflexivity|]. auto.
    + destruct Hstop as (-> & -> & -> & ->); [discriminate|]. eexists; split; [reflexivity|]. auto.
Qed.

(* ------------------------------------------------------------------ *)
(** * Deferred calls *)

Lemma arg_now_snap vs a : y_arg_moved vs a = false -> y_arg_now vs a = snap a.
Proof.
  destruct a; cbn; [reflexivity|]. intros H. apply negb_false_iff, Z.eqb_eq in H. assumption.
Qed.

Lemma run_deferred_sim cy cg d fa tr fa' o :
  call_sim cy cg ->
  y_run_deferred cy d fa = (tr, fa', o, false) ->
  g_run_deferred cg (dproj d) (a_vars fa) (omap (a_rec fa)) = (tr, a_vars fa', omap (a_rec fa'), out_pv o).
Proof.
  intros Hc H. destruct d as [c a|t a|[|]]; cbn [y_run_deferred g_run_deferred dproj] in *.
  - destruct (cy c (y_arg_now (a_vars fa) a) fa) as [[[ctr f1] o1] fl] eqn:E.
    inversion H; subst. apply orb_false_iff in H4. destruct H4 as [-> Hm].
    rewrite <- (arg_now_snap _ _ Hm). apply Hc in E. apply E.
  - inversion H; subst. rewrite (arg_now_snap _ _ H4). reflexivity.
  - destruct (getv (a_vars fa) v_chan =? 1)%Z; inversion H; subst; reflexivity.
  - inversion H; subst; reflexivity.
Qed.

(** Under the side condition the loop of runCfg does what Go prescribes: if it ends normally every
    entry ran; if a deferred call panics, it was the last entry, and Go's loop ends there too with
    that panic as the current one. *)
Lemma defers_sim cy cg ds : forall fa tr fa' o,
  call_sim cy cg ->
  y_defers cy ds fa = (tr, fa', o, false) ->
  match o with
  | ORet _ => g_defers cg (map dproj ds) (a_vars fa) (omap (a_rec fa)) = (tr, a_vars fa', omap (a_rec fa'), false, false)
  | OPanic v => exists vs, g_defers cg (map dproj ds) (a_vars fa) (omap (a_rec fa)) = (tr, vs, Some (pv v), false, false)
  | OHang => exists vs cur, g_defers cg (map dproj ds) (a_vars fa) (omap (a_rec fa)) = (tr, vs, cur, true, false)
  | OFuel => exists vs cur, g_defers cg (map dproj ds) (a_vars fa) (omap (a_rec fa)) = (tr, vs, cur, true, true)
  end.
Proof.
  induction ds as [|d rest IH]; intros fa tr fa' o Hc H; cbn [y_defers g_defers map] in *.
  - inversion H; subst. reflexivity.
  - destruct (y_run_deferred cy d fa) as [[[tr1 f1] o1] fl1] eqn:E1.
    destruct o1.
    + destruct (y_defers cy rest f1) as [[[tr2 f2] o2] fl2] eqn:E2.
      inversion H; subst. apply orb_false_iff in H4. destruct H4 as [-> ->].
      rewrite (run_deferred_sim _ _ _ _ _ _ _ Hc E1). cbn [out_pv].
      specialize (IH _ _ _ _ Hc E2).
      destruct o; [rewrite IH; reflexivity| | |].
      * destruct IH as (vs & IH); rewrite IH; eexists; reflexivity.
      * destruct IH as (vs & cur & IH); rewrite IH; do 2 eexists; reflexivity.
      * destruct IH as (vs & cur & IH); rewrite IH; do 2 eexists; reflexivity.
    + inversion H; subst. apply orb_false_iff in H4. destruct H4 as [-> Hrest].
      destruct rest; [|discriminate].
      rewrite (run_deferred_sim _ _ _ _ _ _ _ Hc E1). cbn. eexists; rewrite app_nil_r; reflexivity.
    + inversion H; subst. rewrite (run_deferred_sim _ _ _ _ _ _ _ Hc E1). cbn. do 2 eexists; reflexivity.
    + inversion H; subst. rewrite (run_deferred_sim _ _ _ _ _ _ _ Hc E1). cbn. do 2 eexists; reflexivity.
Qed.

(** [recovered] can only be cleared by the deferred calls, never set *)
Lemma run_deferred_none cy cg d fa tr fa' o :
  call_sim cy cg -> y_run_deferred cy d fa = (tr, fa', o, false) -> a_rec fa = None -> a_rec fa' = None.
Proof.
  intros Hc H Hn. destruct d as [c a|t a|[|]]; cbn [y_run_deferred] in H.
  - destruct (cy c (y_arg_now (a_vars fa) a) fa) as [[[ctr f1] o1] fl] eqn:E.
    inversion H; subst. apply orb_false_iff in H4. destruct H4 as [-> _].
    apply Hc in E. apply E. assumption.
  - inversion H; subst; assumption.
  - destruct (getv (a_vars fa) v_chan =? 1)%Z; inversion H; subst; assumption.
  - inversion H; subst; assumption.
Qed.

(* ------------------------------------------------------------------ *)
(** * One function, then the whole recursion *)

Lemma fn_sim p cy cg : call_sim cy cg -> call_sim (y_fn p cy) (g_fn p cg).
Proof.
  intros Hc c a anc tr anc' o H. unfold y_fn, g_fn in *.
  destruct (y_body p cy (fn_kind p c) (fn_body p c) (mky (init_vars a) None [] None false) anc)
    as [[[[f1 anc1] tr1] fl1] st] eqn:EB.
  assert (Hf0 : frel (mky (init_vars a) None [] None false) (mkg (init_vars a) None [])) by (repeat split).
  assert (Hfl1 : fl1 = false).
  { pose proof H as H'.
    destruct st; try (apply (f_equal snd) in H'; cbn [snd] in H'; exact H');
      destruct (y_defers cy (y_def f1) _) as [[[tr2 f2] o2] fl2];
      destruct o2; try destruct (a_rec f2);
      apply (f_equal snd) in H'; cbn [snd] in H'; apply orb_false_iff in H'; tauto. }
  subst fl1.
  destruct (body_sim _ _ _ _ _ _ _ _ _ _ _ _ Hc Hf0 EB) as (g1 & GB & (Hv1 & Hrv1 & Hd1 & Hr1) & Hn1).
  rewrite GB.
  assert (Hmain : forall rec0 : option pval,
    (let '(tr2, f2, o2, fl2) := y_defers cy (y_def f1) (mka (y_vars f1) rec0 true) in
     match o2 with
     | OPanic v => (tr1 ++ tr2, anc1, OPanic v, false || fl2)
     | OHang => (tr1 ++ tr2, anc1, OHang, false || fl2)
     | OFuel => (tr1 ++ tr2, anc1, OFuel, false || fl2)
     | ORet _ => match a_rec f2 with
                 | Some v => (tr1 ++ tr2, anc1, OPanic v, false || fl2)
                 | None => (tr1 ++ tr2, anc1, ORet (getv (a_vars f2) v_res), false || fl2)
                 end
     end) = (tr, anc', o, false) ->
    (let '(tr2, vs2, cur2, ab, fu) := g_defers cg (g_def g1) (g_vars g1) (omap rec0) in
     if ab then (tr1 ++ tr2, a_vars anc1, omap (a_rec anc1), if fu then OFuel else OHang)
     else match cur2 with
          | Some v => (tr1 ++ tr2, a_vars anc1, omap (a_rec anc1), OPanic v)
          | None => (tr1 ++ tr2, a_vars anc1, omap (a_rec anc1), ORet (getv vs2 v_res))
          end) = (tr, a_vars anc', omap (a_rec anc'), out_pv o)).
  { intros rec0 HH.
    destruct (y_defers cy (y_def f1) (mka (y_vars f1) rec0 true)) as [[[tr2 f2] o2] fl2] eqn:ED.
    assert (fl2 = false) by (destruct o2; try destruct (a_rec f2); inversion HH; reflexivity). subst fl2.
    pose proof (defers_sim _ _ _ _ _ _ _ Hc ED) as GD. cbn [a_vars a_rec] in GD.
    rewrite <- Hd1, <- Hv1.
    destruct o2.
    - rewrite GD. destruct (a_rec f2) as [v|] eqn:ER; inversion HH; subst; reflexivity.
    - destruct GD as (vs & GD). rewrite GD. inversion HH; subst; reflexivity.
    - destruct GD as (vs & cur & GD). rewrite GD. inversion HH; subst; reflexivity.
    - destruct GD as (vs & cur & GD). rewrite GD. inversion HH; subst; reflexivity. }
  split.
  - destruct st; cbn [st_pv].
    + apply (Hmain None H).
    + apply (Hmain None H).
    + apply (Hmain (Some v) H).
    + inversion H; subst. reflexivity.
    + inversion H; subst. reflexivity.
  - intros Hnone. specialize (Hn1 Hnone).
    destruct st; try (inversion H; subst; assumption);
      destruct (y_defers cy (y_def f1) _) as [[[tr2 f2] o2] fl2];
      destruct o2; try destruct (a_rec f2); inversion H; subst; assumption.
Qed.

Lemma call_sim_fuel p fuel : call_sim (y_call p fuel) (g_call p fuel).
Proof.
  induction fuel as [|n IH]; cbn [y_call g_call].
  - intros c a anc tr anc' o H. inversion H; subst. split; [reflexivity|auto].
  - apply fn_sim. assumption.
Qed.

(* ------------------------------------------------------------------ *)
(** * C06, partial: outside the flagged regions yaegi's mechanism is Go's semantics *)

(** the property at full strength *)
Definition C06_statement : Prop :=
  forall fuel p, fst (y_run fuel p) = g_run fuel p.

(** decidable side condition: no deferred call panics while other deferred calls of its activation
    remain, no variable passed to a deferred call changes before the call, no re-panicked recovered
    value is displayed, no recover site runs twice after a recovery, no forward-declared function is deferred in a literal. *)
Definition c06_side (fuel : nat) (p : prog) : bool := negb (snd (y_run fuel p)).

Theorem partial_agreement fuel p : c06_side fuel p = true -> fst (y_run fuel p) = g_run fuel p.
Proof.
  unfold c06_side, y_run, y_eval, g_run. intros H.
  destruct (y_call p fuel 0%nat 0%Z root_frame) as [[[tr anc'] o] fl] eqn:E.
  cbn [snd fst] in *. apply negb_true_iff, orb_false_iff in H. destruct H as [-> Hw].
  destruct (call_sim_fuel p fuel _ _ _ _ _ _ E) as [G _]. cbn in G. rewrite G.
  destruct o; cbn [y_fin g_fin out_pv fst]; try reflexivity.
  rewrite (show_unwrapped (Some v) Hw). reflexivity.
Qed.

(** Eval never lets a panic through: it comes back as an error carrying the value *)
Theorem toplevel fuel p tr anc v fl :
  y_call p fuel 0%nat 0%Z root_frame = (tr, anc, OPanic v, fl) ->
  y_eval fuel p = (tr, EvErrPanic v, fl).
Proof. unfold y_eval. intros ->. reflexivity. Qed.

(** and, under the side condition, the value is the one a compiled program dies with *)
Theorem toplevel_value fuel p tr v :
  y_eval fuel p = (tr, EvErrPanic v, false) -> wrapped_visible (Some v) = false ->
  g_run fuel p = (tr, FinPanic (ShBase (pv v))).
Proof.
  intros H Hw. rewrite <- partial_agreement.
  - unfold y_run. rewrite H. cbn [fst y_fin]. rewrite (show_unwrapped (Some v) Hw). reflexivity.
  - unfold c06_side, y_run. rewrite H. cbn [snd orb]. rewrite Hw. reflexivity.
Qed.

Lemma transport fuel p r : g_run fuel p = r -> c06_side fuel p = true -> fst (y_run fuel p) = r.
Proof. intros <- H. apply partial_agreement. assumption. Qed.

(* ------------------------------------------------------------------ *)
(** * Consequences of Go's rules (G), for unbounded families of programs *)

Definition hd (x : N * Z) : stmt := SDeferHost (fst x) (AConst (snd x)).
Definition gh (x : N * Z) : gdefer := GDHost (fst x) (snd x).
Definition eh (x : N * Z) : event := EHost (fst x) (snd x).

Inductive ending := EndFall | EndReturn | EndPanic (b : base).
Definition tail_of (e : ending) : list stmt :=
  match e with EndFall => [] | EndReturn => [SReturn None] | EndPanic b => [SPanic b] end.
Definition fin_of (e : ending) : fin :=
  match e with EndPanic b => FinPanic (ShBase b) | _ => FinOk end.

Lemma g_body_hosts cg ts : forall tail f up pan,
  g_body cg (map hd ts ++ tail) f up pan =
  g_body cg tail (mkg (g_vars f) (g_rv f) (rev (map gh ts) ++ g_def f)) up pan.
Proof.
  induction ts as [|x ts IH]; intros tail f up pan; cbn [map app rev].
  - destruct f; reflexivity.
  - cbn [g_body g_stmt hd]. rewrite IH. cbn [g_push g_vars g_rv g_def g_arg].
    rewrite <- app_assoc. cbn [app]. unfold gh at 3.
    destruct (g_body cg tail _ up pan) as [[[[f2 up2] pan2] tr2] st2]. reflexivity.
Qed.

Lemma g_defers_hosts cg ds : forall rest vs cur,
  g_defers cg (map gh ds ++ rest) vs cur =
  let '(tr, vs', cur', ab, fu) := g_defers cg rest vs cur in (map eh ds ++ tr, vs', cur', ab, fu).
Proof.
  induction ds as [|x ds IH]; intros rest vs cur; cbn [map app].
  - destruct (g_defers cg rest vs cur) as [[[[tr vs'] cur'] ab] fu]. reflexivity.
  - cbn [g_defers g_run_deferred gh]. rewrite IH.
    destruct (g_defers cg rest vs cur) as [[[[tr vs'] cur'] ab] fu]. reflexivity.
Qed.

Lemma g_defers_hosts_only cg ds vs cur :
  g_defers cg (map gh ds) vs cur = (map eh ds, vs, cur, false, false).
Proof.
  rewrite <- (app_nil_r (map gh ds)), g_defers_hosts. cbn. rewrite app_nil_r. reflexivity.
Qed.

(** LIFO, exactly once, on fall-through, on return and on panic: any number of deferred host calls *)
Definition prog_hosts (ts : list (N * Z)) (e : ending) : prog :=
  mkprog false [(KNamed, map hd ts ++ tail_of e)].

Theorem g_defers_lifo ts e fuel :
  g_run (S fuel) (prog_hosts ts e) = (map eh (rev ts), fin_of e).
Proof.
  unfold g_run. cbn [g_call]. unfold g_fn. cbn [fn_body prog_hosts fns nth snd].
  rewrite g_body_hosts. cbn [g_vars g_rv g_def].
  rewrite app_nil_r, <- map_rev.
  destruct e; cbn [tail_of g_body g_stmt g_def g_vars setv];
    rewrite g_defers_hosts_only; cbn; rewrite ?app_nil_r; reflexivity.
Qed.

(** ... also after a deferred call itself panicked: the deferred calls registered before it
    (they run after it) still run, and the new panic is the one that continues *)
Definition prog_deferred_panic (ts1 ts2 : list (N * Z)) (b' : base) (e : ending) : prog :=
  mkprog false [(KNamed, map hd ts1 ++ (SDefer 1 (AConst 0) :: map hd ts2 ++ tail_of e));
                (KNamed, [SPanic b'])].

Theorem g_defers_run_after_deferred_panic ts1 ts2 b' e fuel :
  g_run (S (S fuel)) (prog_deferred_panic ts1 ts2 b' e)
  = (map eh (rev ts2) ++ map eh (rev ts1), FinPanic (ShBase b')).
Proof.
  unfold g_run. cbn [g_call]. unfold g_fn at 1. cbn [fn_body prog_deferred_panic fns nth snd].
  rewrite g_body_hosts. cbn [g_vars g_rv g_def g_body g_stmt g_push g_arg app_nil_r].
  rewrite g_body_hosts. cbn [g_vars g_rv g_def].
  rewrite app_nil_r, <- !map_rev.
  assert (D : forall cur, g_defers (g_fn (prog_deferred_panic ts1 ts2 b' e) (g_call (prog_deferred_panic ts1 ts2 b' e) fuel))
                (map gh (rev ts2) ++ GDFn 1 0 :: map gh (rev ts1)) (init_vars 0) cur
              = (map eh (rev ts2) ++ map eh (rev ts1), init_vars 0, Some b', false, false)).
  { intros cur. rewrite g_defers_hosts. cbn [g_defers g_run_deferred].
    unfold g_fn at 1. cbn [fn_body prog_deferred_panic fns nth snd g_body g_stmt g_defers g_def g_vars app].
    rewrite g_defers_hosts_only. reflexivity. }
  destruct e; cbn [tail_of g_body g_stmt g_def g_vars setv]; rewrite D; cbn; rewrite ?app_nil_r; reflexivity.
Qed.

(** arguments of a deferred call are those of the defer statement *)
Definition prog_arg_fixed (z0 z1 : Z) (t : N) : prog :=
  mkprog false [(KNamed, [SSet (Own 2) z0; SDefer 1 (AOwn 2); SSet (Own 2) z1]);
                (KNamed, [SPrint t (Some (Own 0))])].

Theorem g_args_fixed_at_defer z0 z1 t fuel :
  g_run (S (S fuel)) (prog_arg_fixed z0 z1 t) = ([EPrint t (Some z0)], FinOk).
Proof. reflexivity. Qed.

(** recover: effective when called directly by a deferred function of the panicking activation *)
Definition prog_recover_direct (k : kind) (b : base) : prog :=
  mkprog false [(KNamed, [SDefer 1 (AConst 0); SPanic b; SPrint 9 None]); (k, [SRecover])].

Theorem g_recover_direct k b fuel :
  g_run (S (S fuel)) (prog_recover_direct k b) = ([ERec (ShBase b)], FinOk).
Proof. reflexivity. Qed.

(** ... not in a function called by the deferred function *)
Definition prog_recover_helper (b : base) : prog :=
  mkprog false [(KNamed, [SDefer 1 (AConst 0); SPanic b]); (KLit, [SCall 2 (AConst 0) None]); (KNamed, [SRecover])].

Theorem g_recover_helper b fuel :
  g_run (S (S (S fuel))) (prog_recover_helper b) = ([ERec ShNil], FinPanic (ShBase b)).
Proof. reflexivity. Qed.

(** ... not in a function deferred by the deferred function (it is run by a return, not by the panic) *)
Definition prog_recover_nested_defer (b : base) : prog :=
  mkprog false [(KNamed, [SDefer 1 (AConst 0); SPanic b]); (KLit, [SDefer 2 (AConst 0)]); (KLit, [SRecover])].

Theorem g_recover_nested_defer b fuel :
  g_run (S (S (S fuel))) (prog_recover_nested_defer b) = ([ERec ShNil], FinPanic (ShBase b)).
Proof. reflexivity. Qed.

(** ... not in the body of the panicking function, nor when nothing panics *)
Definition prog_recover_body (b : base) : prog :=
  mkprog false [(KNamed, [SRecover; SDefer 1 (AConst 0); SPanic b]); (KNamed, [SPrint 1 None])].

Theorem g_recover_body b fuel :
  g_run (S (S fuel)) (prog_recover_body b) = ([ERec ShNil; EPrint 1 None], FinPanic (ShBase b)).
Proof. reflexivity. Qed.

(** a recovered function returns its named results, as altered by the deferred function *)
Definition prog_named_result (b : base) (z z' : Z) : prog :=
  mkprog false [(KNamed, [SCall 1 (AConst 0) (Some 7%N)]);
                (KNamed, [SDefer 2 (AConst 0); SSet (Own 1) z; SPanic b]);
                (KLit, [SRecover; SPrint 3 (Some (Up 1)); SSet (Up 1) z'])].

Theorem g_named_result b z z' fuel :
  g_run (S (S (S fuel))) (prog_named_result b z z')
  = ([ERec (ShBase b); EPrint 3 (Some z); ERet 7 z'], FinOk).
Proof. reflexivity. Qed.

(** the same statements hold of yaegi's mechanism wherever the side condition holds *)
Theorem y_defers_lifo ts e fuel :
  c06_side (S fuel) (prog_hosts ts e) = true ->
  fst (y_run (S fuel) (prog_hosts ts e)) = (map eh (rev ts), fin_of e).
Proof. apply transport, g_defers_lifo. Qed.

Theorem y_args_fixed_at_defer z0 z1 t fuel :
  c06_side (S (S fuel)) (prog_arg_fixed z0 z1 t) = true ->
  fst (y_run (S (S fuel)) (prog_arg_fixed z0 z1 t)) = ([EPrint t (Some z0)], FinOk).
Proof. apply transport, g_args_fixed_at_defer. Qed.

Theorem y_recover_only_direct b fuel :
  (forall k, c06_side (S (S (S fuel))) (prog_recover_direct k b) = true ->
             fst (y_run (S (S (S fuel))) (prog_recover_direct k b)) = ([ERec (ShBase b)], FinOk))
  /\ (c06_side (S (S (S fuel))) (prog_recover_helper b) = true ->
      fst (y_run (S (S (S fuel))) (prog_recover_helper b)) = ([ERec ShNil], FinPanic (ShBase b)))
  /\ (c06_side (S (S (S fuel))) (prog_recover_nested_defer b) = true ->
      fst (y_run (S (S (S fuel))) (prog_recover_nested_defer b)) = ([ERec ShNil], FinPanic (ShBase b)))
  /\ (c06_side (S (S (S fuel))) (prog_recover_body b) = true ->
      fst (y_run (S (S (S fuel))) (prog_recover_body b)) = ([ERec ShNil; EPrint 1 None], FinPanic (ShBase b))).
Proof.
  repeat split; intros; apply transport; try assumption; reflexivity.
Qed.

(** and the side condition does hold on them (no vacuity) *)
Theorem side_condition_inhabited :
  c06_side 5 (prog_hosts [(1%N, 10%Z); (2%N, 20%Z); (3%N, 30%Z)] (EndPanic (BInt 7))) = true
  /\ c06_side 5 (prog_arg_fixed 4 4 1%N) = true
  /\ c06_side 5 (prog_recover_direct KLit (BFault FNilMap)) = true
  /\ c06_side 5 (prog_recover_helper (BStr 1)) = true
  /\ c06_side 5 (prog_named_result (BErr 2) 3 4) = true
  /\ fst (y_run 5 (prog_named_result (BErr 2) 3 4))
     = ([ERec (ShBase (BErr 2)); EPrint 3 (Some 3%Z); ERet 7 4%Z], FinOk).
Proof. vm_compute. repeat split. Qed.

(** a deferred call that panics is harmless when it is the last one to run *)
Theorem side_condition_inhabited_last_deferred_panics :
  c06_side 5 (prog_deferred_panic [] [(1%N, 1%Z); (2%N, 2%Z)] (BInt 9) (EndPanic (BInt 1))) = true
  /\ g_run 5 (prog_deferred_panic [] [(1%N, 1%Z); (2%N, 2%Z)] (BInt 9) (EndPanic (BInt 1)))
     = ([EHost 2 2%Z; EHost 1 1%Z], FinPanic (ShBase (BInt 9))).
Proof. vm_compute. split; reflexivity. Qed.

(* ------------------------------------------------------------------ *)
(** * Refutations of the full statement on the faithful model (each replayed on the implementation) *)

(** defer a(); defer b() /* b panics */; panic(1): Go runs a, yaegi does not *)
Definition w_deferred_panic : prog :=
  mkprog false [(KNamed, [SDefer 1 (AConst 0); SDefer 2 (AConst 0); SPanic (BInt 1)]);
                (KNamed, [SPrint 1 None]);
                (KNamed, [SPrint 2 None; SPanic (BStr 2)])].

Theorem deferred_panic_refuted :
  g_run 5 w_deferred_panic = ([EPrint 2 None; EPrint 1 None], FinPanic (ShBase (BStr 2)))
  /\ fst (y_run 5 w_deferred_panic) = ([EPrint 2 None], FinPanic (ShBase (BStr 2)))
  /\ c06_side 5 w_deferred_panic = false.
Proof. vm_compute. repeat split. Qed.

(** for every stack: the entries below a panicking deferred call are lost *)
Theorem deferred_panic_refuted_general ts1 ts2 b' e fuel :
  fst (fst (y_run (S (S fuel)) (prog_deferred_panic ts1 ts2 b' e))) = map eh (rev ts2).
Proof.
  unfold y_run, y_eval. cbn [y_call]. unfold y_fn at 1.
  cbn [fn_body fn_kind prog_deferred_panic fns nth snd fst].
  set (P := prog_deferred_panic ts1 ts2 b' e).
  set (cy := y_fn P (y_call P fuel)).
  assert (B : forall ts tail f anc,
    y_body P cy KNamed (map hd ts ++ tail) f anc =
    y_body P cy KNamed tail
      (mky (y_vars f) (y_rv f) (rev (map (fun x => YDHost (fst x) (YVal (snd x))) ts) ++ y_def f) (y_rec f) (y_locked f)) anc).
  { induction ts as [|x ts IH]; intros tail f anc; cbn [map app rev].
    - destruct f; reflexivity.
    - cbn [y_body y_stmt hd y_mkarg y_push]. rewrite IH. cbn [y_vars y_rv y_def y_rec y_locked].
      rewrite <- app_assoc. cbn [app].
      destruct (y_body P cy KNamed tail _ anc) as [[[[? ?] ?] ?] ?]. reflexivity. }
  assert (D : forall ds rest fa,
    y_defers cy (map (fun x => YDHost (fst x) (YVal (snd x))) ds ++ rest) fa =
    let '(tr, fa', o, fl) := y_defers cy rest fa in (map eh ds ++ tr, fa', o, fl)).
  { induction ds as [|x ds IH]; intros rest fa; cbn [map app].
    - destruct (y_defers cy rest fa) as [[[? ?] ?] ?]. reflexivity.
    - cbn [y_defers y_run_deferred y_arg_now y_arg_moved]. rewrite IH.
      destruct (y_defers cy rest fa) as [[[? ?] ?] ?]. reflexivity. }
  assert (C1 : forall anc, cy 1%nat 0%Z anc = ([], anc, OPanic (b', O), false)).
  { intros anc. unfold cy, y_fn. subst P. reflexivity. }
  subst P. cbn [fn_body fn_kind prog_deferred_panic fns nth snd fst].
  fold (prog_deferred_panic ts1 ts2 b' e). fold cy.
  rewrite B. cbn [y_vars y_rv y_def y_rec y_locked y_body y_stmt y_defer_lost prog_deferred_panic fwd andb y_push y_mkarg].
  rewrite B. cbn [y_vars y_rv y_def y_rec y_locked].
  rewrite app_nil_r, <- !map_rev.
  destruct e; cbn [tail_of y_body y_stmt y_def y_vars setv y_push]; rewrite D;
    cbn [y_defers y_run_deferred y_arg_now y_arg_moved a_vars y_push y_def y_vars]; rewrite C1; cbn; rewrite ?app_nil_r; reflexivity.
Qed.

(** x = 1; defer f(x); x = 2: Go passes 1, yaegi passes 2 — for all values *)
Theorem arg_alias_refuted z0 z1 t fuel :
  z0 <> z1 ->
  fst (y_run (S (S fuel)) (prog_arg_fixed z0 z1 t)) = ([EPrint t (Some z1)], FinOk)
  /\ fst (y_run (S (S fuel)) (prog_arg_fixed z0 z1 t)) <> g_run (S (S fuel)) (prog_arg_fixed z0 z1 t).
Proof.
  intros Hne. split; [reflexivity|]. rewrite g_args_fixed_at_defer.
  change (fst (y_run (S (S fuel)) (prog_arg_fixed z0 z1 t))) with ([EPrint t (Some z1)], FinOk).
  intros H. inversion H. congruence.
Qed.

(** defer func() { r := recover(); panic(r) }() twice around panic(5): Go shows 5, yaegi "<int Value>" *)
Definition w_repanic_wrap : prog :=
  mkprog false [(KNamed, [SDefer 3 (AConst 0); SCall 1 (AConst 0) None]);
                (KNamed, [SDefer 2 (AConst 0); SPanic (BInt 5)]);
                (KLit, [SRecover; SRepanic]);
                (KLit, [SRecover])].

Theorem repanic_wrap_refuted :
  g_run 6 w_repanic_wrap = ([ERec (ShBase (BInt 5)); ERec (ShBase (BInt 5))], FinOk)
  /\ fst (y_run 6 w_repanic_wrap) = ([ERec (ShBase (BInt 5)); ERec ShIntValue], FinOk).
Proof. vm_compute. split; reflexivity. Qed.

(** for j := 0; j < 2; j++ { println(recover()) } in a deferred function: Go 7 then nil, yaegi 7 then 7 *)
Definition w_recover_stale : prog :=
  mkprog false [(KNamed, [SDefer 1 (AConst 0); SPanic (BInt 7)]); (KLit, [SRecoverLoop])].

Theorem recover_stale_refuted :
  g_run 5 w_recover_stale = ([ERec (ShBase (BInt 7)); ERec ShNil], FinOk)
  /\ fst (y_run 5 w_recover_stale) = ([ERec (ShBase (BInt 7)); ERec (ShBase (BInt 7))], FinOk).
Proof. vm_compute. split; reflexivity. Qed.

(** g := func() {...}; defer func() { g() }(): the finding "closure-lock" (yaegi never returned: the
    closure took the mutex that runCfg holds) was repaired in /repo by abe7a69; regression theorems:
    the former witness now runs in Y as in G, inside the side condition, and no call of a closure
    hangs whatever the state of the lock. *)
Definition w_closure_lock : prog :=
  mkprog false [(KNamed, [SDefer 1 (AConst 0); SPrint 1 None]); (KLit, [SCallClosure 2; SPrint 3 None])].

Theorem closure_lock_regression :
  g_run 5 w_closure_lock = ([EPrint 1 None; EClo 2; EPrint 3 None], FinOk)
  /\ fst (y_run 5 w_closure_lock) = ([EPrint 1 None; EClo 2; EPrint 3 None], FinOk)
  /\ c06_side 5 w_closure_lock = true.
Proof. vm_compute. repeat split. Qed.

Theorem closure_call_never_hangs p cy self t f anc :
  y_stmt p cy self (SCallClosure t) f anc = (f, anc, [EClo t], false, Fall).
Proof. reflexivity. Qed.

(** func() { defer later() }() with later declared further down: Go runs it, yaegi does not *)
Definition w_forward_lit : prog :=
  mkprog true [(KNamed, [SCall 1 (AConst 0) None; SPrint 1 None]); (KLit, [SDefer 2 (AConst 4)]);
               (KNamed, [SPrint 2 (Some (Own 0))])].

Theorem forward_lit_refuted :
  g_run 5 w_forward_lit = ([EPrint 2 (Some 4%Z); EPrint 1 None], FinOk)
  /\ fst (y_run 5 w_forward_lit) = ([EPrint 1 None], FinOk).
Proof. vm_compute. split; reflexivity. Qed.

Theorem statement_refuted : ~ C06_statement.
Proof.
  intros H. specialize (H 5%nat w_deferred_panic).
  destruct deferred_panic_refuted as (G & Y & _). rewrite G, Y in H. discriminate.
Qed.
