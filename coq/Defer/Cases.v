(** Evaluation of the C06 models on the cases written by the harness (correspondence check).
    [c06_mis_y]: ids of the cases where the output observed from yaegi differs from Y, or where a
                 main-stream case lies in the region of a known finding according to the model;
    [c06_mis_g]: ids of the cases where the output of the compiled program differs from G. *)
From Verif Require Import Defer.Model.

Definition base_eqb := shown_eqb_base.

Definition shown_eqb (a b : shown) : bool :=
  match a, b with
  | ShNil, ShNil | ShIntValue, ShIntValue | ShErrValue, ShErrValue | ShIfaceValue, ShIfaceValue => true
  | ShBase x, ShBase y => base_eqb x y
  | _, _ => false                      (* ShJunk never matches *)
  end.

Definition optz_eqb (a b : option Z) : bool :=
  match a, b with
  | None, None => true
  | Some x, Some y => (x =? y)%Z
  | _, _ => false
  end.

Definition event_eqb (a b : event) : bool :=
  match a, b with
  | EPrint t v, EPrint t' v' => (t =? t')%N && optz_eqb v v'
  | ERec s, ERec s' => shown_eqb s s'
  | ERet t z, ERet t' z' => (t =? t')%N && (z =? z')%Z
  | EHost t z, EHost t' z' => (t =? t')%N && (z =? z')%Z
  | EClo t, EClo t' => (t =? t')%N
  | _, _ => false                      (* EJunk never matches *)
  end.

Fixpoint events_eqb (a b : list event) : bool :=
  match a, b with
  | [], [] => true
  | x :: a', y :: b' => event_eqb x y && events_eqb a' b'
  | _, _ => false
  end.

Definition fin_eqb (a b : fin) : bool :=
  match a, b with
  | FinOk, FinOk | FinHang, FinHang => true
  | FinPanic s, FinPanic s' => shown_eqb s s'
  | _, _ => false                      (* FinFuel, FinOther never match *)
  end.

Definition carrier_eqb (a b : option (nat * vkind)) : bool :=
  match a, b with
  | None, None => true
  | Some (n, k), Some (n', k') =>
      Nat.eqb n n' && match k, k' with
                      | VkInt, VkInt | VkStr, VkStr | VkErr, VkErr | VkFault, VkFault => true
                      | _, _ => false            (* VkOther never matches *)
                      end
  | _, _ => false
  end.

(** call depth is bounded by the table size in generated cases *)
Definition c06_fuel : nat := 40.

(** id, aimed at a known-finding region, program, observed from yaegi, observed from compiled Go *)
Definition c06_case := (N * bool * prog * (list event * fin * option (nat * vkind)) * (list event * fin))%type.

Definition c06_mis_y (cs : list c06_case) : list N :=
  flat_map (fun '(id, region, p, (itr, ifin, icar), _) =>
    let '(tr, fn, fl) := y_run c06_fuel p in
    let '(_, r, _) := y_eval c06_fuel p in
    if events_eqb tr itr && fin_eqb fn ifin && carrier_eqb (y_carrier r) icar && (region || negb fl) then [] else [id]) cs.

Definition c06_mis_g (cs : list c06_case) : list N :=
  flat_map (fun '(id, _, p, _, (rtr, rfin)) =>
    let '(tr, fn) := g_run c06_fuel p in
    if events_eqb tr rtr && fin_eqb fn rfin then [] else [id]) cs.
