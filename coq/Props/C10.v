(** C10 — A cancelled evaluation does not damage earlier definitions.
    Only theorem statements, each closed by [exact] of a lemma of Cancel/Proofs.v.
    Same machine as C09 (Cancel/Model.v); histories and their compilation to actions of the
    machine are in Cancel/Cases.v ([y_hist]); G = "as before any cancellation" ([g_hist], and the
    generation-free loop [grun] for whole function bodies). *)
From Verif Require Import Cancel.Model Cancel.Cases Cancel.Proofs.

(** The property at full strength (false of the faithful model today): for every history of
    redefinitions, uses and cancelled evaluations every use yields what it yielded before. *)
Definition C10_statement : Prop := C10_contract.

(** Named functions, methods and method values used through a later Eval / EvalWithContext:
    all histories (any number and kind of cancelled evaluations, in any order). *)
Theorem C10_named_partial : forall h st, uses_ok is_named h (y_hist st h).
Proof. exact named_partial. Qed.
Print Assumptions C10_named_partial.

Theorem C10_named_side_condition_inhabited :
  y_hist start10 [HCancel CBusy; HUse KNamed VEval; HCancel CBlocked; HUse KMethod VEvalCtx; HCancel CExpRan; HUse KMethVal VEval]
  = [true; true; true].
Proof. exact named_partial_inhabited. Qed.
Print Assumptions C10_named_side_condition_inhabited.

(** The same for whole programs: every table F, every set S of functions that compute, call each
    other, branch, loop and start goroutines (no function values, nothing blocking), every history h
    before the use, every program p over S and all data (oracle bits bs): the use performs exactly
    the operations the generation-free loop G performs. *)
Theorem C10_named_programs :
  forall F S h p bs,
    basic_set F S = true -> Forall (fun ph => In (phase_fn ph) S) p ->
    out (solo F (do_action F (run F fresh h) (AExecute p)) (length (threads (run F fresh h))) bs)
    = grun F ([], false, p) bs ++ out (run F fresh h).
Proof. exact named_use. Qed.
Print Assumptions C10_named_programs.

(** Refutations, replayed on the implementation (regions "closure-after-cancel",
    "hostheld-between", "plain-eval-chan"). *)
Theorem C10_closure_refuted :
  y_hist start10 [HUse KClosVar VEval; HCancel CBusy; HUse KClosVar VEval; HUse KClosVar VHost; HUse KNamed VEval; HUse KClosVar VEval]
  = [true; false; false; true; false].
Proof. exact closure_refuted. Qed.
Print Assumptions C10_closure_refuted.

Theorem C10_hostheld_refuted :
  y_hist start10 [HUse KNamed VHost; HCancel CBusy; HUse KNamed VHost; HUse KMethod VHost; HUse KNamed VEval; HUse KNamed VHost]
  = [true; false; false; true; true].
Proof. exact hostheld_refuted. Qed.
Print Assumptions C10_hostheld_refuted.

Theorem C10_plaineval_chan_refuted :
  y_hist start10 [HUse KChanFn VEval; HCancel CBusy; HUse KChanFn VEval; HUse KChanFn VEvalCtx; HUse KChanFn VEval]
  = [true; false; true; true].
Proof. exact plaineval_chan_refuted. Qed.
Print Assumptions C10_plaineval_chan_refuted.

Theorem C10_statement_refuted : ~ C10_statement.
Proof. exact c10_contract_refuted. Qed.
Print Assumptions C10_statement_refuted.

(** Generated state. The history model and C10_named_partial rest on the fact that a statement keeps
    nothing from its executions: a blocking operation selects on the cancellation channel of the
    frame that executes it (Model.exec, [Block]; run.go _select copies the case vector and writes
    f.done into the copy at every execution). Stated for the select vector: with the
    implementation's design every execution uses its own channel; with a capture at the first
    execution all later executions keep the first one — the closed channel of the cancelled
    evaluation if the definition was first executed there, whence zero values for ever. The
    correspondence exercises exactly that order (cancel kind CInDef in cold sessions). *)
Theorem C10_generated_state_independent : forall s ds, sel_run false s ds = ds.
Proof. exact select_state_independent. Qed.
Print Assumptions C10_generated_state_independent.

Theorem C10_capture_at_first_execution_breaks :
  forall ds d, sel_run true (mkSel None) (d :: ds) = d :: map (fun _ => d) ds.
Proof. exact select_once_keeps_first. Qed.
Print Assumptions C10_capture_at_first_execution_breaks.

(** a definition first executed inside the cancelled evaluation behaves as before afterwards *)
Theorem C10_first_executed_when_cancelled :
  y_hist start10 [HCancel CInDef; HUse KChanFn VEvalCtx; HUse KNamed VEval; HUse KChanFn VEvalCtx; HCancel CBusy; HUse KChanFn VEvalCtx]
  = [true; true; true; true].
Proof. exact first_executed_when_cancelled. Qed.
Print Assumptions C10_first_executed_when_cancelled.
