(** C05 — Method calls and interface operations dispatch as in compiled Go.
    Only theorem statements, each closed by [exact] of a lemma of Disp/Proofs.v.

    Y = yaegi's mechanism (depth-first lookupField / lookupMethod2, methodDepth comparison,
    name-keyed methods(), typeAssert, _case);  G = the Go specification (shallowest depth with
    ambiguity, method sets of T and *T, implements, assertion / switch on the dynamic type).
    All theorems quantify over arbitrary universes of declared types: any number of types, any
    embedding depth, embedded pointers and cycles through them included. *)
From Verif Require Import Lib.Str Disp.Model Disp.Proofs.
From Coq Require Import NArith.

(** The property at full strength (false of the faithful model today, see the [_refuted] theorems):
    on every legal selector yaegi resolves what Go resolves, every two-result assertion to an
    interface answers as in Go, every type switch takes Go's clause. *)
Definition C05_statement : Prop :=
  (forall U t name, g_select U t name <> RAmbig -> y_select U t name = g_select U t name)
  /\ (forall U srcm d j f, y_assert U SrcIface srcm d (TIface j) f = g_assert U d (TIface j) f)
  /\ (forall U d cases, y_switch d cases = g_switch U d cases).

(** Selectors: whenever the first hit of yaegi's depth-first search lies at Go's (shallowest) depth
    and no struct-typed field is a plain named field, both resolve the same field or method
    through the same path. *)
Theorem C05_lookup_partial :
  forall U t name,
    no_named_struct_fields U = true -> dfs_first_is_shallowest U t name = true ->
    y_select U t name = g_select U t name.
Proof. exact lookup_agree. Qed.
Print Assumptions C05_lookup_partial.

Theorem C05_lookup_side_condition_inhabited :
  no_named_struct_fields U_ok = true
  /\ dfs_first_is_shallowest U_ok 2 (s "M") = true /\ g_select U_ok 2 (s "M") = RSel (SMethod [0] (mkM (s "M") true 0 3))
  /\ dfs_first_is_shallowest U_ok 2 (s "P") = true /\ g_select U_ok 2 (s "P") = RSel (SMethod [0; 0] (mkM (s "P") true 0 2))
  /\ dfs_first_is_shallowest U_ok 2 (s "Y") = true /\ g_select U_ok 2 (s "Y") = RSel (SField [0; 0; 1])
  /\ dfs_first_is_shallowest U_ok 2 (s "X") = true /\ g_select U_ok 2 (s "X") = RSel (SField [0; 1]).
Proof. exact lookup_side_inhabited. Qed.
Print Assumptions C05_lookup_side_condition_inhabited.

(** type C struct{B; D}, B embeds A, A and D both declare M and X: Go picks D's (depth 1),
    yaegi picks A's through B (depth 2). *)
Theorem C05_lookup_refuted :
  (y_select U_depth 3 (s "M") = RSel (SMethod [0; 0] (mkM (s "M") false 0 10))
   /\ g_select U_depth 3 (s "M") = RSel (SMethod [1] (mkM (s "M") false 0 20)))
  /\ (y_select U_depth 3 (s "X") = RSel (SField [0; 0; 0]) /\ g_select U_depth 3 (s "X") = RSel (SField [1; 0]))
  /\ no_named_struct_fields U_depth = true /\ dfs_first_is_shallowest U_depth 3 (s "M") = false.
Proof. exact lookup_refuted. Qed.
Print Assumptions C05_lookup_refuted.

(** lookupField descends into struct-typed fields that are not embedded. *)
Theorem C05_named_field_refuted :
  y_select U_named 2 (s "X") = RSel (SField [0; 0]) /\ g_select U_named 2 (s "X") = RSel (SField [1; 0])
  /\ dfs_first_is_shallowest U_named 2 (s "X") = true /\ no_named_struct_fields U_named = false.
Proof. exact named_field_refuted. Qed.
Print Assumptions C05_named_field_refuted.

(** A field at depth d hides a method of the same name at depth d+1; yaegi reports an ambiguity. *)
Theorem C05_field_method_refuted :
  y_select U_fm 1 (s "X") = RAmbig /\ g_select U_fm 1 (s "X") = RSel (SField [0]).
Proof. exact field_method_refuted. Qed.
Print Assumptions C05_field_method_refuted.

(** Structs embedding pointers to each other: a method selector sends lookupBinField into unbounded recursion. *)
Theorem C05_embed_cycle_refuted :
  y_select U_cycle 0 (s "M") = RCrash /\ g_select U_cycle 0 (s "M") = RSel (SMethod [] (mkM (s "M") false 0 1))
  /\ y_select U_cycle 0 (s "X") = RSel (SField [1]).
Proof. exact embed_cycle_refuted. Qed.
Print Assumptions C05_embed_cycle_refuted.

(** Method sets: the method names yaegi attributes to a struct type always contain Go's method set
    of T and of *T (methods() visits every type reachable through embedded fields) ... *)
Theorem C05_methodset :
  forall U t ptr nm,
    wf U = true -> t < length (structs U) -> In nm (g_method_names U t ptr) -> In nm (y_method_names U t).
Proof. exact methodset_over. Qed.
Print Assumptions C05_methodset.

(** ... and the two sets are equal when every name yaegi finds is, for Go, a method of that method set
    (no name shadowed by a field, ambiguous, or needing an addressable receiver). *)
Theorem C05_methodset_partial :
  forall U t ptr nm,
    wf U = true -> t < length (structs U) -> names_agree U t ptr = true ->
    (In nm (y_method_names U t) <-> In nm (g_method_names U t ptr)).
Proof. exact methodset_agree. Qed.
Print Assumptions C05_methodset_partial.

(** Two-result assertion of a non-nil interpreted value to an interface type: as in Go when equal
    names carry equal signatures and the name sets agree. *)
Theorem C05_assert_partial :
  forall U t ptr j srcm,
    wf U = true -> t < length (structs U) -> sig_consistent U = true -> names_agree U t ptr = true ->
    y_assert U SrcIface srcm (Some (t, ptr)) (TIface j) A2 = g_assert U (Some (t, ptr)) (TIface j) A2.
Proof. exact assert_agree. Qed.
Print Assumptions C05_assert_partial.

Theorem C05_assert_side_condition_inhabited :
  wf U_assert = true /\ sig_consistent (mkU (structs U_assert) (firstn 2 (ifaces U_assert))) = true
  /\ names_agree U_assert 1 true = true
  /\ g_assert U_assert (Some (1, true)) (TIface 1) A2 = ATrue /\ g_assert U_assert (Some (0, false)) (TIface 0) A2 = ATrue
  /\ names_agree U_assert 0 true = true /\ y_method_names U_assert 1 = [s "M"; s "P"].
Proof. exact assert_side_inhabited. Qed.
Print Assumptions C05_assert_side_condition_inhabited.

(** A value of type B (embedding A by value, P declared on *A) is not a J{M;P}; yaegi says it is. *)
Theorem C05_assert_methodset_refuted :
  y_assert U_assert SrcIface [(s "M", 0%N)] (Some (1, false)) (TIface 1) A2 = ATrue
  /\ g_assert U_assert (Some (1, false)) (TIface 1) A2 = AFalse
  /\ names_agree U_assert 1 false = false /\ sig_consistent (mkU (structs U_assert) (firstn 2 (ifaces U_assert))) = true.
Proof. exact assert_methodset_refuted. Qed.
Print Assumptions C05_assert_methodset_refuted.

(** M(k int) satisfies interface{ M() } for yaegi: the first parameter is stripped as if it were the receiver. *)
Theorem C05_assert_sig_refuted :
  y_assert U_sig SrcIface [] (Some (0, false)) (TIface 0) A2 = ATrue
  /\ g_assert U_sig (Some (0, false)) (TIface 0) A2 = AFalse
  /\ sig_consistent U_sig = false /\ names_agree U_sig 0 false = true.
Proof. exact assert_sig_refuted. Qed.
Print Assumptions C05_assert_sig_refuted.

(** One-result form: a failing assertion does not panic (the first use of the result does). *)
Theorem C05_assert1_refuted :
  y_assert U_assert SrcIface [] (Some (0, false)) (TIface 2) A1 = ALate
  /\ g_assert U_assert (Some (0, false)) (TIface 2) A1 = APanic.
Proof. exact assert1_refuted. Qed.
Print Assumptions C05_assert1_refuted.

(** Two-result assertion of a nil interface value to an interface type panics. *)
Theorem C05_assert_nil_refuted :
  y_assert U_assert SrcIface [] None (TIface 0) A2 = APanic /\ g_assert U_assert None (TIface 0) A2 = AFalse.
Proof. exact assert_nil_refuted. Qed.
Print Assumptions C05_assert_nil_refuted.

(** i.(T) with T reaching a pointer-receiver method through an embedded pointer is rejected at compile time. *)
Theorem C05_assert_static_refuted :
  y_assert U_static SrcIface [(s "N", 0%N)] (Some (1, false)) (TStruct 1) A2 = AOther
  /\ g_assert U_static (Some (1, false)) (TStruct 1) A2 = ATrue /\ g_implements U_static 1 false 0 = true.
Proof. exact assert_static_refuted. Qed.
Print Assumptions C05_assert_static_refuted.

(** Type switches whose clauses name concrete types take Go's clause, for every dynamic type and clause list. *)
Theorem C05_switch_partial :
  forall U d cases, forallb concrete_target cases = true -> y_switch d cases = g_switch U d cases.
Proof. exact switch_agree. Qed.
Print Assumptions C05_switch_partial.

(** Clauses naming an interface type, and [case nil], are never taken for interpreted values. *)
Theorem C05_switch_refuted :
  y_switch (Some (3, false)) [TIface 0; TStruct 3] = 1 /\ g_switch U_depth (Some (3, false)) [TIface 0; TStruct 3] = 0
  /\ y_switch None [TNil] = 1 /\ g_switch U_depth None [TNil] = 0.
Proof. exact switch_refuted. Qed.
Print Assumptions C05_switch_refuted.
