(** C05 — Method calls and interface operations dispatch as in compiled Go.
    Only theorem statements, each closed by [exact] of a lemma of Disp/Proofs.v.

    Y = yaegi's mechanism (depth-first lookupField / lookupMethod2, methodDepth comparison,
    name-keyed methods(), typeAssert, _case);  G = the Go specification (shallowest depth with
    ambiguity, method sets of T and *T, implements, assertion / switch on the dynamic type).
    All theorems quantify over arbitrary universes of declared types: any number of types, any
    embedding depth, embedded pointers and cycles through them included. *)
From Verif Require Import Lib.Str Disp.Model Disp.Proofs Disp.Host Disp.HostProofs.
From Verif Require Import gen.MapTypes_gen.
From Coq Require Import NArith.

(** The property at full strength (false of the faithful model today, see the [_refuted] theorems):
    on every legal selector yaegi resolves what Go resolves, every two-result assertion to an
    interface answers as in Go, every type switch takes Go's clause. *)
Definition C05_statement : Prop :=
  (forall U t name, g_select U t name <> RAmbig -> y_select U t name = g_select U t name)
  /\ (forall U srcm d j f, y_assert U SrcIface srcm d (TIface j) f = g_assert U d (TIface j) f)
  /\ (forall U d cases, y_switch d cases = g_switch U d cases).

(** Selectors: whenever the first hit of yaegi's depth-first search lies at Go's (shallowest) depth
    and no struct-typed field is a plain named field, both resolve the same field or method
    through the same path. *)
Theorem C05_lookup_partial :
  forall U t name,
    no_named_struct_fields U = true -> dfs_first_is_shallowest U t name = true ->
    y_select U t name = g_select U t name.
Proof. exact lookup_agree. Qed.
Print Assumptions C05_lookup_partial.

Theorem C05_lookup_side_condition_inhabited :
  no_named_struct_fields U_ok = true
  /\ dfs_first_is_shallowest U_ok 2 (s "M") = true /\ g_select U_ok 2 (s "M") = RSel (SMethod [0] (mkM (s "M") true 0 3))
  /\ dfs_first_is_shallowest U_ok 2 (s "P") = true /\ g_select U_ok 2 (s "P") = RSel (SMethod [0; 0] (mkM (s "P") true 0 2))
  /\ dfs_first_is_shallowest U_ok 2 (s "Y") = true /\ g_select U_ok 2 (s "Y") = RSel (SField [0; 0; 1])
  /\ dfs_first_is_shallowest U_ok 2 (s "X") = true /\ g_select U_ok 2 (s "X") = RSel (SField [0; 1]).
Proof. exact lookup_side_inhabited. Qed.
Print Assumptions C05_lookup_side_condition_inhabited.

(** type C struct{B; D}, B embeds A, A and D both declare M and X: Go picks D's (depth 1),
    yaegi picks A's through B (depth 2). *)
Theorem C05_lookup_refuted :
  (y_select U_depth 3 (s "M") = RSel (SMethod [0; 0] (mkM (s "M") false 0 10))
   /\ g_select U_depth 3 (s "M") = RSel (SMethod [1] (mkM (s "M") false 0 20)))
  /\ (y_select U_depth 3 (s "X") = RSel (SField [0; 0; 0]) /\ g_select U_depth 3 (s "X") = RSel (SField [1; 0]))
  /\ no_named_struct_fields U_depth = true /\ dfs_first_is_shallowest U_depth 3 (s "M") = false.
Proof. exact lookup_refuted. Qed.
Print Assumptions C05_lookup_refuted.

(** lookupField descends into struct-typed fields that are not embedded. *)
Theorem C05_named_field_refuted :
  y_select U_named 2 (s "X") = RSel (SField [0; 0]) /\ g_select U_named 2 (s "X") = RSel (SField [1; 0])
  /\ dfs_first_is_shallowest U_named 2 (s "X") = true /\ no_named_struct_fields U_named = false.
Proof. exact named_field_refuted. Qed.
Print Assumptions C05_named_field_refuted.

(** A field at depth d hides a method of the same name at depth d+1; yaegi reports an ambiguity. *)
Theorem C05_field_method_refuted :
  y_select U_fm 1 (s "X") = RAmbig /\ g_select U_fm 1 (s "X") = RSel (SField [0]).
Proof. exact field_method_refuted. Qed.
Print Assumptions C05_field_method_refuted.

(** Structs embedding pointers to each other: a method selector sends lookupBinField into unbounded recursion. *)
Theorem C05_embed_cycle_refuted :
  y_select U_cycle 0 (s "M") = RCrash /\ g_select U_cycle 0 (s "M") = RSel (SMethod [] (mkM (s "M") false 0 1))
  /\ y_select U_cycle 0 (s "X") = RSel (SField [1]).
Proof. exact embed_cycle_refuted. Qed.
Print Assumptions C05_embed_cycle_refuted.

(** Method sets: the method names yaegi attributes to a struct type always contain Go's method set
    of T and of *T (methods() visits every type reachable through embedded fields) ... *)
Theorem C05_methodset :
  forall U t ptr nm,
    wf U = true -> t < length (structs U) -> In nm (g_method_names U t ptr) -> In nm (y_method_names U t).
Proof. exact methodset_over. Qed.
Print Assumptions C05_methodset.

(** ... and the two sets are equal when every name yaegi finds is, for Go, a method of that method set
    (no name shadowed by a field, ambiguous, or needing an addressable receiver). *)
Theorem C05_methodset_partial :
  forall U t ptr nm,
    wf U = true -> t < length (structs U) -> names_agree U t ptr = true ->
    (In nm (y_method_names U t) <-> In nm (g_method_names U t ptr)).
Proof. exact methodset_agree. Qed.
Print Assumptions C05_methodset_partial.

(** Two-result assertion of a non-nil interpreted value to an interface type: as in Go when equal
    names carry equal signatures and the name sets agree. *)
Theorem C05_assert_partial :
  forall U t ptr j srcm,
    wf U = true -> t < length (structs U) -> sig_consistent U = true -> names_agree U t ptr = true ->
    y_assert U SrcIface srcm (Some (t, ptr)) (TIface j) A2 = g_assert U (Some (t, ptr)) (TIface j) A2.
Proof. exact assert_agree. Qed.
Print Assumptions C05_assert_partial.

Theorem C05_assert_side_condition_inhabited :
  wf U_assert = true /\ sig_consistent (mkU (structs U_assert) (firstn 2 (ifaces U_assert))) = true
  /\ names_agree U_assert 1 true = true
  /\ g_assert U_assert (Some (1, true)) (TIface 1) A2 = ATrue /\ g_assert U_assert (Some (0, false)) (TIface 0) A2 = ATrue
  /\ names_agree U_assert 0 true = true /\ y_method_names U_assert 1 = [s "M"; s "P"].
Proof. exact assert_side_inhabited. Qed.
Print Assumptions C05_assert_side_condition_inhabited.

(** A value of type B (embedding A by value, P declared on *A) is not a J{M;P}; yaegi says it is. *)
Theorem C05_assert_methodset_refuted :
  y_assert U_assert SrcIface [(s "M", 0%N)] (Some (1, false)) (TIface 1) A2 = ATrue
  /\ g_assert U_assert (Some (1, false)) (TIface 1) A2 = AFalse
  /\ names_agree U_assert 1 false = false /\ sig_consistent (mkU (structs U_assert) (firstn 2 (ifaces U_assert))) = true.
Proof. exact assert_methodset_refuted. Qed.
Print Assumptions C05_assert_methodset_refuted.

(** M(k int) satisfies interface{ M() } for yaegi: the first parameter is stripped as if it were the receiver. *)
Theorem C05_assert_sig_refuted :
  y_assert U_sig SrcIface [] (Some (0, false)) (TIface 0) A2 = ATrue
  /\ g_assert U_sig (Some (0, false)) (TIface 0) A2 = AFalse
  /\ sig_consistent U_sig = false /\ names_agree U_sig 0 false = true.
Proof. exact assert_sig_refuted. Qed.
Print Assumptions C05_assert_sig_refuted.

(** One-result form: a failing assertion does not panic (the first use of the result does). *)
Theorem C05_assert1_refuted :
  y_assert U_assert SrcIface [] (Some (0, false)) (TIface 2) A1 = ALate
  /\ g_assert U_assert (Some (0, false)) (TIface 2) A1 = APanic.
Proof. exact assert1_refuted. Qed.
Print Assumptions C05_assert1_refuted.

(** Two-result assertion of a nil interface value to an interface type panics. *)
Theorem C05_assert_nil_refuted :
  y_assert U_assert SrcIface [] None (TIface 0) A2 = APanic /\ g_assert U_assert None (TIface 0) A2 = AFalse.
Proof. exact assert_nil_refuted. Qed.
Print Assumptions C05_assert_nil_refuted.

(** i.(T) with T reaching a pointer-receiver method through an embedded pointer is rejected at compile time. *)
Theorem C05_assert_static_refuted :
  y_assert U_static SrcIface [(s "N", 0%N)] (Some (1, false)) (TStruct 1) A2 = AOther
  /\ g_assert U_static (Some (1, false)) (TStruct 1) A2 = ATrue /\ g_implements U_static 1 false 0 = true.
Proof. exact assert_static_refuted. Qed.
Print Assumptions C05_assert_static_refuted.

(** The same static check compares signatures with the depth-first method: T5{T3;T0} with T0.M() at depth 1 and
    T2.M(int) at depth 2 through T3 implements interface{ M() }, yet i.(T5) and i.( *T5) are rejected. *)
Theorem C05_assert_static_sig_refuted :
  y_assert U_static_sig SrcIface [(s "M", 0%N)] (Some (3, false)) (TStruct 3) A2 = AOther
  /\ g_assert U_static_sig (Some (3, false)) (TStruct 3) A2 = ATrue
  /\ y_assert U_static_sig SrcIface [(s "M", 0%N)] (Some (3, true)) (TPtr 3) A2 = AOther
  /\ g_assert U_static_sig (Some (3, true)) (TPtr 3) A2 = ATrue
  /\ g_implements U_static_sig 3 false 0 = true.
Proof. exact assert_static_sig_refuted. Qed.
Print Assumptions C05_assert_static_sig_refuted.

(** Type switches whose clauses name concrete types take Go's clause, for every dynamic type and clause list. *)
Theorem C05_switch_partial :
  forall U d cases, forallb concrete_target cases = true -> y_switch d cases = g_switch U d cases.
Proof. exact switch_agree. Qed.
Print Assumptions C05_switch_partial.

(** Clauses naming an interface type, and [case nil], are never taken for interpreted values. *)
Theorem C05_switch_refuted :
  y_switch (Some (3, false)) [TIface 0; TStruct 3] = 1 /\ g_switch U_depth (Some (3, false)) [TIface 0; TStruct 3] = 0
  /\ y_switch None [TNil] = 1 /\ g_switch U_depth None [TNil] = 0.
Proof. exact switch_refuted. Qed.
Print Assumptions C05_switch_refuted.

(* ------------------------------------------------------------------------------------------ *)
(** Interpreted values handed to compiled code that probes for interfaces dynamically
    (Disp/Host.v).  [maptypes_gen] is regenerated from stdlib/maptypes.go and
    stdlib/wrapper-composed.go on every run. *)

(** Full statement of this part: for every consumer and every method set, the compiled function
    serves the interface it serves in compiled Go. *)
Definition C05_host_statement : Prop :=
  forall c impl, subset (c_static c) impl = true -> y_result maptypes_gen c impl = g_result c impl.

(** For every table, consumer and method set: if the wrapper yaegi selects carries the methods of
    the interface compiled Go would serve, the same interface is served. *)
Theorem C05_host_partial :
  forall tbl c impl p,
    subset (y_visible tbl c impl) impl = true ->
    first_probe impl (c_probes c) = Some p -> subset (snd p) (y_visible tbl c impl) = true ->
    y_result tbl c impl = g_result c impl.
Proof. exact host_agree. Qed.
Print Assumptions C05_host_partial.

(** Finite, by computation on the regenerated lists: every print function of fmt and log with
    interface{} operands and json.Marshal are registered, and for each of them (three classes of
    verbs), for io.Copy's source and destination, every type implementing only registered
    interfaces (every subset of their methods) is served as in compiled Go.  In particular a type
    with both Format and String is served through Format. *)
Theorem C05_maptypes_registered_ok : registered_ok maptypes_gen = true.
Proof. exact registered_ok_now. Qed.
Print Assumptions C05_maptypes_registered_ok.

(** The order of the lists is the precedence of the compiled packages: Formatter before Stringer
    for every print function, json.Marshaler before encoding.TextMarshaler. *)
Theorem C05_maptypes_order_ok : order_ok maptypes_gen = true.
Proof. exact order_ok_now. Qed.
Print Assumptions C05_maptypes_order_ok.

Theorem C05_host_side_condition_inhabited :
  y_result maptypes_gen (consumer_of (s "fmt.Sprintf") (s "str")) [s "Format"; s "String"] = s "Formatter"
  /\ g_result (consumer_of (s "fmt.Sprintf") (s "str")) [s "Format"; s "String"] = s "Formatter"
  /\ y_result maptypes_gen copy_src [s "Read"; s "WriteTo"] = s "WriterTo"
  /\ y_result maptypes_gen json_consumer [s "MarshalJSON"; s "MarshalText"] = s "Marshaler".
Proof. exact host_side_inhabited. Qed.
Print Assumptions C05_host_side_condition_inhabited.

(** error is not in the lists: a value with Error and String is printed through String, one with Error only is dumped. *)
Theorem C05_host_fmt_error_refuted :
  y_result maptypes_gen (consumer_of (s "fmt.Println") (s "str")) [s "Error"; s "String"] = s "Stringer"
  /\ g_result (consumer_of (s "fmt.Println") (s "str")) [s "Error"; s "String"] = s "error"
  /\ y_result maptypes_gen (consumer_of (s "fmt.Sprint") (s "str")) [s "Error"] = s "none"
  /\ g_result (consumer_of (s "fmt.Sprint") (s "str")) [s "Error"] = s "error".
Proof. exact fmt_error_refuted. Qed.
Print Assumptions C05_host_fmt_error_refuted.

(** GoStringer is not in the lists: %#v never calls an interpreted GoString. *)
Theorem C05_host_gostringer_refuted :
  y_result maptypes_gen (consumer_of (s "fmt.Sprintf") (s "sharp")) [s "GoString"; s "String"] = s "none"
  /\ g_result (consumer_of (s "fmt.Sprintf") (s "sharp")) [s "GoString"; s "String"] = s "GoStringer".
Proof. exact fmt_gostringer_refuted. Qed.
Print Assumptions C05_host_gostringer_refuted.

(** io.WriteString looks for StringWriter; the io.Writer wrapper has Write only. *)
Theorem C05_host_stringwriter_refuted :
  y_result maptypes_gen write_string [s "Write"; s "WriteString"] = s "Writer"
  /\ g_result write_string [s "Write"; s "WriteString"] = s "StringWriter".
Proof. exact string_writer_refuted. Qed.
Print Assumptions C05_host_stringwriter_refuted.

(** log.Print* are not registered: operands are handed over without any wrapper. *)
Theorem C05_host_log_print_refuted :
  y_result maptypes_gen (consumer_of (s "log.Print") (s "str")) [s "String"] = s "none"
  /\ g_result (consumer_of (s "log.Print") (s "str")) [s "String"] = s "Stringer".
Proof. exact log_print_refuted. Qed.
Print Assumptions C05_host_log_print_refuted.

(** The error wrapper has Error only: errors.Is / errors.Unwrap never call an interpreted Is / Unwrap. *)
Theorem C05_host_errors_refuted :
  y_result maptypes_gen (consumer_of (s "errors.Is") (s "")) [s "Error"; s "Is"] = s "error"
  /\ g_result (consumer_of (s "errors.Is") (s "")) [s "Error"; s "Is"] = s "Is"
  /\ y_result maptypes_gen (consumer_of (s "errors.Unwrap") (s "")) [s "Error"; s "Unwrap"] = s "error"
  /\ g_result (consumer_of (s "errors.Unwrap") (s "")) [s "Error"; s "Unwrap"] = s "Unwrap".
Proof. exact errors_is_refuted. Qed.
Print Assumptions C05_host_errors_refuted.

(** The composed wrappers of wrapper-composed.go (Reader+WriterTo, Writer+ReaderFrom, ResponseWriter+Hijacker),
    finite, on the regenerated table: every method set containing the static interface is served as in
    compiled Go; the selection looks at the FULL method set (interpreted methods and methods promoted
    from embedded interpreted or compiled types alike). *)
Theorem C05_composed_wrappers_ok :
  consumer_ok maptypes_gen copy_src = true /\ consumer_ok maptypes_gen copy_dst = true /\ consumer_ok maptypes_gen http_rw = true
  /\ y_result maptypes_gen copy_src [s "Read"; s "WriteTo"] = s "WriterTo"
  /\ y_result maptypes_gen copy_dst [s "ReadFrom"; s "Write"; s "WriteString"] = s "ReaderFrom"
  /\ y_result maptypes_gen http_rw (map s ["Header"; "Hijack"; "Write"; "WriteHeader"]%string) = s "Hijacker".
Proof. exact composed_ok_now. Qed.
Print Assumptions C05_composed_wrappers_ok.
