(** C19 — Running under the debugger does not change program behaviour.
    Only theorem statements, each closed by [exact] of a lemma of Debug/Proofs.v.

    The program is any deterministic machine ([St], [mstep]); the graph [g] (successors, code
    addresses of the closures, positions, breakpoint flags, originalExecNode) and the list of
    resume requests [rq] are arbitrary; [fuel] bounds the length of the run. *)
From Coq Require Import List Bool Arith NArith.
Import ListNotations.
From Verif Require Import Debug.Model Debug.Proofs.

(** The property at full strength: same state and outcome as the plain loop, the break events are
    the flagged nodes that executed, in order, and the session ends with the terminate event.
    False of the faithful model today, see [C19_events_complete_refuted]. *)
Definition C19_statement : Prop :=
  forall (St : Type) (mstep : St -> option (St * act)) (g : cfg) (fuel : nat) (ps : St) (rq : list request),
    no_terminate rq ->
    ses_state (d_session mstep g fuel ps rq) = pl_state (p_session mstep fuel ps)
    /\ ses_status (d_session mstep g fuel ps rq) = pl_status (p_session mstep fuel ps)
    /\ breaks (ses_events (d_session mstep g fuel ps rq)) = g_breaks g (pl_visited (p_session mstep fuel ps))
    /\ last (ses_events (d_session mstep g fuel ps rq)) (RRun, None) = (RTerminate, None).

(** Behaviour: for every machine, graph, breakpoint set, fuel and every request list without a
    terminate request, the debug loop ends in the state and with the status of the plain loop, and
    the operations it ran are the operations the plain loop runs (full). *)
Theorem C19_same_behaviour_full :
  forall (St : Type) (mstep : St -> option (St * act)) (g : cfg) (fuel : nat) (ps : St) (rq : list request),
    no_terminate rq ->
    ses_state (d_session mstep g fuel ps rq) = pl_state (p_session mstep fuel ps)
    /\ ses_status (d_session mstep g fuel ps rq) = pl_status (p_session mstep fuel ps)
    /\ map snd (ses_heads (d_session mstep g fuel ps rq)) = pl_visited (p_session mstep fuel ps).
Proof. exact same_behaviour. Qed.
Print Assumptions C19_same_behaviour_full.

(** The same for the two sets of closures that the implementation really runs (plain execution: the
    blocking variants of the channel operations; under the Debugger, which goes through
    ExecuteWithContext: the cancellable ones), under the side condition that the two step functions
    agree while the context is not cancelled. The side condition is what the correspondence checks on
    every generated session; its negation is a violation, not a known finding. *)
Theorem C19_same_behaviour_variants_partial :
  forall (St : Type) (plain debugged : St -> option (St * act)) (g : cfg) (fuel : nat) (ps : St) (rq : list request),
    variants_agree plain debugged ->
    no_terminate rq ->
    ses_state (d_session debugged g fuel ps rq) = pl_state (p_session plain fuel ps)
    /\ ses_status (d_session debugged g fuel ps rq) = pl_status (p_session plain fuel ps)
    /\ map snd (ses_heads (d_session debugged g fuel ps rq)) = pl_visited (p_session plain fuel ps).
Proof. exact same_behaviour_variants. Qed.
Print Assumptions C19_same_behaviour_variants_partial.

Theorem C19_variants_inhabited : variants_agree replay_step replay_step.
Proof. exact variants_inhabited. Qed.
Print Assumptions C19_variants_inhabited.

(** Soundness of break events, for every client (terminate included): a reported break is a
    flagged, positioned node that the tracker was at. *)
Theorem C19_events_sound_full :
  forall (St : Type) (mstep : St -> option (St * act)) (g : cfg) (fuel : nat) (ps : St) (rq : list request) x,
    In (RBreak, x) (ses_events (d_session mstep g fuel ps rq)) ->
    stops g x = true /\ exists t, In (x, t) (ses_heads (d_session mstep g fuel ps rq)).
Proof. exact events_sound. Qed.
Print Assumptions C19_events_sound_full.

(** ... and, without terminate, the break events are exactly those nodes, in order. *)
Theorem C19_breaks_are_tracked_flags_full :
  forall (St : Type) (mstep : St -> option (St * act)) (g : cfg) (fuel : nat) (ps : St) (rq : list request),
    no_terminate rq ->
    breaks (ses_events (d_session mstep g fuel ps rq))
    = map fst (filter (fun h => stops g (fst h)) (ses_heads (d_session mstep g fuel ps rq))).
Proof. exact breaks_are_tracked_flags. Qed.
Print Assumptions C19_breaks_are_tracked_flags_full.

(** Every session, whatever the client does, is framed by EnterGoRoutine ... ExitGoRoutine,
    Terminate. *)
Theorem C19_terminate_event_full :
  forall (St : Type) (mstep : St -> option (St * act)) (g : cfg) (fuel : nat) (ps : St) (rq : list request),
    exists es, ses_events (d_session mstep g fuel ps rq) = (REnterG, None) :: es ++ [(RExitG, None); (RTerminate, None)]
               /\ last (ses_events (d_session mstep g fuel ps rq)) (RRun, None) = (RTerminate, None).
Proof. exact terminate_event. Qed.
Print Assumptions C19_terminate_event_full.

(** Completeness, partial: on the sessions where the tracked node is the running node wherever a
    breakpoint is involved, every flagged node that executes is reported, in execution order. *)
Theorem C19_events_complete_partial :
  forall (St : Type) (mstep : St -> option (St * act)) (g : cfg) (fuel : nat) (ps : St) (rq : list request),
    no_terminate rq ->
    exact_at_flags g (ses_heads (d_session mstep g fuel ps rq)) ->
    breaks (ses_events (d_session mstep g fuel ps rq)) = g_breaks g (pl_visited (p_session mstep fuel ps)).
Proof. exact events_complete_partial. Qed.
Print Assumptions C19_events_complete_partial.

(** Completeness, partial, from a condition on the graph and a condition on the program: if the two
    successors of a node are never closures of the same generator, then on every run that stays on
    the graph (each closure returned is the one of the running node's tnext or fnext) the tracked
    node is the running node at every consultation, and every flagged node that executes is
    reported, in execution order. *)
Theorem C19_events_complete_static_partial :
  forall (St : Type) (mstep : St -> option (St * act)) (g : cfg) (fuel : nat) (ps : St) (rq : list request),
    distinct_succ g ->
    no_terminate rq ->
    d_session_oncfg mstep g fuel ps rq = true ->
    (forall m t, In (m, t) (ses_heads (d_session mstep g fuel ps rq)) -> m = t)
    /\ breaks (ses_events (d_session mstep g fuel ps rq)) = g_breaks g (pl_visited (p_session mstep fuel ps)).
Proof. exact events_complete_static. Qed.
Print Assumptions C19_events_complete_static_partial.

Theorem C19_static_inhabited :
  distinct_succ w_ok
  /\ d_session_oncfg replay_step w_ok 10 w_ok_run w_ok_reqs = true
  /\ breaks (ses_events (d_session replay_step w_ok 10 w_ok_run w_ok_reqs)) = [Some 0; Some 2].
Proof. exact static_inhabited. Qed.
Print Assumptions C19_static_inhabited.

(** The refutation witnesses below lie outside: one violates the condition on the graph, the other
    leaves the graph (forwarding closure on the back edge). *)
Theorem C19_witnesses_outside_side_conditions :
  ~ distinct_succ w_if
  /\ d_session_oncfg replay_step w_loop 20 w_loop_run [] = false.
Proof. exact witnesses_outside. Qed.
Print Assumptions C19_witnesses_outside_side_conditions.

(** One tracking step is exact when the operation returned the closure of its tnext, or of its
    fnext while the tnext is the closure of another generator ... *)
Theorem C19_track_exact_partial :
  forall g n0 t s p,
    ident g s = Some p ->
    (tnext g t = Some s \/ (fnext g t = Some s /\ forall a, tnext g t = Some a -> ident g a <> Some p)) ->
    track g n0 (Some t) p = Some s.
Proof. exact track_exact. Qed.
Print Assumptions C19_track_exact_partial.

(** ... and otherwise the tnext wins although the fnext runs. *)
Theorem C19_track_prefers_tnext :
  forall g n0 t a s p,
    tnext g t = Some a -> fnext g t = Some s -> ident g a = Some p -> ident g s = Some p ->
    track g n0 (Some t) p = Some a.
Proof. exact track_prefers_tnext. Qed.
Print Assumptions C19_track_prefers_tnext.

Theorem C19_partial_inhabited :
  no_terminate w_ok_reqs
  /\ exact_at_flags w_ok (ses_heads (d_session replay_step w_ok 10 w_ok_run w_ok_reqs))
  /\ ses_events (d_session replay_step w_ok 10 w_ok_run w_ok_reqs)
     = [(REnterG, None); (RBreak, Some 0); (RBreak, Some 2); (RStepInto, Some 1); (RExitG, None); (RTerminate, None)]
  /\ pl_status (p_session replay_step 10 w_ok_run) = Returned.
Proof. exact partial_inhabited. Qed.
Print Assumptions C19_partial_inhabited.

Theorem C19_terminate_inhabited :
  ses_status (d_session replay_step w_ok 10 w_ok_run [QStep REntry; QTerminate]) = Stopped
  /\ ses_events (d_session replay_step w_ok 10 w_ok_run [QStep REntry; QTerminate])
     = [(REnterG, None); (RBreak, Some 0); (RExitG, None); (RTerminate, None)].
Proof. exact terminate_inhabited. Qed.
Print Assumptions C19_terminate_inhabited.

(** Refutations on the faithful model (each replayed on the implementation by the harness):
    "if c { println } else { println }" with c false and the breakpoint on the else-branch: the
    statement runs, no break is reported ... *)
Theorem C19_events_complete_refuted :
  breaks (ses_events (d_session replay_step w_if 10 w_if_run [])) = []
  /\ g_breaks w_if (pl_visited (p_session replay_step 10 w_if_run)) = [Some 2]
  /\ pl_status (p_session replay_step 10 w_if_run) = Returned.
Proof. exact missed_break. Qed.
Print Assumptions C19_events_complete_refuted.

(** ... with the breakpoint on the then-branch, which does not run: a break is reported ... *)
Theorem C19_events_spurious_refuted :
  breaks (ses_events (d_session replay_step w_if' 10 w_if_run [])) = [Some 1]
  /\ g_breaks w_if' (pl_visited (p_session replay_step 10 w_if_run)) = [].
Proof. exact spurious_break. Qed.
Print Assumptions C19_events_spurious_refuted.

(** ... "for c { ... }" with the breakpoint on the condition: three evaluations, one report. *)
Theorem C19_loop_break_refuted :
  breaks (ses_events (d_session replay_step w_loop 20 w_loop_run [])) = [Some 0]
  /\ g_breaks w_loop (pl_visited (p_session replay_step 20 w_loop_run)) = [Some 0; Some 0; Some 0].
Proof. exact loop_break_once. Qed.
Print Assumptions C19_loop_break_refuted.

(** Behaviour, refuted outside the loops: a line-breakpoint request makes SetBreakpoints generate
    closures before Execute has linked the package-level variable declarations; the closures keep
    the successors they captured, so the debugged program initialises only the first declaration
    (the theorem [C19_same_behaviour_full] is about one and the same set of closures). *)
Theorem C19_linebp_globals_refuted :
  pl_visited (p_session replay_step 10 w_glob_plain) = [Some 0; Some 1]
  /\ map snd (ses_heads (d_session replay_step w_glob 10 w_glob_linereq [])) = [Some 0]
  /\ ses_status (d_session replay_step w_glob 10 w_glob_linereq []) = Returned.
Proof. exact linebp_globals. Qed.
Print Assumptions C19_linebp_globals_refuted.

(** Refuted outside the loops as well: a line request on a program with a parameter of an imported
    type makes SetBreakpoints call a nil generator; the host panics. *)
Theorem C19_linebp_hostpanic_refuted :
  pregen (fun n => negb (Nat.eqb n 1)) [0; 1; 2] = None /\ pregen (fun _ => true) [0; 1; 2] = Some tt.
Proof. exact linebp_hostpanic. Qed.
Print Assumptions C19_linebp_hostpanic_refuted.

Theorem C19_statement_refuted : ~ C19_statement.
Proof. exact statement_refuted. Qed.
Print Assumptions C19_statement_refuted.
