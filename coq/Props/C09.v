(** C09 — Cancellation stops all interpreted activity promptly.
    Only theorem statements, each closed by [exact] of a lemma of Cancel/Proofs.v.
    The machine (Cancel/Model.v) transcribes the run-id gate of interp/interp.go, program.go and
    run.go; programs, data and channel behaviour are abstract (oracle bits), schedules arbitrary.
    Timing (how soon EvalWithContext returns, how soon a goroutine is scheduled again) is not
    modelled; the harness observes it with generous bounds. *)
From Verif Require Import Cancel.Model Cancel.Cases Cancel.Proofs.

(** The property at full strength (false of the faithful model today, see the [_refuted] theorems):
    in every reachable state of every session, after stop() every thread performs at most one more
    operation and, unless it sits in a host call, exits once scheduled often enough.
    (The first half is proved since the repair of the init-list defect: C09_gate_partial.) *)
Definition C09_statement : Prop := C09_contract.
(** ... "from then on", i.e. also while the host goes on using the interpreter. *)
Definition C09_statement_session : Prop := C09_contract_session.

(** The gate: every program table F, every history h of host actions and scheduling decisions
    (any number of earlier evaluations, cancelled or not; init functions and main pending or not),
    every schedule and oracle after the stop, every thread u.
    At most one more operation, hence at most one more visible effect; goroutines started after
    the stop do nothing; every thread that is not stuck in a blocking operation that cannot see
    this cancellation has exited after (stack depth + 2 * pending phases + 2) scheduling decisions.
    Covers busy loops, recursion, function values, goroutine trees, the init list and every blocking
    construct (instructions Call, CallClos, Go, GoClos, Jmp, Br, Block; phases PRoot, PFun).
    Proved by induction over the schedule. Since the repair of the init-list defect
    (interp.run: newFrame(cf, n, cf.runid())) there is no side condition on pending phases; what
    keeps the theorem partial is the hypothesis [stuck ... = false] of the exit clause, which is
    stronger than "not in a host call" (see C09_stalechan_refuted). *)
Theorem C09_gate_partial :
  forall F h sched u,
    let s1 := run F fresh h in
    let s2 := steps F (do_action F s1 AStop) sched in
    evs u (log s2) <= evs u (log s1) + 1
    /\ tks u (log s2) <= tks u (log s1) + 1
    /\ (length (threads s1) <= u -> evs u (log s2) <= evs u (log s1))
    /\ (forall th, nth_error (threads s1) u = Some th -> stuck F (do_action F s1 AStop) u = false ->
          length (stack th) + 2 * length (phases th) + 2 <= occ u sched -> exited s2 u = true).
Proof. exact gate_partial. Qed.
Print Assumptions C09_gate_partial.

Theorem C09_gate_side_condition_inhabited :
  let s1 := run F_init fresh (session P_main_only ++ alone 0 8) in
  let s2 := steps F_init (do_action F_init s1 AStop) (repeat (0, false) 6) in
  stuck F_init (do_action F_init s1 AStop) 0 = false
  /\ tks 0 (log s1) = 1 /\ tks 0 (log s2) = 2 /\ exited s2 0 = true.
Proof. exact gate_partial_inhabited. Qed.
Print Assumptions C09_gate_side_condition_inhabited.

(** Every reachable state satisfies the invariant the gate theorem rests on: no frame carries a
    generation newer than the interpreter's. *)
Theorem C09_generations_bounded : forall F h, inv (run F fresh h).
Proof. exact inv_run. Qed.
Print Assumptions C09_generations_bounded.

(** Regression (finding C09-init-list, repaired): the former witness — cancel inside the first
    init() while a second init() and main() are pending — now stops: the one tick in flight, then
    nothing, and the thread exits. Before the repair the faithful model ticked [1; 2; 2; 3; 3; 3]. *)
Theorem C09_initlist_regression :
  let s1 := run F_init fresh H_init in
  let s2 := steps F_init (do_action F_init s1 AStop) (repeat (0, false) 40) in
  no_pending s1 = false
  /\ ticks_of (new_events s1 s2) = [1]
  /\ evs 0 (log s2) = evs 0 (log s1) + 1
  /\ exited s2 0 = true.
Proof. exact initlist_regression. Qed.
Print Assumptions C09_initlist_regression.

(** Refutations of the full statement on the faithful model, each replayed on the implementation
    by the harness (regions "root-revival", "expired", "stale-done", "nocancel-gen"). *)
Theorem C09_statement_refuted : ~ C09_statement.
Proof. exact contract_exits_refuted. Qed.
Print Assumptions C09_statement_refuted.

Theorem C09_rootframe_refuted :
  let s1 := run F_root fresh H_root in
  let s2 := run F_root s1 H_root_next in
  tks 0 (log s1) = 2 /\ ticks_of (new_events s1 s2) = [3; 4; 5; 6]
  /\ (let s2' := run F_root s1 ([AStop] ++ alone 0 20) in ticks_of (new_events s1 s2') = [3]).
Proof. exact rootframe_refuted. Qed.
Print Assumptions C09_rootframe_refuted.

Theorem C09_statement_session_refuted : ~ C09_statement_session.
Proof. exact contract_session_refuted. Qed.
Print Assumptions C09_statement_session_refuted.

Theorem C09_expired_refuted :
  ticks_of (new_events (run F_root fresh [ABegin; AStop]) (run F_root fresh H_expired)) = [1; 2; 3; 4; 5; 6].
Proof. exact expired_refuted. Qed.
Print Assumptions C09_expired_refuted.

Theorem C09_stalechan_refuted :
  let s1 := run F_stale fresh H_stale in
  let s2 := steps F_stale (do_action F_stale s1 AStop) (repeat (1, false) 50) in
  no_pending s1 = true /\ in_host_call F_stale s1 1 = false
  /\ stuck F_stale (do_action F_stale s1 AStop) 1 = true /\ exited s2 1 = false.
Proof. exact stalechan_refuted. Qed.
Print Assumptions C09_stalechan_refuted.

(** Region "next-eval-race": when EvalWithContext returns the goroutine of the cancelled evaluation
    is still inside Execute (not exited, phases pending) and goes on reading interpreter state while
    the host's next evaluation writes it (in the model the pending init functions and main even take
    the refreshed generation and run: region "root-revival"); on the implementation: "fatal error: concurrent map read
    and map write" (interp.scopes, read by Execute without the lock), the host process dies. *)
Theorem C09_abandoned_execute_refuted :
  let s1 := run F_init fresh H_init in
  let s2 := run F_init s1 [AStop; AExecute [PRoot 0]] in
  exited s2 0 = false /\ phases (thread_of s2 0) = [PFun 2; PFun 3]
  /\ ticks_of (new_events s1 (run F_init s2 (alone 0 40))) = [1; 2; 2; 3; 3; 3].
Proof. exact abandoned_execute_refuted. Qed.
Print Assumptions C09_abandoned_execute_refuted.

(** Region "nocancel-gen": whether send / receive / two-value receive can be cancelled is decided
    when their code is generated, from interp.cancelChan, which is false until the interpreter's
    first *WithContext call: code loaded before by a plain Eval / EvalPath / import stays
    non-cancellable for ever (first outcome: one goroutine left); every other cell of the session
    matrix exits. *)
Theorem C09_nocancel_gen_refuted :
  y_outcomes (sess_F false LEval KRecv) (sess_park false LEval) = [(false, [], 1)]
  /\ y_outcomes (sess_F true LEval KRecv) (sess_park true LEval) = [(false, [], 0)]
  /\ y_outcomes (sess_F false LEvalCtx KRecv) (sess_park false LEvalCtx) = [(false, [], 0)]
  /\ y_outcomes (sess_F false LEval KRange) (sess_park false LEval) = [(false, [], 0)].
Proof. exact nocancel_gen_refuted. Qed.
Print Assumptions C09_nocancel_gen_refuted.

Theorem C09_gen_cancellable :
  forall c h, (c = KRange \/ c = KSelect \/ begun h = true) -> gen_canc c (begun h) = true.
Proof. exact gen_canc_sound. Qed.
Print Assumptions C09_gen_cancellable.

(** Not the gate but what the cancellation set off (finding C09-literal-slot, repaired by abe7a69):
    the frame slot of a function literal used to be set back to its earlier content whenever a call
    of the literal returned; after a cancellation all calls return at once, and a
    [go func(){...}()] statement in flight could find the nil function in the slot: the new
    goroutine panicked and the host process died. Regression: the former witness starts its three
    literals and nothing calls the nil function; and in general returning calls between a literal
    and its go statement are harmless. *)
Theorem C09_literal_slot_regression :
  crashed (slot_run slot_witness) = false /\ started (slot_run slot_witness) = [3; 2; 1].
Proof. exact literal_slot_regression. Qed.
Print Assumptions C09_literal_slot_regression.

Theorem C09_literal_slot_returns_harmless :
  forall l g rets, crashed (slot_run l) = false -> forallb is_ret rets = true ->
    let s := slot_run (l ++ SLit g :: rets ++ [SGo]) in crashed s = false /\ hd_error (started s) = Some g.
Proof. exact literal_slot_returns_harmless. Qed.
Print Assumptions C09_literal_slot_returns_harmless.
