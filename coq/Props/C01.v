(** C01 — Interpreted programs behave exactly like their compiled counterparts.
    Only theorem statements, each closed by [exact] of a lemma of Core/Proofs.v (Core/SimStmt.v).

    Models: G = Core/GoSem.v (definitional interpreter of MiniGo, the fragment of Core/Syntax.v);
    Y = Core/Cfg.v (the CFG yaegi builds: start/tnext/fnext wiring of cfg.go for if/for/&&/||/
    break/continue, frame slots with the destination-slot shortcut, loopVarFor, and runCfg's loop).
    MiniGo, G and Y also contain switch statements (with and without a tag, init statement, several
    expressions per clause, default anywhere, fallthrough, break): Y transcribes the clause loops of
    switchStmt / switchIfStmt, the default swap of the pre-order pass and run.go _case; both models are run
    against yaegi and compiled Go on generated programs and the clause wiring is tied to cfg.go
    ([C01_wiring_matches_source]).  The simulation theorem [C01_core_partial] covers the switch statements
    accepted by [Wf.wf]: switch with a tag (integer expression; after an init statement a variable or
    literal; in each clause only the first case expression may be an operator expression) or without a
    tag (one condition per clause), optional init statement, default clause last, at least one clause,
    fallthrough (not in the last clause; without a tag not into an empty default clause, where yaegi crashes
    while compiling), break and continue inside clause bodies, any nesting -- that is the region where Y
    agrees with G.
    The deviations of yaegi on switch are the [C01_switch_*_refuted] theorems.
    The gap to the full property: functions, closures, composite data, range, goto, labels
    are covered by the behavioural streams of the harness only (compiled Go as the oracle). *)
From Verif Require Import Core.Syntax Core.GoSem Core.Cfg Core.Wf Core.Proofs Core.Wiring.

(** The property at full strength on MiniGo (false of the faithful model: see the [_refuted] theorems). *)
Definition C01_statement : Prop :=
  forall p n out pk, GoSem.run n p = Done out pk -> exists m, Cfg.run m p = Done out pk.

(** Every well-formed program (any nesting depth, any number of iterations) that terminates under
    Go's semantics -- normally or by a division by zero -- terminates under yaegi's CFG machine with
    the same printed output and the same ending.  [wf_program] is decidable; each of its clauses is
    the negation of a known-finding region (for-init-only, loop-empty-body, loopvar-assign); switch
    statements are covered in the region described in the header (with or without a tag, default last, fallthrough). *)
Theorem C01_core_partial :
  forall p, wf_program p = true ->
  forall n out pk, GoSem.run n p = Done out pk -> exists m, Cfg.run m p = Done out pk.
Proof. exact core_forward. Qed.
Print Assumptions C01_core_partial.

(** Both machines are deterministic: whenever both runs terminate they agree. *)
Theorem C01_core_agree :
  forall p, wf_program p = true ->
  forall n m out pk out' pk', GoSem.run n p = Done out pk -> Cfg.run m p = Done out' pk' -> out = out' /\ pk = pk'.
Proof. exact core_agree. Qed.
Print Assumptions C01_core_agree.

Theorem C01_wf_inhabited :
  wf_program w_example = true /\
  GoSem.run 100 w_example = Done [2; 0; 7; -16; 7; -1226; 7; -6007402; 7]%Z true /\
  Cfg.run 1000 w_example = Done [2; 0; 7; -16; 7; -1226; 7; -6007402; 7]%Z true.
Proof. exact example_inhabited. Qed.
Print Assumptions C01_wf_inhabited.

(** for i := 0; i < 6; i++ { if i == 2 { i = 4 }; fmt.Println(i) }:
    Go prints 0 1 4 5, the copy-at-top-of-body emulation of loopVarFor prints 0 1 4 3 4 5. *)
Theorem C01_loopvar_refuted :
  wf_program w_loopvar = false /\
  GoSem.run 100 w_loopvar = Done [0; 1; 4; 5]%Z false /\
  Cfg.run 1000 w_loopvar = Done [0; 1; 4; 3; 4; 5]%Z false.
Proof. exact loopvar_refuted. Qed.
Print Assumptions C01_loopvar_refuted.

(** for c := 0; ; { ... }: forStmt1 wires the body back to the init statement. *)
Theorem C01_for_init_only_refuted :
  wf_program w_for_init_only = false /\
  GoSem.run 100 w_for_init_only = Done [1; 1; 2; 2]%Z false /\
  Cfg.run 1000 w_for_init_only = Done [1; 1; 1; 2; 1; 3; 1; 4]%Z false.
Proof. exact for_init_only_refuted. Qed.
Print Assumptions C01_for_init_only_refuted.

(** for i := 0; i < 3; i++ { }: the loop-variable node of an empty body has no successor, the
    function ends silently. *)
Theorem C01_loop_empty_body_refuted :
  wf_program w_empty_body = false /\
  GoSem.run 100 w_empty_body = Done [1; 2]%Z false /\
  Cfg.run 1000 w_empty_body = Done [1]%Z false.
Proof. exact empty_body_refuted. Qed.
Print Assumptions C01_loop_empty_body_refuted.

(** Non-vacuity of [C01_core_partial] on switch: a well-formed program with a tagged and a tagless switch inside a loop. *)
Theorem C01_switch_wf_inhabited :
  wf_program w_switch_wf = true /\
  GoSem.run 1000 w_switch_wf = Done [70; 71; 60; 64; 71; 61; 64; 70; 71; 63; 64; 70; 71; 60; 64]%Z false /\
  Cfg.run 4000 w_switch_wf = Done [70; 71; 60; 64; 71; 61; 64; 70; 71; 63; 64; 70; 71; 60; 64]%Z false.
Proof. exact switch_wf_inhabited. Qed.
Print Assumptions C01_switch_wf_inhabited.

(** Switch statements outside the proved region (models only):
    G and Y agree on a program with tagged and tagless switches, init, several case expressions,
    fallthrough, break and continue inside clauses, nested in a loop. *)
Theorem C01_switch_models_inhabited :
  GoSem.run 1000 w_switch_example = Done [60; 61; 62; 64; 61; 64; 61; 62; 64; 60; 61; 62; 7; 3; 64]%Z false /\
  Cfg.run 4000 w_switch_example = Done [60; 61; 62; 64; 61; 64; 61; 62; 64; 60; 61; 62; 7; 3; 64]%Z false.
Proof. exact switch_example. Qed.
Print Assumptions C01_switch_models_inhabited.

(** switch { default: A; case x0 > 0: B; case true: }: Go runs B, yaegi swaps default with the last clause. *)
Theorem C01_switch_default_order_refuted :
  GoSem.run 100 w_default_order = Done [2]%Z false /\ Cfg.run 1000 w_default_order = Done [] false.
Proof. exact switch_default_order_refuted. Qed.
Print Assumptions C01_switch_default_order_refuted.

(** switch x0 := 10; x0 % 6 { case 0: A; case 4: B }: Go runs B, yaegi never evaluates the tag and runs A. *)
Theorem C01_switch_init_tag_refuted :
  GoSem.run 100 w_init_tag = Done [2]%Z false /\ Cfg.run 1000 w_init_tag = Done [1]%Z false.
Proof. exact switch_init_tag_refuted. Qed.
Print Assumptions C01_switch_init_tag_refuted.

(** case 1, x1 - 2:  /  case x0 > 5, x1 > 4:  only the first expression of a clause is wired. *)
Theorem C01_switch_case_list_refuted :
  GoSem.run 100 w_case_list = Done [10; 30]%Z false /\ Cfg.run 1000 w_case_list = Done [12; 32]%Z false.
Proof. exact switch_case_list_refuted. Qed.
Print Assumptions C01_switch_case_list_refuted.

(** switch 1 / x0 { }: Go evaluates the tag (and panics), yaegi does not wire an empty switch. *)
Theorem C01_switch_empty_refuted :
  GoSem.run 100 w_switch_empty = Done [1]%Z true /\ Cfg.run 1000 w_switch_empty = Done [1; 2]%Z false.
Proof. exact switch_empty_refuted. Qed.
Print Assumptions C01_switch_empty_refuted.

Theorem C01_statement_refuted : ~ C01_statement.
Proof. exact statement_refuted. Qed.
Print Assumptions C01_statement_refuted.

(** The wiring tables of Y ([Cfg.wire_if], [Cfg.wire_for]: start / tnext / fnext of every if and for
    form under every kind of condition; [Cfg.wire_case], [Cfg.wire_caseif]: the edges of one case clause
    under every assignment of the guards of the clause loops, and the edges of the switch node) are the
    edge assignments of the post-order cases ifStmt0..3 / forStmt0..7 / switchStmt / switchIfStmt of
    interp/cfg.go, as extracted from the source text on this run. *)
Theorem C01_wiring_matches_source : wiring_ok = true.
Proof. exact wiring_matches_source_lemma. Qed.
Print Assumptions C01_wiring_matches_source.
