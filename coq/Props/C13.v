(** C13 — Restricted mode confines scripts.
    Only theorem statements, each closed by [exact] of a lemma of Sandbox/Proofs.v.
    Finite theorems are computations over the tables regenerated from the source on every run
    (gen/SandboxTables_gen.v); the bound of each is the table or catalogue named in it. *)
From Verif Require Import Lib.Str Sandbox.Model Sandbox.Proofs.
From Verif Require Import gen.SandboxTables_gen.

(** The property at full strength (false of the faithful model today at the entry points outside
    [exit_side] and [io_side], see the [_refuted] theorems). *)
Definition C13_statement : Prop :=
  (forall ops env0 host,
      fst (y_run ops env0 host) = fst (g_run ops env0 host) /\ snd (y_run ops env0 host) = host)
  /\ (forall f p, In p forbidden -> y_import_ok (t_keys live) no_src f p = false)
  /\ (forall e, In e exit_catalogue -> y_exit live e = g_exit e)
  /\ (forall f, In f io_catalogue -> y_sink live f = g_sink f)
  /\ (forall rows g ops, y_houts true rows (hinit g) ops = g_houts rows g [] ops
                         /\ glob (y_hrun true rows (hinit g) ops) = g).

(* ------------------------------------------------------------------ environment *)

(** Every sequence of the seven environment operations, every Options.Env, every host environment:
    the closures of fixStdlib over interp.env answer what the abstract map answers, and the host
    environment is what it was. Unbounded: induction on the operation list. *)
Theorem C13_env_refines_full :
  forall ops env0 host,
    fst (y_run ops env0 host) = fst (g_run ops env0 host) /\ snd (y_run ops env0 host) = host.
Proof. exact env_refines. Qed.
Print Assumptions C13_env_refines_full.

Theorem C13_env_refines_inhabited :
  fst (y_run ex_ops ex_env0 [s "HOME=/root"]) =
  [OStr (s "2=3"); OLook [] true; OLook [] false; OErrNil;
   OStr (s "2=3--$A---$"); OList [s "=x"; s "A=2=3"; s "B="; s "C=D=$A"]; OErrNil;
   OList [s "=x"; s "B="; s "C=D=$A"]; OUnit; OList []; OErrNil; OStr (s "e")].
Proof. exact env_example. Qed.
Print Assumptions C13_env_refines_inhabited.

(** The seven names are rebound by fixStdlib to closures that mention interp.env and no host
    environment function (bound: the seven names; table: fixStdlib's assignments). *)
Theorem C13_env_closures_virtual : env_virtual live = true.
Proof. exact env_virtual_live. Qed.
Print Assumptions C13_env_closures_virtual.

(* ------------------------------------------------------------------ imports *)

(** No key of the default symbol table (either release's binding files) provides unsafe, syscall
    or os/exec (bound: every key of the table), and the go:generate lists do not name them. *)
Theorem C13_forbidden_absent :
  forbidden_absent (t_keys live) = true /\ forbidden_absent (t_keys live_other) = true.
Proof. exact forbidden_absent_live. Qed.
Print Assumptions C13_forbidden_absent.

Theorem C13_keys_generated :
  keys_generated (t_keys live) sb_generate_list = true /\ forbidden_absent sb_generate_list = true.
Proof. exact keys_generated_live. Qed.
Print Assumptions C13_keys_generated.

(** For every symbol table without such a key, every import form and every forbidden path: the
    import fails (unbounded over tables; all five forms go through the binPkg lookup). *)
Theorem C13_import_forms_full :
  forall keys src f p,
    forbidden_absent keys = true -> In p forbidden -> src p = false ->
    y_import_ok keys src f p = false.
Proof. exact import_forms_confined. Qed.
Print Assumptions C13_import_forms_full.

(** The matrix on the regenerated table: forbidden paths fail and every package of the table
    imports, through all five forms (bound: > 100 packages x 5 forms, both releases). *)
Theorem C13_import_matrix :
  import_matrix_ok (t_keys live) = true /\ import_matrix_ok (t_keys live_other) = true
  /\ (100 <=? length (y_binpkg (t_keys live))) = true.
Proof. exact import_matrix_live. Qed.
Print Assumptions C13_import_matrix.

(** cmd/yaegi loads a symbol set that provides a forbidden package only under its flag; the three
    opt-in sets do provide such packages (so the statement is not vacuous). *)
Theorem C13_cli_gated : cli_gated sb_cli_uses = true /\ (3 <=? length sb_cli_uses) = true.
Proof. exact cli_gated_live. Qed.
Print Assumptions C13_cli_gated.

Theorem C13_cli_gated_inhabited :
  forbidden_absent sb_unsafe_keys = false /\ forbidden_absent sb_syscall_keys = false
  /\ forbidden_absent sb_unrestricted_keys = false.
Proof. exact optin_sets_forbidden. Qed.
Print Assumptions C13_cli_gated_inhabited.

(* ------------------------------------------------------------------ exit entry points *)

(** Every exit entry point of the catalogue that does not go through a logger or flag set handed
    out by the real standard library resolves to a replacement that panics (both releases). *)
Theorem C13_exit_points_partial :
  forall e, In e exit_catalogue -> exit_side e = true ->
            y_exit live e = g_exit e /\ y_exit live_other e = g_exit e.
Proof. exact exit_points_partial. Qed.
Print Assumptions C13_exit_points_partial.

Theorem C13_exit_points_side_condition_inhabited :
  In (EMeth (s "log") (s "New") (s "Fatalf")) exit_catalogue
  /\ exit_side (EMeth (s "log") (s "New") (s "Fatalf")) = true
  /\ y_exit live (EFunc (s "os") (s "Exit")) = Recoverable.
Proof. exact exit_side_inhabited. Qed.
Print Assumptions C13_exit_points_side_condition_inhabited.

(** The same without fixStdlib (export set without fmt/fmt): the replacements of restricted.go alone. *)
Theorem C13_exit_points_without_fix :
  exit_partial_ok (no_fix live) = true /\ exit_partial_ok (no_fix live_other) = true.
Proof. exact exit_partial_nofix. Qed.
Print Assumptions C13_exit_points_without_fix.

(** Every replacement of stdlib/restricted.go named Exit/Fatal* panics and none calls a function
    that ends the process; extract.go's table and restricted.go agree with the binding rows. *)
Theorem C13_replacements_panic :
  replacements_panic live = true /\ (7 <=? length (t_restricted live)) = true.
Proof. exact replacements_panic_live. Qed.
Print Assumptions C13_replacements_panic.

Theorem C13_extract_consistent : extract_consistent live = true /\ extract_consistent live_other = true.
Proof. exact extract_consistent_live. Qed.
Print Assumptions C13_extract_consistent.

(** Refutation (for every table): a Default row bound to the real log.Default, not rebound by
    fixStdlib, gives the script a logger whose Fatal methods end the host. *)
Theorem C13_log_default_refuted :
  forall t rows meth,
    assoc (s "log") (t_bind t) = Some rows ->
    assoc (s "Default") rows = Some (s "log.Default") ->
    fix_row (t_fix t) (s "log") (s "Default") = None ->
    restricted_def t (s "log.Default") = None ->
    In meth [s "Fatal"; s "Fatalf"; s "Fatalln"] ->
    y_exit t (EMeth (s "log") (s "Default") meth) = HostExit
    /\ g_exit (EMeth (s "log") (s "Default") meth) = Recoverable.
Proof. exact log_default_refuted. Qed.
Print Assumptions C13_log_default_refuted.

(** ... and so does any real constructor returning a *log.Logger (slog.NewLogLogger) or a flag set
    created with flag.ExitOnError. *)
Theorem C13_real_ctor_refuted :
  forall t pkg ctor rows x typ meth,
    assoc pkg (t_bind t) = Some rows -> assoc ctor rows = Some x ->
    fix_row (t_fix t) pkg ctor = None -> restricted_def t x = None ->
    real_result x = Some typ -> real_method typ meth = HostExit ->
    y_exit t (EMeth pkg ctor meth) = HostExit.
Proof. exact real_ctor_refuted. Qed.
Print Assumptions C13_real_ctor_refuted.

(** witness: the rows of today's source (frozen copy; the live rows are compared with the
    implementation on every run through the cases files) *)
Theorem C13_exit_points_refuted :
  y_exit snapshot (EMeth (s "log") (s "Default") (s "Fatal")) = HostExit
  /\ y_exit snapshot (EMeth (s "log/slog") (s "NewLogLogger") (s "Fatal")) = HostExit
  /\ y_exit snapshot (EMeth (s "flag") (s "NewFlagSet") (s "Parse")) = HostExit
  /\ y_exit snapshot (EFunc (s "flag") (s "Parse")) = HostExit
  /\ y_exit snapshot (EMeth (s "log") (s "New") (s "Fatal")) = Recoverable
  /\ y_exit snapshot (EFunc (s "log") (s "Fatal")) = Recoverable.
Proof. exact exit_refuted_snapshot. Qed.
Print Assumptions C13_exit_points_refuted.

(* ------------------------------------------------------------------ redirected I/O *)

(** Every I/O function of the catalogue other than the package-level functions of flag reads and
    writes what Options gave (print builtins, fmt.Print*/Scan*, the 16 log functions, os.Args,
    flag.CommandLine, the seven environment functions; both releases). *)
Theorem C13_io_redirected_partial :
  forall f, In f io_catalogue -> io_side f = true ->
            y_sink live f = g_sink f /\ y_sink live_other f = g_sink f.
Proof. exact io_redirected_partial. Qed.
Print Assumptions C13_io_redirected_partial.

Theorem C13_io_redirected_side_condition_inhabited :
  In (IOName (s "fmt") (s "Scanf")) io_catalogue /\ io_side (IOName (s "fmt") (s "Scanf")) = true
  /\ y_sink live (IOName (s "fmt") (s "Scanf")) = OptStdin
  /\ y_sink live (IOBuiltin (s "println")) = OptStdout.
Proof. exact io_side_inhabited. Qed.
Print Assumptions C13_io_redirected_side_condition_inhabited.

(** Refutation (for every table): flag.Parse, flag.Args, flag.Bool ... bound to the real functions
    work on the host's command line, not on Options.Args. *)
Theorem C13_flag_parse_refuted :
  forall t rows name,
    assoc (s "flag") (t_bind t) = Some rows ->
    In name [s "Parse"; s "Args"; s "Bool"] ->
    assoc name rows = Some (s "flag." ++ name) ->
    fix_row (t_fix t) (s "flag") name = None ->
    restricted_def t (s "flag." ++ name) = None ->
    y_sink t (IOName (s "flag") name) = HostArgs /\ g_sink (IOName (s "flag") name) = OptArgs.
Proof. exact flag_parse_refuted. Qed.
Print Assumptions C13_flag_parse_refuted.

Theorem C13_io_refuted :
  y_sink snapshot (IOName (s "flag") (s "Parse")) = HostArgs
  /\ g_sink (IOName (s "flag") (s "Parse")) = OptArgs
  /\ y_sink snapshot (IOName (s "flag") (s "CommandLine")) = OptStderr.
Proof. exact io_refuted_snapshot. Qed.
Print Assumptions C13_io_refuted.

(* ------------------------------------------------------------------ several interpreters in one process *)

(** Every global symbol table, every list of fixStdlib rows, every interleaving of New / Use /
    script compilations of any number of interpreters (restricted or not, any symbol sets): a script
    of interpreter i resolves every name to what it would resolve if i were the only interpreter of
    the process (its own overrides, bound to its own Options), and the global table (stdlib.Symbols,
    unrestricted.Symbols ...) is never modified. Unbounded: induction on the operation list. *)
Theorem C13_use_isolated_full :
  forall rows g ops,
    y_houts true rows (hinit g) ops = g_houts rows g [] ops
    /\ glob (y_hrun true rows (hinit g) ops) = g.
Proof. exact use_isolated. Qed.
Print Assumptions C13_use_isolated_full.

(** The copying mode is the one of the source: Use stores a fresh map and copies entry by entry
    (regenerated from interp/use.go). *)
Theorem C13_use_copies : use_copies = true.
Proof. exact use_copies_live. Qed.
Print Assumptions C13_use_copies.

(** Non-vacuity on the regenerated rows (A, unrestricted B loading the unrestricted set, then a
    restricted C): copying gives each interpreter its own streams and C a panicking os.Exit; the
    aliasing mode (binPkg adopts the caller's map) sends A's output to B, hands C the real os.Exit
    and modifies the global table. *)
Theorem C13_use_isolated_inhabited :
  map (obs_of live) (y_houts true (t_fix live) (hinit live_gtable) iso_ops)
    = [ROwner 1; ROwner 1; RPanics; ROwner 3; RExits; RHost]
  /\ map (obs_of live) (y_houts false (t_fix live) (hinit live_gtable) iso_ops)
    = [ROwner 2; ROwner 1; RExits; ROwner 3; RExits; ROwner 3]
  /\ gtable_eqb (glob (y_hrun false (t_fix live) (hinit live_gtable) iso_ops)) live_gtable = false
  /\ gtable_eqb (glob (y_hrun true (t_fix live) (hinit live_gtable) iso_ops)) live_gtable = true.
Proof. exact iso_example. Qed.
Print Assumptions C13_use_isolated_inhabited.

(* ------------------------------------------------------------------ replacement types and values *)

(** Shape of every replacement type of stdlib/restricted.go (regenerated): no exported field, no
    embedded type, exported methods among the allowed forwards and none calling a function that ends
    the process, every exit-like method defined and panicking, no function or method returning the
    real type the replacement stands for (both releases' binding rows). *)
Theorem C13_replacements_opaque :
  replacements_opaque live sb_restricted_types = true /\ replacements_opaque live_other sb_restricted_types = true
  /\ (1 <=? length sb_restricted_types) = true /\ (1 <=? length (guarded_reals live sb_restricted_types)) = true.
Proof. exact replacements_opaque_live. Qed.
Print Assumptions C13_replacements_opaque.

(** For every table, every replacement type of opaque shape, every route a script has from a
    replacement value (own methods, method values and expressions, interface assertion, embedding in
    a script type, field selection by any name, reflect Field / FieldByName / scan / Method / Convert)
    and every method: the call does not end the host. Unbounded over tables, field lists, names, indices. *)
Theorem C13_routes_confined_full :
  forall t ty fs r meth, type_opaque t ty fs = true -> y_route t ty fs r meth <> HostExit.
Proof. exact routes_confined. Qed.
Print Assumptions C13_routes_confined_full.

(** Non-vacuity / refutation for a non-opaque shape: an embedded real logger with only the Fatal
    overrides is rejected by the shape check and its field routes reach the real Fatal*. *)
Theorem C13_embedded_logger_refuted :
  type_opaque snapshot (s "logLogger") embedded_shape = false
  /\ y_route snapshot (s "logLogger") embedded_shape (RFieldSel (s "Logger")) (s "Fatalln") = HostExit
  /\ y_route snapshot (s "logLogger") embedded_shape (RReflField 0) (s "Fatal") = HostExit
  /\ y_route snapshot (s "logLogger") embedded_shape RDirect (s "Fatal") = Recoverable
  /\ y_route snapshot (s "logLogger") [(s "l", false, false, s "*log.Logger")] (RFieldSel (s "l")) (s "Fatal") = Recoverable.
Proof. exact embedded_refuted. Qed.
Print Assumptions C13_embedded_logger_refuted.

(* ------------------------------------------------------------------ print builtins, every statement form *)

(** The generators of the print builtins mention, in all their branches (plain, defer, go ...), no
    function of fmt other than the Fprint family and no host stream (regenerated from interp/run.go). *)
Theorem C13_builtins_host_free : builtins_host_free live = true.
Proof. exact builtins_host_free_live. Qed.
Print Assumptions C13_builtins_host_free.

Theorem C13_builtins_host_free_refuted :
  builtins_host_free {| t_keys := []; t_bind := []; t_restricted := []; t_extract := []; t_fix := [];
                        t_builtin := [(s "print", [s "fmt.Fprintf"; s "n.interp.stdout"; s "fmt.Print"]);
                                      (s "println", [s "fmt.Fprintf"; s "n.interp.stdout"])] |} = false.
Proof. exact builtins_host_free_refuted. Qed.
Print Assumptions C13_builtins_host_free_refuted.

(* ------------------------------------------------------------------ closed world; command defaults *)

(** Every callee of every replacement of stdlib/restricted.go is an allowed forward or another
    replacement (regenerated): a helper defined elsewhere voids the judgement by callees. *)
Theorem C13_replacements_closed : replacements_closed live = true.
Proof. exact replacements_closed_live. Qed.
Print Assumptions C13_replacements_closed.

(** cmd/yaegi run and test: the six defaults are strconv.ParseBool(os.Getenv("YAEGI_...")) (regenerated),
    and then, for every value of the variable and every flag, the opt-in set is loaded exactly when an
    explicit flag says so or the variable holds a ParseBool-true value. *)
Theorem C13_cli_env_defaults : cli_defaults_parsebool sb_cli_env_defaults = true.
Proof. exact cli_defaults_live. Qed.
Print Assumptions C13_cli_env_defaults.

Theorem C13_cli_on_full :
  forall rows value flagv, cli_defaults_parsebool rows = true -> y_cli_on rows value flagv = g_cli_on value flagv.
Proof. exact cli_on_agrees. Qed.
Print Assumptions C13_cli_on_full.
