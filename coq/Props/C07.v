(** C07 — Values and calls cross the host/script boundary unchanged.
    Only theorem statements, each closed by [exact] of a lemma of Boundary/Proofs.v.
    Partial by construction: the models are of yaegi's marshalling logic; [reflect] (Call, CallSlice,
    MakeFunc, Set, IsZero) is written down as yaegi relies on it, not verified. *)
From Verif Require Import Lib.Str Boundary.Types Boundary.Marshal Boundary.Proofs.

(** The property at full strength (false of the faithful model today, see the [_refuted] theorems):
    in every direction, for every call context, signature, call mode and argument list the callee
    observes Go's binding of the caller's arguments; every placement hands the results over in order;
    a variable access observes the variable's current value and a write stores the new one; every
    method form of a host type goes through; a script value handed over as an interface keeps its
    method set and comparability. *)
Definition C07_statement : Prop :=
  (forall d cx ins va m args, call_wf ins va m args ->
      vals_eqb (y_bind d cx ins va m args) (g_bind ins va m args) = true)
  /\ (forall d p outs res, Forall2 okv outs res -> vals_eqb (y_results d p outs res) (g_results p res) = true)
  /\ (forall c t atc cur, y_hostvar_read c t atc cur = g_var_read cur)
  /\ (forall w t atc old new, okv t new -> val_eqb (y_hostvar_write w t atc old new) (g_var_write new) = true)
  /\ (forall f vp np na, y_method_outcome f vp np na = None)
  /\ (forall p sm q, y_host_sees p sm q = g_host_sees sm q)
  /\ (forall f over del methods, y_dispatch f over del methods = g_dispatch over del methods)
  /\ (forall h, y_session true h = g_session h)
  /\ (forall p hm sh d k, y_echo p hm sh d k = g_echo k)
  /\ (forall f c v1 v2, y_stmt f c v1 v2 = g_stmt v1 v2).

(** One value, both directions: what the script reads of a host value is the value; what the host
    reads of a script value is the value (functions: the same graph). Induction over nested graphs. *)
Theorem C07_roundtrip :
  forall t v, okv t v ->
    script_view (to_script t v) = v /\ val_eqb (host_view (to_host (vsize v) t v)) v = true.
Proof. exact roundtrip. Qed.
Print Assumptions C07_roundtrip.

(** A function that crosses twice is wrapped once, and calling it through the wrappers gives the
    function's own results: call (wrap (wrap f)) args = call f args. *)
Theorem C07_wrap_twice :
  forall f1 f2 ins va outs r pts a,
    okv (TFunc ins va outs) (VFunc r pts) -> vsize (VFunc r pts) <= S f1 ->
    vals_eqb (call (to_host f2 (TFunc ins va outs) (to_host (S f1) (TFunc ins va outs) (VFunc r pts))) a)
             (call (VFunc r pts) a) = true.
Proof. exact call_through_wrappers. Qed.
Print Assumptions C07_wrap_twice.

Theorem C07_roundtrip_inhabited :
  okv t_cb v_cb /\ to_host (vsize v_cb) t_cb v_cb <> v_cb
  /\ call (to_host 3 t_cb (to_host (vsize v_cb) t_cb v_cb)) [VInt 2] = [VStr (s "two")].
Proof. exact roundtrip_inhabited. Qed.
Print Assumptions C07_roundtrip_inhabited.

(** Variadic packing then spreading is the identity, for reflect's packing and for Go's, for all
    argument lists. *)
Theorem C07_variadic :
  forall n args, n <= length args ->
    spread n (reflect_pack n args) = args /\ spread n (go_pack n args) = args.
Proof. exact variadic_both. Qed.
Print Assumptions C07_variadic.

(** Argument binding, all directions, all signatures and argument lists, outside the regions. *)
Theorem C07_bind_partial :
  forall d cx ins va m args,
    bind_side d cx ins va m args = true -> call_wf ins va m args ->
    vals_eqb (y_bind d cx ins va m args) (g_bind ins va m args) = true.
Proof. exact bind_agree. Qed.
Print Assumptions C07_bind_partial.

Theorem C07_bind_side_condition_inhabited :
  bind_side S2H cx0 ins_v true MInd args_v = true /\ call_wf ins_v true MInd args_v
  /\ y_bind S2H cx0 ins_v true MInd args_v = [VStr (s "a"); VSlice [VInt 1; VInt 2]].
Proof. exact bind_side_inhabited. Qed.
Print Assumptions C07_bind_side_condition_inhabited.

(** Skipping a zero argument equals copying it — the destination slot being freshly zeroed — as
    long as "IsZero" means "is the zero value", i.e. no negative zero. *)
Theorem C07_zero_skip_sound :
  forall fuel t v, has_type fuel t v = true -> no_negzero v = true -> copy_arg t (zero t) v = v.
Proof. exact zero_skip_sound. Qed.
Print Assumptions C07_zero_skip_sound.

(** Results: any number of results, every placement shape (assigned variables, blank, return
    slots, operand slots): reading the destinations back yields the results in order. *)
Theorem C07_multi_result :
  forall p base res fr, base + length res < length fr ->
    read_back (dests_of p base (length res)) (place (dests_of p base (length res)) res fr) = g_results p res.
Proof. exact multi_result. Qed.
Print Assumptions C07_multi_result.

Theorem C07_results_full :
  forall d p outs res, Forall2 okv outs res -> vals_eqb (y_results d p outs res) (g_results p res) = true.
Proof. exact results_agree. Qed.
Print Assumptions C07_results_full.

(** Variables. *)
Theorem C07_hostvar_read_partial :
  forall c t atc cur, taken_for_type t atc = false -> (c = RLive \/ iface_like t = true \/ atc = cur) ->
    y_hostvar_read c t atc cur = g_var_read cur.
Proof. exact hostvar_read_agree. Qed.
Print Assumptions C07_hostvar_read_partial.

Theorem C07_hostvar_write_partial :
  forall w t atc old new, taken_for_type t atc = false -> w <> WDirectLit -> okv t new ->
    val_eqb (y_hostvar_write w t atc old new) (g_var_write new) = true.
Proof. exact hostvar_write_agree. Qed.
Print Assumptions C07_hostvar_write_partial.

Theorem C07_shared_full :
  forall t v, okv t v ->
    (forall d, val_eqb (y_shared d t v) v = true) /\ val_eqb (y_round_s t v) v = true /\ val_eqb (y_round_h t v) v = true.
Proof. exact shared_all. Qed.
Print Assumptions C07_shared_full.

(** Methods of host types: callBin's receiver offset is right for every non-variadic method in
    every supported form, and for variadic methods called on a value. *)
Theorem C07_method_partial :
  forall f vp np na, f <> FMethodExpr -> (f = FMethodValue -> vp = None /\ np <= na) -> (vp = None -> na <= np) ->
    y_method_outcome f vp np na = None.
Proof. exact method_agree. Qed.
Print Assumptions C07_method_partial.

(** Interface wrappers: the host finds every method of the parameter's own interface. *)
Theorem C07_wrapper_partial :
  forall p sm m, p <> PAnyParam -> (mem m (iface_methods p) = true \/ mem m sm = false) ->
    y_host_sees p sm (WMethod m) = g_host_sees sm (WMethod m).
Proof. exact wrapper_agree. Qed.
Print Assumptions C07_wrapper_partial.

(** Script types embedding host interfaces / host types, handed over as a host interface: for all
    reflect facts, override sets and method lists, every method the host calls runs the
    implementation Go's method sets select. *)
Theorem C07_embedded_partial :
  forall f over del methods, embed_side f over methods = true ->
    y_dispatch f over del methods = g_dispatch over del methods.
Proof. exact embedded_agree. Qed.
Print Assumptions C07_embedded_partial.

Theorem C07_embedded_side_condition_inhabited :
  embed_side f_val_only_iface [s "Len"; s "Less"; s "Swap"] [s "Len"; s "Less"; s "Swap"] = true
  /\ embed_side f_ptr_last [s "Less"] [s "Len"; s "Less"; s "Swap"] = true
  /\ y_dispatch f_ptr_last [s "Less"] true [s "Len"; s "Less"; s "Swap"] = ([WHost; WBoth; WHost], false).
Proof. exact embed_side_inhabited. Qed.
Print Assumptions C07_embedded_side_condition_inhabited.

(** A function value kept by the host: for all histories of evaluations (succeeding, panicking,
    failing to compile, cancelled) and native calls, every native call gives the function's results —
    provided no call falls between a cancellation and the next evaluation that reaches Execute. *)
Theorem C07_session_partial :
  forall h live, guarded live h = true -> y_session live h = g_session h.
Proof. exact session_agree. Qed.
Print Assumptions C07_session_partial.

Theorem C07_session_side_condition_inhabited : guarded true h_ok = true /\ y_session true h_ok = [OOk; OOk; OOk].
Proof. exact guarded_inhabited. Qed.
Print Assumptions C07_session_side_condition_inhabited.

(** The shape of the argument expression. A parameter of script interface type: for every shape
    (literal, slot, call, host call, conversion, calls nested to any depth), through any number of
    forwarding script functions — i.e. however deep the valueInterface boxes nest — the host receives
    the concrete value. *)
Theorem C07_echo_iface_full : forall hm sh d, y_echo PIface hm sh d KEcho = ARaw.
Proof. exact echo_iface. Qed.
Print Assumptions C07_echo_iface_full.

Theorem C07_echo_concrete_full : forall hm sh d, y_echo PConcrete hm sh d KEcho = ARaw.
Proof. exact echo_concrete. Qed.
Print Assumptions C07_echo_concrete_full.

Theorem C07_echo_any_partial : forall hm sh d, any_side hm sh d = true -> y_echo PAny hm sh d KEcho = ARaw.
Proof. exact echo_any. Qed.
Print Assumptions C07_echo_any_partial.

(** inhabitants of the side conditions and the refutations outside them (any-box-leak,
    hostiface-wrapper-visible, hostiface-unwrapped) *)
Theorem C07_echo_witnesses_refuted :
  a_forward PIface true 1 (a_expr PIface true (ANested 1)) = (ABox 3, false, false)
  /\ y_echo PIface true (ANested 1) 2 KEcho = ARaw
  /\ y_echo PAny true ASlot 0 KEcho = ABox 0 /\ g_echo KEcho = ARaw
  /\ y_echo PHostIface true ASlot 0 KEcho = AWrap
  /\ y_echo PConcrete true ACall 0 KEchoStr = AFail /\ g_echo KEchoStr = AWrap
  /\ y_echo PConcrete true ASlot 0 KEchoStr = AWrap.
Proof. exact echo_witnesses. Qed.
Print Assumptions C07_echo_witnesses_refuted.

(** go statements: a callee reached through call() (a host function held in a typed script variable
    or received as a parameter, a script function, closure or method) gets the values its arguments
    had at the statement. *)
Theorem C07_stmt_partial : forall c v1 v2, aliases_slots c = false -> y_stmt FGo c v1 v2 = g_stmt v1 v2.
Proof. exact stmt_agree. Qed.
Print Assumptions C07_stmt_partial.

(** inhabitants, and the refutations: go host.F(x) and every defer read the variable when the call runs *)
Theorem C07_stmt_witnesses_refuted :
  y_stmt FGo CHostParam (VInt 1) (VInt 2) = VInt 1 /\ y_stmt FGo CScriptClosure (VInt 1) (VInt 2) = VInt 1
  /\ y_stmt FGo CHostDirect (VInt 1) (VInt 2) = VInt 2 /\ y_stmt FDefer CScriptFunc (VInt 1) (VInt 2) = VInt 2
  /\ g_stmt (VInt 1) (VInt 2) = VInt 1.
Proof. exact stmt_witnesses. Qed.
Print Assumptions C07_stmt_witnesses_refuted.

(** Composite literals of host-declared slice/array types: un-keyed elements continue from the
    previous index, for all literals: only un-keyed, only keyed, a key followed by any number of
    un-keyed elements (Y transcribes compositeBinSlice; it is Go's rule, the contract is met). *)
Theorem C07_literal_index_full :
  (forall n p, lit_indexes p (repeat None n) = seq p n)
  /\ (forall ks p, lit_indexes p (map Some ks) = ks)
  /\ (forall j n p, lit_indexes p (Some j :: repeat None n) = seq j (S n)).
Proof. exact lit_all. Qed.
Print Assumptions C07_literal_index_full.

(** Refutations of the full statement on the faithful model (each replayed on the implementation). *)
Theorem C07_variadic_empty_refuted :
  y_bind S2H cx0 ins_v true MInd [VStr (s "a")] = [VStr (s "a"); VSlice []]
  /\ g_bind ins_v true MInd [VStr (s "a")] = [VStr (s "a"); VNil].
Proof. exact variadic_empty_refuted. Qed.
Print Assumptions C07_variadic_empty_refuted.

Theorem C07_defer_spread_refuted :
  y_bind S2H cx_deferred ins_v true MSpread [VStr (s "a"); VSlice [VInt 1]] = [VBad (s "panic"); VBad (s "panic")]
  /\ y_bind S2H cx_deferred [TString; TSlice TAny] true MSpread [VStr (s "a"); VSlice [VIface (TInt 64) (VInt 1)]]
     = [VStr (s "a"); VSlice [VIface (TSlice TAny) (VSlice [VIface (TInt 64) (VInt 1)])]]
  /\ g_bind ins_v true MSpread [VStr (s "a"); VSlice [VInt 1]] = [VStr (s "a"); VSlice [VInt 1]].
Proof. exact defer_spread_refuted. Qed.
Print Assumptions C07_defer_spread_refuted.

(** Regression (was C07_defer_callback_refuted until abe7a69): a deferred host call that calls back a
    closure held in a variable binds its arguments like any other call. *)
Theorem C07_defer_callback_regression :
  bind_side S2H cx_deferred [t_cb] false MPlain [v_cb] = true
  /\ vals_eqb (y_bind S2H cx_deferred [t_cb] false MPlain [v_cb]) (g_bind [t_cb] false MPlain [v_cb]) = true
  /\ call (hd VNil (y_bind S2H cx_deferred [t_cb] false MPlain [v_cb])) [VInt 2] = [VStr (s "two")].
Proof. exact defer_callback_regression. Qed.
Print Assumptions C07_defer_callback_regression.

Theorem C07_negzero_refuted :
  y_bind S2S cx0 [TFloat 64; TInt 64] false MPlain [neg0; VInt 42] = [VFloat 0; VInt 42]
  /\ y_bind H2S cx0 [TFloat 64; TInt 64] false MPlain [neg0; VInt 42] = [neg0; VInt 42]
  /\ g_bind [TFloat 64; TInt 64] false MPlain [neg0; VInt 42] = [neg0; VInt 42]
  /\ bind_side S2S cx0 [TFloat 64; TInt 64] false MPlain [neg0; VInt 42] = false
  /\ y_bind S2S cx_funcvalue [TFloat 64; TInt 64] false MPlain [neg0; VInt 42] = [neg0; VInt 42].
Proof. exact negzero_refuted. Qed.
Print Assumptions C07_negzero_refuted.

Theorem C07_variadic_slice_arg_refuted :
  y_bind S2S cx0 [TSlice TAny] true MInd [any_slice] = [VSlice [VIface (TInt 64) (VInt 1); VIface (TInt 64) (VInt 2)]]
  /\ g_bind [TSlice TAny] true MInd [any_slice] = [VSlice [any_slice]]
  /\ y_bind H2S cx0 [TSlice TAny] true MInd [any_slice] = [VSlice [any_slice]].
Proof. exact variadic_slice_arg_refuted. Qed.
Print Assumptions C07_variadic_slice_arg_refuted.

Theorem C07_hostvar_stale_refuted :
  y_hostvar_read RDirect (TInt 64) (VInt 7) (VInt 100) = VInt 7 /\ g_var_read (VInt 100) = VInt 100
  /\ y_hostvar_read RLive (TInt 64) (VInt 7) (VInt 100) = VInt 100
  /\ y_hostvar_read RDirect TAny (VIface (TInt 64) (VInt 7)) (VIface (TInt 64) (VInt 100)) = VIface (TInt 64) (VInt 100).
Proof. exact hostvar_stale_refuted. Qed.
Print Assumptions C07_hostvar_stale_refuted.

Theorem C07_hostvar_write_lit_refuted :
  y_hostvar_write WDirectLit tP (vP 1 "a") (vP 1 "a") (vP 5 "z") = vP 1 "a" /\ g_var_write (vP 5 "z") = vP 5 "z"
  /\ y_hostvar_write WDirect tP (vP 1 "a") (vP 1 "a") (vP 5 "z") = vP 5 "z".
Proof. exact hostvar_write_lit_refuted. Qed.
Print Assumptions C07_hostvar_write_lit_refuted.

Theorem C07_hostvar_nilptr_refuted :
  y_hostvar_read RLive (TPtr (TInt 64)) VNil (VPtr (VInt 3)) = VBad (s "compile-error")
  /\ g_var_read (VPtr (VInt 3)) = VPtr (VInt 3).
Proof. exact hostvar_nilptr_refuted. Qed.
Print Assumptions C07_hostvar_nilptr_refuted.

Theorem C07_method_value_variadic_refuted :
  y_method_outcome FMethodValue (Some 1) 2 3 = Some (s "panic")
  /\ y_method_outcome FValue (Some 1) 2 3 = None /\ y_method_outcome FMethodValue None 1 1 = None.
Proof. exact method_value_variadic_refuted. Qed.
Print Assumptions C07_method_value_variadic_refuted.

Theorem C07_method_expr_refuted : y_method_outcome FMethodExpr None 1 1 = Some (s "compile-error").
Proof. exact method_expr_refuted. Qed.
Print Assumptions C07_method_expr_refuted.

Theorem C07_iface_method_hidden_refuted :
  y_host_sees PErrorParam [s "Error"; s "Unwrap"] (WMethod (s "Unwrap")) = false
  /\ g_host_sees [s "Error"; s "Unwrap"] (WMethod (s "Unwrap")) = true
  /\ y_host_sees PErrorParam [s "Error"; s "Unwrap"] (WMethod (s "Error")) = true
  /\ y_host_sees PAnyParam [s "String"] (WMethod (s "String")) = false.
Proof. exact iface_method_hidden_refuted. Qed.
Print Assumptions C07_iface_method_hidden_refuted.

Theorem C07_iface_uncomparable_refuted :
  y_host_sees PErrorParam [s "Error"] WComparable = false /\ g_host_sees [s "Error"] WComparable = true.
Proof. exact iface_uncomparable_refuted. Qed.
Print Assumptions C07_iface_uncomparable_refuted.

Theorem C07_embedded_unwrapped_pointer_refuted :
  y_dispatch f_ptr_only_compiled [s "Write"] false [s "Write"] = ([WHost], false)
  /\ g_dispatch [s "Write"] false [s "Write"] = ([WScript], false).
Proof. exact embedded_unwrapped_pointer_refuted. Qed.
Print Assumptions C07_embedded_unwrapped_pointer_refuted.

Theorem C07_embedded_promoted_stub_refuted :
  y_dispatch f_val_only_iface [s "Len"] false [s "Len"; s "Less"; s "Swap"] = ([WScript; WNone; WNone], true)
  /\ g_dispatch [s "Len"] false [s "Len"; s "Less"; s "Swap"] = ([WScript; WHost; WHost], false).
Proof. exact embedded_promoted_stub_refuted. Qed.
Print Assumptions C07_embedded_promoted_stub_refuted.

Theorem C07_embedded_first_by_value_refuted :
  y_dispatch f_val_first [] false [s "Read"] = ([WNone], true)
  /\ g_dispatch [] false [s "Read"] = ([WHost], false).
Proof. exact embedded_first_by_value_refuted. Qed.
Print Assumptions C07_embedded_first_by_value_refuted.

Theorem C07_after_cancel_before_eval_refuted :
  y_session true h_dead = [OOk; OZero; OZero; OOk] /\ g_session h_dead = [OOk; OOk; OOk; OOk].
Proof. exact after_cancel_before_eval_refuted. Qed.
Print Assumptions C07_after_cancel_before_eval_refuted.

(** var o host.Op = neg (neg a declared script function): the *node is not wrapped *)
Theorem C07_functype_named_refuted :
  y_functype_wraps FRet = true /\ y_functype_wraps FConv = true
  /\ y_functype_wraps FVar = false /\ y_functype_wraps FParam = false /\ g_functype_wraps FVar = true.
Proof. exact functype_named_refuted. Qed.
Print Assumptions C07_functype_named_refuted.
