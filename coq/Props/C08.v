(** C08 — Concurrent execution is correct and free of interpreter-induced races.
    Only theorem statements, each closed by [exact] of a lemma of Conc/Proofs.v.

    Machine (Conc/Machine.v): threads with their own frame over a store of frames linked by [anc],
    shared channel heap, per-statement generated state, arbitrary scheduler (= any list of thread ids).
    The select statement exists in the variant of the code today ([Shared]: the case vector is generated
    state) and in the per-execution variant ([PerExec]: what Go prescribes, and the candidate repair).
    Which variant the SOURCE is in is read from interp/*.go on every run (gen/Captured_gen.v, tr-capture).

    Scope: the model proves isolation of the interpreter's bookkeeping for ALL interleavings. That the Go
    implementation of that bookkeeping contains no data race is a run-time fact: it is observed by the harness
    with the Go race detector (zero reports on the main stream), not proved. *)
From Coq Require Import List ZArith Bool Arith.
From Verif Require Import Conc.Machine Conc.Select Conc.Capture Conc.Closure Conc.Model Conc.Proofs.
From Verif Require Import gen.Captured_gen.
Import ListNotations.

(** The property as stated, for the interpreter as its source is today. *)
Definition C08_statement : Prop := statement_for source_variant.

(* ------------------------------------------------------------------ *)
(** * Tie to the source *)

(** Every write to per-statement (captured) state inside a run-time closure of interp/*.go is either
    allow-listed or a row of the open finding. Re-checked against the regenerated table on every run. *)
Theorem C08_captured_writes_allowlisted : captured_writes_reviewed captured_gen = true.
Proof. exact captured_reviewed_today. Qed.
Print Assumptions C08_captured_writes_allowlisted.

(** If all writes to captured state are allow-listed (the open finding gone), the source is the per-execution machine. *)
Theorem C08_readonly_table_is_perexec :
  forall rows, captured_readonly rows = true -> variant_of rows = PerExec.
Proof. exact readonly_variant. Qed.
Print Assumptions C08_readonly_table_is_perexec.

(* ------------------------------------------------------------------ *)
(** * For all schedules *)

(** frames_private: a step of thread t reads/writes only frames on the ancestor chain of t's own frame. *)
Theorem C08_frames_private_full :
  forall v p sched s t g w,
    In (EvFrame t g w) (snd (run v p sched s)) ->
    exists th, nth_error (threads (fst (run v p sched s))) t = Some th
               /\ reach (ancs (frames (fst (run v p sched s)))) (tframe th) g.
Proof. exact frames_private. Qed.
Print Assumptions C08_frames_private_full.

(** one frame per activation: the frame of an activation that was not spawned from and starts no goroutine
    is never read or written by any other thread. *)
Theorem C08_activation_frame_private_full :
  forall v p sched s t th,
    wf s -> nth_error (threads s) t = Some th -> code_no_go (tcode th) = true -> isolated s t ->
    forall u w, In (EvFrame u (tframe th) w) (snd (run v p sched s)) -> u = t.
Proof. exact activation_frame_private. Qed.
Print Assumptions C08_activation_frame_private_full.

(** generated_state_readonly: with a per-execution select vector, or without select, generated state is
    never written, no two adjacent steps conflict on it, and every receive happens on the designated channel. *)
Theorem C08_generated_state_readonly_partial :
  forall v p sched s nsel,
    readonly_cond v p s ->
    no_gen_write (snd (run v p sched s)) = true
    /\ no_crosstalk (snd (run v p sched s)) = true
    /\ gen_race nsel (snd (run_steps v p sched s)) = false.
Proof.
  intros v p sched s nsel H. destruct (readonly_run v p sched s H). auto using readonly_no_race.
Qed.
Print Assumptions C08_generated_state_readonly_partial.

(** isolation: each activation's local view depends only on its own arguments and its own communications. *)
Theorem C08_isolation_partial :
  forall v p sched s t lv,
    wf s -> isolated s t -> lview_of s t = Some lv ->
    code_local (lv_code lv) = true -> gen_readonly v (lv_code lv) = true ->
    lview_of (fst (run_steps v p sched s)) t = Some (replay t lv (snd (run_steps v p sched s))).
Proof. exact isolation. Qed.
Print Assumptions C08_isolation_partial.

Theorem C08_isolation_two_runs_partial :
  forall v1 p1 sched1 s1 t1 v2 p2 sched2 s2 t2 lv,
    wf s1 -> isolated s1 t1 -> lview_of s1 t1 = Some lv ->
    wf s2 -> isolated s2 t2 -> lview_of s2 t2 = Some lv ->
    code_local (lv_code lv) = true ->
    gen_readonly v1 (lv_code lv) = true -> gen_readonly v2 (lv_code lv) = true ->
    own_comms t1 (snd (run_steps v1 p1 sched1 s1)) = own_comms t2 (snd (run_steps v2 p2 sched2 s2)) ->
    lview_of (fst (run_steps v1 p1 sched1 s1)) t1 = lview_of (fst (run_steps v2 p2 sched2 s2)) t2.
Proof. exact isolation_two_runs. Qed.
Print Assumptions C08_isolation_two_runs_partial.

(** select_private_isolated: the repaired design satisfies the property as stated. *)
Theorem C08_select_private_isolated_full : statement_for PerExec.
Proof. exact statement_perexec. Qed.
Print Assumptions C08_select_private_isolated_full.

(** programs without a select statement: the code today already satisfies it. *)
Theorem C08_select_free_partial :
  forall v p sched s,
    prog_no_select p = true -> threads_no_select s ->
    visible (fst (run v p sched s)) = visible (fst (run PerExec p sched s))
    /\ no_gen_write (snd (run v p sched s)) = true
    /\ no_crosstalk (snd (run v p sched s)) = true.
Proof. exact statement_select_free. Qed.
Print Assumptions C08_select_free_partial.

(** the property as stated, under the side condition that the regenerated table holds no write to
    generated state outside the allow-list (negation = the known finding's region). *)
Theorem C08_statement_partial :
  forall rows, captured_readonly rows = true -> statement_for (variant_of rows).
Proof. exact statement_partial. Qed.
Print Assumptions C08_statement_partial.

(* ------------------------------------------------------------------ *)
(** * Non-vacuity *)

Theorem C08_premises_inhabited :
  wf (main_done PerExec) /\ isolated (main_done PerExec) 1
  /\ lview_of (main_done PerExec) 1 = Some worker_start
  /\ code_local (lv_code worker_start) = true /\ code_no_go (lv_code worker_start) = true
  /\ gen_readonly PerExec (lv_code worker_start) = true
  /\ readonly_cond PerExec witness_prog witness_init
  /\ lview_of (fst (run_steps PerExec witness_prog [1; 2; 1; 1; 2; 2] (main_done PerExec))) 1
     = Some {| lv_data := [VChan 0; VInt 7]; lv_code := []; lv_phase := PRun |}
  /\ existsb (fun e => match e with EvRecv 1 _ _ _ _ => true | _ => false end)
             (snd (run PerExec witness_prog witness_sched witness_init)) = true.
Proof. exact premises_inhabited. Qed.
Print Assumptions C08_premises_inhabited.

Theorem C08_select_free_inhabited :
  let p : prog := [(1, [IRecv (ESlot 0 0) 0 1])] in
  let s0 := {| frames := [{| anc := None; data := [VNil] |}]; chans := []; gens := [];
               threads := [{| tframe := 0; tphase := PRun;
                              tcode := [IMake 0 0; IGo 0 [ESlot 0 0]; ISend (ESlot 0 0) (EConst (VInt 5))] |}] |} in
  prog_no_select p = true /\ threads_no_select s0
  /\ received (fst (run Shared p [0; 0; 0; 1] s0)) 1 = VInt 5.
Proof. exact select_free_inhabited. Qed.
Print Assumptions C08_select_free_inhabited.

Theorem C08_statement_side_condition_inhabited : captured_readonly [] = true /\ variant_of [] = PerExec.
Proof. exact table_inhabited. Qed.
Print Assumptions C08_statement_side_condition_inhabited.

(* ------------------------------------------------------------------ *)
(** * Refutations on the faithful model (replayed on the implementation by the harness, region select-shared-cases) *)

(** two workers executing ONE select statement on their private channels: in the interleaving
    fill(A) fill(B) snapshot(A) fire(A), A receives the value of B's private channel and B starves;
    the two fills are adjacent conflicting writes to cases[0]. The same schedule is correct in [PerExec]. *)
Theorem C08_select_shared_refuted :
  received (fst (run Shared witness_prog witness_sched witness_init)) 1 = VInt 9
  /\ received (fst (run Shared witness_prog witness_sched witness_init)) 2 = VNil
  /\ crosstalk_events (snd (run Shared witness_prog witness_sched witness_init)) = [EvRecv 1 0 1 (VInt 9) (VChan 0)]
  /\ no_crosstalk (snd (run Shared witness_prog witness_sched witness_init)) = false
  /\ no_gen_write (snd (run Shared witness_prog witness_sched witness_init)) = false
  /\ gen_race 1 (snd (run_steps Shared witness_prog witness_sched witness_init)) = true
  /\ received (fst (run PerExec witness_prog witness_sched witness_init)) 1 = VInt 7
  /\ received (fst (run PerExec witness_prog witness_sched witness_init)) 2 = VInt 9.
Proof. exact select_shared_refuted. Qed.
Print Assumptions C08_select_shared_refuted.

Theorem C08_statement_shared_refuted : ~ statement_for Shared.
Proof. exact statement_shared_refuted. Qed.
Print Assumptions C08_statement_shared_refuted.

(** the frame slot of a function literal (getFunc). Without the write-back every go statement calls the
    closure of its own iteration, under every schedule and for every number of iterations ... *)
Theorem C08_getfunc_no_writeback_full :
  forall n sched, calls_ok (calls (lit_run false sched (lit_init n))).
Proof. exact getfunc_no_writeback_loop. Qed.
Print Assumptions C08_getfunc_no_writeback_full.

(** ... with the write-back of the code today (region getfunc-writeback) a go statement can find the zero
    Value (host crash "call of nil function") or the closure of an older iteration in the slot. *)
Theorem C08_getfunc_writeback_refuted :
  calls (lit_run true [0; 0; 0; 1; 0] (lit_init 2)) = [(0, Some 0); (1, None)]
  /\ calls (lit_run true [0; 0; 0; 0; 0; 2; 0] (lit_init 3)) = [(0, Some 0); (1, Some 1); (2, Some 0)]
  /\ calls (lit_run false [0; 0; 0; 1; 0] (lit_init 2)) = [(0, Some 0); (1, Some 1)]
  /\ calls (lit_run false [0; 0; 0; 0; 0; 2; 0] (lit_init 3)) = [(0, Some 0); (1, Some 1); (2, Some 2)].
Proof. exact getfunc_writeback_refuted. Qed.
Print Assumptions C08_getfunc_writeback_refuted.

Theorem C08_getfunc_writeback_statement_refuted :
  ~ (forall n sched, calls_ok (calls (lit_run true sched (lit_init n)))).
Proof. exact getfunc_writeback_not_ok. Qed.
Print Assumptions C08_getfunc_writeback_statement_refuted.

(** region case-lazy-reftype: the faithful outcome model accepts a race report on the type cache, Go has none. *)
Theorem C08_case_lazy_reftype_refuted :
  let p := mkparams TOpsLazy 2 3 5 7 in
  let o := mkobs true (g_expected p) false false true false in
  y_accepts PerExec false p o = true /\ g_accepts p o = false.
Proof. split; vm_compute; reflexivity. Qed.
Print Assumptions C08_case_lazy_reftype_refuted.

(** second finding (sequential, shows in a concurrent template): the operand expression of a send clause
    is not evaluated; the faithful outcome model differs from Go's closed form. *)
Theorem C08_select_send_expr_refuted :
  y_expected (mkparams TSelSendX 2 3 5 7) = [42; 6]%Z /\ g_expected (mkparams TSelSendX 2 3 5 7) = [147; 6]%Z.
Proof. split; vm_compute; reflexivity. Qed.
Print Assumptions C08_select_send_expr_refuted.
