(** C04 — Values are copied or shared exactly as Go prescribes.
    Only theorem statements, each closed by [exact] of a lemma of Mem/Proofs.v.

    G (Mem/GoStore.v): value trees + a heap of cells; Y (Mem/ReflectModel.v): yaegi's frame slots
    holding aliasing or detached reflect.Values.  Both run the operation grammar of GoStore.v
    (assignment, tuple assignment, :=, field / element update, append, copy, 2- and 3-index slicing,
    map insert / delete / lookup, &, *, conversion to interface{} and type assertion (an interface value is
    a boxed value tree: boxing a struct copies it, boxing a pointer / slice / map shares the referent),
    range over arrays / slices / pointers to arrays with a body, calls by value and by pointer) and print the whole pool at every [ODump]. *)
From Verif Require Import Mem.GoStore Mem.ReflectModel Mem.Cases Mem.Proofs.

(** The property at full strength: for every growth policy, every operation sequence and every
    state, yaegi's evaluation prints what Go prescribes (and panics exactly when Go does).
    False of the faithful model today: see the [_refuted] theorems. *)
Definition C04_statement : Prop :=
  forall (grow : growth) (os : ops) (s : st), y_ops grow s os = g_ops grow s os.

(** All operation sequences (unbounded length and nesting: induction over the operation list and
    the loop / callee bodies), all states, all growth policies, under the decidable side condition
    [wf_ops]: no struct literal assigned to a plain variable; no tuple assignment with a call
    (len, cap), a composite literal assigned to a plain variable, a map-entry destination or nil;
    no map-entry destination with an allocating right-hand side or a call; append(s, e1, .., en)
    with e2 .. en not plain reads.  The negation of the side condition is the union of the
    known-finding regions. *)
Theorem C04_refines_partial :
  forall (grow : growth) (os : ops) (s : st), wf_ops os = true -> y_ops grow s os = g_ops grow s os.
Proof. exact refines_ops. Qed.
Print Assumptions C04_refines_partial.

(** what is observed: the dumps and whether the run ended in a panic *)
Theorem C04_refines_observe_partial :
  forall grow os, wf_ops os = true ->
    fst (y_ops grow init_st os) = fst (g_ops grow init_st os)
    /\ (snd (y_ops grow init_st os) = None <-> snd (g_ops grow init_st os) = None).
Proof. intros grow os H. rewrite (refines_ops grow os init_st H). split; [reflexivity|tauto]. Qed.
Print Assumptions C04_refines_observe_partial.

Theorem C04_side_condition_inhabited :
  wf_ops w_ok = true /\ fst (g_ops grow0 init_st w_ok) = [w_ok_dump] /\ fst (y_ops grow0 init_st w_ok) = [w_ok_dump].
Proof. exact wf_inhabited. Qed.
Print Assumptions C04_side_condition_inhabited.

(** the staging of pure expressions: reading the slots when the consumer executes yields Go's value
    (all expressions, all heaps) *)
Theorem C04_expressions_full :
  forall h e,
    (forall l, bind (y_lv h e l) (resolve h) = g_lv h e l) /\
    (forall x, bind (y_rv h e x) (slot_get h) = g_rv h e x) /\
    (forall xs, bind (y_rvs h e xs) (slots_get h) = g_rvs h e xs) /\
    (forall o d, y_orv h e o d = g_orv h e o d).
Proof. exact expr_sound. Qed.
Print Assumptions C04_expressions_full.

(** ---- consequences: Go's copy / share rule, on G and transported to Y ---- *)

Theorem C04_array_assign_independent :
  forall grow s x y lx ly v vx,
  lookup (en s) x = Some lx -> lookup (en s) y = Some ly -> lx <> ly ->
  read (hp s) (ly, []) = Some v -> read (hp s) (lx, []) = Some vx ->
  exists s1,
    g_op grow s (OAssign (LVar x) (EPure (RLoad (LVar y)))) = ([], Some s1)
    /\ read (hp s1) (lx, []) = Some v /\ read (hp s1) (ly, []) = Some v
    /\ (forall sels nv h2, write (hp s1) (lx, sels) nv = Some h2 -> read h2 (ly, []) = Some v)
    /\ (forall sels nv h2, write (hp s1) (ly, sels) nv = Some h2 -> read h2 (lx, []) = Some v).
Proof. exact array_assign_independent. Qed.
Print Assumptions C04_array_assign_independent.

Theorem C04_array_assign_independent_yaegi :
  forall grow s x y lx ly v vx,
  lookup (en s) x = Some lx -> lookup (en s) y = Some ly -> lx <> ly ->
  read (hp s) (ly, []) = Some v -> read (hp s) (lx, []) = Some vx ->
  exists s1,
    y_op grow s (OAssign (LVar x) (EPure (RLoad (LVar y)))) = ([], Some s1)
    /\ read (hp s1) (lx, []) = Some v /\ read (hp s1) (ly, []) = Some v
    /\ (forall sels nv h2, write (hp s1) (lx, sels) nv = Some h2 -> read h2 (ly, []) = Some v)
    /\ (forall sels nv h2, write (hp s1) (ly, sels) nv = Some h2 -> read h2 (lx, []) = Some v).
Proof. exact array_assign_independent_y. Qed.
Print Assumptions C04_array_assign_independent_yaegi.

Theorem C04_struct_pass_independent :
  forall grow s y ly v px l z,
  lookup (en s) y = Some ly -> read (hp s) (ly, []) = Some v -> rooted px l ->
  forall d s1,
    g_op grow s (OCall None [px] (RCons (RLoad (LVar y)) RNone)
                       (OCons (OAssign l (EPure (RInt z))) ONil) ONone) = (d, Some s1) ->
    read (hp s1) (ly, []) = Some v /\ en s1 = en s.
Proof. exact struct_pass_independent. Qed.
Print Assumptions C04_struct_pass_independent.

Theorem C04_struct_pass_independent_yaegi :
  forall grow s y ly v px l z,
  lookup (en s) y = Some ly -> read (hp s) (ly, []) = Some v -> rooted px l ->
  forall d s1,
    y_op grow s (OCall None [px] (RCons (RLoad (LVar y)) RNone)
                       (OCons (OAssign l (EPure (RInt z))) ONil) ONone) = (d, Some s1) ->
    read (hp s1) (ly, []) = Some v /\ en s1 = en s.
Proof. exact struct_pass_independent_y. Qed.
Print Assumptions C04_struct_pass_independent_yaegi.

Theorem C04_range_array_snapshot :
  forall grow s x lx es k v body,
  lookup (en s) x = Some lx -> read (hp s) (lx, []) = Some (VArr es) ->
  g_op grow s (ORange k v RkArr (RLoad (LVar x)) body)
  = range_iter (fun s' => g_ops grow s' body) (fun _ i => nth_error es i) k v (length es) 0 s.
Proof. exact range_array_snapshot. Qed.
Print Assumptions C04_range_array_snapshot.

Theorem C04_range_array_snapshot_yaegi :
  forall grow s x lx es k v body,
  wf_ops body = true ->
  lookup (en s) x = Some lx -> read (hp s) (lx, []) = Some (VArr es) ->
  y_op grow s (ORange k v RkArr (RLoad (LVar x)) body)
  = range_iter (fun s' => y_ops grow s' body) (fun _ i => nth_error es i) k v (length es) 0 s.
Proof. exact range_array_snapshot_y. Qed.
Print Assumptions C04_range_array_snapshot_yaegi.

Theorem C04_range_slice_live :
  forall grow s x lx base off len cap k v body,
  lookup (en s) x = Some lx -> read (hp s) (lx, []) = Some (VSlice base off len cap) ->
  g_op grow s (ORange k v RkSlice (RLoad (LVar x)) body)
  = range_iter (fun s' => g_ops grow s' body) (fun h i => read h (elem_path base off i)) k v len 0 s.
Proof. exact range_slice_live. Qed.
Print Assumptions C04_range_slice_live.

Theorem C04_slice_shares_backing :
  forall h e xa la es lo hi i z h',
  lookup e xa = Some la -> read h (la, []) = Some (VArr es) ->
  lo <= hi -> hi <= length es -> i < hi - lo ->
  exists sv,
    g_rv h e (RSlice (RAddr (LVar xa)) (OSome (RInt (Z.of_nat lo))) (OSome (RInt (Z.of_nat hi))) ONone) = Some sv
    /\ forall xs ls, lookup e xs = Some ls -> read h (ls, []) = Some sv ->
       (t <- g_lv h e (LSIdx (RLoad (LVar xs)) (RInt (Z.of_nat i))) ;; store h t (VInt z)) = Some h' ->
       read h' (la, [lo + i]) = Some (VInt z).
Proof. exact slice_shares_backing. Qed.
Print Assumptions C04_slice_shares_backing.

Theorem C04_append_within_cap_aliases :
  forall grow h ek zero base off len cap v r h',
  len + 1 <= cap ->
  append_vals grow h ek zero (VSlice base off len cap) [v] = Some (r, h') ->
  r = VSlice base off (len + 1) cap /\ read h' (elem_path base off len) = Some v.
Proof. exact append_within_cap_aliases. Qed.
Print Assumptions C04_append_within_cap_aliases.

Theorem C04_append_beyond_cap_fresh :
  forall grow h ek zero base off len cap vs r h',
  cap < len + length vs ->
  append_vals grow h ek zero (VSlice base off len cap) vs = Some (r, h') ->
  (exists c, r = VSlice (length h, []) 0 (len + length vs) c)
  /\ forall p, fst p < length h -> read h' p = read h p.
Proof. exact append_beyond_cap_fresh. Qed.
Print Assumptions C04_append_beyond_cap_fresh.

Theorem C04_map_shared :
  forall h e l kvs xm lm xm2 lm2 k v zero h',
  lookup e xm = Some lm -> lookup e xm2 = Some lm2 ->
  read h (lm, []) = Some (VMap l) -> read h (lm2, []) = Some (VMap l) ->
  nth_error h l = Some (CMap kvs) ->
  (t <- g_lv h e (LMap (RLoad (LVar xm2)) (RInt k)) ;; store h t v) = Some h' ->
  read h' (lm, []) = Some (VMap l) ->
  g_rv h' e (RMapGet (RLoad (LVar xm)) (RInt k) zero) = Some v.
Proof. exact map_shared. Qed.
Print Assumptions C04_map_shared.

(** ---- refutations of the full statement on the faithful model (each witness is replayed on the
    implementation: the region streams of harness/c04.go) ---- *)

Theorem C04_var_struct_lit_refuted : differ w_var_struct_lit.
Proof. exact var_struct_lit_refuted. Qed.
Print Assumptions C04_var_struct_lit_refuted.

Theorem C04_multi_assign_lit_refuted : differ w_multi_lit.
Proof. exact multi_assign_lit_refuted. Qed.
Print Assumptions C04_multi_assign_lit_refuted.

Theorem C04_multi_assign_call_refuted : differ w_multi_call.
Proof. exact multi_assign_call_refuted. Qed.
Print Assumptions C04_multi_assign_call_refuted.

Theorem C04_multi_assign_map_entry_refuted : differ w_multi_map.
Proof. exact multi_assign_map_entry_refuted. Qed.
Print Assumptions C04_multi_assign_map_entry_refuted.

Theorem C04_multi_assign_nil_refuted :
  differ w_multi_nil /\ snd (y_ops grow0 init_st w_multi_nil) = None /\ snd (g_ops grow0 init_st w_multi_nil) <> None.
Proof. exact multi_assign_nil_refuted. Qed.
Print Assumptions C04_multi_assign_nil_refuted.

Theorem C04_append_alias_refuted : differ w_append_alias.
Proof. exact append_alias_refuted. Qed.
Print Assumptions C04_append_alias_refuted.

(** hence the full statement is false of the faithful model *)
Theorem C04_statement_refuted : ~ C04_statement.
Proof. exact statement_refuted. Qed.
Print Assumptions C04_statement_refuted.
