(** C12 — Ill-typed programs are rejected before anything runs.
    Only theorem statements, each closed by [exact] of a lemma of Tc/Lifting.v or Tc/Proofs.v.

    G = Tc/GoTyping.v (Go's typing rules on MiniGo), Y = Tc/YaegiCheck.v (typecheck.go / cfg.go as
    implemented, operator predicate tables regenerated from the source), one checker skeleton
    (Tc/Checker.v), mutation operators Tc/Mutations.v, sites Tc/Sites.v, pipeline Tc/Pipeline.v.
    [applicable R m p st]: the node designated by the site, rewritten by the operator, is rejected
    by the rules R where it stands (decidable: computed by the checker in the environment of the
    site). *)
From Verif Require Import Tc.Syntax Tc.Checker Tc.GoTyping Tc.Pred Tc.YaegiCheck Tc.Mutations Tc.Sites
     Tc.Lifting Tc.Pipeline Tc.Proofs.
From Verif Require Import gen.OpPred_gen.

(** The property at full strength: every single-point mutant that Go's rules reject at the mutated
    node makes yaegi's checks return an error, and nothing of the program — initialisation of
    imported packages included — has run.  False of the faithful model today (see [_refuted]). *)
Definition C12_statement : Prop :=
  (forall p p' st m, y_check p = Ok tt -> mutate m p st = Some p' -> applicable g_rules m p st = true ->
                     y_check p' = Err)
  /\ (forall w, g_world_ok w = false -> y_eval w = ([], 1%N)).

(** The expectations of the harness are sound, for all programs, sites and operators: a mutant whose
    rewritten node Go's rules reject is an ill-typed program (induction over the site: function,
    statement path through nested blocks with the environment threaded, expression path). *)
Theorem mutants_ill_typed :
  forall p p' st m, g_check p = Ok tt -> mutate m p st = Some p' -> applicable g_rules m p st = true ->
                    g_check p' = Err.
Proof. exact Proofs.mutants_ill_typed. Qed.
Print Assumptions mutants_ill_typed.

Theorem mutants_ill_typed_inhabited :
  g_check p_land = Ok tt /\ applicable g_rules (MBinop BLand) p_land s_land = true.
Proof. exact Proofs.mutants_ill_typed_inhabited. Qed.
Print Assumptions mutants_ill_typed_inhabited.

(** The same for any rule set: a failure at a node is never masked by its context, and the verdict is
    an error exactly (not a panic, not an unmodelled answer). *)
Theorem C12_failure_propagates :
  forall (R : rules) m p p' st, check R p = Ok tt -> mutate m p st = Some p' -> applicable R m p st = true ->
                                check R p' = Err.
Proof. exact failure_propagates. Qed.
Print Assumptions C12_failure_propagates.

(** Partial: where yaegi's own rule rejects the rewritten node, yaegi rejects the program — whatever
    the program, the nesting depth and the position of the site. The side condition's negation
    (Go's rule rejects the node, yaegi's does not) is the region of the known findings below. *)
Theorem C12_rejects_partial :
  forall p p' st m, y_check p = Ok tt -> mutate m p st = Some p' -> applicable y_rules m p st = true ->
                    y_check p' = Err.
Proof. exact y_rejects_where_its_rule_rejects. Qed.
Print Assumptions C12_rejects_partial.

Theorem C12_rejects_side_condition_inhabited :
  y_check p_not = Ok tt /\ applicable y_rules (MUnop UNot) p_not s_not = true
  /\ applicable g_rules (MUnop UNot) p_not s_not = true
  /\ exists p', mutate (MUnop UNot) p_not s_not = Some p' /\ y_check p' = Err.
Proof. exact y_rejects_inhabited. Qed.
Print Assumptions C12_rejects_side_condition_inhabited.

(** The catalogue: typed preconditions under which an operator is applicable.
    For Go's rules (the numbers are those of DESIGN.md Appendix D.1). *)
Theorem C12_cat01_operand_string :
  forall P G o a b tb cb, typeof g_rules P G b = Ok (tb, cb) -> class_of tb <> VString ->
    fails_expr g_rules P (MOperand 0 RStr) G (E (HBin o) [a; b]) = true.
Proof. exact g_cat01_operand_string. Qed.
Print Assumptions C12_cat01_operand_string.

Theorem C12_cat02_operand_other_int :
  forall P G o a b k k' ca cb,
    typeof g_rules P G a = Ok (TB k, ca) -> typeof g_rules P G b = Ok (TB k, cb) ->
    k_integer k = true -> k_integer k' = true -> k <> k' -> o <> BShl -> o <> BShr ->
    fails_expr g_rules P (MOperand 0 (RConv (TB k'))) G (E (HBin o) [a; b]) = true.
Proof. exact g_cat02_operand_other_int. Qed.
Print Assumptions C12_cat02_operand_other_int.

Theorem C12_cat03_04_07_operator_not_defined :
  forall P G o o' a b ta ca tb cb u,
    typeof g_rules P G a = Ok (ta, ca) -> typeof g_rules P G b = Ok (tb, cb) -> unify ta tb = Some u ->
    class_of ta = class_of u -> class_of tb = class_of u -> g_op_defined o' u = false ->
    fails_expr g_rules P (MBinop o') G (E (HBin o) [a; b]) = true.
Proof. exact g_cat_binop. Qed.
Print Assumptions C12_cat03_04_07_operator_not_defined.

Theorem C12_cat03_rem_on_float :
  forall P G o a b ca cb, typeof g_rules P G a = Ok (TB KFloat, ca) -> typeof g_rules P G b = Ok (TB KFloat, cb) ->
    fails_expr g_rules P (MBinop BRem) G (E (HBin o) [a; b]) = true.
Proof. exact g_cat03_rem_on_float. Qed.
Print Assumptions C12_cat03_rem_on_float.

Theorem C12_cat04_add_on_bool :
  forall P G o a b ca cb, typeof g_rules P G a = Ok (TB KBool, ca) -> typeof g_rules P G b = Ok (TB KBool, cb) ->
    fails_expr g_rules P (MBinop BAdd) G (E (HBin o) [a; b]) = true.
Proof. exact g_cat04_add_on_bool. Qed.
Print Assumptions C12_cat04_add_on_bool.

Theorem C12_cat04_land_on_int :
  forall P G o a b k ca cb, typeof g_rules P G a = Ok (TB k, ca) -> typeof g_rules P G b = Ok (TB k, cb) ->
    k_integer k = true -> fails_expr g_rules P (MBinop BLand) G (E (HBin o) [a; b]) = true.
Proof. exact g_cat04_land_on_int. Qed.
Print Assumptions C12_cat04_land_on_int.

Theorem C12_cat05_unary_not_defined :
  forall P G o e t c, typeof g_rules P G e = Ok (t, c) -> g_un_defined o (class_of t) = false ->
    fails_expr g_rules P (MWrapUn o) G e = true.
Proof. exact g_cat05_wrap_unop. Qed.
Print Assumptions C12_cat05_unary_not_defined.

Theorem C12_cat07_less_on_bool :
  forall P G o a b ca cb, typeof g_rules P G a = Ok (TB KBool, ca) -> typeof g_rules P G b = Ok (TB KBool, cb) ->
    fails_expr g_rules P (MBinop BLt) G (E (HBin o) [a; b]) = true.
Proof. exact g_cat07_less_on_bool. Qed.
Print Assumptions C12_cat07_less_on_bool.

Theorem C12_cat08_other_named_type :
  forall P G rets x n n' k e G', check_stmt g_rules P rets G (SVar x (TN n k) e) = Ok G' -> n <> n' ->
    fails_stmt g_rules P (MSArg 0 (RConv (TN n' k))) rets G (SVar x (TN n k) e) = true.
Proof. exact g_cat08_other_named. Qed.
Print Assumptions C12_cat08_other_named_type.

Theorem C12_cat09_string_to_numeric_var :
  forall P G rets x t e k G', check_stmt g_rules P rets G (SVar x t e) = Ok G' -> kind_of t = Some k -> k <> KString ->
    fails_stmt g_rules P (MSArg 0 RStr) rets G (SVar x t e) = true.
Proof. exact g_cat09_var_string. Qed.
Print Assumptions C12_cat09_string_to_numeric_var.

Theorem C12_cat09_string_to_numeric_assign :
  forall P G rets l e tl cl k G',
    check_stmt g_rules P rets G (SAssign l e) = Ok G' -> typeof g_rules P G l = Ok (tl, cl) ->
    kind_of tl = Some k -> k <> KString ->
    fails_stmt g_rules P (MSArg 1 RStr) rets G (SAssign l e) = true.
Proof. exact g_cat09_assign_string. Qed.
Print Assumptions C12_cat09_string_to_numeric_assign.

Theorem C12_cat13_call_extra_argument :
  forall P G f args t, typeof g_rules P G (E (HCall f) args) = Ok t ->
    fails_expr g_rules P MArgExtra G (E (HCall f) args) = true.
Proof. exact g_cat13_call_extra. Qed.
Print Assumptions C12_cat13_call_extra_argument.

Theorem C12_cat13_call_missing_argument :
  forall (R : rules) P G f a r t, typeof R P G (E (HCall f) (a :: r)) = Ok t ->
    fails_expr R P MArgFewer G (E (HCall f) (a :: r)) = true.
Proof. exact cat13_call_fewer. Qed.
Print Assumptions C12_cat13_call_missing_argument.

Theorem C12_cat14_argument_of_wrong_type :
  forall P G f a r t fd p0 ps k,
    typeof g_rules P G (E (HCall f) (a :: r)) = Ok t -> nth_error (pfuncs P) f = Some fd -> fparams fd = p0 :: ps ->
    kind_of p0 = Some k -> k <> KString ->
    fails_expr g_rules P (MArg 0 RStr) G (E (HCall f) (a :: r)) = true.
Proof. exact g_cat14_arg_string. Qed.
Print Assumptions C12_cat14_argument_of_wrong_type.

Theorem C12_cat15_too_many_results :
  forall P G rets es G', check_stmt g_rules P rets G (SReturn es) = Ok G' ->
    fails_stmt g_rules P MSExtra rets G (SReturn es) = true.
Proof. exact g_cat15_return_extra. Qed.
Print Assumptions C12_cat15_too_many_results.

Theorem C12_cat15_too_few_results :
  forall (R : rules) P G rets a r G', check_stmt R P rets G (SReturn (a :: r)) = Ok G' ->
    fails_stmt R P MSFewer rets G (SReturn (a :: r)) = true.
Proof. exact cat15_return_fewer. Qed.
Print Assumptions C12_cat15_too_few_results.

Theorem C12_cat17_undefined_variable :
  forall P G x, lookup G undef_var = None -> fails_expr g_rules P MUndefVar G (E (HVar x) []) = true.
Proof. exact g_cat17_undef_var. Qed.
Print Assumptions C12_cat17_undefined_variable.

Theorem C12_cat18_undefined_field :
  forall (R : rules) P G f a s c fs,
    typeof R P G a = Ok (TS s, c) -> nth_error (pstructs P) s = Some fs -> length fs <= undef_field ->
    fails_expr R P MUndefField G (E (HField f) [a]) = true.
Proof. exact cat18_undef_field. Qed.
Print Assumptions C12_cat18_undefined_field.

Theorem C12_cat21_condition_of_type_int :
  forall P G c b1 b2 rets, fails_stmt g_rules P (MSArg 0 RInt) rets G (SIf c b1 b2) = true.
Proof. exact g_cat21_cond_int. Qed.
Print Assumptions C12_cat21_condition_of_type_int.

Theorem C12_cat22_struct_literal_arity :
  forall (R : rules) P G s a r t, typeof R P G (E (HSLit s) (a :: r)) = Ok t ->
    fails_expr R P MArgFewer G (E (HSLit s) (a :: r)) = true.
Proof. exact cat22_lit_fewer. Qed.
Print Assumptions C12_cat22_struct_literal_arity.

Theorem C12_cat25_len_of_int :
  forall P G a, fails_expr g_rules P (MArg 0 RInt) G (E HLen [a]) = true.
Proof. exact g_cat25_len_of_int. Qed.
Print Assumptions C12_cat25_len_of_int.

Theorem C12_cat27_conversion_string_to_int :
  forall P G e t c, typeof g_rules P G e = Ok (t, c) -> kind_of t = Some KString ->
    fails_expr g_rules P (MWrapConv (TB KInt)) G e = true.
Proof. exact g_cat27_conv_string_to_int. Qed.
Print Assumptions C12_cat27_conversion_string_to_int.

Theorem C12_cat29_string_index :
  forall P G a i k c, typeof g_rules P G a = Ok (TL k, c) ->
    fails_expr g_rules P (MArg 1 RStr) G (E HIndex [a; i]) = true.
Proof. exact g_cat29_index_string. Qed.
Print Assumptions C12_cat29_string_index.

(** The catalogue for yaegi's own rules (by its regenerated predicate tables): operators it does
    enforce, on typed non-constant operands. *)
Theorem C12_y_cat05_not_on_number :
  forall P G e k, typeof y_rules P G e = Ok (TB k, false) -> k <> KBool ->
    fails_expr y_rules P (MWrapUn UNot) G e = true.
Proof. exact y_cat05_not_on_number. Qed.
Print Assumptions C12_y_cat05_not_on_number.

Theorem C12_y_cat03_rem_on_float :
  forall P G o a b, typeof y_rules P G a = Ok (TB KFloat, false) -> typeof y_rules P G b = Ok (TB KFloat, false) ->
    fails_expr y_rules P (MBinop BRem) G (E (HBin o) [a; b]) = true.
Proof. exact y_cat03_rem_on_float. Qed.
Print Assumptions C12_y_cat03_rem_on_float.

Theorem C12_y_cat04_add_on_bool :
  forall P G o a b, typeof y_rules P G a = Ok (TB KBool, false) -> typeof y_rules P G b = Ok (TB KBool, false) ->
    fails_expr y_rules P (MBinop BAdd) G (E (HBin o) [a; b]) = true.
Proof. exact y_cat04_add_on_bool. Qed.
Print Assumptions C12_y_cat04_add_on_bool.

Theorem C12_y_cat09_value_of_other_kind :
  forall P G rets x k e G' fd,
    check_stmt y_rules P rets G (SVar x (TB k) e) = Ok G' ->
    nth_error (pfuncs P) 0 = Some fd -> fparams fd = [] -> fresults fd = [TB KString] -> k <> KString ->
    fails_stmt y_rules P (MSArg 0 (RCall 0)) rets G (SVar x (TB k) e) = true.
Proof. exact y_cat09_var_other_kind. Qed.
Print Assumptions C12_y_cat09_value_of_other_kind.

Theorem C12_y_cat21_non_constant_condition :
  forall P G c b1 b2 rets fd,
    nth_error (pfuncs P) 1 = Some fd -> fparams fd = [] -> fresults fd = [TB KInt] ->
    fails_stmt y_rules P (MSArg 0 (RCall 1)) rets G (SIf c b1 b2) = true.
Proof. exact y_cat21_cond_nonconst. Qed.
Print Assumptions C12_y_cat21_non_constant_condition.

Theorem C12_y_cat25_len_of_int :
  forall P G a fd, nth_error (pfuncs P) 1 = Some fd -> fparams fd = [] -> fresults fd = [TB KInt] ->
    fails_expr y_rules P (MArg 0 (RCall 1)) G (E HLen [a]) = true.
Proof. exact y_cat25_len_of_int. Qed.
Print Assumptions C12_y_cat25_len_of_int.

(** Refutations of the full statement on the faithful model (each replayed on the implementation by
    the mini stream of the harness, regions mini-land, mini-const-cond, mini-named-erasure,
    mini-index-nonindexable). *)
Theorem C12_land_refuted :
  g_check p_land = Ok tt /\ applicable g_rules (MBinop BLand) p_land s_land = true
  /\ exists p', mutate (MBinop BLand) p_land s_land = Some p' /\ g_check p' = Err /\ y_check p' = Ok tt.
Proof. exact land_refuted. Qed.
Print Assumptions C12_land_refuted.

Theorem C12_const_cond_refuted :
  g_check p_cond = Ok tt /\ applicable g_rules (MSArg 0 RInt) p_cond s_cond = true
  /\ exists p', mutate (MSArg 0 RInt) p_cond s_cond = Some p' /\ g_check p' = Err /\ y_check p' = Panic.
Proof. exact const_cond_refuted. Qed.
Print Assumptions C12_const_cond_refuted.

Theorem C12_named_erasure_refuted :
  g_check p_named = Ok tt /\ applicable g_rules (MSArg 0 (RCall 1)) p_named s_named = true
  /\ exists p', mutate (MSArg 0 (RCall 1)) p_named s_named = Some p' /\ g_check p' = Err /\ y_check p' = Ok tt.
Proof. exact named_erasure_refuted. Qed.
Print Assumptions C12_named_erasure_refuted.

Theorem C12_index_refuted :
  g_check p_index = Ok tt /\ applicable g_rules (MArg 0 (RCall 1)) p_index s_index = true
  /\ exists p', mutate (MArg 0 (RCall 1)) p_index s_index = Some p' /\ g_check p' = Err /\ y_check p' = Panic.
Proof. exact index_refuted. Qed.
Print Assumptions C12_index_refuted.

(** Nothing runs when a single package (or any main package without source imports) is rejected. *)
Theorem C12_no_effect_single_pkg : forall p, y_check p <> Ok tt -> fst (y_eval_single p) = [].
Proof. exact no_effect_single_pkg. Qed.
Print Assumptions C12_no_effect_single_pkg.

Theorem C12_no_effect_without_imports :
  forall w pk, nth_error w (length w - 1) = Some pk -> pk_imports pk = [] -> y_check (pk_body pk) <> Ok tt ->
               fst (y_eval w) = [].
Proof. exact no_effect_without_imports. Qed.
Print Assumptions C12_no_effect_without_imports.

Theorem C12_single_pkg_rejected_class : forall p, y_check p = Err -> y_eval_single p = ([], 1%N).
Proof. exact single_pkg_class. Qed.
Print Assumptions C12_single_pkg_rejected_class.

(** An imported source package has been initialised when the importer's type error is reported
    (replayed by the multi stream, region multi-pkg-init). *)
Theorem C12_multi_pkg_refuted :
  y_check main_bad = Err /\ g_check main_bad = Err /\ y_eval w_refuted = ([0], 3%N) /\ g_eval w_refuted = ([], 1%N).
Proof. exact multi_pkg_refuted. Qed.
Print Assumptions C12_multi_pkg_refuted.

(** The operator predicate tables of typecheck.go (regenerated on every run) say what the Go
    specification says, for every operator and every reflect kind. *)
Theorem op_predicates_agree :
  forall (a : action) (k : rkind),
    (if existsb (action_eqb a) all_unary_actions then y_unary_ok a k else y_binary_ok a k) = go_op_ok a k.
Proof. exact Proofs.op_predicates_agree. Qed.
Print Assumptions op_predicates_agree.
