(** C15 — Package-level variables initialise in dependency order; init functions in source order;
    main last; imported packages first and once.
    Only theorem statements, each closed by [exact] of a lemma of Init/Proofs.v.

    Y = yaegi's mechanism (interp/cfg.go genGlobalVarDecl, with the fix "restart the scan after each
        emitted variable", + getVarDependencies, program.go Execute, src.go importSrc), G = the Go specification as implemented by the Go toolchain (Init/Model.v). *)
From Coq Require Import NArith List Bool Permutation.
From Verif Require Import Init.Model Init.Proofs.
Import ListNotations.

(** The property at full strength (false of the faithful model today, see the [_refuted] theorems):
    every program prints its initialisation marks under yaegi in the order Go prescribes. *)
Definition C15_statement : Prop := forall g : program, y_trace g = g_trace g.

(** ** Partial: where yaegi and Go provably agree (all declaration lists, all import graphs) *)

(** Whole programs: packages listed in import-path order which is also yaegi's loading order, and
    every package either already sorted or plain (in any order of declaration). *)
Theorem C15_program_partial : forall g, program_side g = true -> y_trace g = g_trace g.
Proof. exact program_agree. Qed.
Print Assumptions C15_program_partial.

Theorem C15_program_side_condition_inhabited :
  program_side w_program = true
  /\ y_trace w_program = Some [2; 3; 1; 7; 1; 2; 4; 5; 6; 8; 2; 3; 1; 9; 0]%N.
Proof. exact program_inhabited. Qed.
Print Assumptions C15_program_side_condition_inhabited.

(** Which functions run by themselves.  For ALL lists of declarations around the special names
    (functions, methods with value or pointer receiver, function literals bound to locals, package
    variables of func type; named init, main or otherwise; any number, any order, any package):
    yaegi's two tests ([n.child[1].ident == "init" && len(n.child[0].child) == 0] in cfg,
    [pkgName == mainID] with [gs.sym[mainID]] in CompileAST / importSrc) select exactly the
    receiver-less functions named init, in source order, then main's main for package main only.
    [decls_wf]: no package variable named main in package main (Go rejects it). *)
Theorem C15_special_names_full :
  forall is_main ds, decls_wf is_main ds = true -> y_special is_main ds = g_special is_main ds.
Proof. exact special_agree. Qed.
Print Assumptions C15_special_names_full.

(** Non-vacuity and sensitivity: a program with look-alikes in every package satisfies the side
    condition, Y and G print the same, and dropping either of the two tests changes the output. *)
Theorem C15_special_names_inhabited :
  program_side w_special = true
  /\ y_trace w_special = Some [3; 4; 22; 5; 1; 11; 12; 18; 15; 2; 17; 0; 19; 13]%N
  /\ g_trace w_special = Some [3; 4; 22; 5; 1; 11; 12; 18; 15; 2; 17; 0; 19; 13]%N
  /\ trace_along y_order y_special_no_recv_test (packages w_special) (y_pkg_order w_special)
     = Some [21; 3; 4; 22; 5; 11; 12; 1; 11; 12; 18; 15; 2; 17; 0; 19; 13]%N
  /\ trace_along y_order y_special_no_pkg_test (packages w_special) (y_pkg_order w_special)
     = Some [3; 4; 22; 22; 5; 1; 11; 12; 18; 15; 2; 17; 0; 19; 13]%N.
Proof. exact special_inhabited. Qed.
Print Assumptions C15_special_names_inhabited.

(** One package, any declaration list (functions, methods, var x, y = f(), var x, y = e1, e2,
    misleading identifiers): if every identifier an initialiser mentions, directly or through
    function bodies, is declared by an earlier spec, both orders are the declaration order. *)
Theorem C15_sorted_partial : forall p, decl_sorted p = true -> y_order p = g_order p.
Proof. exact sorted_agree. Qed.
Print Assumptions C15_sorted_partial.

Theorem C15_sorted_order :
  forall p, decl_sorted p = true ->
            y_order p = Some (flat_map (fun s => map ilog (spec_inits s)) (pspecs p)).
Proof. exact sorted_order. Qed.
Print Assumptions C15_sorted_order.

Theorem C15_sorted_side_condition_inhabited :
  decl_sorted w_sorted = true /\ plain w_sorted = false /\ y_order w_sorted = Some [1; 2; 4; 5; 6]%N.
Proof. exact sorted_inhabited. Qed.
Print Assumptions C15_sorted_side_condition_inhabited.

(** One package, any order of declaration: no function-mediated dependency, one variable per spec,
    no misleading identifier.  (Before the fix of genGlobalVarDecl this needed the further side
    condition "no pass steps over a variable that has become ready".) *)
Theorem C15_partial : forall p, plain p = true -> y_order p = g_order p.
Proof. exact plain_agree. Qed.
Print Assumptions C15_partial.

Theorem C15_partial_side_condition_inhabited :
  plain w_plain = true /\ decl_sorted w_plain = false /\ y_order w_plain = Some [2; 3; 1]%N.
Proof. exact plain_inhabited. Qed.
Print Assumptions C15_partial_side_condition_inhabited.

(** The scheduling loop itself is correct at full strength: on every dependency graph the repaired
    loop of genGlobalVarDecl emits the nodes, and leaves nodes over, exactly like "repeatedly the
    earliest ready variable".  What remains partial is the dependency graph yaegi builds. *)
Theorem C15_schedule_full : forall nodes, y_sched nodes = g_sched nodes.
Proof. exact sched_agree. Qed.
Print Assumptions C15_schedule_full.

(** Regression for the repaired defect (finding C15-skipped-ready, fixed):
    var a = c; var b = a; var c = 1; var d = 2 is now initialised in Go's order c a b d; the loop as
    it was before the fix gave c d a b.  The program is case 1 of every run of the harness, in the
    main stream, so a return of the defect is a violation. *)
Theorem C15_direct_regression :
  y_order w_direct = Some [3; 1; 2; 4]%N /\ g_order w_direct = Some [3; 1; 2; 4]%N
  /\ plain w_direct = true /\ decl_sorted w_direct = false
  /\ logs_of (old_sched (y_nodes w_direct)) = Some [3; 4; 1; 2]%N.
Proof. exact direct_regression. Qed.
Print Assumptions C15_direct_regression.

(** Packages: if the packages are listed in import-path order, each after its imports, and yaegi
    loads them in that order, Go initialises them in that order too. *)
Theorem C15_pkg_order_partial : forall g, pkgs_in_path_order g = true -> g_pkg_order g = y_pkg_order g.
Proof. exact pkg_order_agree. Qed.
Print Assumptions C15_pkg_order_partial.

(** ** What yaegi's algorithm guarantees unconditionally *)

(** Every variable emitted has all its direct dependencies emitted before it. *)
Theorem C15_Y_respects_direct_deps :
  forall nodes e r, y_sched nodes = (e, r) ->
  forall e1 n e2, e = e1 ++ n :: e2 -> forall d, In d (ndeps n) -> In d (map nid e1).
Proof. exact y_respects_direct_deps. Qed.
Print Assumptions C15_Y_respects_direct_deps.

(** Every variable is emitted exactly once or left over. *)
Theorem C15_Y_emits_once :
  forall nodes e r, y_sched nodes = (e, r) -> Permutation (e ++ r) nodes.
Proof. exact y_emits_once. Qed.
Print Assumptions C15_Y_emits_once.

(** The loop ends with "variable definition loop" iff some set of nodes blocks itself (every node
    of the set has a direct dependency carried only by nodes of the set). *)
Theorem C15_Y_total_iff_no_stuck_set :
  forall nodes e r, y_sched nodes = (e, r) -> (r <> [] <-> exists S, stuck_set nodes S).
Proof. exact y_total_iff_no_stuck_set. Qed.
Print Assumptions C15_Y_total_iff_no_stuck_set.

Theorem C15_cycle_rejected : y_order w_cycle = None /\ g_order w_cycle = None.
Proof. exact cycle_rejected. Qed.
Print Assumptions C15_cycle_rejected.

(** The specification model never runs an initialiser before the variables it depends on. *)
Theorem C15_G_respects_deps :
  forall nodes e r, g_sched nodes = (e, r) ->
  forall e1 n e2, e = e1 ++ n :: e2 -> forall d, In d (ndeps n) -> In d (map nid e1).
Proof. exact g_respects_deps. Qed.
Print Assumptions C15_G_respects_deps.

(** Imported packages: for every acyclic import graph (any listing with imports first), yaegi's
    memoised depth-first loader initialises every package at most once, the entry package and
    (by the third clause) everything it needs, and each package after all the packages it imports. *)
Theorem C15_import_once :
  forall g, topo_listed [] (packages g) = true -> find_pk (packages g) (entry g) <> None ->
  NoDup (y_pkg_order g)
  /\ In (entry g) (y_pkg_order g)
  /\ (forall l1 p l2 pk q, y_pkg_order g = l1 ++ p :: l2 -> find_pk (packages g) p = Some pk ->
                           In q (pk_imports pk) -> In q l1).
Proof. exact import_once. Qed.
Print Assumptions C15_import_once.

Theorem C15_import_once_inhabited :
  topo_listed [] (packages w_program) = true /\ find_pk (packages w_program) (entry w_program) <> None
  /\ y_pkg_order w_program = [1; 2; 9]%N.
Proof. exact import_inhabited. Qed.
Print Assumptions C15_import_once_inhabited.

(** ** Refutations of the full statement on the faithful model (each replayed on the implementation
       and on compiled Go by the harness, stream "witness") *)

(** var a = f(); var b = 1; func f() int { return b } : Go b a, yaegi a b. *)
Theorem C15_refuted_through_func :
  y_order w_func = Some [1; 2]%N /\ g_order w_func = Some [2; 1]%N
  /\ plain w_func = false /\ decl_sorted w_func = false.
Proof. exact refuted_through_func. Qed.
Print Assumptions C15_refuted_through_func.

(** var a = x; var x, y = f(c); var c = 1 : the variables of a multi-value declaration are not
    dependencies for yaegi: Go c xy a, yaegi a c xy. *)
Theorem C15_refuted_multi_call :
  y_order w_multi_call = Some [1; 4; 2]%N /\ g_order w_multi_call = Some [4; 2; 1]%N.
Proof. exact refuted_multi_call. Qed.
Print Assumptions C15_refuted_multi_call.

(** var a, b = f(c), g(); var c = 1 : one unit for yaegi, two variables for Go: Go b c a, yaegi c a b. *)
Theorem C15_refuted_multi_unit :
  y_order w_multi_unit = Some [3; 1; 2]%N /\ g_order w_multi_unit = Some [2; 3; 1]%N.
Proof. exact refuted_multi_unit. Qed.
Print Assumptions C15_refuted_multi_unit.

(** var a = func(b int) int { return b }(0); var b = 1 : a parameter spelled like a package
    variable is a dependency for yaegi: Go a b, yaegi b a; with var b = a yaegi rejects the program. *)
Theorem C15_refuted_false_dep :
  (y_order w_false_dep = Some [2; 1]%N /\ g_order w_false_dep = Some [1; 2]%N)
  /\ (y_order w_false_loop = None /\ g_order w_false_loop = Some [1; 2]%N).
Proof. exact (conj refuted_false_dep refuted_false_loop). Qed.
Print Assumptions C15_refuted_false_dep.

(** var _ = f(); var _ int = g(); var _ = h() : all blank variables share yaegi's symbol [_], the
    earlier declarations wait for the last one: Go f g h, yaegi h f g.  (A single declaration with
    blanks per package, typed or not, is an ordinary variable in both models: main stream.) *)
Theorem C15_refuted_blank_shared :
  y_order w_blanks = Some [3; 1; 2]%N /\ g_order w_blanks = Some [1; 2; 3]%N.
Proof. exact refuted_blank_shared. Qed.
Print Assumptions C15_refuted_blank_shared.

(** main imports p02 then p01 (independent): Go initialises in import-path order, yaegi in import order. *)
Theorem C15_refuted_pkg_order :
  y_trace w_pkg_order = Some [21; 22; 11; 12; 91; 0]%N /\ g_trace w_pkg_order = Some [11; 12; 21; 22; 91; 0]%N.
Proof. exact refuted_pkg_order. Qed.
Print Assumptions C15_refuted_pkg_order.

Theorem C15_statement_refuted : ~ C15_statement.
Proof. exact statement_refuted. Qed.
Print Assumptions C15_statement_refuted.

(** Corner cases of G fixed by what the Go toolchain does (validated by the harness on compiled Go). *)
Theorem C15_go_corner_cases :
  g_order w_go_multi = Some [3; 2; 1]%N /\ g_order w_go_noinit = Some [2; 1]%N /\ y_order w_go_noinit = Some [2; 1]%N.
Proof. exact go_corner_cases. Qed.
Print Assumptions C15_go_corner_cases.
