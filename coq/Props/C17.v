(** C17 — Files are selected by build constraints as the Go toolchain selects them.
    Only theorem statements, each closed by [exact] of a lemma of Build/Proofs.v. *)
From Verif Require Import Lib.Str Build.Model Build.Proofs.

(** The property at full strength (false of the faithful model today, see the [_refuted] theorems):
    for every context, header and file name yaegi decides as go/build decides. *)
Definition C17_statement : Prop :=
  (forall c h, option_map fst (y_build_ok c (print_header h)) = Some (g_selected c h))
  /\ (forall c p st, y_skip_file c p st = g_skip_file c p st).

(** Constraint lines: all well-placed "+build"-only headers over the plain vocabulary
    (any number of lines, options, terms; any tags, context and negations). *)
Theorem C17_plusbuild_partial :
  forall c h, plain_header c h = true ->
              option_map fst (y_build_ok c (print_header h)) = Some (g_selected c h).
Proof. exact plusbuild_agree. Qed.
Print Assumptions C17_plusbuild_partial.

Theorem C17_plusbuild_side_condition_inhabited :
  plain_header linux_amd64 h_example = true /\ g_selected linux_amd64 h_example = true.
Proof. exact plain_header_inhabited. Qed.
Print Assumptions C17_plusbuild_side_condition_inhabited.

(** File names: for every list of "_"-separated words whose last two words lie in the region where
    both word lists agree, the decisions agree. *)
Theorem C17_name_partial :
  forall c a, name_side c a = true -> y_skip_core c a = negb (g_good_core c ([] :: a)).
Proof. exact name_core_agree. Qed.
Print Assumptions C17_name_partial.

Theorem C17_name_words :
  forall p i, index underscore p = Some i ->
              split underscore (skipn i p) = [] :: split underscore (skipn (i + 1) p).
Proof. exact split_at_index. Qed.
Print Assumptions C17_name_words.

Theorem C17_name_side_condition_inhabited :
  name_side linux_amd64 [s "b"; s "windows"; s "arm64"] = true
  /\ y_skip_core linux_amd64 [s "b"; s "windows"; s "arm64"] = true.
Proof. exact name_side_inhabited. Qed.
Print Assumptions C17_name_side_condition_inhabited.

(** yaegi:tags: tags are only ever added, platform fields never change. *)
Theorem C17_tags_monotone :
  forall c groups b c' x, y_build_ok c groups = Some (b, c') -> In x (btags c) -> In x (btags c').
Proof. exact build_ok_tags_monotone. Qed.
Print Assumptions C17_tags_monotone.

Theorem C17_platform_kept :
  forall c groups b c', y_build_ok c groups = Some (b, c') ->
                        goos c' = goos c /\ goarch c' = goarch c /\ minor c' = minor c.
Proof. exact build_ok_keeps_platform. Qed.
Print Assumptions C17_platform_kept.

(** Refutations of the full statement on the faithful model (each replayed on the implementation). *)
Theorem C17_gobuild_refuted :
  option_map fst (y_build_ok linux_amd64 (print_header h_gobuild_ignore)) = Some true
  /\ g_selected linux_amd64 h_gobuild_ignore = false.
Proof. exact gobuild_refuted. Qed.
Print Assumptions C17_gobuild_refuted.

Theorem C17_docplus_refuted :
  option_map fst (y_build_ok linux_amd64 (print_header h_doc_plus)) = Some false
  /\ g_selected linux_amd64 h_doc_plus = true.
Proof. exact docplus_refuted. Qed.
Print Assumptions C17_docplus_refuted.

Theorem C17_vocab_refuted :
  option_map fst (y_build_ok linux_amd64 (print_header h_unix)) = Some false
  /\ g_selected linux_amd64 h_unix = true.
Proof. exact vocab_refuted. Qed.
Print Assumptions C17_vocab_refuted.

(** No constraint line can crash the host (was refuted before the repair of buildLineOk/buildTagOk). *)
Theorem C17_line_never_panics : forall c line, y_line_ok c line <> None.
Proof. exact line_never_panics. Qed.
Print Assumptions C17_line_never_panics.

Theorem C17_irregular_spacing_example :
  y_line_ok linux_amd64 (s "+build windows  linux") = Some true
  /\ y_line_ok linux_amd64 (s "+build windows,,amd64") = Some false.
Proof. exact irregular_spacing_example. Qed.
Print Assumptions C17_irregular_spacing_example.

Theorem C17_name_refuted :
  (y_skip_file linux_amd64 (s "x_amd64_windows.go") true = false
   /\ g_skip_file linux_amd64 (s "x_amd64_windows.go") true = true)
  /\ (y_skip_file linux_amd64 (s "x_riscv64.go") true = false
      /\ g_skip_file linux_amd64 (s "x_riscv64.go") true = true)
  /\ (y_skip_file linux_amd64 (s "x_windows_test.go") false = false
      /\ g_skip_file linux_amd64 (s "x_windows_test.go") false = true).
Proof. exact name_refuted. Qed.
Print Assumptions C17_name_refuted.
