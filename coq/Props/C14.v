(** C14 — Every standard-library binding denotes the symbol it is named after.
    Only theorem statements, each closed by [exact] of a lemma of Bind/Proofs.v or Bind/Tables.v.

    The tables ([all_groups]) are regenerated from /repo/stdlib/** by the translator tr-bind on
    every run: every row of stdlib/go1_21_*.go and go1_22_*.go, of the syscall / unsafe /
    unrestricted sub-packages for the host platform, of wrapper-composed.go and maptypes.go, with
    the go/types view of each wrapped package in $GOROOT/src and the release lists of $GOROOT/api.
    The theorems about them are finite and proved by computation (one shard per file,
    Bind/Shard*.v); the bound "the rows of these files at this commit" is [In g all_groups].
    The tables of the other platforms for the release the installed toolchain compiles
    ([xplat_groups]: stdlib/syscall/go1_N_syscall_<os>_<arch>.go and their stdlib/unrestricted
    counterparts, 47 platform pairs, each with the go/types truth of its own GOOS/GOARCH) are
    regenerated and decided on every run as well (Bind/ShardX*.v, [C14_xplat_*] below).  (The
    tables of the other release are decided by the same functions, evaluated by coqc in the cases
    files of the thorough tier.)  The other theorems are unbounded. *)
From Verif Require Import Lib.Str Bind.Literal Bind.Model Bind.Proofs Bind.Tables.
Open Scope Z_scope.

(** The property at full strength (false of the tables today, see [C14_tables_refuted]):
    every row denotes its object exactly, nothing the release declares is missing, every wrapper
    forwards. *)
Definition C14_statement : Prop :=
  forall g, In g (all_groups ++ xplat_groups) ->
    (forall f r, In f (g_files g) -> In r (f_rows f) -> row_ok const_g g f r = true)
    /\ complete g = true /\ forwards g = true.

(* ------------------------------------------------------------------ *)
(** * The tables *)

(** Faithfulness, partial: every row outside the regions "untyped float constant whose value is not
    a dyadic rational" and "untyped rune constant" ([row_region] = [const_region] of the object's
    kind) denotes exactly the object it is named after: same identifier / exactly the same value,
    and for literals the same untyped kind (token), i.e. the same default type. *)
Theorem C14_faithful_partial :
  forall g f r, In g all_groups -> In f (g_files g) -> In r (f_rows f) ->
                row_region g r = false -> row_ok const_g g f r = true.
Proof. exact all_rows_exact_outside. Qed.
Print Assumptions C14_faithful_partial.

(** ... and inside the region every row is exactly what extract.fixConst makes of the constant:
    the tables are the generator's output for the installed release, row by row. *)
Theorem C14_rows_are_generated :
  forall g f r, In g all_groups -> In f (g_files g) -> In r (f_rows f) -> row_ok const_y g f r = true.
Proof. exact all_rows_generated. Qed.
Print Assumptions C14_rows_are_generated.

Theorem C14_faithful_side_condition_inhabited :
  exists r1 r2, In r1 (f_rows math_file) /\ In r2 (f_rows math_file)
    /\ r_name r1 = s "MaxInt64" /\ row_region math_group r1 = false /\ row_ok const_g math_group math_file r1 = true
    /\ r_name r2 = s "MaxFloat32" /\ row_region math_group r2 = false /\ row_ok const_g math_group math_file r2 = true
    /\ (exists n d, row_kind math_group r2 = Some (KUFloat n d)).
Proof. exact outside_inhabited. Qed.
Print Assumptions C14_faithful_side_condition_inhabited.

(** Completeness, full: every exported, non-generic, package-level object that the release declares
    for a wrapped package has a row (an interface also its wrapper row and wrapper type). *)
Theorem C14_complete_full : forall g, In g all_groups -> complete g = true.
Proof. exact all_complete. Qed.
Print Assumptions C14_complete_full.

(** Forwarding, full: every wrapper method calls the field of its name with its parameters. *)
Theorem C14_forward_full : forall g, In g all_groups -> forwards g = true.
Proof. exact all_forward. Qed.
Print Assumptions C14_forward_full.

(** Refutation of the full statement on the tables: a row of stdlib/go1_22_math.go (found by
    computation: "E") is what the generator emits, lies in the region, and does not denote the
    constant exactly.  Replayed on the compiled tables by the harness on every run. *)
Theorem C14_tables_refuted :
  exists g f r, In g all_groups /\ In f (g_files g) /\ In r (f_rows f)
    /\ row_ok const_y g f r = true /\ row_region g r = true /\ row_ok const_g g f r = false.
Proof. exact tables_refuted. Qed.
Print Assumptions C14_tables_refuted.

Theorem C14_statement_refuted : ~ C14_statement.
Proof. exact statement_all_refuted. Qed.
Print Assumptions C14_statement_refuted.

(** Second refutation (the untyped KIND of a constant): a row of stdlib/go1_22_unicode_utf8.go (found
    by computation: an untyped rune constant, "MaxRune"/"RuneError") is what the generator emits,
    lies in the region, and does not denote the constant: the literal is an INT literal (default
    type int) where Go declares a rune constant (default type rune).
    Replay: fmt.Printf("%T", utf8.RuneError) prints int32 compiled and int under yaegi. *)
Theorem C14_rune_tables_refuted :
  exists g f r z, In g all_groups /\ In f (g_files g) /\ In r (f_rows f)
    /\ row_kind g r = Some (KURune z) /\ row_ok const_y g f r = true /\ row_region g r = true
    /\ row_ok const_g g f r = false.
Proof. exact rune_refuted. Qed.
Print Assumptions C14_rune_tables_refuted.

(** ... and this is so for EVERY untyped rune constant and every bound expression (unbounded): what
    the generator model accepts is an INT literal of exactly the constant's value (the value is
    never wrong) and the property rejects it (the kind always is). *)
Theorem C14_generator_rune_refuted :
  forall f tp name z fm, obj_row_ok const_y f tp name (KURune z) fm = true ->
    (exists lit n d, fm = FLit TINT lit /\ parse_literal TINT lit = Some (n, d) /\ n * 1 = z * d)
    /\ obj_row_ok const_g f tp name (KURune z) fm = false.
Proof. exact obj_row_rune_spec. Qed.
Print Assumptions C14_generator_rune_refuted.

(** Third refutation (word size): the platform-INDEPENDENT binding files (one table for every
    platform) judged against go/types for a 32-bit platform, linux/386.  [wordsize_groups] is
    regenerated: exactly the untyped constants whose value there differs from the host truth
    (math.MaxInt, MinInt, MaxUint, strconv.IntSize, bits.UintSize, ...) with their rows.  Every such
    row lies outside the other regions and does not denote the constant of that platform (a 386
    build of yaegi would bind math.MaxInt to 1<<63-1).  Decided on the tables and the go/types
    truth for 386; nothing is run on a 386 host. *)
Theorem C14_wordsize_all_differ :
  forall g f r, In g wordsize_groups -> In f (g_files g) -> In r (f_rows f) ->
    row_region g r = false /\ row_ok const_g g f r = false.
Proof. exact wordsize_all_differ. Qed.
Print Assumptions C14_wordsize_all_differ.

Theorem C14_wordsize_refuted :
  exists g f r, In g wordsize_groups /\ In f (g_files g) /\ In r (f_rows f)
    /\ row_region g r = false /\ row_ok const_g g f r = false.
Proof. exact wordsize_refuted. Qed.
Print Assumptions C14_wordsize_refuted.

(** ... necessarily (unbounded): one literal denotes at most one integer value, so a table shared
    by platforms on which the constant differs is wrong on all of them but one. *)
Theorem C14_literal_denotes_one_value :
  forall z1 z2 t lit n d, parse_literal t lit = Some (n, d) -> d <> 0 ->
    const_g (KUInt z1) t lit = true -> const_g (KUInt z2) t lit = true -> z1 = z2.
Proof. exact const_int_functional. Qed.
Print Assumptions C14_literal_denotes_one_value.

(* ------------------------------------------------------------------ *)
(** * The tables of the other platforms (cross-platform rows, quick set) *)

(** Every row of every binding file of another platform is what the generator emits for the
    identically named object of package syscall AS go/types SEES IT FOR THAT GOOS/GOARCH ... *)
Theorem C14_xplat_rows_are_generated :
  forall g f r, In g xplat_groups -> In f (g_files g) -> In r (f_rows f) -> row_ok const_y g f r = true.
Proof. exact xplat_rows_generated. Qed.
Print Assumptions C14_xplat_rows_are_generated.

(** ... hence denotes it exactly (same value for that platform) outside the float region. *)
Theorem C14_xplat_faithful_partial :
  forall g f r, In g xplat_groups -> In f (g_files g) -> In r (f_rows f) ->
                row_region g r = false -> row_ok const_g g f r = true.
Proof. exact xplat_rows_exact_outside. Qed.
Print Assumptions C14_xplat_faithful_partial.

(** Non-vacuity, and platform dependence of the truth: some cross-platform table binds
    O_LARGEFILE, the constant is NOT 0 there (it is 0 on the host), and the row denotes it exactly. *)
Theorem C14_xplat_inhabited :
  exists g f r z, In g xplat_groups /\ In f (g_files g) /\ In r (f_rows f)
    /\ r_name r = s "O_LARGEFILE" /\ row_kind g r = Some (KUInt z) /\ z <> 0
    /\ row_region g r = false /\ row_ok const_g g f r = true.
Proof. exact xplat_inhabited. Qed.
Print Assumptions C14_xplat_inhabited.

(** Forwarding, full, for the wrappers of every platform. *)
Theorem C14_xplat_forward_full : forall g, In g xplat_groups -> forwards g = true.
Proof. exact xplat_forward. Qed.
Print Assumptions C14_xplat_forward_full.

(** Completeness, partial: up to the regenerated drift list (objects the installed, later, release
    declares for a platform $GOROOT/api is silent about, absent from both releases of the table). *)
Theorem C14_xplat_complete_partial : forall g, In g xplat_groups -> complete_upto xplat_drift g = true.
Proof. exact xplat_complete_upto. Qed.
Print Assumptions C14_xplat_complete_partial.

(** What that means, for all tables and drift lists: an object without its rows is a listed drift
    object without api record; with an empty list it is completeness itself. *)
Theorem C14_complete_upto_means :
  forall drift g, complete_upto drift g = true -> g_complete g = true ->
  forall tp t, In tp (g_truth g) -> In t (tp_objs tp) ->
  obj_complete g tp t = true \/ (t_api t = ANone /\ In (t_id t) drift).
Proof. exact complete_upto_spec. Qed.
Print Assumptions C14_complete_upto_means.

Theorem C14_complete_upto_nil : forall g, complete_upto [] g = complete g.
Proof. exact complete_upto_nil. Qed.
Print Assumptions C14_complete_upto_nil.

(* ------------------------------------------------------------------ *)
(** * What the decision procedures decide (for all tables, not only today's) *)

(** [row_ok const_g] on an object row is the relation [denotes] (Bind/Proofs.v): same qualifier
    and identifier, variables by address, types as nil pointers, documented replacements from the
    regenerated restricted table, literals of exactly the constant's value AND untyped kind (an
    untyped rune constant is denoted by CHAR literals only: [D_rune]). *)
Theorem C14_decides_denotation :
  forall f tp name k fm, obj_row_ok const_g f tp name k fm = true <-> denotes f tp name k fm.
Proof. exact obj_row_ok_denotes. Qed.
Print Assumptions C14_decides_denotation.

Theorem C14_complete_means :
  forall g, complete g = true -> g_complete g = true ->
  forall tp t, In tp (g_truth g) -> In t (tp_objs tp) -> expected (g_release g) t = true ->
  exists f r, In f (g_files g) /\ In r (f_rows f) /\ r_key r = key_of tp /\ r_name r = t_name t.
Proof. exact complete_spec. Qed.
Print Assumptions C14_complete_means.

Theorem C14_forward_means :
  forall g, forwards g = true ->
  forall f w m, In f (g_files g) -> In w (f_wrappers f) -> In m (w_methods w) ->
  exists guard ps rs,
    wm_body m = BForward (match wm_results m with [] => false | _ => true end) (wm_recv m) (wfield (wm_name m))
                         (map (fun p => (p_name p, is_variadic p)) (wm_params m)) guard
    /\ (guard = true -> wm_name m = s "String")
    /\ In (wfield (wm_name m), FTFunc ps rs) (w_fields w)
    /\ types_of ps = types_of (wm_params m) /\ types_of rs = types_of (wm_results m).
Proof. exact forwards_spec. Qed.
Print Assumptions C14_forward_means.

(* ------------------------------------------------------------------ *)
(** * The generator model against the property (unbounded) *)

(** Outside the float region the generator model emits exactly what the property demands: for
    every group, file and row whatsoever. *)
Theorem C14_generator_partial :
  forall g f r, row_region g r = false -> row_ok const_y g f r = row_ok const_g g f r.
Proof. exact row_ok_agree. Qed.
Print Assumptions C14_generator_partial.

(** extract.fixConst is exact on every dyadic rational n/2^k (all n, all k >= 0): the literal it
    prints has the value of the constant. *)
Theorem C14_fixconst_dyadic_partial :
  forall n k, 0 <= k -> let '(M, E) := y_fixconst n (2 ^ k) in 0 < E /\ M * 2 ^ k = n * E.
Proof. exact y_fixconst_dyadic. Qed.
Print Assumptions C14_fixconst_dyadic_partial.

(** ... and not on others: 1/10, and the value of math.E. *)
Theorem C14_fixconst_refuted :
  q_eqb (y_fixconst 1 10) (1, 10) = false
  /\ q_eqb (y_fixconst 271828182845904523536028747135266249775724709369995957496696763
                       100000000000000000000000000000000000000000000000000000000000000)
           (271828182845904523536028747135266249775724709369995957496696763,
            100000000000000000000000000000000000000000000000000000000000000) = false.
Proof. exact fixconst_refuted. Qed.
Print Assumptions C14_fixconst_refuted.

(** Integer constants: the literal go/constant prints (ExactString, decimal) is read back exactly
    by the literal parser, for every integer. *)
Theorem C14_int_literal_exact :
  forall n, 0 <= n -> parse_literal TINT (print_dec n) = Some (n, 1)
                      /\ parse_literal TINT ("-"%char :: print_dec n) = Some (- n, 1).
Proof. exact int_literal_exact. Qed.
Print Assumptions C14_int_literal_exact.

(* ------------------------------------------------------------------ *)
(** * Non-vacuity of the specification theorems, and sensitivity of the decision procedure *)

(** A small table with a function, a variable, an interface with a variadic method, an integer and
    a dyadic float constant passes every check: the hypotheses of [C14_complete_means],
    [C14_forward_means] and [C14_generator_partial] are satisfiable. *)
Theorem C14_specification_inhabited :
  check_group ex_group = true /\ g_complete ex_group = true
  /\ rows_ok const_g ex_group = true
  /\ (exists t, In t (tp_objs ex_truth) /\ expected (g_release ex_group) t = true)
  /\ (exists m, In m (w_methods ex_wrapper) /\ existsb is_variadic (wm_params m) = true).
Proof. exact ex_group_checks. Qed.
Print Assumptions C14_specification_inhabited.

(** ... and the mis-bindings the property is about are rejected: a function of the same package
    under another name, a variable by value, a literal off by one, an object of a later release,
    a missing row, a wrapper method forwarding to another field of the same signature. *)
Theorem C14_misbindings_rejected :
  let f := hd (F [] [] [] [] []) (g_files ex_group) in
  row_ok const_g ex_group f (R 1 (s "fmt/fmt") (s "Println") (FSel (s "fmt") (s "Print"))) = false
  /\ row_ok const_g ex_group f (R 6 (s "fmt/fmt") (s "Out") (FSel (s "fmt") (s "Out"))) = false
  /\ row_ok const_g ex_group f (R 4 (s "fmt/fmt") (s "Version") (FLit TINT (s "8"))) = false
  /\ row_ok const_g ex_group f (R 7 (s "fmt/fmt") (s "Later") (FSel (s "fmt") (s "Later"))) = false
  /\ complete (G (s "example") 22 true
                 [F (s "stdlib/example.go") [(s "", s "fmt")] [] (tl (f_rows f)) [ex_wrapper]] [ex_truth]) = false
  /\ wrapper_ok (W 1 (s "_x") [(s "IValue", FTOther (s "interface{}")); (s "WA", FTFunc [] []); (s "WB", FTFunc [] [])]
                   [WM (s "A") (s "W") [] [] (BForward false (s "W") (s "WB") [] false);
                    WM (s "B") (s "W") [] [] (BForward false (s "W") (s "WB") [] false)]) = false.
Proof. exact ex_mutants_rejected. Qed.
Print Assumptions C14_misbindings_rejected.
