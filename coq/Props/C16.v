(** C16 — Source imports resolve to the right directory, once, without cycles.
    Only theorem statements, each closed by [exact] of a lemma of Imports/Proofs.v.
    Y = interp/src.go as written (effectivePkg, previousRoot, pkgDir, importSrc, gta's rewriting
    of the import path); G = cmd/go in GOPATH mode (nearest enclosing vendor directory with Go
    files, else GOPATH/src; relative imports against the importing directory; packages are
    directories). *)
From Verif Require Import Lib.Str Imports.Model Imports.Proofs Imports.Load Imports.Local.
From Coq Require Import Relations.Relation_Operators.

(** The property at full strength (false of the faithful model today, see the [_refuted]
    theorems): every import resolves as Go resolves it, and whole programs load alike — the same
    packages, each once, the same bindings, an error exactly for a real cycle — whether the entry
    is an import path or a file. The filesystem only enters through [st]/[hasgo]/[tree_stat]. *)
Definition C16_statement : Prop :=
  (forall st hasgo gsrc d ip, fs_closed st -> fs_hasgo_dir st hasgo -> plain ip = true ->
      y_resolve st gsrc d ip = g_resolve st hasgo gsrc d ip)
  /\ (forall c e, y_run_path c e = g_run_path c e)
  /\ (forall c, y_run_file c = g_run_file c).

(** ** Resolution *)

(** For all filesystems, importing directories (any depth) and import paths: outside the regions
    "subdir-shadow" and "vendor-nogofiles" ([resolve_side], decidable), pkgDir started at the
    importing directory answers what Go answers. *)
Theorem C16_resolve_partial :
  forall st hasgo gsrc d ip,
    fs_closed st -> fs_hasgo_dir st hasgo -> resolve_side st hasgo gsrc d ip = true ->
    y_resolve st gsrc d ip = g_resolve st hasgo gsrc d ip.
Proof. exact resolve_agree. Qed.
Print Assumptions C16_resolve_partial.

Theorem C16_resolve_side_inhabited :
  resolve_side (tree_stat t_nested) (tree_hasgo t_nested) (pth "gp/src") (pth "a/b/c") (pth "x") = true
  /\ g_resolve (tree_stat t_nested) (tree_hasgo t_nested) (pth "gp/src") (pth "a/b/c") (pth "x") = Some (pth "gp/src/a/b/vendor/x")
  /\ resolve_side (tree_stat t_nested) (tree_hasgo t_nested) (pth "gp/src") (pth "a/b/c") (pth "a/b/c/sub") = true
  /\ g_resolve (tree_stat t_nested) (tree_hasgo t_nested) (pth "gp/src") (pth "a/b/c") (pth "a/b/c/sub") = Some (pth "gp/src/a/b/c/sub")
  /\ resolve_side (tree_stat t_nested) (tree_hasgo t_nested) (pth "gp/src") (pth "a/b/vendor/y") (pth "z") = true.
Proof. exact resolve_side_inhabited. Qed.
Print Assumptions C16_resolve_side_inhabited.

(** the hypotheses on the filesystem hold of every tree of package directories *)
Theorem C16_tree_is_fs : forall t, fs_closed (tree_stat t) /\ fs_hasgo_dir (tree_stat t) (tree_hasgo t).
Proof. exact (fun t => conj (tree_stat_closed t) (tree_hasgo_dir t)). Qed.
Print Assumptions C16_tree_is_fs.

(** what the index arithmetic of effectivePkg computes, for all roots and import paths *)
Theorem C16_effective_pkg_spec :
  forall root ip, plain root = true -> plain ip = true -> ip <> [] ->
    y_effective_pkg root ip = root ++ eff_kept root ip.
Proof. exact effective_pkg_spec. Qed.
Print Assumptions C16_effective_pkg_spec.

(** previousRoot goes to a strictly shorter prefix and only skips levels without a vendor directory *)
Theorem C16_previous_root_spec :
  forall st gsrc root, root <> [] ->
    exists r' ext, root = r' ++ ext /\ ext <> [] /\ y_previous_root st gsrc root = r'
      /\ (forall e1 e2, ext = e1 ++ e2 -> e1 <> [] -> e2 <> [] ->
                        st (gsrc ++ (r' ++ e1) ++ [vendor]) = false).
Proof. exact previous_root_spec. Qed.
Print Assumptions C16_previous_root_spec.

(** pkgDir terminates on every filesystem *)
Theorem C16_pkg_dir_terminates :
  forall st gsrc ip fuel root, length root < fuel -> y_pkg_dir st gsrc fuel root ip <> OutOfFuel.
Proof. exact pkg_dir_fuel. Qed.
Print Assumptions C16_pkg_dir_terminates.

(** the rPath given to a package's own imports is its directory *)
Theorem C16_sub_rpath_is_dir :
  forall st gsrc ip, plain ip = true -> ip <> [] -> ~ In vendor (removelast ip) ->
    forall fuel root dir rp, plain root = true ->
      y_pkg_dir st gsrc fuel root ip = Found dir rp -> dir = gsrc ++ y_effective_pkg rp ip.
Proof. exact sub_rpath_is_dir. Qed.
Print Assumptions C16_sub_rpath_is_dir.

(** relative imports: right along a chain of relative imports from the entry file *)
Theorem C16_relative_partial :
  forall entry rpath dir ip, dir = entry ++ y_rel_rpath rpath ->
    y_rel_dir entry rpath ip = clean (dir ++ ip).
Proof. exact relative_agree. Qed.
Print Assumptions C16_relative_partial.

Theorem C16_relative_chain_inhabited :
  y_run_file (mkctx "gp/src" "work" t_rel_chain) = g_run_file (mkctx "gp/src" "work" t_rel_chain)
  /\ snd (y_run_file (mkctx "gp/src" "work" t_rel_chain)) = None.
Proof. exact relative_chain_agree. Qed.
Print Assumptions C16_relative_chain_inhabited.

(** ** Filesystem abstraction *)

Theorem C16_fs_agnostic :
  forall st1 st2 gsrc ip, (forall p, st1 p = st2 p) ->
    forall fuel root, y_pkg_dir st1 gsrc fuel root ip = y_pkg_dir st2 gsrc fuel root ip.
Proof. exact pkg_dir_ext. Qed.
Print Assumptions C16_fs_agnostic.

Theorem C16_fs_agnostic_trees :
  forall t1 t2 gsrc root ip, (forall p, tree_stat t1 p = tree_stat t2 p) ->
    y_resolve (tree_stat t1) gsrc root ip = y_resolve (tree_stat t2) gsrc root ip.
Proof. exact fs_agnostic_trees. Qed.
Print Assumptions C16_fs_agnostic_trees.

(** pkgDir's answer is determined by the Stat answers to three questions per ancestor [A] of the
    importing directory: is [A/vendor] a directory, is [A/vendor/<path>], is [effectivePkg(A, path)];
    nothing else of the filesystem (or of its implementation) can matter *)
Theorem C16_fs_local :
  forall st1 st2 gsrc ip fuel root,
    (forall p, In p (probes gsrc root ip) -> st1 p = st2 p) ->
    y_pkg_dir st1 gsrc fuel root ip = y_pkg_dir st2 gsrc fuel root ip.
Proof. exact pkg_dir_local. Qed.
Print Assumptions C16_fs_local.

(** ** Loading: once, terminating, no cycle *)

(** for every program and entry: importSrc terminates (cyclic graphs included) *)
Theorem C16_load_terminates :
  (forall c e, snd (y_run_path c e) <> Some EFuel) /\ (forall c, snd (y_run_file c) <> Some EFuel).
Proof. exact (conj load_terminates_path load_terminates_file). Qed.
Print Assumptions C16_load_terminates.

(** each import path is evaluated at most once; the init functions run are those of the memo *)
Theorem C16_load_once :
  forall c fuel rpath ip s' e, y_load c fuel y_init rpath ip = (s', e) ->
    NoDup (keys (y_memo s')) /\ inits (y_log s') = map snd (y_memo s').
Proof. exact load_once. Qed.
Print Assumptions C16_load_once.

(** a successful load contains the entry, is closed under import and has no import cycle:
    a cycle among the packages being loaded always ends in an error *)
Theorem C16_load_once_no_cycle :
  forall c fuel rpath ip s', y_load c fuel y_init rpath ip = (s', None) ->
    In (y_key ip) (keys (y_memo s')) /\ closed_memo c (y_memo s')
    /\ forall k, ~ clos_trans _ (key_edge c (y_memo s')) k k.
Proof. exact load_ok_acyclic. Qed.
Print Assumptions C16_load_once_no_cycle.

(** the cycle check sits after both branches of importSrc: a relative import of a package that is
    being loaded is reported at once, like an import by path (the relative branch cannot escape it) *)
Theorem C16_cycle_check_relative :
  forall c f s rp i, is_rel (y_key i) = true -> assoc (y_key i) (y_memo s) = None ->
    In (y_key i) (y_rdir s) -> y_load c (S f) s rp i = (s, Some ECycle).
Proof. exact cycle_check_relative. Qed.
Print Assumptions C16_cycle_check_relative.

Theorem C16_relative_cycle_inhabited :
  snd (y_run_file (mkctx "gp/src" "work" t_rel_cycle)) = Some ECycle
  /\ snd (g_run_file (mkctx "gp/src" "work" t_rel_cycle)) = Some ECycle.
Proof. exact relative_cycle_reported. Qed.
Print Assumptions C16_relative_cycle_inhabited.

Theorem C16_load_inhabited :
  inits (fst (y_run_path (mkctx "gp/src" "" t_diamond) (pth "e")))
  = [pth "gp/src/c"; pth "gp/src/a"; pth "gp/src/b"; pth "gp/src/e"]
  /\ y_run_path (mkctx "gp/src" "" t_diamond) (pth "e") = g_run_path (mkctx "gp/src" "" t_diamond) (pth "e")
  /\ y_run_path (mkctx "gp/src" "" t_cycle) (pth "e") = ([], Some ECycle)
  /\ g_run_path (mkctx "gp/src" "" t_cycle) (pth "e") = ([], Some ECycle).
Proof. exact load_examples. Qed.
Print Assumptions C16_load_inhabited.

Theorem C16_load_nested_inhabited :
  y_run_path (mkctx "gp/src" "" t_nested) (pth "a/b/c") = g_run_path (mkctx "gp/src" "" t_nested) (pth "a/b/c")
  /\ snd (y_run_path (mkctx "gp/src" "" t_nested) (pth "a/b/c")) = None
  /\ length (inits (fst (y_run_path (mkctx "gp/src" "" t_nested) (pth "a/b/c")))) = 5.
Proof. exact load_nested_agree. Qed.
Print Assumptions C16_load_nested_inhabited.

(** ** Whole programs *)

(** For every program of GOPATH packages and every entry import path: outside the regions
    ([good_prog], decidable: every import satisfies [resolve_side] and is not rewritten by gta, an
    import path names one directory and a directory has one import path, the entry is found where
    it is) importSrc and the specification produce the same outcome: the same packages initialised
    once in the same order, the same bindings, the same error (cycle, missing package, no Go
    files) with the same output before it. *)
Theorem C16_load_partial :
  forall c e, good_prog c e = true -> y_run_path c e = g_run_path c e.
Proof. exact load_agree. Qed.
Print Assumptions C16_load_partial.

Theorem C16_load_side_inhabited :
  good_prog (mkctx "gp/src" "" t_nested) (pth "a/b/c") = true
  /\ snd (g_run_path (mkctx "gp/src" "" t_nested) (pth "a/b/c")) = None
  /\ In (EvEdge (pth "gp/src/a/b/c") (pth "x") (pth "gp/src/a/b/vendor/x")) (fst (g_run_path (mkctx "gp/src" "" t_nested) (pth "a/b/c")))
  /\ good_prog (mkctx "gp/src" "" t_diamond) (pth "e") = true
  /\ good_prog (mkctx "gp/src" "" t_cycle) (pth "e") = true
  /\ snd (g_run_path (mkctx "gp/src" "" t_cycle) (pth "e")) = Some ECycle.
Proof. exact good_prog_inhabited. Qed.
Print Assumptions C16_load_side_inhabited.

(** The same for programs entered by a file, with chains of relative imports and importers outside
    GOPATH ([good_file], decidable: every import — also those of the entry file, resolved from the
    pseudo root "main" — finds the directory Go finds and hands its rPath down, nobody imports the
    entry directory, import paths and directories correspond one to one). *)
Theorem C16_load_file_partial :
  forall c, good_file c = true -> y_run_file c = g_run_file c.
Proof. exact load_file_agree. Qed.
Print Assumptions C16_load_file_partial.

Theorem C16_load_file_side_inhabited :
  good_file (mkctx "gp/src" "work" t_file_ok) = true
  /\ snd (g_run_file (mkctx "gp/src" "work" t_file_ok)) = None
  /\ In (EvEdge (pth "work/x") (pth "../z") (pth "work/z")) (fst (g_run_file (mkctx "gp/src" "work" t_file_ok)))
  /\ In (EvEdge (pth "gp/src/q") (pth "r") (pth "gp/src/q/vendor/r")) (fst (g_run_file (mkctx "gp/src" "work" t_file_ok))).
Proof. exact good_file_inhabited. Qed.
Print Assumptions C16_load_file_side_inhabited.

(** for packages below GOPATH/src the per-import condition of [good_file] follows from the
    intrinsic one ([resolve_side], no "vendor" element, not rewritten by gta) *)
Theorem C16_good_pkg_ok :
  forall c k, (forall d, rp_of c (c_gsrc c ++ d) = d) -> good_pkg c k = true -> pkg_ok c k = true.
Proof. exact good_pkg_ok. Qed.
Print Assumptions C16_good_pkg_ok.

(** ** The second attempt of importSrc (rootFromSourceLocation), entry file inside GOPATH/src/<proj> *)

(** Y.resolve started at the input file's directory [proj] — which is what the second attempt does
    for a package in [proj/rel] whose own walk (from a root relative to the input file, not to
    GOPATH/src) found nothing — is what Go prescribes for the importing directory [proj/rel], for all
    filesystems, projects, chains [rel] and import paths, as long as [resolve_side] holds at [proj]
    and no vendor directory strictly between holds the path. *)
Theorem C16_retry_partial :
  forall st hasgo gsrc proj rel ip,
    fs_closed st -> fs_hasgo_dir st hasgo -> resolve_side st hasgo gsrc proj ip = true ->
    (forall e1 e2, rel = e1 ++ e2 -> e1 <> [] -> hasgo (gsrc ++ (proj ++ e1) ++ vendor :: ip) = false) ->
    y_resolve st gsrc proj ip = g_resolve st hasgo gsrc (proj ++ rel) ip.
Proof. exact retry_resolve. Qed.
Print Assumptions C16_retry_partial.

(** with the retry root "" (input "_.go", input file outside GOPATH) the second attempt changes nothing *)
Theorem C16_retry_noop :
  forall st gsrc ip fuel root,
    y_pkg_dir st gsrc fuel root ip = NotFound -> y_pkg_dir st gsrc 1 [] ip = NotFound.
Proof. exact retry_nil_noop. Qed.
Print Assumptions C16_retry_noop.

(** non-vacuity of C16_load_file_partial for this layout: ./local -> ./sub -> "dep/a" found only in
    the project's vendor directory, by the second attempt; without it the load fails *)
Theorem C16_retry_inhabited :
  c_retry c_proj = pth "org/proj"
  /\ good_file c_proj = true
  /\ snd (y_run_file c_proj) = None
  /\ In (EvEdge (pth "gp/src/org/proj/local/sub") (pth "dep/a") (pth "gp/src/org/proj/vendor/dep/a")) (fst (y_run_file c_proj))
  /\ y_run_file c_proj = g_run_file c_proj.
Proof. exact retry_inhabited. Qed.
Print Assumptions C16_retry_inhabited.

Theorem C16_retry_needed :
  snd (y_run_file {| c_gsrc := c_gsrc c_proj; c_entry := c_entry c_proj; c_retry := []; c_tree := t_proj |})
  = Some ENotFound.
Proof. exact retry_needed. Qed.
Print Assumptions C16_retry_needed.

(** the side conditions are violated by the refutation witnesses below *)
Theorem C16_load_file_side_excludes_witnesses :
  good_file c_relative = false /\ good_file (mkctx "gp/src" "gp/src/e" t_entry_file) = false
  /\ good_file (mkctx "gp/src" "work" t_rel_root) = false.
Proof. exact good_file_excludes. Qed.
Print Assumptions C16_load_file_side_excludes_witnesses.

(** the side condition is violated by every refutation witness below that has an import-path entry *)
Theorem C16_load_side_excludes_witnesses :
  good_prog c_alias (pth "e") = false /\ good_prog c_shadow (pth "p") = false
  /\ good_prog c_false_cycle (pth "e") = false /\ good_prog (mkctx "gp/src" "" t_xx) (pth "e") = false
  /\ good_prog (mkctx "gp/src" "" t_nogo) (pth "e") = false /\ good_prog (mkctx "gp/src" "" t_twice) (pth "p") = false.
Proof. exact good_prog_excludes. Qed.
Print Assumptions C16_load_side_excludes_witnesses.

(** ** Refutations of the full statement on the faithful model (each replayed on the implementation) *)

Theorem C16_subdir_shadow_refuted :
  y_resolve (tree_stat t_shadow) (pth "gp/src") (pth "p") (pth "q/r") = Some (pth "gp/src/p/q/r")
  /\ g_resolve (tree_stat t_shadow) (tree_hasgo t_shadow) (pth "gp/src") (pth "p") (pth "q/r") = Some (pth "gp/src/q/r")
  /\ y_run_path c_shadow (pth "p") <> g_run_path c_shadow (pth "p").
Proof. exact subdir_shadow_refuted. Qed.
Print Assumptions C16_subdir_shadow_refuted.

Theorem C16_shadow_double_init_refuted :
  inits (fst (y_run_path (mkctx "gp/src" "" t_twice) (pth "p")))
  = [pth "gp/src/p/q/r"; pth "gp/src/p/q/r"; pth "gp/src/p"]
  /\ inits (fst (g_run_path (mkctx "gp/src" "" t_twice) (pth "p")))
  = [pth "gp/src/q/r"; pth "gp/src/p/q/r"; pth "gp/src/p"].
Proof. exact shadow_double_init_refuted. Qed.
Print Assumptions C16_shadow_double_init_refuted.

Theorem C16_relative_refuted :
  y_rel_dir (pth "work") (pth "q") (pth "./r") = pth "work/q/r"
  /\ g_imp c_relative (pth "gp/src/q") (pth "./r") = Some (pth "gp/src/q/r")
  /\ In (EvEdge (pth "gp/src/q") (pth "./r") (pth "work/q/r")) (fst (y_run_file c_relative))
  /\ In (EvEdge (pth "gp/src/q") (pth "./r") (pth "gp/src/q/r")) (fst (g_run_file c_relative)).
Proof. exact relative_refuted. Qed.
Print Assumptions C16_relative_refuted.

Theorem C16_memo_alias_refuted :
  In (EvEdge (pth "gp/src/a") (pth "x") (pth "gp/src/e/vendor/x")) (fst (y_run_path c_alias (pth "e")))
  /\ In (EvEdge (pth "gp/src/a") (pth "x") (pth "gp/src/x")) (fst (g_run_path c_alias (pth "e")))
  /\ ~ In (EvInit (pth "gp/src/x")) (fst (y_run_path c_alias (pth "e")))
  /\ snd (y_run_path c_alias (pth "e")) = None /\ snd (g_run_path c_alias (pth "e")) = None.
Proof. exact memo_alias_refuted. Qed.
Print Assumptions C16_memo_alias_refuted.

Theorem C16_false_cycle_refuted :
  snd (y_run_path c_false_cycle (pth "e")) = Some ECycle
  /\ snd (g_run_path c_false_cycle (pth "e")) = None.
Proof. exact false_cycle_refuted. Qed.
Print Assumptions C16_false_cycle_refuted.

Theorem C16_xx_collapse_refuted :
  In (EvEdge (pth "gp/src/e") (pth "a/a") (pth "gp/src/a")) (fst (y_run_path (mkctx "gp/src" "" t_xx) (pth "e")))
  /\ In (EvEdge (pth "gp/src/e") (pth "a/a") (pth "gp/src/a/a")) (fst (g_run_path (mkctx "gp/src" "" t_xx) (pth "e"))).
Proof. exact xx_collapse_refuted. Qed.
Print Assumptions C16_xx_collapse_refuted.

Theorem C16_vendor_nogofiles_refuted :
  snd (y_run_path (mkctx "gp/src" "" t_nogo) (pth "e")) = Some ENoGo
  /\ snd (g_run_path (mkctx "gp/src" "" t_nogo) (pth "e")) = None
  /\ In (EvEdge (pth "gp/src/e") (pth "x") (pth "gp/src/x")) (fst (g_run_path (mkctx "gp/src" "" t_nogo) (pth "e"))).
Proof. exact vendor_nogofiles_refuted. Qed.
Print Assumptions C16_vendor_nogofiles_refuted.

Theorem C16_entry_file_vendor_refuted :
  In (EvEdge (pth "gp/src/e") (pth "x") (pth "gp/src/x")) (fst (y_run_file (mkctx "gp/src" "gp/src/e" t_entry_file)))
  /\ In (EvEdge (pth "gp/src/e") (pth "x") (pth "gp/src/e/vendor/x")) (fst (g_run_file (mkctx "gp/src" "gp/src/e" t_entry_file))).
Proof. exact entry_file_vendor_refuted. Qed.
Print Assumptions C16_entry_file_vendor_refuted.

Theorem C16_relative_root_refuted :
  In (EvEdge (pth "work/x") (pth "q") (pth "gp/src/x/vendor/q")) (fst (y_run_file (mkctx "gp/src" "work" t_rel_root)))
  /\ In (EvEdge (pth "work/x") (pth "q") (pth "gp/src/q")) (fst (g_run_file (mkctx "gp/src" "work" t_rel_root))).
Proof. exact relative_root_refuted. Qed.
Print Assumptions C16_relative_root_refuted.

Theorem C16_source_location_retry_refuted :
  snd (y_run_file (mkctx "gp/src" "gp/src/org/proj" t_foreign)) = None
  /\ In (EvEdge (pth "gp/src/q") (pth "dep/a") (pth "gp/src/org/proj/vendor/dep/a"))
        (fst (y_run_file (mkctx "gp/src" "gp/src/org/proj" t_foreign)))
  /\ snd (g_run_file (mkctx "gp/src" "gp/src/org/proj" t_foreign)) = Some ENotFound
  /\ good_file (mkctx "gp/src" "gp/src/org/proj" t_foreign) = false.
Proof. exact source_location_retry_refuted. Qed.
Print Assumptions C16_source_location_retry_refuted.

Theorem C16_proj_both_refuted :
  In (EvEdge (pth "gp/src/org/proj/local") (pth "dep/a") (pth "gp/src/dep/a"))
     (fst (y_run_file (mkctx "gp/src" "gp/src/org/proj" t_proj_both)))
  /\ In (EvEdge (pth "gp/src/org/proj/local") (pth "dep/a") (pth "gp/src/org/proj/vendor/dep/a"))
        (fst (g_run_file (mkctx "gp/src" "gp/src/org/proj" t_proj_both)))
  /\ good_file (mkctx "gp/src" "gp/src/org/proj" t_proj_both) = false.
Proof. exact proj_both_refuted. Qed.
Print Assumptions C16_proj_both_refuted.
