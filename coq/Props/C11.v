(** C11 — Evaluating a program piecewise equals evaluating it whole.
    Only theorem statements, each closed by [exact] of a lemma of Session/Proofs.v.
    Y ([y_run] ...) transcribes the session mechanics of yaegi, G ([g_run]) is the contract;
    both are tied to the implementation / to compiled Go on every run by Session/Cases.v. *)
From Verif Require Import Lib.Str Session.Model Session.Proofs.
From Coq Require Import NArith.
Open Scope N_scope.

(** The property at full strength (false of the faithful model today, see the [_refuted] theorems):
    (A) a program in interactive style (declarations in dependency order, then the statements of
        main), cut anywhere, gives the memory — variables, pointer targets, output — of the
        evaluation in one piece;
    (B) a complete program cut into chunks of declarations likewise;
    (C) any session in which functions are declared before they are used, redefinitions included,
        behaves as the contract says: every call runs the current definition;
    (D) any session of steps that mix the entry points (unnamed sources, named files, directories)
        behaves as the contract says: symbols and imports established by earlier steps of any kind
        stay visible. *)
Definition C11_statement : Prop :=
  (forall fuel p c1 c2, prog_ok p = true ->
     ymem (fst (y_run fuel y0 (pieces p c1 c2))) = ymem (fst (y_run fuel y0 [whole p])))
  /\ (forall fuel cs, forallb (forallb is_decl) cs = true -> ordered (concat cs) = true -> no_uses (concat cs) = true ->
     ymem (fst (y_run fuel y0 cs)) = ymem (fst (y_run fuel y0 [concat cs])))
  /\ (forall fuel cs, forallb homogeneous cs = true -> uses_defined (concat cs) = true ->
     inits_indirect (concat cs) = true -> main_last cs = true -> no_uses (concat cs) = true ->
     obs_y (y_run fuel y0 cs) = obs_g (g_run fuel g0 cs))
  /\ (forall fuel l, forallb homogeneous (map step_chunk l) = true -> ordered (concat (map step_chunk l)) = true ->
     inits_indirect (concat (map step_chunk l)) = true -> main_last (map step_chunk l) = true ->
     imp_ordered [] (concat (map step_chunk l)) = true ->
     obs_y (y_steps fuel y0 l) = obs_g (g_run fuel g0 (map step_chunk l))).

(** (A) under the side condition that no initialiser mentions a variable directly
    (all programs, all cuts of declarations and of statements, all call depths). *)
Theorem C11_any_cut_partial :
  forall fuel p c1 c2, prog_ok p = true -> inits_indirect (decls p) = true ->
    ymem (fst (y_run fuel y0 (pieces p c1 c2))) = ymem (fst (y_run fuel y0 [whole p])).
Proof. exact any_cut. Qed.
Print Assumptions C11_any_cut_partial.

Theorem C11_any_cut_side_condition_inhabited :
  prog_ok p_example = true /\ inits_indirect (decls p_example) = true
  /\ length (pieces p_example [1; 2]%nat [1; 1]%nat) = 6%nat
  /\ out (ymem (fst (y_run 8 y0 (pieces p_example [1; 2]%nat [1; 1]%nat)))) = [19; 9; 3]%Z
  /\ snd (y_run 8 y0 (pieces p_example [1; 2]%nat [1; 1]%nat)) = [ROk None; ROk None; ROk None; ROk None; ROk None; ROk (Some 25%Z)].
Proof. exact example_ok. Qed.
Print Assumptions C11_any_cut_side_condition_inhabited.

(** (B) under the side conditions: initialisers indirect, [main] declared in the last chunk. *)
Theorem C11_complete_program_partial :
  forall fuel cs, forallb (forallb is_decl) cs = true -> ordered (concat cs) = true ->
    inits_indirect (concat cs) = true -> main_last cs = true -> no_uses (concat cs) = true ->
    ymem (fst (y_run fuel y0 cs)) = ymem (fst (y_run fuel y0 [concat cs])).
Proof. exact complete_program_cut. Qed.
Print Assumptions C11_complete_program_partial.

Theorem C11_complete_program_side_condition_inhabited :
  let cs := [[IVar 1 (EConst 1%Z)]; [IFunc 1 ([upd 2 1], EVar 1); IVar 2 (ECall 1 (EConst 0%Z))];
             [IFunc main_name ([SPrint (EVar 2)], EConst 0%Z)]] in
  forallb (forallb is_decl) cs = true /\ ordered (concat cs) = true /\ inits_indirect (concat cs) = true
  /\ main_last cs = true /\ out (ymem (fst (y_run 8 y0 cs))) = [3%Z].
Proof. exact example_complete. Qed.
Print Assumptions C11_complete_program_side_condition_inhabited.

(** (C) for sessions that declare every function once: yaegi's mechanics give exactly the contract:
    same memory and the same value returned by every evaluation. *)
Theorem C11_session_partial :
  forall fuel cs, forallb homogeneous cs = true -> ordered (concat cs) = true ->
    inits_indirect (concat cs) = true -> main_last cs = true -> no_uses (concat cs) = true ->
    obs_y (y_run fuel y0 cs) = obs_g (g_run fuel g0 cs).
Proof. exact y_session_is_g. Qed.
Print Assumptions C11_session_partial.

Theorem C11_session_example :
  forallb homogeneous redef_cs = true /\ uses_defined (concat redef_cs) = true
  /\ obs_y (y_run 8 y0 redef_cs) = obs_g (g_run 8 g0 redef_cs)
  /\ out (ymem (fst (y_run 8 y0 redef_cs))) = [10; 2]%Z.
Proof. exact example_session. Qed.
Print Assumptions C11_session_example.

(** (D) for steps that are unnamed sources and named files in any order (no directory) and programs
    that do not call into imported packages: the source name in force does not matter. *)
Theorem C11_steps_partial :
  forall fuel l, nodir l = true -> forallb homogeneous (map step_chunk l) = true ->
    ordered (concat (map step_chunk l)) = true -> inits_indirect (concat (map step_chunk l)) = true ->
    main_last (map step_chunk l) = true -> no_uses (concat (map step_chunk l)) = true ->
    obs_y (y_steps fuel y0 l) = obs_g (g_run fuel g0 (map step_chunk l)).
Proof. exact y_steps_is_g. Qed.
Print Assumptions C11_steps_partial.

(** imports made and used under one source name stay visible (file first, then unnamed chunks) *)
Theorem C11_steps_example :
  imp_ordered [] (concat (map step_chunk impscope_ok_steps)) = true
  /\ obs_y (y_steps 8 y0 impscope_ok_steps) = obs_g (g_run 8 g0 (map step_chunk impscope_ok_steps))
  /\ out (ymem (fst (y_steps 8 y0 impscope_ok_steps))) = [5; 2]%Z.
Proof. exact import_scope_example. Qed.
Print Assumptions C11_steps_example.

(** Entry points: Eval, Compile+Execute, CompileAST+Execute, EvalPath file by file agree on every
    chunk list from every state (no side condition). *)
Theorem C11_entrypoints_agree_full :
  forall fuel cs s,
    y_run_ce fuel s cs = y_run fuel s cs /\ y_run_ast fuel s cs = y_run fuel s cs /\ y_run_path fuel s cs = y_run fuel s cs.
Proof. exact entrypoints_agree. Qed.
Print Assumptions C11_entrypoints_agree_full.

(** Compiling every chunk first and executing the programs afterwards gives the same final state and
    the same results as evaluating chunk by chunk (every chunk list, failing chunks included). *)
Theorem C11_compile_all_first_full :
  forall fuel cs, y_run_call fuel y0 cs = y_run fuel y0 cs.
Proof. exact compile_all_first0. Qed.
Print Assumptions C11_compile_all_first_full.

(** Redefining a function replaces only that function: every other symbol, all compiled code, the
    variable scope and (no [main] around) the memory are untouched — from every state. *)
Theorem C11_redefine_local_full :
  forall fuel s f d s' r, y_eval fuel s [IFunc f d] = (s', r) ->
    (forall g, g <> f -> alookup (fscope s') g = alookup (fscope s) g)
    /\ (forall k rd, nth_error (code s) k = Some rd -> nth_error (code s') k = Some rd)
    /\ vscope s' = vscope s
    /\ (f <> main_name -> alookup (fscope s) main_name = None -> ymem s' = ymem s).
Proof. exact redefine_local. Qed.
Print Assumptions C11_redefine_local_full.

(** Refutations of [C11_statement] on the faithful model (each replayed on the implementation by
    the region streams of the harness). *)
Theorem C11_main_rerun_refuted :
  forallb (forallb is_decl) rerun_cs = true /\ ordered (concat rerun_cs) = true /\ inits_indirect (concat rerun_cs) = true
  /\ rev (out (ymem (fst (y_run 8 y0 rerun_cs)))) = [3; 7]%Z
  /\ rev (out (ymem (fst (y_run 8 y0 [concat rerun_cs])))) = [3%Z]
  /\ rev (out (gmem (fst (g_run 8 g0 rerun_cs)))) = [3%Z]
  /\ ymem (fst (y_run 8 y0 rerun_cs)) <> ymem (fst (y_run 8 y0 [concat rerun_cs])).
Proof. exact main_rerun_refuted. Qed.
Print Assumptions C11_main_rerun_refuted.

Theorem C11_var_xdep_refuted :
  prog_ok p_xdep = true
  /\ snd (y_run 8 y0 (pieces p_xdep [1]%nat [])) = [ROk None; RLoop; ROk None]
  /\ rev (out (ymem (fst (y_run 8 y0 (pieces p_xdep [1]%nat []))))) = [0%Z]
  /\ rev (out (ymem (fst (y_run 8 y0 [whole p_xdep])))) = [11%Z]
  /\ ymem (fst (y_run 8 y0 (pieces p_xdep [1]%nat []))) <> ymem (fst (y_run 8 y0 [whole p_xdep])).
Proof. exact var_xdep_refuted. Qed.
Print Assumptions C11_var_xdep_refuted.

Theorem C11_stale_callee_refuted :
  forallb homogeneous stale_cs = true /\ uses_defined (concat stale_cs) = true /\ inits_indirect (concat stale_cs) = true
  /\ out (ymem (fst (y_run 8 y0 stale_cs))) = [3%Z] /\ out (gmem (fst (g_run 8 g0 stale_cs))) = [4%Z]
  /\ obs_y (y_run 8 y0 stale_cs) <> obs_g (g_run 8 g0 stale_cs).
Proof. exact stale_callee_refuted. Qed.
Print Assumptions C11_stale_callee_refuted.

Theorem C11_import_scope_refuted :
  nodir impscope_steps = true /\ forallb homogeneous (map step_chunk impscope_steps) = true
  /\ imp_ordered [] (concat (map step_chunk impscope_steps)) = true
  /\ snd (y_steps 8 y0 impscope_steps) = [ROk None; ROk None; RUndef]
  /\ out (gmem (fst (g_run 8 g0 (map step_chunk impscope_steps)))) = [2%Z]
  /\ obs_y (y_steps 8 y0 impscope_steps) <> obs_g (g_run 8 g0 (map step_chunk impscope_steps)).
Proof. exact import_scope_refuted. Qed.
Print Assumptions C11_import_scope_refuted.

Theorem C11_dir_scope_refuted :
  forallb homogeneous (map step_chunk dirscope_steps) = true /\ ordered (concat (map step_chunk dirscope_steps)) = true
  /\ snd (y_steps 8 y0 dirscope_steps) = [ROk None; RUndef]
  /\ out (gmem (fst (g_run 8 g0 (map step_chunk dirscope_steps)))) = [7%Z]
  /\ obs_y (y_steps 8 y0 dirscope_steps) <> obs_g (g_run 8 g0 (map step_chunk dirscope_steps)).
Proof. exact dir_scope_refuted. Qed.
Print Assumptions C11_dir_scope_refuted.

(** The side condition [ordered] is the meaning of "interactive style", not a defect: a forward
    reference across chunks cannot compile. *)
Theorem C11_ordered_needed :
  ordered (concat forward_cs) = false /\ snd (y_run 8 y0 forward_cs) = [RUndef; ROk None]
  /\ snd (y_run 8 y0 [concat forward_cs]) = [ROk None].
Proof. exact ordered_needed. Qed.
Print Assumptions C11_ordered_needed.
